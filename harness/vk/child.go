package vk

import (
	"bufio"
	"bytes"
	"encoding/json"
	"fmt"
	"io"
	"os"
	"os/exec"
	"strings"
	"sync"
	"time"
)

// childMsg is one line of the child -> parent protocol.
type childMsg struct {
	T       string          `json:"t"` // eval | hit | count | viol | finding | inconc | journal
	Key     string          `json:"key,omitempty"`
	NT      bool            `json:"nt,omitempty"`
	N       int64           `json:"n,omitempty"`
	Clause  string          `json:"clause,omitempty"`
	ID      string          `json:"id,omitempty"`
	Detail  string          `json:"detail,omitempty"`
	Payload json.RawMessage `json:"payload,omitempty"`
}

const childPrefix = "@vk "

// NewChildRun returns a Run for use inside a child process: every observation is forwarded to the
// parent as a protocol line on w instead of being recorded here.
func NewChildRun(prop, tier, level string, w io.Writer) *Run {
	r := NewRunNoCleanup(prop, tier, level)
	r.emit = w
	return r
}

// NewRunNoCleanup is NewRun without removing old replay files (children must not do that).
func NewRunNoCleanup(prop, tier, level string) *Run {
	r := &Run{
		Prop: prop, Tier: tier, Level: level, SeedV: Seed(),
		start:      time.Now(),
		distinct:   map[string]struct{}{},
		clauseHits: map[string]int64{},
		minHits:    map[string]int64{},
		counters:   map[string]int64{},
		knownHit:   map[string]string{},
		knownHitN:  map[string]int64{},
		extra:      map[string]any{},
		maxSamples: 6,
	}
	r.known = LoadKnown(prop)
	return r
}

func (r *Run) send(m childMsg, payload any) {
	if payload != nil {
		b, err := json.Marshal(payload)
		if err == nil {
			m.Payload = b
		}
	}
	b, _ := json.Marshal(m)
	r.emitMu.Lock()
	fmt.Fprintf(r.emit, "%s%s\n", childPrefix, b)
	r.emitMu.Unlock()
}

// Journal tells the parent which case is about to run, so that a dying child can be attributed to it.
func (r *Run) Journal(caseDesc any) {
	if r.emit != nil {
		r.send(childMsg{T: "journal"}, caseDesc)
	}
}

// ShardResult describes how one child ended.
type ShardResult struct {
	Shard    int
	ExitErr  error
	LastCase json.RawMessage
	Tail     string
}

// RunShards runs n child processes "<self> child <name> <shard> <n> <tier> extra..." concurrently (at most par
// at a time), absorbs their protocol lines into r and returns how each ended. A child that dies is NOT
// judged here: the caller decides whether that is a violation.
func (r *Run) RunShards(name string, n, par int, timeout time.Duration, extra ...string) []ShardResult {
	return r.RunShardsExe(SelfExe(), name, n, par, timeout, extra...)
}

// RunShardsExe is RunShards with the children started from the given binary (another build of the same
// harness, e.g. the one without the race detector) instead of the running one.
func (r *Run) RunShardsExe(exe, name string, n, par int, timeout time.Duration, extra ...string) []ShardResult {
	results := make([]ShardResult, n)
	sem := make(chan struct{}, par)
	var wg sync.WaitGroup
	for i := 0; i < n; i++ {
		wg.Add(1)
		sem <- struct{}{}
		go func(i int) {
			defer wg.Done()
			defer func() { <-sem }()
			args := append([]string{"child", name, fmt.Sprint(i), fmt.Sprint(n), r.Tier}, extra...)
			cmd := exec.Command(exe, args...)
			cmd.Env = append(os.Environ(), fmt.Sprintf("VERIF_SEED=%d", r.SeedV), "VERIF_ROOT="+Root())
			stdout, _ := cmd.StdoutPipe()
			var stderr bytes.Buffer
			cmd.Stderr = &stderr
			res := ShardResult{Shard: i}
			if err := cmd.Start(); err != nil {
				res.ExitErr = err
				results[i] = res
				return
			}
			timer := time.AfterFunc(timeout, func() { _ = cmd.Process.Kill() })
			sc := bufio.NewScanner(stdout)
			sc.Buffer(make([]byte, 1<<20), 64<<20)
			var tail []string
			for sc.Scan() {
				line := sc.Text()
				if !strings.HasPrefix(line, childPrefix) {
					tail = append(tail, line)
					if len(tail) > 30 {
						tail = tail[1:]
					}
					continue
				}
				var m childMsg
				if err := json.Unmarshal([]byte(line[len(childPrefix):]), &m); err != nil {
					continue
				}
				if m.T == "journal" {
					res.LastCase = m.Payload
					continue
				}
				r.absorb(m)
			}
			res.ExitErr = cmd.Wait()
			timer.Stop()
			st := stderr.String()
			if len(st) > 6000 {
				st = st[:3000] + "\n...\n" + st[len(st)-3000:]
			}
			res.Tail = strings.Join(tail, "\n") + "\n" + st
			results[i] = res
		}(i)
	}
	wg.Wait()
	return results
}

func (r *Run) absorb(m childMsg) {
	var payload any
	if len(m.Payload) > 0 {
		_ = json.Unmarshal(m.Payload, &payload)
	}
	switch m.T {
	case "eval":
		r.Eval(m.Key, m.NT, payload)
	case "hit":
		r.HitN(m.Clause, m.N)
	case "count":
		r.Count(m.Key, m.N)
	case "viol":
		r.Violation(m.Clause, m.Detail, payload)
	case "finding":
		r.Finding(m.ID, m.Clause, m.Detail, payload)
	case "inconc":
		r.Inconclusive(m.Detail)
	case "note":
		r.Set(m.Key, payload)
	}
}

// Note is Set for code that may run inside a child process: there the value is forwarded to the parent.
func (r *Run) Note(name string, v any) {
	if r.emit != nil {
		r.send(childMsg{T: "note", Key: name}, v)
		return
	}
	r.Set(name, v)
}
