// Package vk is the verification kit shared by all property drivers: seeded PRNG,
// three-valued verdict bookkeeping, known-findings protocol, replay files and
// evidence files.
package vk

import (
	"crypto/sha256"
	"encoding/hex"
	"encoding/json"
	"fmt"
	"io"
	"math/rand"
	"os"
	"path/filepath"
	"runtime"
	"sort"
	"strconv"
	"strings"
	"sync"
	"time"
)

// Root returns the /verif directory (VERIF_ROOT overrides).
func Root() string {
	if r := os.Getenv("VERIF_ROOT"); r != "" {
		return r
	}
	return "/verif"
}

// Seed returns VERIF_SEED (default 1).
func Seed() int64 {
	if s := os.Getenv("VERIF_SEED"); s != "" {
		if v, err := strconv.ParseInt(s, 10, 64); err == nil {
			return v
		}
	}
	return 1
}

// Run collects what one check run observed.
type Run struct {
	Prop  string
	Tier  string // quick | thorough
	Level string
	SeedV int64
	Rule  string

	mu           sync.Mutex
	start        time.Time
	evaluations  int64
	distinct     map[string]struct{}
	samples      []any
	maxSamples   int
	clauseHits   map[string]int64
	minHits      map[string]int64
	counters     map[string]int64
	violations   []violation
	knownHit     map[string]string // finding id -> detail of first reproduction
	knownHitN    map[string]int64
	inconclusive []string
	assumptions  []string
	extra        map[string]any
	known        map[string]KnownFinding
	replayN      int
	exhaustive   bool
	emit         io.Writer // child mode: forward observations to the parent
	emitMu       sync.Mutex
}

type violation struct {
	Clause string
	Detail string
	Replay string
}

// KnownFinding is one "known:" record of KNOWN_FINDINGS.txt.
type KnownFinding struct {
	Property string
	ID       string
	Text     string
}

// NewRun creates the bookkeeping for one check.
func NewRun(prop, tier, level string) *Run {
	r := &Run{
		Prop: prop, Tier: tier, Level: level, SeedV: Seed(),
		start:      time.Now(),
		distinct:   map[string]struct{}{},
		clauseHits: map[string]int64{},
		minHits:    map[string]int64{},
		counters:   map[string]int64{},
		knownHit:   map[string]string{},
		knownHitN:  map[string]int64{},
		extra:      map[string]any{},
		maxSamples: 6,
	}
	r.known = LoadKnown(prop)
	if old, err := filepath.Glob(filepath.Join(Root(), "out", "replays", fmt.Sprintf("%s-%s-seed%d-*.json", prop, tier, r.SeedV))); err == nil {
		for _, f := range old {
			_ = os.Remove(f)
		}
	}
	return r
}

// LoadKnown reads the known findings recorded for a property.
func LoadKnown(prop string) map[string]KnownFinding {
	out := map[string]KnownFinding{}
	b, err := os.ReadFile(filepath.Join(Root(), "KNOWN_FINDINGS.txt"))
	if err != nil {
		return out
	}
	for _, line := range strings.Split(string(b), "\n") {
		line = strings.TrimSpace(line)
		if !strings.HasPrefix(line, "known:") {
			continue
		}
		kf := KnownFinding{Text: line}
		for _, f := range strings.Fields(line) {
			if strings.HasPrefix(f, "property=") {
				kf.Property = strings.TrimPrefix(f, "property=")
			}
			if strings.HasPrefix(f, "id=") {
				kf.ID = strings.TrimPrefix(f, "id=")
			}
		}
		if kf.Property == prop && kf.ID != "" {
			out[kf.ID] = kf
		}
	}
	return out
}

// Quick reports whether this is the quick tier.
func (r *Run) Quick() bool { return r.Tier != "thorough" }

// N picks the tier-dependent size.
func (r *Run) N(quick, thorough int) int {
	if r.Quick() {
		return quick
	}
	return thorough
}

// Rand returns a PRNG determined by (VERIF_SEED, property, tier, stream).
func (r *Run) Rand(stream string) *rand.Rand {
	h := sha256.Sum256([]byte(fmt.Sprintf("%d|%s|%s|%s", r.SeedV, r.Prop, r.Tier, stream)))
	var s int64
	for i := 0; i < 8; i++ {
		s = s<<8 | int64(h[i])
	}
	return rand.New(rand.NewSource(s))
}

// Eval counts one executed case. key is the canonical form used for distinct counting;
// nontrivial says whether the case is non-trivial by the property's rule.
func (r *Run) Eval(key string, nontrivial bool, sample any) {
	if r.emit != nil {
		r.send(childMsg{T: "eval", Key: key, NT: nontrivial}, sample)
		return
	}
	r.mu.Lock()
	defer r.mu.Unlock()
	r.evaluations++
	if nontrivial {
		h := sha256.Sum256([]byte(key))
		k := string(h[:12])
		if _, ok := r.distinct[k]; !ok {
			r.distinct[k] = struct{}{}
			if sample != nil && len(r.samples) < r.maxSamples {
				r.samples = append(r.samples, sample)
			}
		}
	}
}

// Sample adds a sample unconditionally (bounded).
func (r *Run) Sample(s any) {
	r.mu.Lock()
	defer r.mu.Unlock()
	if len(r.samples) < r.maxSamples+4 {
		r.samples = append(r.samples, s)
	}
}

// Hit counts a non-vacuous evaluation of an oracle clause.
func (r *Run) Hit(clause string) { r.HitN(clause, 1) }

// HitN counts n non-vacuous evaluations of an oracle clause.
func (r *Run) HitN(clause string, n int64) {
	if r.emit != nil {
		r.hitBuf(clause, n)
		return
	}
	r.mu.Lock()
	r.clauseHits[clause] += n
	r.mu.Unlock()
}

// Require declares that a clause must be exercised at least n times or the run is inconclusive.
func (r *Run) Require(clause string, n int64) {
	r.mu.Lock()
	r.minHits[clause] = n
	r.mu.Unlock()
}

// Count adds to a free-form counter reported in the evidence.
func (r *Run) Count(name string, n int64) {
	if r.emit != nil {
		r.send(childMsg{T: "count", Key: name, N: n}, nil)
		return
	}
	r.mu.Lock()
	r.counters[name] += n
	r.mu.Unlock()
}

// Set stores an extra evidence value.
func (r *Run) Set(name string, v any) {
	r.mu.Lock()
	r.extra[name] = v
	r.mu.Unlock()
}

// Assume records an assumption / trusted-base note.
func (r *Run) Assume(s string) {
	r.mu.Lock()
	r.assumptions = append(r.assumptions, s)
	r.mu.Unlock()
}

// SetExhaustive marks the enumerated space as completely covered.
func (r *Run) SetExhaustive(b bool) { r.exhaustive = b }

// Inconclusive records a case that could not be decided (watchdog, checker timeout).
func (r *Run) Inconclusive(reason string) {
	if r.emit != nil {
		r.send(childMsg{T: "inconc", Detail: reason}, nil)
		return
	}
	r.mu.Lock()
	if len(r.inconclusive) < 50 {
		r.inconclusive = append(r.inconclusive, reason)
	}
	r.counters["inconclusive_cases"]++
	r.mu.Unlock()
}

// IsKnown reports whether a finding id is listed for this property.
func (r *Run) IsKnown(id string) bool {
	_, ok := r.known[id]
	return ok
}

// Violation records a violated clause with its witness and prints the VIOLATION line.
// Only the first few violations get a replay file each.
func (r *Run) Violation(clause, detail string, witness any) {
	if r.emit != nil {
		r.send(childMsg{T: "viol", Clause: clause, Detail: detail}, witness)
		return
	}
	r.mu.Lock()
	defer r.mu.Unlock()
	if len(r.violations) >= 20 {
		r.counters["violations_not_listed"]++
		return
	}
	r.replayN++
	dir := filepath.Join(Root(), "out", "replays")
	_ = os.MkdirAll(dir, 0o755)
	path := filepath.Join(dir, fmt.Sprintf("%s-%s-seed%d-%d.json", r.Prop, r.Tier, r.SeedV, r.replayN))
	doc := map[string]any{
		"property": r.Prop, "clause": clause, "tier": r.Tier, "seed": r.SeedV,
		"detail": detail, "witness": witness,
	}
	b, _ := json.MarshalIndent(doc, "", " ")
	_ = os.WriteFile(path, b, 0o644)
	r.violations = append(r.violations, violation{clause, detail, path})
	fmt.Printf("VIOLATION property=%s replay=%s\n", r.Prop, path)
	fmt.Printf("  clause=%s %s\n", clause, trunc(detail, 600))
}

// Finding reports a failure that lies in the trigger region of finding id and has the
// predicted shape. If id is listed in KNOWN_FINDINGS.txt it is reported as KNOWN-FINDING
// (once), otherwise it is an ordinary violation.
func (r *Run) Finding(id, clause, detail string, witness any) {
	if r.emit != nil {
		r.send(childMsg{T: "finding", ID: id, Clause: clause, Detail: detail}, witness)
		return
	}
	r.mu.Lock()
	kf, ok := r.known[id]
	if ok {
		r.knownHitN[id]++
		if _, seen := r.knownHit[id]; !seen {
			r.knownHit[id] = detail
			fmt.Printf("KNOWN-FINDING: property=%s id=%s clause=%s %s\n", r.Prop, kf.ID, clause, trunc(detail, 400))
		}
		r.mu.Unlock()
		return
	}
	r.mu.Unlock()
	r.Violation(clause, "["+id+"] "+detail, witness)
}

// Violations returns the number of violations recorded so far.
func (r *Run) Violations() int {
	r.mu.Lock()
	defer r.mu.Unlock()
	return len(r.violations)
}

func trunc(s string, n int) string {
	s = strings.ReplaceAll(s, "\n", " | ")
	if len(s) > n {
		return s[:n] + "…"
	}
	return s
}

// Finish writes the evidence file and returns the process exit code.
func (r *Run) Finish() int {
	r.mu.Lock()
	defer r.mu.Unlock()
	cov := map[string]any{
		"evaluations":         r.evaluations,
		"distinct_nontrivial": len(r.distinct),
		"rule":                r.Rule,
		"samples":             r.samples,
		"clause_hits":         r.clauseHits,
		"counters":            r.counters,
	}
	if r.exhaustive {
		cov["exhaustive"] = true
	}
	for k, v := range r.extra {
		cov[k] = v
	}
	kfs := []string{}
	for id, d := range r.knownHit {
		kfs = append(kfs, fmt.Sprintf("%s (x%d): %s", id, r.knownHitN[id], trunc(d, 300)))
	}
	sort.Strings(kfs)
	cov["known_findings_reproduced"] = kfs
	notRepro := []string{}
	for id := range r.known {
		if _, ok := r.knownHit[id]; !ok {
			notRepro = append(notRepro, id)
		}
	}
	sort.Strings(notRepro)
	cov["known_findings_listed_not_reproduced"] = notRepro
	cov["inconclusive"] = r.inconclusive
	missing := []string{}
	for c, n := range r.minHits {
		if r.clauseHits[c] < n {
			missing = append(missing, fmt.Sprintf("%s:%d<%d", c, r.clauseHits[c], n))
		}
	}
	sort.Strings(missing)
	cov["required_clauses_below_minimum"] = missing
	if len(r.samples) == 0 {
		cov["samples"] = []any{}
	}
	viol := []map[string]string{}
	for _, v := range r.violations {
		viol = append(viol, map[string]string{"clause": v.Clause, "detail": trunc(v.Detail, 500), "replay": v.Replay})
	}
	cov["violation_list"] = viol
	ev := map[string]any{
		"property_id": r.Prop,
		"tier":        r.Tier,
		"seed":        r.SeedV,
		"level":       r.Level,
		"coverage":    cov,
		"assumptions": r.assumptions,
		"wall_s":      time.Since(r.start).Seconds(),
		"violations":  len(r.violations),
	}
	if ev["assumptions"] == nil {
		ev["assumptions"] = []string{}
	}
	dir := filepath.Join(Root(), "evidence")
	_ = os.MkdirAll(dir, 0o755)
	b, _ := json.MarshalIndent(ev, "", " ")
	_ = os.WriteFile(filepath.Join(dir, r.Prop+".json"), b, 0o644)

	fmt.Printf("SUMMARY property=%s tier=%s seed=%d evaluations=%d distinct_nontrivial=%d violations=%d known_findings=%d inconclusive=%d wall=%.1fs\n",
		r.Prop, r.Tier, r.SeedV, r.evaluations, len(r.distinct), len(r.violations), len(r.knownHit), len(r.inconclusive), time.Since(r.start).Seconds())
	hits := make([]string, 0, len(r.clauseHits))
	for c, n := range r.clauseHits {
		hits = append(hits, fmt.Sprintf("%s=%d", c, n))
	}
	sort.Strings(hits)
	fmt.Printf("  clause_hits: %s\n", strings.Join(hits, " "))
	if len(r.violations) > 0 {
		return 1
	}
	if len(missing) > 0 {
		// a clause that was evaluated less often than planned is reported; the run only counts as having observed
		// nothing (exit 3) when a required clause was never evaluated at all or nothing was evaluated
		fmt.Printf("INCONCLUSIVE property=%s reason=clauses-below-minimum %s\n", r.Prop, strings.Join(missing, ","))
		for c, n := range r.minHits {
			if n > 0 && r.clauseHits[c] == 0 {
				return 3
			}
		}
		if r.evaluations == 0 {
			return 3
		}
	}
	return 0
}

// Hex is a short helper for witnesses.
func Hex(b []byte) string { return hex.EncodeToString(b) }

// HexShort abbreviates long byte strings in samples.
func HexShort(b []byte) string {
	if len(b) <= 16 {
		return hex.EncodeToString(b)
	}
	return fmt.Sprintf("%s…(%dB)", hex.EncodeToString(b[:8]), len(b))
}

// Main is the body of a single-property command: <bin> <quick|thorough>.
func Main(prop, level string, run func(*Run)) {
	if len(os.Args) > 2 && os.Args[1] == "child" {
		f, ok := Children[os.Args[2]]
		if !ok {
			fmt.Fprintln(os.Stderr, "unknown child", os.Args[2])
			os.Exit(2)
		}
		os.Exit(f(os.Args[3:]))
	}
	tier := "quick"
	if len(os.Args) > 1 {
		tier = os.Args[len(os.Args)-1]
	}
	if tier != "quick" && tier != "thorough" {
		fmt.Fprintln(os.Stderr, "tier must be quick or thorough")
		os.Exit(2)
	}
	r := NewRun(prop, tier, level)
	run(r)
	os.Exit(r.Finish())
}

// Children maps a child-process name to its entry point (vh child <name> args...). Packages
// that need crash isolation register here from init().
var Children = map[string]func(args []string) int{}

// SelfExe returns the path of the running binary (to re-exec as a child).
func SelfExe() string {
	p, err := os.Executable()
	if err != nil {
		return os.Args[0]
	}
	return p
}

// hitBuf batches clause hits in child mode (they are frequent); FlushHits sends them.
func (r *Run) hitBuf(clause string, n int64) {
	r.mu.Lock()
	r.clauseHits[clause] += n
	r.mu.Unlock()
}

// FlushHits forwards the buffered clause hits of a child to the parent (call before the child exits
// and after every case, so that a later crash does not lose them).
func (r *Run) FlushHits() {
	if r.emit == nil {
		return
	}
	r.mu.Lock()
	hits := r.clauseHits
	r.clauseHits = map[string]int64{}
	r.mu.Unlock()
	for c, n := range hits {
		r.send(childMsg{T: "hit", Clause: c, N: n}, nil)
	}
}

// Guard runs one case; a panic of the code under test inside it (on this goroutine) is reported as a
// violation with the case as witness instead of taking the whole check down.
func (r *Run) Guard(caseDesc any, f func()) {
	defer func() {
		if p := recover(); p != nil {
			buf := make([]byte, 16384)
			n := runtime.Stack(buf, false)
			stack := string(buf[:n])
			if panickedInHarness(stack) {
				// the panic was raised by a statement of the harness itself (not inside a call into the code under test):
				// a defect of the check, never a verdict on the code
				fmt.Fprintf(os.Stderr, "HARNESS-PANIC %v\n%s\n", p, stack)
				r.Inconclusive(fmt.Sprintf("the harness itself panicked (%v); the case is not judged", p))
				return
			}
			r.Violation("no-panic", fmt.Sprintf("the code under test panicked: %v", p), map[string]any{"case": caseDesc, "stack": stack})
		}
	}()
	f()
}

// panickedInHarness reports whether the frame that raised the panic (the first frame below the runtime's panic
// machinery) belongs to the harness module.
func panickedInHarness(stack string) bool {
	lines := strings.Split(stack, "\n")
	seenPanic := false
	for _, l := range lines {
		if l == "" || l[0] == '\t' || strings.HasPrefix(l, "goroutine ") {
			continue
		}
		if strings.HasPrefix(l, "panic(") {
			seenPanic = true
			continue
		}
		if !seenPanic || strings.HasPrefix(l, "runtime.") || strings.HasPrefix(l, "runtime/") {
			continue
		}
		return strings.HasPrefix(l, "verifharness/")
	}
	return false
}
