// Command c17 runs only the C17 check (development helper; the registered entry point is cmd/vh).
package main

import (
	"verifharness/props/c17"
	"verifharness/vk"
)

func main() { vk.Main("C17", c17.Level, c17.Run) }
