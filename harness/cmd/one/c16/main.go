// Command c16 runs only the C16 check (development helper; the registered entry point is cmd/vh).
package main

import (
	"verifharness/props/c16"
	"verifharness/vk"
)

func main() { vk.Main("C16", c16.Level, c16.Run) }
