// Command c11 runs only the C11 check (development helper; the registered entry point is cmd/vh).
package main

import (
	"verifharness/props/c11"
	"verifharness/vk"
)

func main() { vk.Main("C11", c11.Level, c11.Run) }
