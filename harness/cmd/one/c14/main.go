// Command c14 runs only the C14 check (development helper; the registered entry point is cmd/vh).
package main

import (
	"verifharness/props/c14"
	"verifharness/vk"
)

func main() { vk.Main("C14", c14.Level, c14.Run) }
