// Command c19 runs only the C19 check (development helper; the registered entry point is cmd/vh).
package main

import (
	"verifharness/props/c19"
	"verifharness/vk"
)

func main() { vk.Main("C19", c19.Level, c19.Run) }
