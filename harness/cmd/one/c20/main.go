// Command c20 runs only the C20 check (development helper; the registered entry point is cmd/vh).
package main

import (
	"verifharness/props/c20"
	"verifharness/vk"
)

func main() { vk.Main("C20", c20.Level, c20.Run) }
