// Command c01 runs only the C01 check (development helper).
package main

import (
	"verifharness/props/c01"
	"verifharness/vk"
)

func main() { vk.Main("C01", c01.Level, c01.Run) }
