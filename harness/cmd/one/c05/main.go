// Command c05 runs only the C05 check (development helper; the registered entry point is cmd/vh).
package main

import (
	"verifharness/props/c05"
	"verifharness/vk"
)

func main() { vk.Main("C05", c05.Level, c05.Run) }
