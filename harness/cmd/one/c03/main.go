// Command c03 runs only the C03 check (development helper; the registered entry point is cmd/vh).
package main

import (
	"verifharness/props/c03"
	"verifharness/vk"
)

func main() { vk.Main("C03", c03.Level, c03.Run) }
