// Command c13 runs only the C13 check (development helper; the registered entry point is cmd/vh).
package main

import (
	"verifharness/props/c13"
	"verifharness/vk"
)

func main() { vk.Main("C13", c13.Level, c13.Run) }
