// Command c09 runs only the C09 check (development helper; the registered entry point is cmd/vh).
package main

import (
	"verifharness/props/c09"
	"verifharness/vk"
)

func main() { vk.Main("C09", c09.Level, c09.Run) }
