// Command c04 runs only the C04 check (development helper; the registered entry point is cmd/vh).
package main

import (
	"verifharness/props/c04"
	"verifharness/vk"
)

func main() { vk.Main("C04", c04.Level, c04.Run) }
