// Command c06 runs only the C06 check (development helper; the registered entry point is cmd/vh).
package main

import (
	"verifharness/props/c06"
	"verifharness/vk"
)

func main() { vk.Main("C06", c06.Level, c06.Run) }
