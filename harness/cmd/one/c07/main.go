// Command c07 runs only the C07 check (development helper; the registered entry point is cmd/vh).
package main

import (
	"verifharness/props/c07"
	"verifharness/vk"
)

func main() { vk.Main("C07", c07.Level, c07.Run) }
