// Command c18 runs only the C18 check (development helper; the registered entry point is cmd/vh).
package main

import (
	"verifharness/props/c18"
	"verifharness/vk"
)

func main() { vk.Main("C18", c18.Level, c18.Run) }
