// Command c12 runs only the C12 check (development helper; the registered entry point is cmd/vh).
package main

import (
	"verifharness/props/c12"
	"verifharness/vk"
)

func main() { vk.Main("C12", c12.Level, c12.Run) }
