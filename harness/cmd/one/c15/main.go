// Command c15 runs only the C15 check (development helper; the registered entry point is cmd/vh).
package main

import (
	"verifharness/props/c15"
	"verifharness/vk"
)

func main() { vk.Main("C15", c15.Level, c15.Run) }
