// Command c10 runs only the C10 check (development helper; the registered entry point is cmd/vh).
package main

import (
	"verifharness/props/c10"
	"verifharness/vk"
)

func main() { vk.Main("C10", c10.Level, c10.Run) }
