// Command c02 runs only the C02 check (development helper; the registered entry point is cmd/vh).
package main

import (
	"verifharness/props/c02"
	"verifharness/vk"
)

func main() { vk.Main("C02", c02.Level, c02.Run) }
