// Command c08 runs only the C08 check (development helper; the registered entry point is cmd/vh).
package main

import (
	"verifharness/props/c08"
	"verifharness/vk"
)

func main() { vk.Main("C08", c08.Level, c08.Run) }
