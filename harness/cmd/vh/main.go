// Command vh runs one property check: vh <property> <quick|thorough>.
package main

import (
	"fmt"
	"os"

	"verifharness/props/c01"
	"verifharness/vk"
)

type entry struct {
	level string
	run   func(*vk.Run)
}

var registry = map[string]entry{
	"C01": {"exploration", c01.Run},
}

func main() {
	if len(os.Args) < 3 {
		fmt.Fprintln(os.Stderr, "usage: vh <property> <quick|thorough>")
		os.Exit(2)
	}
	prop, tier := os.Args[1], os.Args[2]
	e, ok := registry[prop]
	if !ok {
		fmt.Fprintln(os.Stderr, "unknown property", prop)
		os.Exit(2)
	}
	if tier != "quick" && tier != "thorough" {
		fmt.Fprintln(os.Stderr, "tier must be quick or thorough")
		os.Exit(2)
	}
	r := vk.NewRun(prop, tier, e.level)
	e.run(r)
	os.Exit(r.Finish())
}
