// Command vh runs one property check: vh <property> <quick|thorough>.
package main

import (
	"fmt"
	"os"

	"verifharness/props/c01"
	"verifharness/props/c02"
	"verifharness/props/c03"
	"verifharness/props/c04"
	"verifharness/props/c05"
	"verifharness/props/c06"
	"verifharness/props/c07"
	"verifharness/props/c08"
	"verifharness/props/c09"
	"verifharness/props/c10"
	"verifharness/props/c11"
	"verifharness/props/c12"
	"verifharness/props/c13"
	"verifharness/props/c14"
	"verifharness/props/c15"
	"verifharness/props/c16"
	"verifharness/props/c17"
	"verifharness/props/c18"
	"verifharness/props/c19"
	"verifharness/props/c20"
	"verifharness/vk"
)

type entry struct {
	level string
	run   func(*vk.Run)
}

var registry = map[string]entry{
	"C01": {c01.Level, c01.Run},
	"C02": {c02.Level, c02.Run},
	"C03": {c03.Level, c03.Run},
	"C04": {c04.Level, c04.Run},
	"C05": {c05.Level, c05.Run},
	"C06": {c06.Level, c06.Run},
	"C07": {c07.Level, c07.Run},
	"C08": {c08.Level, c08.Run},
	"C09": {c09.Level, c09.Run},
	"C10": {c10.Level, c10.Run},
	"C11": {c11.Level, c11.Run},
	"C12": {c12.Level, c12.Run},
	"C13": {c13.Level, c13.Run},
	"C14": {c14.Level, c14.Run},
	"C15": {c15.Level, c15.Run},
	"C16": {c16.Level, c16.Run},
	"C17": {c17.Level, c17.Run},
	"C18": {c18.Level, c18.Run},
	"C19": {c19.Level, c19.Run},
	"C20": {c20.Level, c20.Run},
}

func main() {
	if len(os.Args) >= 2 && os.Args[1] == "child" {
		childMain(os.Args[2:])
		return
	}
	if len(os.Args) < 3 {
		fmt.Fprintln(os.Stderr, "usage: vh <property> <quick|thorough>")
		os.Exit(2)
	}
	prop, tier := os.Args[1], os.Args[2]
	e, ok := registry[prop]
	if !ok {
		fmt.Fprintln(os.Stderr, "unknown property", prop)
		os.Exit(2)
	}
	if tier != "quick" && tier != "thorough" {
		fmt.Fprintln(os.Stderr, "tier must be quick or thorough")
		os.Exit(2)
	}
	r := vk.NewRun(prop, tier, e.level)
	e.run(r)
	os.Exit(r.Finish())
}

// childMain dispatches sub-process work: vh child <name> <args...>. Packages register their
// child entry points in vk.Children.
func childMain(args []string) {
	if len(args) == 0 {
		os.Exit(2)
	}
	f, ok := vk.Children[args[0]]
	if !ok {
		fmt.Fprintln(os.Stderr, "unknown child", args[0])
		os.Exit(2)
	}
	os.Exit(f(args[1:]))
}
