package c04

import (
	"context"
	"fmt"
	"os"
	"os/exec"
	"path/filepath"
	"sort"
	"strings"
	"time"

	"verifharness/vk"
	"verifharness/world"
)

func init() {
	vk.Children["c04-savecache"] = childSaveCache
}

// buildCacheWorld deterministically builds a node whose caches hold the marks of `blocks` produced
// and submitted blocks (aggregator) or, for the full-node flavour, out-of-order items by height.
func buildCacheWorld(ctx context.Context, rootDir string, flavour string, blocks int) (*world.Node, error) {
	keys := world.NewKeys("proposer")
	exec := world.NewExecDouble()
	seq := world.NewSeqDouble()
	da := world.NewDADouble()
	n, err := world.NewNode(ctx, world.NodeOpts{Aggregator: true, RootDir: rootDir}, keys, world.NewMemDS(world.NewImage()), exec, seq, da, nil)
	if err != nil {
		return nil, err
	}
	t := world.GenesisTime
	_ = n.M.VerifPublishBlock(ctx)
	for i := 0; i < blocks; i++ {
		t = t.Add(time.Second)
		seq.Push(world.SeqResp{Kind: world.SeqTxs, Time: t, Txs: [][]byte{[]byte(fmt.Sprintf("cache-tx-%d", i))}})
		if err := n.M.VerifPublishBlock(ctx); err != nil {
			return nil, err
		}
	}
	if err := n.M.VerifSubmitHeadersOnce(ctx); err != nil {
		return nil, err
	}
	if err := n.M.VerifSubmitDataOnce(ctx); err != nil {
		return nil, err
	}
	if flavour == "full" {
		// a full node that holds later headers/data in its by-height cache (their predecessors are missing)
		fn, err := world.NewNode(ctx, world.NodeOpts{Aggregator: false, RootDir: rootDir, DABlockTime: time.Hour}, keys, world.NewMemDS(world.NewImage()), world.NewExecDouble(), world.NewSeqDouble(), da, nil)
		if err != nil {
			return nil, err
		}
		l := world.StartLoops(ctx, fn, "sync")
		h, _ := n.Store.Height(ctx)
		for i := uint64(3); i <= h; i++ {
			hdr, data, err := n.Store.GetBlockData(ctx, i)
			if err != nil {
				return nil, err
			}
			l.SendHeader(hdr, 7)
			l.SendData(data, 7)
		}
		if err := l.SyncBarrier(); err != nil {
			return nil, err
		}
		l.Stop()
		return fn, nil
	}
	return n, nil
}

// childSaveCache: args = rootDir flavour blocks. Builds the world and saves the caches (the code under test).
func childSaveCache(args []string) int {
	world.Silence()
	if len(args) < 3 {
		return 2
	}
	var blocks int
	fmt.Sscanf(args[2], "%d", &blocks)
	n, err := buildCacheWorld(context.Background(), args[0], args[1], blocks)
	if err != nil {
		fmt.Fprintln(os.Stderr, "child build:", err)
		return 3
	}
	if err := n.M.SaveCache(); err != nil {
		fmt.Fprintln(os.Stderr, "child save:", err)
		return 4
	}
	return 0
}

func dirState(dir string) string {
	var out []string
	_ = filepath.Walk(dir, func(p string, info os.FileInfo, err error) error {
		if err == nil && !info.IsDir() {
			rel, _ := filepath.Rel(dir, p)
			out = append(out, fmt.Sprintf("%s:%d", rel, info.Size()))
		}
		return nil
	})
	sort.Strings(out)
	return strings.Join(out, " ")
}

func copyDir(src, dst string) error {
	return filepath.Walk(src, func(p string, info os.FileInfo, err error) error {
		if err != nil {
			return err
		}
		rel, _ := filepath.Rel(src, p)
		if info.IsDir() {
			return os.MkdirAll(filepath.Join(dst, rel), 0o755)
		}
		b, err := os.ReadFile(p)
		if err != nil {
			return err
		}
		return os.WriteFile(filepath.Join(dst, rel), b, 0o644)
	})
}

// cacheKillPoints kills the real cache writer (SaveCache in a child process) at its n-th write system
// call, for n = 1,2,... until the writer finishes unharmed, on top of an older complete generation of
// cache files, and requires that a node then starts on whatever the killed writer left behind.
func cacheKillPoints(r *vk.Run) {
	if _, err := exec.LookPath("strace"); err != nil {
		r.Inconclusive("strace not available: cache-writer kill points not exercised")
		return
	}
	ctx := context.Background()
	base := world.TempDir(vk.Root(), "C04-cache-*")
	defer os.RemoveAll(base)
	self := vk.SelfExe()
	states := map[string]bool{}
	maxN := r.N(40, 400)
	// "-tmpdir": the writer runs with TMPDIR on another file system than the node's home (tmpfs /tmp of many
	// distributions and containers): a writer that stages its files in the system's temporary directory cannot rename them
	// into place there. Besides its write calls the writer is then also killed at its in-kernel copy calls.
	variants := []string{"agg", "full", "agg-first", "full-first"}
	otherFS := world.DirOnOtherFS(base)
	if otherFS != "" {
		defer os.RemoveAll(otherFS)
		variants = append(variants, "agg-tmpdir", "full-tmpdir")
		r.Set("cache_writer_tmpdir_on_other_file_system", otherFS)
	} else {
		r.Count("cache_writer_tmpdir_on_other_file_system_not_exercised", 1)
	}
	for _, variant := range variants {
		flavour := strings.TrimSuffix(strings.TrimSuffix(variant, "-first"), "-tmpdir")
		// "-first": the killed save is the first one ever (no older generation of cache files exists)
		withOld := !strings.HasSuffix(variant, "-first")
		// strace counts the invocations of each system call of a set separately, so each call is enumerated on its own
		killAt := []string{"write,pwrite64"}
		var env []string
		if strings.HasSuffix(variant, "-tmpdir") {
			killAt = append(killAt, "copy_file_range", "sendfile")
			env = append(os.Environ(), "TMPDIR="+otherFS)
		}
		gen1 := filepath.Join(base, variant+"-gen1")
		if withOld {
			if out, err := exec.Command(self, "child", "c04-savecache", gen1, flavour, "3").CombinedOutput(); err != nil {
				r.Inconclusive(fmt.Sprintf("cache child (generation 1) failed: %v %s", err, out))
				return
			}
		} else {
			_ = os.MkdirAll(gen1, 0o755)
		}
		for _, calls := range killAt {
			finished := false
			for n := 1; n <= maxN && !finished; n++ {
				dir := filepath.Join(base, fmt.Sprintf("%s-kill-%d", variant, n))
				if err := copyDir(gen1, dir); err != nil {
					r.Inconclusive("copy: " + err.Error())
					return
				}
				cmd := exec.Command("strace", "-f", "-qq", "-o", "/dev/null", "-e", "trace="+calls,
					"-e", fmt.Sprintf("inject=%s:signal=KILL:when=%d", calls, n),
					self, "child", "c04-savecache", dir, flavour, "6")
				cmd.Env = env
				out, err := cmd.CombinedOutput()
				killed := err != nil
				if !killed {
					finished = true
				} else if ee, ok := err.(*exec.ExitError); ok && ee.ExitCode() == 4 && env != nil {
					// the writer was not killed: with TMPDIR on another file system it gave up saving on its own. Whether a
					// clean stop may lose the caches is not this property's subject; a node must still start on what is there
					killed, finished = false, true
					r.Count("cache_writer_gave_up_with_tmpdir_on_other_file_system "+variant, 1)
				} else if ee, ok := err.(*exec.ExitError); ok && ee.ExitCode() > 0 && ee.ExitCode() < 10 {
					r.Inconclusive(fmt.Sprintf("cache child exited %d: %s", ee.ExitCode(), out))
					os.RemoveAll(dir)
					continue
				}
				st := dirState(dir)
				newState := !states[variant+st]
				states[variant+st] = true
				// a node must start on what was left behind, and keep working
				r.Hit("cache-kill-restart")
				r.Count("cache_kill_points "+variant+" "+calls, 1)
				node, err := world.NewNode(ctx, world.NodeOpts{Aggregator: flavour == "agg", RootDir: dir, DABlockTime: time.Hour},
					world.NewKeys("proposer"), world.NewMemDS(world.NewImage()), world.NewExecDouble(), world.NewSeqDouble(), world.NewDADouble(), nil)
				wit := map[string]any{"flavour": variant, "killed_at_call": calls, "killed_at_nth": n, "killed": killed, "files_left": st}
				if killed && strings.HasSuffix(variant, "-tmpdir") {
					r.Hit("cache-kill-restart-tmpdir-on-other-file-system")
				}
				if err != nil {
					id := "C04-cache-truncation"
					detail := fmt.Sprintf("cache writer (%s) killed at call #%d of %s left files on which the node cannot start: %v", variant, n, calls, err)
					if r.IsKnown(id) {
						r.Finding(id, "cache-kill-restart", detail, wit)
					} else {
						r.Violation("cache-kill-restart", detail, wit)
					}
				} else if flavour == "agg" {
					if err := node.M.VerifPublishBlock(ctx); err != nil {
						r.Violation("cache-kill-restart", "node started on the left-over cache files but cannot produce: "+err.Error(), wit)
					}
				}
				r.Eval("cache "+variant+" "+st, killed && newState, wit)
				os.RemoveAll(dir)
			}
			if !finished {
				r.Count("cache_kill_enumeration_truncated", 1)
			}
		}
	}
	r.Set("cache_writer_distinct_leftover_states", len(states))
}
