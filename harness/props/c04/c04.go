// Package c04 decides C04: the sequencer node recovers from a crash at any point of block production.
package c04

import (
	"bytes"
	"context"
	"fmt"
	"strings"
	"sync"
	"time"

	"github.com/evstack/ev-node/pkg/store"

	"verifharness/monitors"
	"verifharness/vk"
	"verifharness/world"
)

// Level is the verification level claimed for this property.
const Level = "fault_enumeration"

// Case is one enumerated crash scenario.
type Case struct {
	Initial uint64 `json:"initial_height"`
	Prefix  int    `json:"prefix_blocks"` // cleanly committed blocks before the step under test (-1: crash during the very first start)
	Kind    string `json:"step_kind"`     // txs | empty | reuse
	K       []int  `json:"crash_after_writes"`
	// DAStart is the configured da.start_height of every process of the scenario (0 = option not set; a chain deployed
	// on an existing DA chain sets it, and the node then adjusts its initial state at start-up)
	DAStart uint64 `json:"da_start_height"`
}

func (c Case) key() string {
	return fmt.Sprintf("i%d p%d s%d %s %v", c.Initial, c.Prefix, c.DAStart, c.Kind, c.K)
}

type proc struct {
	n   *world.Node
	dsp *world.MemDS
}

type scenario struct {
	r        *vk.Run
	c        Case
	ctx      context.Context
	im       *world.Image
	exec     *world.ExecDouble
	seq      *world.SeqDouble
	da       *world.DADouble
	keys     world.Keys
	lastT    time.Time
	released []world.SeqResp
	affected map[int]bool // responses released at a step that was cut by a crash
	logs     [][]world.WriteRec
	pub      map[uint64][]byte // header hashes handed to the broadcaster, by height
	durable  map[uint64][]byte // header hashes at heights whose chain-height write was durable at some crash
	seqN     int
}

func (s *scenario) start(crashAfter int) (*proc, error) {
	dsp := world.NewMemDS(s.im)
	if crashAfter >= 0 {
		dsp.CrashAfter(crashAfter)
	}
	opts := world.NodeOpts{Aggregator: true, InitialHeight: s.c.Initial, DAStartHeight: s.c.DAStart}
	n, err := world.NewNode(s.ctx, opts, s.keys, dsp, s.exec, s.seq, s.da, nil)
	if err != nil {
		s.logs = append(s.logs, dsp.Log())
		return &proc{nil, dsp}, err
	}
	return &proc{n, dsp}, nil
}

func (s *scenario) push(kind world.SeqKind, mark bool) {
	s.lastT = s.lastT.Add(time.Second)
	r := world.SeqResp{Kind: kind, Time: s.lastT}
	if kind == world.SeqTxs {
		s.seqN++
		r.Txs = [][]byte{[]byte(fmt.Sprintf("tx-%d-a", s.seqN)), []byte(fmt.Sprintf("tx-%d-b", s.seqN))}
	}
	r.ID = s.seq.Push(r)
	s.released = append(s.released, r)
	if mark {
		s.affected[r.ID] = true
	}
}

// end records what a process leaves behind when it dies or is stopped.
func (s *scenario) end(p *proc) {
	if p.n != nil {
		s.logs = append(s.logs, p.dsp.Log())
		for _, h := range p.n.HB.Items() {
			if _, ok := s.pub[h.Height()]; !ok {
				s.pub[h.Height()] = h.Hash()
			}
		}
	}
	// heights covered by a durable chain-height record (read through the store's own API on the frozen image)
	st := store.New(world.NewMemDS(s.im))
	if t, err := st.Height(s.ctx); err == nil && t < 1<<40 {
		for h := s.c.Initial; h <= t; h++ {
			if _, ok := s.durable[h]; ok {
				continue
			}
			if hdr, err := st.GetHeader(s.ctx, h); err == nil && hdr != nil {
				s.durable[h] = append([]byte{}, hdr.Hash()...)
			}
		}
	}
}

func (s *scenario) witness() any {
	var logs [][]string
	for _, l := range s.logs {
		logs = append(logs, world.FormatLog(l))
	}
	return map[string]any{"case": s.c, "write_logs_per_process": logs}
}

// runCase executes one scenario; it returns false if the chosen crash indices lie beyond the
// writes the steps perform (the enumeration of that dimension is complete).
func runCase(r *vk.Run, c Case) (crashedAt []bool) {
	ctx := context.Background()
	stExec := world.NewExecDouble()
	stExec.Stateful = true // an execution layer with durable state of its own: what it executed before a crash stays executed
	s := &scenario{r: r, c: c, ctx: ctx, im: world.NewImage(), exec: stExec, seq: world.NewSeqDouble(),
		da: world.NewDADouble(), keys: world.NewKeys("proposer"), lastT: world.GenesisTime,
		affected: map[int]bool{}, pub: map[uint64][]byte{}, durable: map[uint64][]byte{}}
	fail := func(clause, detail string) {
		id := "C04-height-before-state"
		if r.IsKnown(id) && strings.Contains(detail, "invalid height") {
			r.Finding(id, clause, detail, s.witness())
			return
		}
		r.Violation(clause, detail, s.witness())
	}
	crashedAt = make([]bool, len(c.K))
	var p *proc
	var err error
	stage := 0 // index into c.K
	if c.Prefix < 0 {
		// crash during the very first start
		p, err = s.start(c.K[0])
		crashedAt[0] = p.dsp.Crashed()
		stage = 1
		if err == nil && !crashedAt[0] {
			// started without reaching the crash point: continue as a running process below
		} else {
			if err != nil && !crashedAt[0] {
				fail("startup", "NewManager failed on an empty store: "+err.Error())
				return
			}
			s.end(p)
			p = nil
		}
	} else {
		p, err = s.start(-1)
		if err != nil {
			fail("startup", "NewManager failed on an empty store: "+err.Error())
			return
		}
		// genesis block + prefix
		_ = p.n.M.VerifPublishBlock(ctx)
		for i := 0; i < c.Prefix; i++ {
			if i%2 == 0 {
				s.push(world.SeqTxs, false)
			} else {
				s.push(world.SeqEmpty, false)
			}
			if err := p.n.M.VerifPublishBlock(ctx); err != nil {
				fail("clean-prefix", "clean step failed: "+err.Error())
				return
			}
		}
		if c.Kind == "reuse" {
			// leave a pending block behind: execution fails once
			s.push(world.SeqTxs, true)
			s.exec.Script(world.ExecErr)
			_ = p.n.M.VerifPublishBlock(ctx)
		}
	}
	// the step under test, then the recovery steps: each crashes after c.K[stage] writes
	for ; stage < len(c.K); stage++ {
		if p == nil {
			// restart with the crash armed from the first write of the new process
			p, err = s.start(c.K[stage])
			if err != nil {
				if p.dsp.Crashed() {
					crashedAt[stage] = true
					p = nil
					continue
				}
				fail("restart", fmt.Sprintf("NewManager failed after crash (stage %d): %v", stage, err))
				return
			}
		} else {
			p.dsp.CrashAfter(c.K[stage])
		}
		if stage == 0 || c.Prefix < 0 && stage == 1 {
			switch c.Kind {
			case "txs":
				s.push(world.SeqTxs, true)
			case "empty":
				s.push(world.SeqEmpty, true)
			}
		} else {
			s.push(world.SeqTxs, true)
		}
		_ = p.n.M.VerifPublishBlock(ctx)
		crashedAt[stage] = p.dsp.Crashed()
		s.end(p)
		p = nil // the process is dead (or is stopped here: a clean stop is a crash after the last write)
	}
	// final clean process
	p, err = s.start(-1)
	if err != nil {
		fail("restart", "NewManager failed on the image left by the crash: "+err.Error())
		return
	}
	r.Hit("restart-ok")
	h0, _ := p.n.Store.Height(ctx)
	// the restarted node, before it does anything: recorded chain height, recorded state and stored blocks agree
	r.Hit("agree-right-after-restart")
	if st, err := p.n.Store.GetState(ctx); err == nil && h0 >= c.Initial {
		if st.LastBlockHeight != h0 {
			fail("agree-right-after-restart", fmt.Sprintf("right after the restart the recorded chain height is %d and the recorded state is that of height %d", h0, st.LastBlockHeight))
			return
		}
		if ms := p.n.M.GetLastState(); ms.LastBlockHeight != h0 {
			fail("agree-right-after-restart", fmt.Sprintf("right after the restart the recorded chain height is %d and the node works from the state of height %d", h0, ms.LastBlockHeight))
			return
		}
		for h := c.Initial; h <= h0; h++ {
			if _, _, err := p.n.Store.GetBlockData(ctx, h); err != nil {
				fail("agree-right-after-restart", fmt.Sprintf("right after the restart the recorded chain height is %d and block %d cannot be read: %v", h0, h, err))
				return
			}
		}
	}
	var stepErrs []string
	for i := 0; i < 4; i++ {
		// what the sequencing layer answers right after the recovery varies with the case: a batch, an empty batch,
		// or (first step only) nothing yet
		kind := world.SeqTxs
		ksum := c.Prefix + int(c.Initial)
		for _, k := range c.K {
			ksum += k
		}
		switch {
		case i == 0 && ksum%3 == 1:
			kind = world.SeqEmpty
		case i == 1 && ksum%3 == 2:
			kind = world.SeqEmpty
		}
		s.push(kind, false)
		if err := p.n.M.VerifPublishBlock(ctx); err != nil {
			stepErrs = append(stepErrs, err.Error())
		}
	}
	h1, _ := p.n.Store.Height(ctx)
	r.Hit("resumes")
	if h1 < h0+3 {
		fail("resumes", fmt.Sprintf("after restart four clean steps raised the height only from %d to %d; step errors: %v", h0, h1, stepErrs))
		return
	}
	s.end(p)
	ex := monitors.ChainExpect{
		ChainID: p.n.Genesis.ChainID, InitialHeight: c.Initial, Pub: s.keys.Pub, Addr: s.keys.Addr,
		GenesisNano: uint64(world.GenesisTime.UnixNano()), Responses: s.released,
		// a batch taken at a step that was cut by a crash may be lost (that is C11's subject, not C04's)
		AllowSkip:    func(rp world.SeqResp, _ uint64) bool { return s.affected[rp.ID] },
		CheckExecLog: true, Execs: s.exec.Execs(),
	}
	blocks, probs := monitors.CheckChain(ctx, p.n.Store, ex, r.Hit)
	var viol []string
	for _, pr := range probs {
		viol = append(viol, pr.String())
	}
	byH := map[uint64]monitors.Block{}
	for _, b := range blocks {
		byH[b.Height] = b
	}
	for h, hash := range s.pub {
		r.Hit("published-unchanged")
		if b, ok := byH[h]; !ok || !bytes.Equal(b.HeaderHash, hash) {
			viol = append(viol, fmt.Sprintf("block %d was published before a crash and is different (or missing) afterwards", h))
		}
	}
	stEnd := store.New(world.NewMemDS(s.im))
	for h, hash := range s.durable {
		r.Hit("committed-unchanged")
		cur, err := stEnd.GetHeader(s.ctx, h)
		if err != nil || cur == nil || !bytes.Equal(cur.Hash(), hash) {
			viol = append(viol, fmt.Sprintf("block %d was committed (chain height durable) before a crash and its stored header changed afterwards", h))
		}
	}
	// chain-height writes over all processes: never down while running, never skipping
	for _, p := range monitors.CheckHeightWritesAcross(s.logs, r.Hit) {
		viol = append(viol, p.String())
	}
	if len(viol) > 0 {
		fail("chain-after-recovery", strings.Join(viol, " ;; "))
	}
	return
}

// Run is the check entry point.
func Run(r *vk.Run) {
	world.Silence()
	r.Rule = "exhaustive enumeration: initial height {1,5} x da.start_height {unset, 1, 5e9} x cleanly committed prefix {first start,0..3 blocks} x step kind {txs, empty, reuse of a pending block} x crash after write k of the step (k = 0..W, W found by running until the step completes) x recovery (restart + step) crashed after write k2 (depth 2; depth 3 in thorough), then a clean restart, four clean steps and the chain oracle W1; plus kill-point enumeration of the cache writer (separate clause): killed at its n-th write/pwrite64 call, with and without an older generation of files, and - when the machine has a second file system - with TMPDIR on another file system than the node home, there also at its n-th copy_file_range / sendfile call. non-trivial = at least one crash index strictly inside a step; distinct by (initial, prefix, kind, k...)"
	r.Assume("MemDS double: a Put/Delete/Batch.Commit is atomic and durable once it returns; a crash loses exactly the writes not yet issued (process kill, not power loss)")
	r.Assume("execution and sequencing layers are external processes that survive the node's crash (doubles keep their state)")
	depth := 2
	if !r.Quick() {
		depth = 3
	}
	type tuple struct {
		initial uint64
		prefix  int
		kind    string
		daStart uint64
	}
	var tuples []tuple
	inits := []uint64{1, 5}
	prefixes := []int{-1, 0, 1, 2, 3}
	if !r.Quick() {
		inits = []uint64{1, 2, 5, 1000}
		prefixes = []int{-1, 0, 1, 2, 3, 4, 6}
	}
	for _, initial := range inits {
		for _, prefix := range prefixes {
			kinds := []string{"txs", "empty", "reuse"}
			if prefix < 0 {
				kinds = []string{"txs"}
			}
			for _, kind := range kinds {
				// da.start_height: not set, 1, beyond 2^32
				for _, daStart := range []uint64{0, 1, 5_000_000_000} {
					tuples = append(tuples, tuple{initial, prefix, kind, daStart})
				}
			}
		}
	}
	// enum tries crash index k = 0,1,2,... at stage d until the stage completes without reaching the
	// crash point (that last case is "crash after the last write"); it returns whether stage d-1 crashed.
	var enum func(base Case, d int) []bool
	enum = func(base Case, d int) []bool {
		var last []bool
		for k := 0; k < 60; k++ {
			c := base
			c.K = append(append([]int{}, base.K...), k)
			var crashed []bool
			if d == depth-1 {
				crashed = runCase(r, c)
				inside := false
				for _, b := range crashed {
					inside = inside || b
				}
				r.Eval(c.key(), inside, c)
			} else {
				crashed = enum(c, d+1)
			}
			last = crashed
			if crashed == nil || !crashed[d] {
				break
			}
		}
		return last
	}
	var wg sync.WaitGroup
	ch := make(chan tuple)
	for w := 0; w < 14; w++ {
		wg.Add(1)
		go func() {
			defer wg.Done()
			for t := range ch {
				c := Case{Initial: t.initial, Prefix: t.prefix, Kind: t.kind, DAStart: t.daStart}
				r.Guard(c, func() { enum(c, 0) })
			}
		}()
	}
	for _, t := range tuples {
		ch <- t
	}
	close(ch)
	wg.Wait()
	r.SetExhaustive(true)
	r.Set("crash_depth", depth)
	r.Set("enumerated_tuples", len(tuples))
	r.Require("restart-ok", 100)
	cacheKillPoints(r)
}
