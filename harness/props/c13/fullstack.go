package c13

import (
	"bytes"
	"context"
	"errors"
	"fmt"
	"math/rand"
	"net"
	"os"
	"strings"
	"time"

	ds "github.com/ipfs/go-datastore"
	dssync "github.com/ipfs/go-datastore/sync"
	logging "github.com/ipfs/go-log/v2"
	"github.com/libp2p/go-libp2p/core/peer"

	"github.com/evstack/ev-node/node"
	"github.com/evstack/ev-node/pkg/config"
	"github.com/evstack/ev-node/pkg/p2p"
	"github.com/evstack/ev-node/pkg/p2p/key"
	"github.com/evstack/ev-node/sequencers/single"

	"verifharness/vk"
	"verifharness/world"
)

func freePort() int {
	l, err := net.Listen("tcp", "127.0.0.1:0")
	if err != nil {
		return 0
	}
	defer l.Close()
	return l.Addr().(*net.TCPAddr).Port
}

type stackNode struct {
	fn     *node.FullNode
	cancel context.CancelFunc
	done   chan error
	exec   *world.ExecDouble
}

func fullStackConfig(root string, aggregator bool, peers string) config.Config {
	cfg := config.DefaultConfig
	cfg.RootDir = root
	cfg.ChainID = "verif-chain"
	cfg.Node.Aggregator = aggregator
	cfg.Node.BlockTime.Duration = 20 * time.Millisecond
	cfg.Node.LazyBlockInterval.Duration = time.Second
	cfg.Node.MaxPendingHeadersAndData = 1000
	cfg.DA.BlockTime.Duration = 40 * time.Millisecond
	cfg.DA.MempoolTTL = 1
	cfg.DA.StartHeight = 1
	cfg.P2P.ListenAddress = fmt.Sprintf("/ip4/127.0.0.1/tcp/%d", freePort())
	cfg.P2P.Peers = peers
	cfg.RPC.Address = fmt.Sprintf("127.0.0.1:%d", freePort())
	cfg.Instrumentation = &config.InstrumentationConfig{}
	return cfg
}

// runFullStack runs the real FullNode.Run of an aggregator and a full node (libp2p on loopback, go-header
// services) and stops them at seeded instants; Run must return and the stores must be consistent prefixes.
func runFullStack(r *vk.Run) {
	full := vk.NewRunNoCleanup("C13", r.Tier, Level)
	rng := full.Rand("fullstack")
	rounds := full.N(2, 8)
	for i := 0; i < rounds; i++ {
		fullStackRound(r, rng, i)
	}
	for i := 0; i < full.N(1, 4); i++ {
		fullStackCleanRestart(r, i)
	}
}

func fullStackRound(r *vk.Run, rng *rand.Rand, id int) {
	root := world.TempDir(vk.Root(), "C13-stack-*")
	defer os.RemoveAll(root)
	keys := world.NewKeys("proposer")
	gen := world.MakeGenesis("verif-chain", 1, keys, time.Now().Add(-time.Minute))
	da := world.NewDADouble()
	logger := logging.Logger("verif-stack")
	start := func(aggregator bool, peers string, sub string) (*stackNode, config.Config, *key.NodeKey, error) {
		dir := root + "/" + sub
		_ = os.MkdirAll(dir, 0o755)
		cfg := fullStackConfig(dir, aggregator, peers)
		nodeKeys := world.NewKeys("p2p-" + sub)
		nk := &key.NodeKey{PrivKey: nodeKeys.Priv, PubKey: nodeKeys.Pub}
		p2pClient, err := p2p.NewClient(cfg, nk, dssync.MutexWrap(ds.NewMapDatastore()), logger, p2p.NopMetrics())
		if err != nil {
			return nil, cfg, nil, err
		}
		exec := world.NewExecDouble()
		// a remote execution client: calls take a moment, and a call cut by the stop fails with a transport-style
		// error (not Go's context error) in every second round
		exec.CallDelay = time.Duration(1+rng.Intn(4)) * time.Millisecond
		if id%2 == 0 {
			exec.AbortErr = errors.New("rpc error: code = Canceled desc = context canceled")
		}
		database := world.NewMemDS(world.NewImage())
		metrics, _ := single.NopMetrics()
		// the node is built under one context and run under another (as the repository's own helpers do): only the
		// run context is cancelled by the stop request; the build context ends after Run has returned
		buildCtx, buildCancel := context.WithCancel(context.Background())
		ctx, cancel := context.WithCancel(context.Background())
		if id%4 >= 2 {
			buildCtx = ctx
		}
		seq, err := single.NewSequencerWithQueueSize(buildCtx, logger, database, da, []byte("verif-chain"), time.Second, metrics, aggregator, 100)
		if err != nil {
			cancel()
			buildCancel()
			return nil, cfg, nil, err
		}
		var sg = keys.Signer
		n, err := node.NewNode(buildCtx, cfg, exec, seq, da, sg, p2pClient, gen, database, node.DefaultMetricsProvider(config.DefaultInstrumentationConfig()), logger, node.NodeOptions{})
		if err != nil {
			cancel()
			buildCancel()
			return nil, cfg, nil, err
		}
		sn := &stackNode{fn: n.(*node.FullNode), cancel: cancel, done: make(chan error, 1), exec: exec}
		go func() { err := sn.fn.Run(ctx); buildCancel(); sn.done <- err }()
		return sn, cfg, nk, nil
	}
	agg, aggCfg, aggKey, err := start(true, "", "agg")
	if err != nil {
		r.Inconclusive("full stack: aggregator did not start: " + err.Error())
		return
	}
	aggID, _ := peer.IDFromPrivateKey(aggKey.PrivKey)
	peerAddr := fmt.Sprintf("%s/p2p/%s", aggCfg.P2P.ListenAddress, aggID.String())
	// feed the mempool
	stopInject := make(chan struct{})
	go func() {
		for i := 0; ; i++ {
			select {
			case <-stopInject:
				return
			default:
			}
			agg.exec.Inject([]byte(fmt.Sprintf("fs-%d-%d", id, i)))
			time.Sleep(7 * time.Millisecond)
		}
	}()
	time.Sleep(time.Duration(100+rng.Intn(300)) * time.Millisecond)
	fulln, _, _, err := start(false, peerAddr, "full")
	if err != nil {
		close(stopInject)
		agg.cancel()
		<-agg.done
		r.Inconclusive("full stack: full node did not start: " + err.Error())
		return
	}
	time.Sleep(time.Duration(600+rng.Intn(1500)) * time.Millisecond)
	if id%2 == 0 {
		// the stop arrives while the production loop and the inclusion loop are both inside calls to a remote
		// execution client that hangs: both calls end with a transport-style error when the node gives up
		// first the finalization call hangs (production goes on, so inclusion keeps asking for it), then execution
		agg.exec.BlockFinal(true)
		deadline := time.Now().Add(8 * time.Second)
		for time.Now().Before(deadline) {
			if _, f := agg.exec.InFlight(); f > 0 {
				break
			}
			time.Sleep(time.Millisecond)
		}
		agg.exec.BlockCalls(true)
		for time.Now().Before(deadline) {
			if e, f := agg.exec.InFlight(); e > 0 && f > 0 && agg.exec.InFlightGetTxs() > 0 {
				r.Count("fullstack_stop_with_exec_final_and_gettxs_in_flight", 1)
				break
			}
			time.Sleep(time.Millisecond)
		}
	}
	if id%4 == 1 {
		// no stop request for the aggregator: its execution layer fails, the production loop reports the error, and
		// Run must wind the whole node down by itself (the node is built for "an unrecoverable error stops the node")
		h0, _ := agg.fn.Store.Height(context.Background())
		for i := 0; i < 50; i++ {
			agg.exec.Script(world.ExecErr)
		}
		deadline := time.Now().Add(25 * time.Second)
		returned, recovered := false, false
		for time.Now().Before(deadline) && !returned && !recovered {
			select {
			case <-agg.done:
				returned = true
			case <-time.After(5 * time.Millisecond):
				// a node that retries instead of stopping is fine too: it must then produce again once the failures are over
				if h, _ := agg.fn.Store.Height(context.Background()); agg.exec.ScriptLen() == 0 && h > h0+1 {
					recovered = true
				}
			}
		}
		switch {
		case returned:
			r.Hit("node-run-returns-after-fatal-loop-error")
		case recovered:
			r.Count("fullstack_node_survived_execution_errors_by_retrying", 1)
		default:
			close(stopInject)
			r.Violation("stop-promptly", "the execution layer failed, and 25 s later Node.Run of the aggregator has neither returned nor does the node produce blocks again: it hangs in its own shutdown",
				map[string]any{"full_stack_round": id, "goroutines_in_repo_code": goroutineDump()})
			agg.cancel()
			fulln.cancel()
			return
		}
		if returned {
			agg.done <- nil // (consumed again below)
		}
	}
	close(stopInject)
	// stop both at seeded instants, in either order
	first, second := agg, fulln
	if rng.Intn(2) == 0 && id%2 != 0 {
		first, second = fulln, agg
	}
	first.cancel()
	time.Sleep(time.Duration(rng.Intn(200)) * time.Millisecond)
	second.cancel()
	var viol []string
	for i, sn := range []*stackNode{first, second} {
		select {
		case <-sn.done:
			r.Hit("node-run-returns")
		case <-time.After(25 * time.Second):
			viol = append(viol, fmt.Sprintf("Node.Run of node %d did not return within 25 s after the stop request", i))
			r.Violation("stop-promptly", strings.Join(viol, " ;; "), map[string]any{"full_stack_round": id, "goroutines_in_repo_code": goroutineDump()})
			return
		}
	}
	// invariants through the hooks: the full node's chain is a prefix of the aggregator's
	ctx := context.Background()
	ha, _ := agg.fn.Store.Height(ctx)
	hf, _ := fulln.fn.Store.Height(ctx)
	r.Count("fullstack_agg_blocks", int64(ha))
	r.Count("fullstack_full_blocks", int64(hf))
	if hf > ha {
		viol = append(viol, fmt.Sprintf("full node height %d beyond aggregator height %d", hf, ha))
	}
	for h := uint64(1); h <= hf && h <= ha; h++ {
		a, _, err1 := agg.fn.Store.GetBlockData(ctx, h)
		f, _, err2 := fulln.fn.Store.GetBlockData(ctx, h)
		r.Hit("fullstack-same-block")
		if err1 != nil || err2 != nil || !bytes.Equal(a.Hash(), f.Hash()) {
			viol = append(viol, fmt.Sprintf("block %d differs between aggregator and full node (errors %v / %v)", h, err1, err2))
			break
		}
	}
	for _, sn := range []*stackNode{agg, fulln} {
		m := sn.fn.VerifBlockManager()
		hh, _ := sn.fn.Store.Height(ctx)
		r.Hit("fullstack-da-included")
		if d := m.GetDAIncludedHeight(); d > hh {
			viol = append(viol, fmt.Sprintf("DA-included height %d above chain height %d", d, hh))
		}
		fin := sn.exec.Finals()
		for i, h := range fin {
			if h != uint64(i+1) {
				viol = append(viol, fmt.Sprintf("SetFinal sequence not consecutive: %v", fin[:i+1]))
				break
			}
		}
	}
	if len(viol) > 0 {
		r.Violation("invariants-under-concurrency", "full stack: "+strings.Join(viol, " ;; "), map[string]any{"full_stack_round": id})
	}
	r.Eval(fmt.Sprintf("fullstack %d agg=%d full=%d", id, ha, hf), ha > 2, map[string]any{"full_stack_round": id, "agg_height": ha, "full_height": hf})
}
