//go:build !race

package c13

const raceEnabled = false
