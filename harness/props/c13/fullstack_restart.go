package c13

import (
	"context"
	"fmt"
	"os"
	"strings"
	"sync/atomic"
	"time"

	ds "github.com/ipfs/go-datastore"
	dssync "github.com/ipfs/go-datastore/sync"
	logging "github.com/ipfs/go-log/v2"

	"github.com/evstack/ev-node/node"
	"github.com/evstack/ev-node/pkg/config"
	"github.com/evstack/ev-node/pkg/p2p"
	"github.com/evstack/ev-node/pkg/p2p/key"
	"github.com/evstack/ev-node/sequencers/single"

	"verifharness/vk"
	"verifharness/world"
)

// fullStackCleanRestart runs the node's REAL shutdown path where its effect can be judged: an aggregator (FullNode.Run)
// produces and submits blocks while its execution client hangs in the finalization call, so accepted blocks pile up
// waiting for inclusion (their DA-inclusion marks exist only in memory). The node is then stopped cleanly (the run
// context is cancelled, Run returns: this is where the node saves its caches) and started again on the same database
// and directory with a healthy execution client. Everything the DA layer had accepted before the stop must then become
// DA-included: nothing but the saved caches can tell the restarted aggregator that those blobs are on the DA layer.
func fullStackCleanRestart(r *vk.Run, id int) {
	root := world.TempDir(vk.Root(), "C13-restart-*")
	defer os.RemoveAll(root)
	keys := world.NewKeys("proposer")
	gen := world.MakeGenesis("verif-chain", 1, keys, time.Now().Add(-time.Minute))
	da := world.NewDADouble()
	logger := logging.Logger("verif-stack")
	image := world.NewImage()
	exec := world.NewExecDouble()
	dir := root + "/agg"
	_ = os.MkdirAll(dir, 0o755)
	nodeKeys := world.NewKeys("p2p-agg")
	var stopAtHeightWrite atomic.Bool // the stop request is raised right when the chain height is made durable
	var curCancel atomic.Pointer[context.CancelFunc]
	start := func() (*stackNode, error) {
		cfg := fullStackConfig(dir, true, "")
		nk := &key.NodeKey{PrivKey: nodeKeys.Priv, PubKey: nodeKeys.Pub}
		p2pClient, err := p2p.NewClient(cfg, nk, dssync.MutexWrap(ds.NewMapDatastore()), logger, p2p.NopMetrics())
		if err != nil {
			return nil, err
		}
		database := world.NewMemDS(image)
		database.OnWrite = func(rec world.WriteRec) {
			for _, k := range rec.Keys {
				if strings.HasSuffix(k, "/t") && stopAtHeightWrite.CompareAndSwap(true, false) {
					// between committing a block and handing it to the P2P layer
					if c := curCancel.Load(); c != nil {
						(*c)()
					}
				}
			}
		}
		metrics, _ := single.NopMetrics()
		ctx, cancel := context.WithCancel(context.Background())
		curCancel.Store(&cancel)
		seq, err := single.NewSequencerWithQueueSize(ctx, logger, database, da, []byte("verif-chain"), time.Second, metrics, true, 100)
		if err != nil {
			cancel()
			return nil, err
		}
		n, err := node.NewNode(ctx, cfg, exec, seq, da, keys.Signer, p2pClient, gen, database, node.DefaultMetricsProvider(config.DefaultInstrumentationConfig()), logger, node.NodeOptions{})
		if err != nil {
			cancel()
			return nil, err
		}
		sn := &stackNode{fn: n.(*node.FullNode), cancel: cancel, done: make(chan error, 1), exec: exec}
		go func() { sn.done <- sn.fn.Run(ctx) }()
		return sn, nil
	}
	agg, err := start()
	if err != nil {
		r.Inconclusive("clean-restart round: aggregator did not start: " + err.Error())
		return
	}
	stopInject := make(chan struct{})
	defer close(stopInject)
	go func() {
		for i := 0; ; i++ {
			select {
			case <-stopInject:
				return
			default:
			}
			exec.Inject([]byte(fmt.Sprintf("rs-%d-%d", id, i)))
			time.Sleep(7 * time.Millisecond)
		}
	}()
	bg := context.Background()
	height := func(sn *stackNode) uint64 { h, _ := sn.fn.Store.Height(bg); return h }
	// some blocks get produced, submitted and included
	if !waitFor(20*time.Second, func() bool { return agg.fn.VerifBlockManager().GetDAIncludedHeight() >= 2 }) {
		agg.cancel()
		<-agg.done
		r.Inconclusive("clean-restart round: no block became DA-included in 20 s")
		return
	}
	// finalization hangs: accepted blocks wait for inclusion
	exec.BlockFinal(true)
	hMark := height(agg) + 4
	okPile := waitFor(20*time.Second, func() bool {
		lh, ld, _, _ := agg.fn.VerifBlockManager().VerifWatermarks()
		return lh >= hMark && ld >= hMark
	})
	if !okPile {
		exec.BlockFinal(false)
		agg.cancel()
		<-agg.done
		r.Inconclusive("clean-restart round: submissions did not get ahead of the hanging finalization")
		return
	}
	lh, ld, _, _ := agg.fn.VerifBlockManager().VerifWatermarks()
	accepted := lh
	if ld < accepted {
		accepted = ld
	}
	dBefore := agg.fn.VerifBlockManager().GetDAIncludedHeight()
	// clean stop: Run returns (a finalization call in flight fails with the context). In two rounds of three the stop
	// request arrives exactly when the next block's height has been made durable - after the commit, before the block is
	// handed to the P2P layer
	if id%3 != 2 {
		stopAtHeightWrite.Store(true)
		if !waitFor(10*time.Second, func() bool { return !stopAtHeightWrite.Load() }) {
			stopAtHeightWrite.Store(false)
			agg.cancel()
		} else {
			r.Count("fullstack_stop_between_commit_and_broadcast", 1)
		}
	} else {
		agg.cancel()
	}
	select {
	case <-agg.done:
		r.Hit("node-run-returns")
	case <-time.After(25 * time.Second):
		r.Violation("stop-promptly", "clean-restart round: Node.Run did not return within 25 s after the stop request", map[string]any{"round": id, "goroutines_in_repo_code": goroutineDump()})
		return
	}
	exec.BlockFinal(false)
	// the same node again: same database, same directory
	agg2, err := start()
	if err != nil {
		r.Violation("invariants-under-concurrency", "clean-restart round: the aggregator does not start again on what its clean shutdown left: "+err.Error(), map[string]any{"round": id})
		return
	}
	defer func() {
		agg2.cancel()
		select {
		case <-agg2.done:
		case <-time.After(25 * time.Second):
		}
	}()
	r.Hit("clean-restart-keeps-inclusion-marks")
	hRestart := height(agg2)
	r.Hit("clean-restart-produces-again")
	if !waitFor(30*time.Second, func() bool { return height(agg2) >= hRestart+5 }) {
		diag := ""
		select {
		case err := <-agg2.done:
			diag = fmt.Sprintf(" (the restarted node's Run has returned: %v)", err)
			agg2.done <- err
		default:
		}
		r.Violation("invariants-under-concurrency", fmt.Sprintf("clean-restart round: 30 s after the restart on the same database and directory the aggregator has produced %d block(s) (height %d -> %d; block time 20 ms)%s: it cannot produce on what its own clean shutdown left", height(agg2)-hRestart, hRestart, height(agg2), diag), map[string]any{"round": id})
		return
	}
	reached := waitFor(30*time.Second, func() bool { return agg2.fn.VerifBlockManager().GetDAIncludedHeight() >= accepted })
	dAfter := agg2.fn.VerifBlockManager().GetDAIncludedHeight()
	if dAfter < dBefore {
		r.Violation("invariants-under-concurrency", fmt.Sprintf("clean-restart round: the DA-included height went down across a clean restart: %d -> %d", dBefore, dAfter), map[string]any{"round": id})
		return
	}
	if !reached {
		diag := ""
		select {
		case err := <-agg2.done:
			diag = fmt.Sprintf(" [the restarted node's Run has returned: %v]", err)
			agg2.done <- err
		default:
			diag = " [the restarted node is still running]"
		}
		m2 := agg2.fn.VerifBlockManager()
		for h := dAfter + 1; h <= accepted && h <= dAfter+3; h++ {
			if hdr, data, err := agg2.fn.Store.GetBlockData(bg, h); err == nil {
				diag += fmt.Sprintf(" [block %d: header mark %v, data mark %v (txs %d)]", h, m2.HeaderCache().IsDAIncluded(hdr.Hash().String()), m2.DataCache().IsDAIncluded(data.DACommitment().String()), len(data.Txs))
			}
		}
		lh2, ld2, ph2, pd2 := m2.VerifWatermarks()
		diag += fmt.Sprintf(" [watermarks %d/%d pending %d/%d]", lh2, ld2, ph2, pd2)
		r.Violation("invariants-under-concurrency", fmt.Sprintf("clean-restart round: before the clean stop the DA layer had accepted headers and data up to height %d (DA-included height %d, finalization was hanging); 30 s after the restart on the same database and directory, with a healthy execution client and production running (height %d), the DA-included height is %d: what the node knew about accepted blobs did not survive its clean shutdown",
			accepted, dBefore, height(agg2), dAfter)+diag, map[string]any{"round": id})
		return
	}
	r.Eval(fmt.Sprintf("fullstack clean restart %d", id), true, map[string]any{"round": id, "accepted_before_stop": accepted, "da_included_before": dBefore, "da_included_after": dAfter})
}
