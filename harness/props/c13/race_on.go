//go:build race

package c13

const raceEnabled = true
