// Package c13 decides C13: the concurrent background loops are race-free, keep the invariants and stop promptly.
// The registered command runs the binary built with -race; a race report terminates the process and is turned
// into a violation by the parent, which runs every batch in a child process.
package c13

import (
	logging "github.com/ipfs/go-log/v2"

	"fmt"
	"os"
	"path/filepath"
	"strings"
	"time"

	"verifharness/vk"
	"verifharness/world"
)

// Level is the verification level claimed for this property.
const Level = "exploration"

func init() { vk.Children["c13"] = child }

func universeConfigs(r *vk.Run) []Config {
	rng := r.Rand("universes")
	n := r.N(8, 80)
	var out []Config
	for i := 0; i < n; i++ {
		c := Config{ID: i, Blocks: uint64(r.N(100, 300)), BlockTime: time.Duration(2+rng.Intn(4)) * time.Millisecond, DATime: time.Duration(3+rng.Intn(8)) * time.Millisecond,
			Lazy: i%3 == 2, DAFaultPct: []int{0, 10, 30}[rng.Intn(3)], DADelayUs: []int{0, 200, 2000}[rng.Intn(3)], Seed: rng.Int63()}
		if i%4 == 1 {
			c.MaxPending = uint64(2 + rng.Intn(8))
		}
		c.ExecDelayUs = []int{0, 400, 2500}[rng.Intn(3)]
		c.InjectGaps = rng.Intn(2) == 0
		if i%4 == 3 {
			c.MempoolRun = 2 + (i/4)%2
		}
		out = append(out, c)
	}
	return out
}

// child runs one batch: args = shard nShards tier.
func child(args []string) int {
	world.Silence()
	var shard, n int
	fmt.Sscanf(args[0], "%d", &shard)
	fmt.Sscanf(args[1], "%d", &n)
	r := vk.NewChildRun("C13", args[2], Level, os.Stdout)
	full := vk.NewRunNoCleanup("C13", args[2], Level)
	for i, cfg := range universeConfigs(full) {
		if i%n != shard {
			continue
		}
		r.Journal(map[string]any{"universe": cfg})
		runUniverse(r, cfg)
		r.FlushHits()
	}
	id := 0
	reps := full.N(1, 4)
	for rep := 0; rep < reps; rep++ {
		for _, sc := range stopKinds {
			sc.ID = id
			id++
			if sc.ID%n != shard {
				continue
			}
			r.Journal(map[string]any{"stop": sc})
			runStop(r, sc)
			r.FlushHits()
		}
	}
	if shard == 1%n {
		r.Journal(map[string]any{"first_items": true})
		runFirstItems(r, full.N(40, 200))
		r.FlushHits()
	}
	if shard == 0 {
		r.Journal(map[string]any{"fullstack": true})
		runFullStack(r)
		r.FlushHits()
	}
	return 0
}

func raceEnabledNote() string {
	if raceEnabled {
		return "race detector ON"
	}
	return "race detector OFF (this binary was not built with -race)"
}

// Run is the check entry point.
func Run(r *vk.Run) {
	world.Silence()
	if n := os.Getenv("C13_DEV_RESTART_ROUNDS"); n != "" {
		if os.Getenv("C13_DEV_LOG") != "" {
			logging.SetupLogging(logging.Config{Format: logging.PlaintextOutput, Stderr: true, Level: logging.LevelError})
			logging.SetAllLoggers(logging.LevelError)
			for _, sub := range []string{"header/p2p", "header/sync", "header/store", "sync", "pubsub"} {
				_ = logging.SetLogLevel(sub, "debug")
			}
		}
		// development aid: only the clean-restart round, n times, in this process
		var k int
		fmt.Sscanf(n, "%d", &k)
		for i := 0; i < k; i++ {
			fullStackCleanRestart(r, i)
		}
		return
	}
	r.Rule = "(a) concurrent worlds: a real aggregator Manager (production, reaper, header and data submission, DA inclusion loops; real single sequencer; mempool injector) and a real full node Manager (DA scan, both P2P store loops, sync, DA inclusion) run as goroutines against one DA double with random latency and faults, datastore yields at every call, block time 2-5 ms, DA block time 3-10 ms, lazy/normal mode, with/without pending limit, until 60 | 300 blocks; in every fourth world the DA layer's mempool is crowded: each stream's submissions are turned away 2-3 times in a row (timed out / already in mempool; gas price 1, multiplier 1.5) before one gets through, and the acknowledgements of header and data submissions that got through together arrive together; the sequencer proxy passes the manager's RecordMetrics calls on to the real sequencer; afterwards the chain, convergence, submission and inclusion oracles run on the final state (prefix forms); (b) stop scenarios by logical position (start-up delay with genesis in the future; inside a blocked DA submit; inside execution; header/data event channel full via DA and via P2P with a stalled consumer; mid-scan; idle): cancel, release every double, every loop must return within 10 s; (c) the real FullNode.Run (libp2p on loopback) aggregator + full node, stopped at seeded instants. Everything runs in child processes of the -race build: a race report or crash kills the child and is reported with the case it was running. non-trivial = a world in which at least three loops made progress, or a stop scenario whose position was reached; distinct by interleaving signature (number of distinct windows of 6 consecutive loop-labelled operations) resp. scenario"
	r.Assume(raceEnabledNote())
	r.Assume("a goroutine still inside the repository's code 10 s after cancel, with every double released and all timers of the configuration <= 20 ms, is hung, not slow")
	logDir := filepath.Join(vk.Root(), "out", "tmp", fmt.Sprintf("C13-race-%d", os.Getpid()))
	_ = os.MkdirAll(logDir, 0o755)
	defer os.RemoveAll(logDir)
	os.Setenv("GORACE", "halt_on_error=1 exitcode=66 log_path="+filepath.Join(logDir, "race"))
	shards := r.N(6, 12)
	results := r.RunShards("c13", shards, shards, 60*time.Minute)
	races := 0
	for _, res := range results {
		if res.ExitErr == nil {
			continue
		}
		tail := res.Tail
		// race reports go to the log files
		files, _ := filepath.Glob(filepath.Join(logDir, "race.*"))
		var report string
		for _, f := range files {
			b, _ := os.ReadFile(f)
			if strings.Contains(string(b), "DATA RACE") {
				report += string(b)
			}
		}
		if len(report) > 12000 {
			report = report[:12000]
		}
		if strings.Contains(report, "DATA RACE") || strings.Contains(tail, "DATA RACE") {
			races++
			r.Violation("race-free", fmt.Sprintf("the race detector reported a data race (child %d, %v)", res.Shard, res.ExitErr),
				map[string]any{"last_case_started": res.LastCase, "race_report": report, "output_tail": tail})
		} else {
			r.Violation("no-crash", fmt.Sprintf("a child running concurrent loops died (%v)", res.ExitErr),
				map[string]any{"last_case_started": res.LastCase, "output_tail": tail})
		}
	}
	r.Set("race_detector", raceEnabledNote())
	r.Set("race_reports", races)
	r.Require("stop-promptly", 4)
	r.Require("stop-scenario", 8)
	r.Require("submission-through-after-mempool-rejections", 10)
	if !raceEnabled {
		r.Inconclusive("binary built without -race: the race clause was not exercised")
	}
}
