package c13

import (
	"bytes"
	"context"
	"fmt"
	"math/rand"
	"runtime"
	"strings"
	"sync"
	"sync/atomic"
	"time"

	logging "github.com/ipfs/go-log/v2"

	"github.com/evstack/ev-node/block"
	coreda "github.com/evstack/ev-node/core/da"
	coresequencer "github.com/evstack/ev-node/core/sequencer"
	"github.com/evstack/ev-node/sequencers/single"
	"github.com/evstack/ev-node/types"

	"verifharness/monitors"
	"verifharness/vk"
	"verifharness/world"
)

// trace records the order of loop-labelled operations across all goroutines.
type trace struct {
	mu     sync.Mutex
	ops    []uint8
	active map[uint8]int
	pairs  map[[2]uint8]bool
	names  []string
	index  map[string]uint8
}

func newTrace() *trace {
	return &trace{active: map[uint8]int{}, pairs: map[[2]uint8]bool{}, index: map[string]uint8{}}
}

func (t *trace) id(name string) uint8 {
	if v, ok := t.index[name]; ok {
		return v
	}
	v := uint8(len(t.names))
	t.names = append(t.names, name)
	t.index[name] = v
	return v
}

// begin marks the start of an operation; the returned func marks its end.
func (t *trace) begin(name string) func() {
	t.mu.Lock()
	id := t.id(name)
	t.ops = append(t.ops, id)
	for other, n := range t.active {
		if n > 0 && other != id {
			t.pairs[[2]uint8{other, id}] = true
		}
	}
	t.active[id]++
	t.mu.Unlock()
	return func() {
		t.mu.Lock()
		t.active[id]--
		t.mu.Unlock()
	}
}

func (t *trace) point(name string) {
	t.mu.Lock()
	id := t.id(name)
	t.ops = append(t.ops, id)
	for other, n := range t.active {
		if n > 0 && other != id {
			t.pairs[[2]uint8{other, id}] = true
		}
	}
	t.mu.Unlock()
}

// signatures returns the number of distinct windows of w consecutive operations.
func (t *trace) signatures(w int) (int, int, []string) {
	t.mu.Lock()
	defer t.mu.Unlock()
	seen := map[string]bool{}
	for i := 0; i+w <= len(t.ops); i++ {
		seen[string(t.ops[i:i+w])] = true
	}
	var pairs []string
	for p := range t.pairs {
		pairs = append(pairs, t.names[p[0]]+"||"+t.names[p[1]])
	}
	return len(seen), len(t.ops), pairs
}

// tracedDA wraps the DA double with begin/end marks.
type tracedDA struct {
	*world.DADouble
	t    *trace
	node string
}

func (d *tracedDA) SubmitWithOptions(ctx context.Context, blobs []coreda.Blob, gasPrice float64, ns []byte, opts []byte) ([]coreda.ID, error) {
	defer d.t.begin(d.node + ".da-submit")()
	return d.DADouble.SubmitWithOptions(ctx, blobs, gasPrice, ns, opts)
}
func (d *tracedDA) Submit(ctx context.Context, blobs []coreda.Blob, gasPrice float64, ns []byte) ([]coreda.ID, error) {
	return d.SubmitWithOptions(ctx, blobs, gasPrice, ns, nil)
}
func (d *tracedDA) GetIDs(ctx context.Context, h uint64, ns []byte) (*coreda.GetIDsResult, error) {
	defer d.t.begin(d.node + ".da-getids")()
	return d.DADouble.GetIDs(ctx, h, ns)
}
func (d *tracedDA) Get(ctx context.Context, ids []coreda.ID, ns []byte) ([]coreda.Blob, error) {
	defer d.t.begin(d.node + ".da-get")()
	return d.DADouble.Get(ctx, ids, ns)
}

// mempoolDA is the aggregator's view of a DA layer with a crowded mempool: every submission of a stream (headers,
// data) is turned away `run` times in a row with a mempool-type answer (not included in a block in time / already in
// the mempool) before the next one gets through to the double, and the acknowledgements of submissions of the two
// streams that got through at about the same time (the same DA block) arrive together.
type mempoolDA struct {
	*tracedDA
	run  int
	wait time.Duration
	mu   sync.Mutex
	left map[bool]int // per stream (false = headers, true = data): rejections to come before a submission gets through
	n    int
	runs map[bool]int // per stream: submissions that got through after `run` rejections
	meet chan struct{}
}

func newMempoolDA(inner *tracedDA, run int, wait time.Duration) *mempoolDA {
	return &mempoolDA{tracedDA: inner, run: run, wait: wait, left: map[bool]int{false: run, true: run}, runs: map[bool]int{}, meet: make(chan struct{})}
}

func (d *mempoolDA) SubmitWithOptions(ctx context.Context, blobs []coreda.Blob, gasPrice float64, ns []byte, opts []byte) ([]coreda.ID, error) {
	data := false
	if len(blobs) > 0 {
		_, data, _ = world.DecodeBlobHeight(blobs[0])
	}
	d.mu.Lock()
	if d.left[data] > 0 {
		d.left[data]--
		d.n++
		odd := d.n%2 == 1
		d.mu.Unlock()
		d.t.point(d.node + ".da-mempool-rejection")
		if odd {
			return nil, fmt.Errorf("da double: %w", coreda.ErrTxTimedOut)
		}
		return nil, coreda.ErrTxAlreadyInMempool
	}
	d.left[data] = d.run
	d.runs[data]++
	d.mu.Unlock()
	ids, err := d.tracedDA.SubmitWithOptions(ctx, blobs, gasPrice, ns, opts)
	if err == nil {
		t := time.NewTimer(d.wait)
		select {
		case d.meet <- struct{}{}:
		case <-d.meet:
		case <-t.C:
		case <-ctx.Done():
		}
		t.Stop()
	}
	return ids, err
}

func (d *mempoolDA) Submit(ctx context.Context, blobs []coreda.Blob, gasPrice float64, ns []byte) ([]coreda.ID, error) {
	return d.SubmitWithOptions(ctx, blobs, gasPrice, ns, nil)
}

func (d *mempoolDA) passed() (int, int) {
	d.mu.Lock()
	defer d.mu.Unlock()
	return d.runs[false], d.runs[true]
}

// tracedExec wraps the execution double.
type tracedExec struct {
	*world.ExecDouble
	t    *trace
	node string
	// heightOf, if set, reads the node's chain height; early, if set, receives "finalize asked for an uncommitted block"
	heightOf func() uint64
	early    func(h, chain uint64)
}

func (e *tracedExec) ExecuteTxs(ctx context.Context, txs [][]byte, h uint64, ts time.Time, prev []byte) ([]byte, uint64, error) {
	defer e.t.begin(e.node + ".exec")()
	return e.ExecDouble.ExecuteTxs(ctx, txs, h, ts, prev)
}
func (e *tracedExec) SetFinal(ctx context.Context, h uint64) error {
	defer e.t.begin(e.node + ".final")()
	if e.heightOf != nil {
		// the chain height is read after the call came in and only grows: below h now means below h at the call
		if ch := e.heightOf(); ch < h && e.early != nil {
			e.early(h, ch)
		}
	}
	return e.ExecDouble.SetFinal(ctx, h)
}
func (e *tracedExec) GetTxs(ctx context.Context) ([][]byte, error) {
	defer e.t.begin(e.node + ".gettxs")()
	return e.ExecDouble.GetTxs(ctx)
}

// seqProxy records the batches the real sequencer released.
type seqProxy struct {
	mu       sync.Mutex
	inner    coresequencer.Sequencer
	released []world.SeqResp
	t        *trace
}

func (p *seqProxy) SubmitBatchTxs(ctx context.Context, req coresequencer.SubmitBatchTxsRequest) (*coresequencer.SubmitBatchTxsResponse, error) {
	defer p.t.begin("agg.seq-submit")()
	return p.inner.SubmitBatchTxs(ctx, req)
}
func (p *seqProxy) GetNextBatch(ctx context.Context, req coresequencer.GetNextBatchRequest) (*coresequencer.GetNextBatchResponse, error) {
	defer p.t.begin("agg.seq-next")()
	res, err := p.inner.GetNextBatch(ctx, req)
	if err == nil && res != nil && res.Batch != nil {
		p.mu.Lock()
		r := world.SeqResp{Kind: world.SeqEmpty, Time: res.Timestamp, ID: len(p.released)}
		if len(res.Batch.Transactions) > 0 {
			r.Kind = world.SeqTxs
			for _, tx := range res.Batch.Transactions {
				r.Txs = append(r.Txs, append([]byte{}, tx...))
			}
		}
		p.released = append(p.released, r)
		p.mu.Unlock()
	}
	return res, err
}
func (p *seqProxy) VerifyBatch(ctx context.Context, req coresequencer.VerifyBatchRequest) (*coresequencer.VerifyBatchResponse, error) {
	return p.inner.VerifyBatch(ctx, req)
}

// RecordMetrics: the real sequencer takes the submission and inclusion metrics of the block manager (it is called from
// both submission loops and from the DA-inclusion loop); the proxy passes them on.
func (p *seqProxy) RecordMetrics(gasPrice float64, blobSize uint64, code coreda.StatusCode, pending uint64, included uint64) {
	if mr, ok := p.inner.(block.MetricsRecorder); ok {
		mr.RecordMetrics(gasPrice, blobSize, code, pending, included)
	}
}

// Config is one configuration of the concurrent world.
type Config struct {
	ID          int           `json:"id"`
	Blocks      uint64        `json:"target_blocks"`
	BlockTime   time.Duration `json:"block_time"`
	DATime      time.Duration `json:"da_block_time"`
	Lazy        bool          `json:"lazy"`
	MaxPending  uint64        `json:"max_pending"`
	DAFaultPct  int           `json:"da_fault_pct"`
	DADelayUs   int           `json:"da_delay_us"`
	ExecDelayUs int           `json:"exec_delay_us"` // the execution client takes up to this long per call
	InjectGaps  bool          `json:"inject_gaps"`   // the mempool runs dry now and then: empty blocks between full ones
	// MempoolRun > 0: the DA layer's mempool is crowded: each stream's submissions are turned away this many times in a
	// row (timed out / already in mempool) before one gets through (the manager runs with gas price 1, multiplier 1.5)
	MempoolRun int   `json:"mempool_rejections_before_acceptance,omitempty"`
	Seed       int64 `json:"seed"`
}

type loopSet struct {
	mu      sync.Mutex
	running map[string]bool
	wg      sync.WaitGroup
}

func (ls *loopSet) spawn(name string, f func()) {
	ls.mu.Lock()
	if ls.running == nil {
		ls.running = map[string]bool{}
	}
	ls.running[name] = true
	ls.mu.Unlock()
	ls.wg.Add(1)
	go func() {
		defer ls.wg.Done()
		f()
		ls.mu.Lock()
		delete(ls.running, name)
		ls.mu.Unlock()
	}()
}

func (ls *loopSet) stillRunning() []string {
	ls.mu.Lock()
	defer ls.mu.Unlock()
	var out []string
	for n := range ls.running {
		out = append(out, n)
	}
	return out
}

// join waits for all loops; false = some loop did not return within d.
func (ls *loopSet) join(d time.Duration) bool {
	done := make(chan struct{})
	go func() { ls.wg.Wait(); close(done) }()
	select {
	case <-done:
		return true
	case <-time.After(d):
		return false
	}
}

const stopWatchdog = 10 * time.Second

func goroutineDump() string {
	buf := make([]byte, 1<<20)
	n := runtime.Stack(buf, true)
	s := string(buf[:n])
	// keep only goroutines that are inside the repository's code
	var keep []string
	for _, g := range strings.Split(s, "\n\n") {
		if strings.Contains(g, "github.com/evstack/ev-node/") && !strings.Contains(g, "verifharness/props/c13.goroutineDump") {
			if len(g) > 1500 {
				g = g[:1500]
			}
			keep = append(keep, g)
		}
	}
	if len(keep) > 12 {
		keep = keep[:12]
	}
	return strings.Join(keep, "\n\n")
}

// runUniverse runs an aggregator and a full node with all their loops until the aggregator committed cfg.Blocks blocks.
func runUniverse(r *vk.Run, cfg Config) {
	rng := rand.New(rand.NewSource(cfg.Seed))
	ctx, cancel := context.WithCancel(context.Background())
	defer cancel()
	tr := newTrace()
	keys := world.NewKeys("proposer")
	da := world.NewDADouble()
	var daRng sync.Mutex
	drng := rand.New(rand.NewSource(cfg.Seed + 1))
	da.Delay = func(kind string) {
		daRng.Lock()
		d := time.Duration(drng.Intn(cfg.DADelayUs+1)) * time.Microsecond
		fault := kind == "submit" && drng.Intn(100) < cfg.DAFaultPct
		var o world.SubmitOutcome
		if fault {
			o = []world.SubmitOutcome{{Kind: "error"}, {Kind: "timeout"}, {Kind: "prefix", Prefix: 1}, {Kind: "acklost"}, {Kind: "mempool"}}[drng.Intn(5)]
		}
		daRng.Unlock()
		if fault {
			da.ScriptSubmit(o)
		}
		if d > 0 {
			time.Sleep(d)
		}
	}
	yield := func() {
		runtime.Gosched()
	}
	// finalize calls are checked against the chain height of the node that makes them
	var aggRef, fullRef atomic.Pointer[world.Node]
	var earlyMu sync.Mutex
	var earlyFinal []string
	heightFn := func(ref *atomic.Pointer[world.Node]) func() uint64 {
		return func() uint64 {
			if n := ref.Load(); n != nil {
				h, _ := n.Store.Height(context.Background())
				return h
			}
			return ^uint64(0)
		}
	}
	earlyFn := func(node string) func(h, chain uint64) {
		return func(h, chain uint64) {
			earlyMu.Lock()
			if len(earlyFinal) < 4 {
				earlyFinal = append(earlyFinal, fmt.Sprintf("%s: the execution layer was asked to finalize height %d while the chain height was %d", node, h, chain))
			}
			earlyMu.Unlock()
		}
	}
	// ---- aggregator
	aexec := world.NewExecDouble()
	if cfg.ExecDelayUs > 0 {
		var emu sync.Mutex
		erng := rand.New(rand.NewSource(cfg.Seed + 2))
		aexec.Delay = func(kind string) {
			if kind != "exec" {
				return
			}
			emu.Lock()
			d := time.Duration(erng.Intn(cfg.ExecDelayUs+1)) * time.Microsecond
			emu.Unlock()
			time.Sleep(d)
		}
	}
	aim := world.NewImage()
	ads := world.NewMemDS(aim)
	ads.Yield = yield
	metrics, _ := single.NopMetrics()
	seq, err := single.NewSequencerWithQueueSize(ctx, logging.Logger("verif-seq"), ads, da, []byte("verif-chain"), time.Second, metrics, true, 50)
	if err != nil {
		r.Violation("startup", err.Error(), cfg)
		return
	}
	proxy := &seqProxy{inner: seq, t: tr}
	var aggDA coreda.DA = &tracedDA{da, tr, "agg"}
	var crowded *mempoolDA
	if cfg.MempoolRun > 0 {
		crowded = newMempoolDA(&tracedDA{da, tr, "agg"}, cfg.MempoolRun, 2*cfg.DATime)
		aggDA = crowded
	}
	agg, err := world.NewNode(ctx, world.NodeOpts{Aggregator: true, Lazy: cfg.Lazy, BlockTime: cfg.BlockTime, DABlockTime: cfg.DATime, LazyInterval: 4 * cfg.BlockTime, MaxPending: cfg.MaxPending, GenesisTime: time.Now().Add(-time.Hour)},
		keys, ads, &tracedExec{aexec, tr, "agg", heightFn(&aggRef), earlyFn("aggregator")}, proxy, aggDA, nil)
	if err != nil {
		r.Violation("startup", err.Error(), cfg)
		return
	}
	aggRef.Store(agg)
	reaper := block.NewReaper(ctx, &tracedExec{ExecDouble: aexec, t: tr, node: "agg"}, proxy, "verif-chain", cfg.BlockTime, logging.Logger("verif-reaper"), ads)
	reaper.SetManager(agg.M)
	// ---- full node
	fexec := world.NewExecDouble()
	fim := world.NewImage()
	fds := world.NewMemDS(fim)
	fds.Yield = yield
	full, err := world.NewNode(ctx, world.NodeOpts{Aggregator: false, BlockTime: cfg.BlockTime, DABlockTime: cfg.DATime, DAStartHeight: 1, GenesisTime: agg.Opts.GenesisTime},
		keys, fds, &tracedExec{fexec, tr, "full", heightFn(&fullRef), earlyFn("full node")}, world.NewSeqDouble(), &tracedDA{da, tr, "full"}, nil)
	if err != nil {
		r.Violation("startup", err.Error(), cfg)
		return
	}
	fullRef.Store(full)
	// bridge: what the aggregator broadcasts reaches the full node's P2P stores as a fresh copy (as over the wire)
	var bridgeMu sync.Mutex
	pendingH := map[uint64]*types.SignedHeader{}
	pendingD := map[uint64]*types.Data{}
	nextH, nextD := uint64(1), uint64(1)
	agg.HB.Sink = func(h *types.SignedHeader) {
		b, err := h.MarshalBinary()
		if err != nil {
			return
		}
		c := new(types.SignedHeader)
		if c.UnmarshalBinary(b) != nil {
			return
		}
		bridgeMu.Lock()
		pendingH[c.Height()] = c
		for pendingH[nextH] != nil {
			full.HStore.Add(pendingH[nextH])
			delete(pendingH, nextH)
			nextH++
		}
		bridgeMu.Unlock()
		tr.point("bridge.header")
	}
	agg.DB.Sink = func(d *types.Data) {
		b, err := d.MarshalBinary()
		if err != nil || d.Metadata == nil {
			return
		}
		c := new(types.Data)
		if c.UnmarshalBinary(b) != nil {
			return
		}
		bridgeMu.Lock()
		pendingD[c.Metadata.Height] = c
		for pendingD[nextD] != nil {
			full.DStore.Add(pendingD[nextD])
			delete(pendingD, nextD)
			nextD++
		}
		bridgeMu.Unlock()
		tr.point("bridge.data")
	}
	errCh := make(chan error, 1) // as in node.FullNode.Run
	var loops loopSet
	loops.spawn("agg.AggregationLoop", func() { agg.M.AggregationLoop(ctx, errCh) })
	loops.spawn("agg.Reaper", func() { reaper.Start(ctx) })
	loops.spawn("agg.HeaderSubmissionLoop", func() { agg.M.HeaderSubmissionLoop(ctx) })
	loops.spawn("agg.DataSubmissionLoop", func() { agg.M.DataSubmissionLoop(ctx) })
	loops.spawn("agg.DAIncluderLoop", func() { agg.M.DAIncluderLoop(ctx, errCh) })
	loops.spawn("full.RetrieveLoop", func() { full.M.RetrieveLoop(ctx) })
	loops.spawn("full.HeaderStoreRetrieveLoop", func() { full.M.HeaderStoreRetrieveLoop(ctx) })
	loops.spawn("full.DataStoreRetrieveLoop", func() { full.M.DataStoreRetrieveLoop(ctx) })
	loops.spawn("full.SyncLoop", func() { full.M.SyncLoop(ctx, errCh) })
	loops.spawn("full.DAIncluderLoop", func() { full.M.DAIncluderLoop(ctx, errCh) })
	// mempool injector: unique payloads keep the run in the clean region of every known finding
	var injected atomic.Int64
	stopInject := make(chan struct{})
	go func() {
		i := 0
		for {
			select {
			case <-stopInject:
				return
			case <-ctx.Done():
				return
			default:
			}
			i++
			aexec.Inject([]byte(fmt.Sprintf("u%d-tx-%d", cfg.ID, i)))
			injected.Add(1)
			if cfg.Lazy || i%3 == 0 {
				time.Sleep(cfg.BlockTime / 3)
			}
			if aexec.MempoolLen() > 200 {
				time.Sleep(cfg.BlockTime)
			}
			if cfg.InjectGaps && i%25 == 0 {
				time.Sleep(5 * cfg.BlockTime)
			}
		}
	}()
	// observers: sample cross-loop invariants while everything runs
	var obsViol []string
	var obsMu sync.Mutex
	stopObs := make(chan struct{})
	go func() {
		var lastA, lastF, lastDA, lastDF uint64
		for {
			select {
			case <-stopObs:
				return
			default:
			}
			ha, _ := agg.Store.Height(ctx)
			hf, _ := full.Store.Height(ctx)
			dA, dF := agg.M.GetDAIncludedHeight(), full.M.GetDAIncludedHeight()
			// the DA-included heights were read first, the chain heights are read (again) afterwards: they only grow,
			// so a DA-included height above the later chain height was above the chain when it was read
			ha3, _ := agg.Store.Height(ctx)
			hf3, _ := full.Store.Height(ctx)
			r.Hit("live-da-included-below-height")
			if dA > ha3 || dF > hf3 {
				obsMu.Lock()
				if len(obsViol) < 4 {
					obsViol = append(obsViol, fmt.Sprintf("a DA-included height ran ahead of the chain while running: aggregator %d (chain height read afterwards %d), full node %d (chain height %d)", dA, ha3, dF, hf3))
				}
				obsMu.Unlock()
			}
			// (the observer reads only what the node's own activities and its helpers read concurrently: the atomic
			// DA-included height, the store, the caches behind IsDAIncluded; not the state copy, which inside the node is
			// touched by one goroutine only)
			_, _ = agg.M.IsDAIncluded(ctx, dA+1)
			_, _ = full.M.IsDAIncluded(ctx, dF+1)
			// the submission watermarks are read first, the chain height afterwards: the height only grows, so a
			// watermark above the later height was above the chain when it was read
			lh, ld, _, _ := agg.M.VerifWatermarks()
			ha2, _ := agg.Store.Height(ctx)
			r.Hit("live-watermarks-below-height")
			if lh > ha2 || ld > ha2 {
				obsMu.Lock()
				if len(obsViol) < 4 {
					obsViol = append(obsViol, fmt.Sprintf("a last-submitted watermark ran ahead of the chain while running: headers %d, data %d, chain height read afterwards %d", lh, ld, ha2))
				}
				obsMu.Unlock()
			}
			r.Hit("live-monotone")
			obsMu.Lock()
			if ha < lastA || hf < lastF {
				obsViol = append(obsViol, fmt.Sprintf("a chain height went down while running (agg %d->%d, full %d->%d)", lastA, ha, lastF, hf))
			}
			if dA < lastDA || dF < lastDF {
				obsViol = append(obsViol, "a DA-included height went down while running")
			}
			obsMu.Unlock()
			lastA, lastF, lastDA, lastDF = ha, hf, dA, dF
			time.Sleep(300 * time.Microsecond)
		}
	}()
	// run until the target height (generous wall-clock watchdog: firing is inconclusive)
	deadline := time.Now().Add(120 * time.Second)
	reached := false
	var earlyErr error
	for time.Now().Before(deadline) {
		if h, _ := agg.Store.Height(ctx); h >= cfg.Blocks {
			reached = true
			break
		}
		select {
		case earlyErr = <-errCh:
		default:
		}
		if earlyErr != nil {
			break
		}
		time.Sleep(time.Millisecond)
	}
	close(stopInject)
	// let the pipelines drain for a moment (a stopped node must be a consistent prefix anyway)
	if rng.Intn(2) == 0 {
		time.Sleep(10 * cfg.DATime)
	}
	close(stopObs)
	tCancel := time.Now()
	cancel()
	joined := loops.join(stopWatchdog)
	stopLatency := time.Since(tCancel)
	wit := func() any {
		nsig, nops, pairs := tr.signatures(6)
		return map[string]any{"config": cfg, "operations": nops, "distinct_windows": nsig, "overlap_pairs": len(pairs)}
	}
	if !joined {
		r.Violation("stop-promptly", fmt.Sprintf("loops still running %v after cancel with every dependency released: %v", stopWatchdog, loops.stillRunning()),
			map[string]any{"config": cfg, "goroutines_in_repo_code": goroutineDump()})
		return
	}
	r.Hit("stop-promptly")
	r.Count("stop_latency_ms_total", stopLatency.Milliseconds())
	if earlyErr != nil {
		r.Violation("loop-error", "a loop reported a fatal error while all loops ran concurrently: "+earlyErr.Error(), wit())
		return
	}
	if !reached {
		r.Inconclusive(fmt.Sprintf("universe %d did not reach %d blocks within the wall-clock watchdog", cfg.ID, cfg.Blocks))
		return
	}
	// ---- post-mortem invariants (single-threaded now)
	bg := context.Background()
	var viol []string
	obsMu.Lock()
	viol = append(viol, obsViol...)
	obsMu.Unlock()
	r.Hit("finalize-only-committed-blocks")
	earlyMu.Lock()
	viol = append(viol, earlyFinal...)
	earlyMu.Unlock()
	proxy.mu.Lock()
	released := append([]world.SeqResp(nil), proxy.released...)
	proxy.mu.Unlock()
	ex := monitors.ChainExpect{ChainID: "verif-chain", InitialHeight: 1, Pub: keys.Pub, Addr: keys.Addr,
		GenesisNano: uint64(agg.Opts.GenesisTime.UnixNano()), Responses: released, CheckExecLog: true, Execs: aexec.Execs()}
	ablocks, probs := monitors.CheckChain(bg, agg.Store, ex, r.Hit)
	// the response taken by a production step that the stop interrupted may be missing at the very end: only
	// complaints about the last released batch are attributed to the stop
	for _, p := range probs {
		viol = append(viol, "aggregator chain: "+p.String())
	}
	// W2 (prefix form)
	hf, _ := full.Store.Height(bg)
	ha, _ := agg.Store.Height(bg)
	r.Hit("full-prefix")
	if hf > ha {
		viol = append(viol, fmt.Sprintf("full node height %d beyond the aggregator's %d", hf, ha))
	}
	for _, b := range ablocks {
		if b.Height > hf {
			break
		}
		hdr, data, err := full.Store.GetBlockData(bg, b.Height)
		if err != nil {
			viol = append(viol, fmt.Sprintf("full node: block %d missing below its height %d", b.Height, hf))
			break
		}
		r.Hit("full-same-block")
		if !bytes.Equal(hdr.Hash(), b.HeaderHash) || len(data.Txs) != len(b.Txs) {
			viol = append(viol, fmt.Sprintf("full node: block %d differs from the aggregator's", b.Height))
			break
		}
	}
	if st, err := full.Store.GetState(bg); err == nil && hf >= 1 && int(hf) <= len(ablocks) {
		r.Hit("full-same-root")
		if st.LastBlockHeight != hf || !bytes.Equal(st.AppHash, ablocks[hf-1].Root) {
			viol = append(viol, fmt.Sprintf("full node state (height %d) does not match the aggregator's root after block %d", st.LastBlockHeight, hf))
		}
	}
	next := uint64(1)
	for _, c := range fexec.Execs() {
		if c.Err != "" {
			continue
		}
		r.Hit("full-exec-order")
		if c.Height != next {
			viol = append(viol, fmt.Sprintf("full node executed height %d while %d was next", c.Height, next))
			break
		}
		next++
	}
	// W3: everything on DA that decodes is the committed material, correctly signed
	hdrOn, dataOn := map[uint64]bool{}, map[uint64]bool{}
	for _, blobs := range da.AllBlobs() {
		for _, b := range blobs {
			h := new(types.SignedHeader)
			if err := h.UnmarshalBinary(b); err == nil && len(h.Signature) > 0 && h.Height() >= 1 && int(h.Height()) <= len(ablocks) && len(h.ProposerAddress) > 0 {
				r.Hit("da-blob-is-committed")
				if !bytes.Equal(h.Hash(), ablocks[h.Height()-1].HeaderHash) {
					viol = append(viol, fmt.Sprintf("a header blob on DA for height %d is not the committed header", h.Height()))
				}
				hdrOn[h.Height()] = true
				continue
			}
			var sd types.SignedData
			if err := sd.UnmarshalBinary(b); err == nil && sd.Metadata != nil && len(sd.Txs) > 0 && int(sd.Metadata.Height) <= len(ablocks) && sd.Metadata.Height >= 1 {
				r.Hit("da-blob-is-committed")
				want := ablocks[sd.Metadata.Height-1].Txs
				got := make([][]byte, len(sd.Txs))
				for i := range sd.Txs {
					got[i] = sd.Txs[i]
				}
				if !monitors.EqualTxs(got, want) {
					viol = append(viol, fmt.Sprintf("a data blob on DA for height %d is not the committed data", sd.Metadata.Height))
				}
				payload, _ := sd.Data.MarshalBinary()
				if ok, _ := keys.Pub.Verify(payload, sd.Signature); !ok {
					viol = append(viol, fmt.Sprintf("a data blob on DA for height %d does not verify under the proposer's key", sd.Metadata.Height))
				}
				dataOn[sd.Metadata.Height] = true
			}
		}
	}
	lh, ld, _, _ := agg.M.VerifWatermarks()
	r.Hit("watermark-sound")
	for h := uint64(1); h <= lh; h++ {
		if !hdrOn[h] {
			viol = append(viol, fmt.Sprintf("header watermark is %d but the header of %d is not on DA", lh, h))
			break
		}
	}
	for h := uint64(1); h <= ld && int(h) <= len(ablocks); h++ {
		if len(ablocks[h-1].Txs) > 0 && !dataOn[h] {
			viol = append(viol, fmt.Sprintf("data watermark is %d but the data of non-empty block %d is not on DA", ld, h))
			break
		}
	}
	// W4 on both nodes
	for _, nd := range []struct {
		name string
		ex   *world.ExecDouble
		n    *world.Node
	}{{"aggregator", aexec, agg}, {"full node", fexec, full}} {
		fin := nd.ex.Finals()
		for i, h := range fin {
			r.Hit("final-consecutive")
			if h != uint64(i+1) {
				viol = append(viol, fmt.Sprintf("%s: SetFinal sequence not consecutive: %v", nd.name, fin[:i+1]))
				break
			}
		}
		d := nd.n.M.GetDAIncludedHeight()
		hh, _ := nd.n.Store.Height(bg)
		r.Hit("da-included-sound")
		if d > hh {
			viol = append(viol, fmt.Sprintf("%s: DA-included height %d above chain height %d", nd.name, d, hh))
		}
		for h := uint64(1); h <= d && int(h) <= len(ablocks); h++ {
			if !hdrOn[h] || (len(ablocks[h-1].Txs) > 0 && !dataOn[h]) {
				viol = append(viol, fmt.Sprintf("%s: DA-included height %d but block %d is not completely on DA", nd.name, d, h))
				break
			}
		}
		if uint64(len(fin)) < d {
			viol = append(viol, fmt.Sprintf("%s: DA-included height %d but only %d heights were finalized", nd.name, d, len(fin)))
		}
	}
	if len(viol) > 0 {
		if len(viol) > 6 {
			viol = viol[:6]
		}
		r.Violation("invariants-under-concurrency", strings.Join(viol, " ;; "), wit())
	}
	nsig, nops, pairs := tr.signatures(6)
	r.Count("operations_traced", int64(nops))
	r.Count("blocks_committed", int64(ha))
	r.Count("full_node_blocks", int64(hf))
	r.Count("da_included_agg", int64(agg.M.GetDAIncludedHeight()))
	r.Count("da_included_full", int64(full.M.GetDAIncludedHeight()))
	r.Count("interleaving_windows_seen", int64(nsig))
	if crowded != nil {
		ph, pd := crowded.passed()
		r.HitN("submission-through-after-mempool-rejections", int64(ph+pd))
		r.Count("header_submissions_through_after_mempool_rejections", int64(ph))
		r.Count("data_submissions_through_after_mempool_rejections", int64(pd))
	}
	progressed := 0
	for _, n := range []int64{int64(ha), int64(hf), int64(lh), int64(ld), int64(agg.M.GetDAIncludedHeight()), int64(full.M.GetDAIncludedHeight())} {
		if n > 1 {
			progressed++
		}
	}
	for _, p := range pairs {
		r.Count("overlap:"+p, 1)
	}
	r.Eval(fmt.Sprintf("universe %d windows=%d", cfg.ID, nsig), progressed >= 3, map[string]any{"config": cfg, "operations": nops, "distinct_windows_of_6": nsig,
		"overlap_pairs": len(pairs), "agg_height": ha, "full_height": hf, "stop_latency_ms": stopLatency.Milliseconds()})
}
