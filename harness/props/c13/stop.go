package c13

import (
	"context"
	"fmt"
	"time"

	logging "github.com/ipfs/go-log/v2"

	"github.com/evstack/ev-node/block"
	"github.com/evstack/ev-node/sequencers/single"

	"verifharness/vk"
	"verifharness/world"
)

// StopCase is one "asked to stop at this logical position" scenario.
type StopCase struct {
	ID   int    `json:"id"`
	Kind string `json:"kind"`
	Node string `json:"node"`
	Lazy bool   `json:"lazy"`
}

var stopKinds = []StopCase{
	{Kind: "startup-delay", Node: "aggregator"},
	{Kind: "startup-delay", Node: "aggregator", Lazy: true},
	{Kind: "blocked-submit", Node: "aggregator"},
	{Kind: "blocked-exec", Node: "aggregator"},
	{Kind: "blocked-exec", Node: "fullnode"},
	{Kind: "full-header-channel-da", Node: "fullnode"},
	{Kind: "full-header-channel-p2p", Node: "fullnode"},
	{Kind: "full-data-channel-p2p", Node: "fullnode"},
	{Kind: "mid-scan", Node: "fullnode"},
	{Kind: "idle", Node: "aggregator"},
	{Kind: "idle", Node: "fullnode"},
	{Kind: "idle", Node: "aggregator", Lazy: true},
	// the DA client hangs inside a listing call of the scan
	{Kind: "blocked-retrieve", Node: "fullnode"},
	// the submission helper waits out a long back-off (not included in a block: DA block time x mempool TTL)
	{Kind: "submit-backoff", Node: "aggregator"},
	// all timers of the configuration are an hour long: nothing but the stop request can end a wait
	{Kind: "long-timers", Node: "aggregator"},
	{Kind: "long-timers", Node: "aggregator", Lazy: true},
	{Kind: "long-timers", Node: "fullnode"},
	// the sync loop (inside ExecuteTxs) and the inclusion loop (inside SetFinal) both fail when the node stops, and the
	// node's error channel holds one error
	{Kind: "exec-and-final-in-flight", Node: "fullnode"},
}

// runStop builds the situation, cancels, releases every double and requires every loop to return.
func runStop(r *vk.Run, c StopCase) {
	ctx, cancel := context.WithCancel(context.Background())
	defer cancel()
	keys := world.NewKeys("proposer")
	da := world.NewDADouble()
	exec := world.NewExecDouble()
	release := make(chan struct{})
	released := false
	doRelease := func() {
		if !released {
			released = true
			close(release)
		}
	}
	defer doRelease()
	var loops loopSet
	errCh := make(chan error, 1) // as in node.FullNode.Run
	opts := world.NodeOpts{Aggregator: c.Node == "aggregator", Lazy: c.Lazy, BlockTime: 5 * time.Millisecond, DABlockTime: 5 * time.Millisecond, LazyInterval: 20 * time.Millisecond, DAStartHeight: 1,
		GenesisTime: time.Now().Add(-time.Hour)}
	if c.Kind == "startup-delay" {
		opts.GenesisTime = time.Now().Add(time.Hour) // the production loop waits for the genesis time
	}
	if c.Kind == "submit-backoff" {
		opts.MempoolTTL = 1_000_000 // back-off after "not included in a block" = 5 ms x 1 000 000
	}
	if c.Kind == "long-timers" {
		opts.BlockTime, opts.DABlockTime, opts.LazyInterval = time.Hour, time.Hour, 2*time.Hour
	}
	if c.Kind == "blocked-retrieve" {
		da.BlockRetrieve.Store(true)
	}
	var p *world.Produced
	if c.Node == "fullnode" {
		// a small genuine chain to feed the full node
		spec := world.ChainSpec{Initial: 1, Blocks: [][][]byte{{[]byte("s-1")}, {[]byte("s-2")}, nil, {[]byte("s-3")}, {[]byte("s-4")}}}
		var err error
		p, err = world.ProduceChain(context.Background(), spec, keys)
		if err != nil {
			r.Inconclusive("the aggregator producing the reference chain failed (not this property's business): " + err.Error())
			return
		}
		opts.GenesisTime = world.GenesisTime
	}
	blockedIn := make(chan struct{}, 4)
	if c.Kind == "blocked-exec" || c.Kind == "full-header-channel-da" || c.Kind == "full-header-channel-p2p" || c.Kind == "full-data-channel-p2p" {
		exec.Delay = func(kind string) {
			if kind == "exec" {
				select {
				case blockedIn <- struct{}{}:
				default:
				}
				<-release
			}
		}
	}
	dsp := world.NewMemDS(world.NewImage())
	var n *world.Node
	var err error
	if c.Node == "aggregator" {
		metrics, _ := single.NopMetrics()
		seq, serr := single.NewSequencerWithQueueSize(ctx, logging.Logger("verif-seq"), dsp, da, []byte("verif-chain"), time.Second, metrics, true, 50)
		if serr != nil {
			r.Violation("startup", serr.Error(), c)
			return
		}
		n, err = world.NewNode(ctx, opts, keys, dsp, exec, seq, da, nil)
		if err != nil {
			r.Violation("startup", err.Error(), c)
			return
		}
		reaper := block.NewReaper(ctx, exec, seq, "verif-chain", opts.BlockTime, logging.Logger("verif-reaper"), dsp)
		reaper.SetManager(n.M)
		if c.Kind == "blocked-submit" {
			for i := 0; i < 4; i++ {
				da.ScriptSubmit(world.SubmitOutcome{Kind: "block"})
			}
		}
		if c.Kind == "submit-backoff" {
			da.SetDefaultSubmit("timeout")
		}
		loops.spawn("AggregationLoop", func() { n.M.AggregationLoop(ctx, errCh) })
		loops.spawn("Reaper", func() { reaper.Start(ctx) })
		loops.spawn("HeaderSubmissionLoop", func() { n.M.HeaderSubmissionLoop(ctx) })
		loops.spawn("DataSubmissionLoop", func() { n.M.DataSubmissionLoop(ctx) })
		loops.spawn("DAIncluderLoop", func() { n.M.DAIncluderLoop(ctx, errCh) })
		for i := 0; i < 5; i++ {
			exec.Inject([]byte(fmt.Sprintf("stop-%d-%d", c.ID, i)))
		}
	} else {
		da.AutoAdvance = false
		n, err = world.NewNode(ctx, opts, keys, dsp, exec, world.NewSeqDouble(), da, nil)
		if err != nil {
			r.Violation("startup", err.Error(), c)
			return
		}
		filler := world.EventChannelCapacity() + 50
		switch c.Kind {
		case "full-header-channel-da":
			// header and data of block 1, then far more copies of a genuine header than the event channel holds
			da.Place(1, p.HeaderBlob[0], p.HeaderBlob[1], p.DataBlob[1])
			many := make([][]byte, filler)
			for i := range many {
				many[i] = p.HeaderBlob[2]
			}
			da.Place(2, many...)
		case "full-header-channel-p2p":
			n.HStore.Add(p.Header(0))
			n.HStore.Add(p.Header(1))
			n.DStore.Add(p.Data(0))
			n.DStore.Add(p.Data(1))
			for i := 0; i < filler; i++ {
				n.HStore.Add(p.Header(2))
			}
		case "full-data-channel-p2p":
			n.HStore.Add(p.Header(0))
			n.HStore.Add(p.Header(1))
			n.DStore.Add(p.Data(0))
			n.DStore.Add(p.Data(1))
			for i := 0; i < filler; i++ {
				n.DStore.Add(p.Data(2))
			}
		case "mid-scan":
			for h := uint64(1); h <= 400; h++ {
				da.Place(h, p.HeaderBlob[int(h)%len(p.HeaderBlob)])
			}
			da.Delay = func(kind string) { time.Sleep(200 * time.Microsecond) }
		case "exec-and-final-in-flight":
			exec.BlockFinal(true)
			da.Place(1, p.HeaderBlob[0], p.HeaderBlob[1], p.DataBlob[1])
			da.Place(2, p.HeaderBlob[2], p.DataBlob[2], p.HeaderBlob[3])
		case "blocked-exec":
			da.Place(1, p.HeaderBlob[0], p.HeaderBlob[1], p.DataBlob[1])
		default:
			da.Place(1, p.HeaderBlob[0])
		}
		loops.spawn("RetrieveLoop", func() { n.M.RetrieveLoop(ctx) })
		loops.spawn("HeaderStoreRetrieveLoop", func() { n.M.HeaderStoreRetrieveLoop(ctx) })
		loops.spawn("DataStoreRetrieveLoop", func() { n.M.DataStoreRetrieveLoop(ctx) })
		loops.spawn("SyncLoop", func() { n.M.SyncLoop(ctx, errCh) })
		loops.spawn("DAIncluderLoop", func() { n.M.DAIncluderLoop(ctx, errCh) })
	}
	// reach the logical position
	reachedPos := true
	switch c.Kind {
	case "startup-delay", "idle":
		time.Sleep(60 * time.Millisecond)
	case "blocked-submit":
		reachedPos = waitFor(20*time.Second, func() bool {
			for _, dc := range da.Calls() {
				if dc.Kind == "submit" && dc.Outcome == "block" {
					return true
				}
			}
			return false
		})
	case "blocked-exec":
		select {
		case <-blockedIn:
		case <-time.After(20 * time.Second):
			reachedPos = false
		}
	case "full-header-channel-da", "full-header-channel-p2p":
		reachedPos = waitFor(60*time.Second, func() bool { return len(n.M.VerifHeaderInCh()) == world.EventChannelCapacity() })
	case "full-data-channel-p2p":
		reachedPos = waitFor(60*time.Second, func() bool { return len(n.M.VerifDataInCh()) == world.EventChannelCapacity() })
	case "mid-scan":
		reachedPos = waitFor(20*time.Second, func() bool { return n.M.VerifDAHeight() > 50 })
	case "exec-and-final-in-flight":
		// first the finalization hangs (blocks keep being applied), then execution hangs too
		reachedPos = waitFor(20*time.Second, func() bool { _, f := exec.InFlight(); return f > 0 })
		if reachedPos {
			exec.BlockCalls(true)
			da.Place(3, p.HeaderBlob[4], p.DataBlob[4])
			da.SetHeight(3)
			n.M.VerifSignal("retrieve")
			reachedPos = waitFor(20*time.Second, func() bool { e, f := exec.InFlight(); return e > 0 && f > 0 })
		}
	case "blocked-retrieve":
		reachedPos = waitFor(20*time.Second, func() bool { return da.RetrieveInFlight() > 0 })
	case "submit-backoff":
		reachedPos = waitFor(20*time.Second, func() bool { return da.SubmitCalls() > 0 })
		time.Sleep(30 * time.Millisecond) // the helper is now waiting out its back-off
	case "long-timers":
		time.Sleep(80 * time.Millisecond)
	}
	if !reachedPos {
		r.Inconclusive(fmt.Sprintf("stop scenario %s/%s: the logical position was not reached", c.Kind, c.Node))
		cancel()
		doRelease()
		loops.join(stopWatchdog)
		return
	}
	// ask the node to stop, then release every double: nothing outside the node holds a loop back any more
	cancel()
	doRelease()
	r.Hit("stop-scenario")
	if !loops.join(stopWatchdog) {
		r.Violation("stop-promptly", fmt.Sprintf("scenario %s on the %s: %v after the stop request, with every dependency released, these loops have not returned: %v", c.Kind, c.Node, stopWatchdog, loops.stillRunning()),
			map[string]any{"case": c, "goroutines_in_repo_code": goroutineDump()})
	}
	r.Eval(fmt.Sprintf("stop %s %s lazy=%v", c.Kind, c.Node, c.Lazy), true, c)
}

func waitFor(d time.Duration, cond func() bool) bool {
	deadline := time.Now().Add(d)
	for time.Now().Before(deadline) {
		if cond() {
			return true
		}
		time.Sleep(time.Millisecond)
	}
	return false
}
