package c13

// Fresh full nodes whose two ingress paths - the DA scan and the P2P store loops - meet their FIRST items at the same
// moment: everything a loop sets up lazily on its first header or data (a remembered key, a memoised value, a lazily
// built table) is touched by two goroutines here. Under the race detector an unsynchronised first-use shows as a data
// race; the convergence oracle judges the outcome.

import (
	"context"
	"fmt"
	"sync"

	"verifharness/monitors"
	"verifharness/vk"
	"verifharness/world"
)

func runFirstItems(r *vk.Run, rounds int) {
	ctx := context.Background()
	keys := world.NewKeys("proposer")
	for i := 0; i < rounds; i++ {
		spec := world.ChainSpec{Initial: 1}
		for b := 0; b < 3; b++ {
			spec.Blocks = append(spec.Blocks, [][]byte{[]byte(fmt.Sprintf("c13fi-%d-%d", i, b))})
		}
		p, err := world.ProduceChain(ctx, spec, keys)
		if err != nil {
			r.Inconclusive("first-items round: the reference chain could not be produced: " + err.Error())
			return
		}
		f, err := world.NewFN(ctx, p, "")
		if err != nil {
			r.Inconclusive("first-items round: the full node did not start: " + err.Error())
			return
		}
		// the whole chain is in the P2P stores and on the DA layer before either loop has looked
		if err := f.Do(world.Action{Kind: "p2p-h+", I: len(p.Heights) - 1}); err == nil {
			err = f.Do(world.Action{Kind: "p2p-d+", I: len(p.Heights) - 1})
		}
		if err != nil {
			f.L.Stop()
			r.Inconclusive("first-items round: " + err.Error())
			return
		}
		var blobs [][]byte
		for k := range p.Heights {
			blobs = append(blobs, p.HeaderBlob[k])
			if p.DataBlob[k] != nil {
				blobs = append(blobs, p.DataBlob[k])
			}
		}
		f.DA.Place(1, blobs...)
		f.DA.SetHeight(1)
		// both paths are ticked from two goroutines released together
		var wg sync.WaitGroup
		start := make(chan struct{})
		errs := make([]error, 2)
		wg.Add(2)
		go func() { defer wg.Done(); <-start; errs[0] = f.L.RetrieveUntilIdle(f.DA, 2) }()
		go func() { defer wg.Done(); <-start; errs[1] = f.Do(world.Action{Kind: "p2p-tick"}) }()
		close(start)
		wg.Wait()
		for _, e := range errs {
			if e != nil && err == nil {
				err = e
			}
		}
		if err == nil {
			err = f.L.SyncBarrier()
		}
		if err != nil {
			f.L.Stop()
			if err == world.ErrWatchdog {
				r.Inconclusive("first-items round: watchdog")
				return
			}
			r.Violation("invariants-under-concurrency", fmt.Sprintf("first-items round %d: a fresh full node whose DA scan and P2P store loops met their first items together: %v", i, err), map[string]any{"first_items_round": i})
			return
		}
		r.Hit("first-items-both-ingress-paths-at-once")
		if _, probs := monitors.CheckFullNode(ctx, f, 0, true, r.Hit); len(probs) > 0 {
			f.L.Stop()
			r.Violation("invariants-under-concurrency", fmt.Sprintf("first-items round %d: %s", i, probs[0].String()), map[string]any{"first_items_round": i})
			return
		}
		f.L.Stop()
	}
}
