package c12

// Decoded values are values too: what a decoder hands out must stay equal to what was encoded - with the same
// encoding and the same hash - whatever the caller then does with ONE of its byte-string fields or with the buffer
// the bytes came from. By Go's rules `append(v.DataHash, suffix...)` never changes v.DataHash nor anything else of
// v, and writing into v.DataHash changes v.DataHash only. A decoder that carves several fields out of one
// allocation without capping them, or that lets a field point into the input buffer, breaks that: the value read
// from the store, the DA layer, a peer or a cache file silently becomes another one (another hash, a signature that
// no longer verifies) after a write that never touched the fields in question.
//
// For every decoded value and every byte-string field f of it, one at a time:
//
//	append   the spare capacity of f (f[len:cap], where an append of up to cap-len bytes lands) is filled: every
//	         field, the re-encoding and the hashes of the value are what they were;
//	write    f is overwritten in place: every OTHER field is what it was; after f is put back, so are the
//	         re-encoding and the hashes;
//	input    (UnmarshalBinary / batch decoder only) the caller overwrites the buffer it passed in: nothing changes.
//
// Nothing is demanded of how fields are allocated (one buffer with capped windows is fine) and nothing of what the
// field written to reads afterwards.

import (
	"bytes"
	"context"
	"fmt"
	"math/rand"
	"os"

	"google.golang.org/protobuf/proto"

	"github.com/evstack/ev-node/block"
	"github.com/evstack/ev-node/pkg/store"
	"github.com/evstack/ev-node/types"
	pb "github.com/evstack/ev-node/types/pb/evnode/v1"

	"verifharness/vk"
	"verifharness/world"
)

const clauseDecoded = "decoded-fields-independent"

// bfield is one byte-string field of a decoded value.
type bfield struct {
	name string
	get  func() []byte
}

func bf[T ~[]byte](name string, p *T) bfield {
	return bfield{name, func() []byte { return []byte(*p) }}
}

// decodedValue is a value some decoder returned, with accessors to its byte-string fields and to what it reports.
type decodedValue struct {
	typ, path string
	fields    []bfield
	// observe returns named observations of the whole value: its re-encoding(s) and hashes.
	observe func() []namedBytes
	// input is the buffer the caller handed to the decoder (nil where the caller never sees one).
	input []byte
}

type namedBytes struct {
	name string
	b    []byte
}

func headerFields(p string, h *types.Header) []bfield {
	return []bfield{
		bf(p+"LastHeaderHash", &h.LastHeaderHash), bf(p+"LastCommitHash", &h.LastCommitHash), bf(p+"DataHash", &h.DataHash),
		bf(p+"ConsensusHash", &h.ConsensusHash), bf(p+"AppHash", &h.AppHash), bf(p+"LastResultsHash", &h.LastResultsHash),
		bf(p+"ProposerAddress", &h.ProposerAddress), bf(p+"ValidatorHash", &h.ValidatorHash),
	}
}

func dataFields(p string, d *types.Data) []bfield {
	var out []bfield
	if d.Metadata != nil {
		out = append(out, bf(p+"Metadata.LastDataHash", &d.Metadata.LastDataHash))
	}
	for i := range d.Txs {
		if i >= 6 && i < len(d.Txs)-2 { // the first six and the last two: neighbours of every kind
			continue
		}
		out = append(out, bf(fmt.Sprintf("%sTxs[%d]", p, i), &d.Txs[i]))
	}
	return out
}

func mustBytes(b []byte, err error) []byte {
	if err != nil {
		return []byte("error: " + err.Error())
	}
	return b
}

func dvHeader(path string, h *types.Header, input []byte) decodedValue {
	return decodedValue{typ: "Header", path: path, fields: headerFields("", h), input: input, observe: func() []namedBytes {
		return []namedBytes{{"MarshalBinary()", mustBytes(h.MarshalBinary())}, {"Hash()", h.Hash()}}
	}}
}

func dvSignedHeader(path string, sh *types.SignedHeader, input []byte) decodedValue {
	f := headerFields("Header.", &sh.Header)
	f = append(f, bf("Signature", &sh.Signature), bf("Signer.Address", &sh.Signer.Address))
	return decodedValue{typ: "SignedHeader", path: path, fields: f, input: input, observe: func() []namedBytes {
		return []namedBytes{{"MarshalBinary()", mustBytes(sh.MarshalBinary())}, {"Hash()", sh.Hash()}, {"Header.MarshalBinary()", mustBytes(sh.Header.MarshalBinary())}}
	}}
}

func dvData(path string, d *types.Data, input []byte) decodedValue {
	return decodedValue{typ: "Data", path: path, fields: dataFields("", d), input: input, observe: func() []namedBytes {
		return []namedBytes{{"MarshalBinary()", mustBytes(d.MarshalBinary())}, {"Hash()", d.Hash()}, {"DACommitment()", d.DACommitment()}}
	}}
}

func dvSignedData(path string, sd *types.SignedData, input []byte) decodedValue {
	f := dataFields("Data.", &sd.Data)
	f = append(f, bf("Signature", &sd.Signature), bf("Signer.Address", &sd.Signer.Address))
	return decodedValue{typ: "SignedData", path: path, fields: f, input: input, observe: func() []namedBytes {
		return []namedBytes{{"MarshalBinary()", mustBytes(sd.MarshalBinary())}, {"Hash()", sd.Hash()}, {"DACommitment()", sd.DACommitment()}}
	}}
}

func dvMetadata(path string, m *types.Metadata, input []byte) decodedValue {
	return decodedValue{typ: "Metadata", path: path, fields: []bfield{bf("LastDataHash", &m.LastDataHash)}, input: input, observe: func() []namedBytes {
		return []namedBytes{{"MarshalBinary()", mustBytes(m.MarshalBinary())}}
	}}
}

func dvState(path string, s *types.State) decodedValue {
	return decodedValue{typ: "State", path: path, fields: []bfield{bf("LastResultsHash", &s.LastResultsHash), bf("AppHash", &s.AppHash)}, observe: func() []namedBytes {
		p, err := s.ToProto()
		if err != nil {
			return []namedBytes{{"ToProto()", []byte("error: " + err.Error())}}
		}
		return []namedBytes{{"proto.Marshal(ToProto())", mustBytes(proto.Marshal(p))}}
	}}
}

func dvBatch(path string, list [][]byte, input []byte) decodedValue {
	var f []bfield
	for i := range list {
		if i >= 6 && i < len(list)-2 {
			continue
		}
		f = append(f, bf(fmt.Sprintf("[%d]", i), &list[i]))
	}
	return decodedValue{typ: "batch-cursor list", path: path, fields: f, input: input, observe: func() []namedBytes {
		return []namedBytes{{"re-encoding", block.VerifBatchDataToBytes(list)}}
	}}
}

// snapshot of a decoded value: a private copy of every field and of every observation.
type dvSnap struct {
	fields [][]byte
	obs    []namedBytes
}

func (v *decodedValue) snap() dvSnap {
	s := dvSnap{}
	for _, f := range v.fields {
		s.fields = append(s.fields, bytes.Clone(f.get()))
	}
	for _, o := range v.observe() {
		s.obs = append(s.obs, namedBytes{o.name, bytes.Clone(o.b)})
	}
	return s
}

// diff lists what differs between two snapshots; skipField < 0 compares everything, otherwise that field and the
// observations (which legitimately depend on it) are left out.
func (v *decodedValue) diff(base, now dvSnap, skipField int) []string {
	var out []string
	for i := range base.fields {
		if i != skipField && !bytes.Equal(base.fields[i], now.fields[i]) {
			out = append(out, fmt.Sprintf("%s: %s became %s", v.fields[i].name, hexS(base.fields[i]), hexS(now.fields[i])))
		}
	}
	if skipField < 0 {
		for i := range base.obs {
			if i < len(now.obs) && !bytes.Equal(base.obs[i].b, now.obs[i].b) {
				out = append(out, fmt.Sprintf("%s: %s became %s", base.obs[i].name, hexS(base.obs[i].b), hexS(now.obs[i].b)))
			}
		}
	}
	return out
}

// probeDecoded runs the three caller writes against one decoded value. It reports the first problem only.
func probeDecoded(r *vk.Run, c caseInfo, v decodedValue) {
	fail := func(what string, d []string) {
		violation(r, clauseDecoded, fmt.Sprintf("%s via %s: %s, and the decoded value changed where the caller did not write: %v", v.typ, v.path, what, d),
			map[string]any{"case": c, "type": v.typ, "path": v.path, "changed": d,
				"rebuild": "value = generator of props/c12 (gen.go) run on rand.NewSource(case_seed) for the given kind; the fixed cases are the 'rich' values of reuse.go"})
	}
	base := v.snap()
	if v.input != nil {
		for i := range v.input {
			v.input[i] ^= 0xA5
		}
		if d := v.diff(base, v.snap(), -1); len(d) > 0 {
			fail("the caller overwrote the buffer it had passed to the decoder", d)
			return
		}
		r.Hit(clauseDecoded)
		r.Count("decoded-probe:input-buffer", 1)
	}
	for i, f := range v.fields {
		b := f.get()
		if spare := cap(b) - len(b); spare > 0 {
			fill := bytes.Repeat([]byte{0xA5}, spare)
			_ = append(b, fill...) // lands in b[len:cap]; b itself, and everything else, is by Go's rules untouched
			if d := v.diff(base, v.snap(), -1); len(d) > 0 {
				fail(fmt.Sprintf("the caller appended %d bytes to field %s (len %d, cap %d) and dropped the result", spare, f.name, len(b), cap(b)), d)
				return
			}
			r.Count("decoded-probe:append", 1)
		}
		if len(b) > 0 {
			for k := range b {
				b[k] ^= 0xA5
			}
			if d := v.diff(base, v.snap(), i); len(d) > 0 {
				fail(fmt.Sprintf("the caller overwrote field %s (%d bytes) in place", f.name, len(b)), d)
				return
			}
			for k := range b {
				b[k] ^= 0xA5
			}
			if d := v.diff(base, v.snap(), -1); len(d) > 0 {
				fail(fmt.Sprintf("the caller overwrote field %s in place and wrote the old bytes back", f.name), d)
				return
			}
			r.Count("decoded-probe:overwrite", 1)
		}
		r.Hit(clauseDecoded)
	}
}

// decodeEverywhere sends one block (signed header + data), one signed data, one state, one metadata and one batch
// list through every decoding path and returns what came out. Paths that fail are left out: the round-trip clauses
// run the same paths and report the reason.
func decodeEverywhere(ctx context.Context, dir string, sh SignedHeaderSpec, d DataSpec, sd SignedDataSpec, st StateSpec, batch [][]byte) []decodedValue {
	var out []decodedValue
	rh, rd := sh.Real(), d.Real()

	// ---- signed header
	if bz, err := rh.MarshalBinary(); err == nil {
		in := bytes.Clone(bz)
		if v := new(types.SignedHeader); v.UnmarshalBinary(in) == nil {
			out = append(out, dvSignedHeader("UnmarshalBinary", v, in))
		}
		in = bytes.Clone(bz)
		if u := usedSignedHeader(); u != nil && u.UnmarshalBinary(in) == nil {
			out = append(out, dvSignedHeader("UnmarshalBinary into a used receiver", u, in))
		}
		var q pb.SignedHeader
		if v := new(types.SignedHeader); proto.Unmarshal(bz, &q) == nil && v.FromProto(&q) == nil {
			out = append(out, dvSignedHeader("proto.Unmarshal + FromProto (DA blob)", v, nil))
		}
	}
	// ---- header alone
	if bz, err := rh.Header.MarshalBinary(); err == nil {
		in := bytes.Clone(bz)
		if v := new(types.Header); v.UnmarshalBinary(in) == nil {
			out = append(out, dvHeader("UnmarshalBinary", v, in))
		}
		var q pb.Header
		if v := new(types.Header); proto.Unmarshal(bz, &q) == nil && v.FromProto(&q) == nil {
			out = append(out, dvHeader("proto.Unmarshal + FromProto", v, nil))
		}
	}
	// ---- data
	if bz, err := rd.MarshalBinary(); err == nil {
		in := bytes.Clone(bz)
		if v := new(types.Data); v.UnmarshalBinary(in) == nil {
			out = append(out, dvData("UnmarshalBinary", v, in))
		}
		in = bytes.Clone(bz)
		if u := usedData(); u != nil && u.UnmarshalBinary(in) == nil {
			out = append(out, dvData("UnmarshalBinary into a used receiver", u, in))
		}
	}
	if d.Meta != nil {
		if bz, err := d.Meta.Real().MarshalBinary(); err == nil {
			in := bytes.Clone(bz)
			if v := new(types.Metadata); v.UnmarshalBinary(in) == nil {
				out = append(out, dvMetadata("UnmarshalBinary", v, in))
			}
		}
	}
	// ---- block store
	func() {
		s := store.New(world.NewMemDS(world.NewImage()))
		sig := rh.Signature
		if s.SaveBlockData(ctx, rh, rd, &sig) != nil {
			return
		}
		if h2, d2, err := s.GetBlockData(ctx, rh.Height()); err == nil {
			out = append(out, dvSignedHeader("store GetBlockData", h2, nil), dvData("store GetBlockData", d2, nil))
		}
		if h3, err := s.GetHeader(ctx, rh.Height()); err == nil {
			out = append(out, dvSignedHeader("store GetHeader", h3, nil))
		}
		if h4, d4, err := s.GetBlockByHash(ctx, refHeaderHash(sh.Header)); err == nil {
			out = append(out, dvSignedHeader("store GetBlockByHash", h4, nil), dvData("store GetBlockByHash", d4, nil))
		}
	}()
	// ---- cache files
	if hOut, dOut, _, err := gobRound(dir, []uint64{7}, []*types.SignedHeader{rh}, []*types.Data{rd}, nil); err == nil {
		if hOut[0] != nil {
			out = append(out, dvSignedHeader("cache file (gob)", hOut[0], nil))
		}
		if dOut[0] != nil {
			out = append(out, dvData("cache file (gob)", dOut[0], nil))
		}
	}
	// ---- signed data
	if bz, err := sd.Real().MarshalBinary(); err == nil {
		in := bytes.Clone(bz)
		if v := new(types.SignedData); v.UnmarshalBinary(in) == nil {
			out = append(out, dvSignedData("UnmarshalBinary (DA blob)", v, in))
		}
		in = bytes.Clone(bz)
		if u := usedSignedData(); u != nil && u.UnmarshalBinary(in) == nil {
			out = append(out, dvSignedData("UnmarshalBinary into a used receiver", u, in))
		}
	}
	// ---- state
	real := st.Real()
	if p, err := real.ToProto(); err == nil {
		if bz, err := proto.Marshal(p); err == nil {
			if v, err := decodeState(bz); err == nil {
				out = append(out, dvState("proto.Unmarshal + FromProto", v))
			}
			var q pb.State
			if u := usedState(); u != nil && proto.Unmarshal(bz, &q) == nil && u.FromProto(&q) == nil {
				out = append(out, dvState("proto.Unmarshal + FromProto into a used receiver", u))
			}
		}
	}
	func() {
		s := store.New(world.NewMemDS(world.NewImage()))
		if s.UpdateState(ctx, real) != nil {
			return
		}
		if v, err := s.GetState(ctx); err == nil {
			out = append(out, dvState("store GetState", &v))
		}
	}()
	// ---- batch-cursor list
	in := bytes.Clone(block.VerifBatchDataToBytes(batch))
	if list, err := block.VerifBytesToBatchData(in); err == nil {
		out = append(out, dvBatch("codec", list, in))
	}
	return out
}

// decodedIndependence: the fixed fully populated values and n generated ones.
func decodedIndependence(ctx context.Context, r *vk.Run, n int) {
	r.Require(clauseDecoded, int64(40*(n+1)))
	dir := world.TempDir(vk.Root(), "C12-decoded-*")
	defer os.RemoveAll(dir)
	run := func(c caseInfo, sh SignedHeaderSpec, d DataSpec, sd SignedDataSpec, st StateSpec, batch [][]byte) {
		defer func() {
			if p := recover(); p != nil {
				violation(r, "no-panic", fmt.Sprintf("panic while decoding a generated value or re-encoding a decoded one: %v", p), map[string]any{"case": c})
			}
		}()
		for _, v := range decodeEverywhere(ctx, dir, sh, d, sd, st, batch) {
			probeDecoded(r, c, v)
			r.Count("decoded-path:"+v.typ+"/"+v.path, 1)
		}
	}
	run(caseInfo{ID: -1, Kind: "fixed fully populated values"},
		SignedHeaderSpec{Header: richHeaderSpec(), Signature: pat(64, "dec-sig"), Signer: signerOf(2)}, richDataSpec(),
		SignedDataSpec{Data: richDataSpec(), Signature: pat(64, "dec-dsig"), Signer: signerOf(1)},
		StateSpec{VBlock: 1, VApp: 2, ChainID: "dec-chain", InitialHeight: 1, LastBlockHeight: 9, Sec: 1_700_000_000, DAHeight: 3, LastResultsHash: pat(32, "dec-lrh"), AppHash: pat(32, "dec-ah")},
		[][]byte{pat(40, "dec-id-1"), pat(40, "dec-id-2"), pat(3, "dec-id-3")})
	rng := r.Rand("decoded-independence")
	for i := 0; i < n; i++ {
		c := caseInfo{ID: i, Seed: rng.Int63(), Kind: "decoded-independence"}
		g := &G{rng: rand.New(rand.NewSource(c.Seed)), small: i%4 != 0}
		sh, d := g.linkedBlock()
		run(c, sh, d, g.signedData(), g.state(), g.batch())
	}
}
