package c12

// Trigger region of finding C12-address-without-key: a Signer with an Address but no PubKey
// (the shape block/manager.go getInitialState stores for the locally built genesis header of a
// full node, signer == nil). Predicted failure shape: after any path the decoded Signer.Address
// is empty and EVERYTHING else (all other fields, hash, commitment, and the bytes written, which
// equal the reference encoding of the same value without the address) is as it should be.
// A failure of any other shape in this region is an ordinary violation.

import (
	"bytes"
	"context"
	"encoding/hex"
	"fmt"
	"math/rand"
	"os"

	"github.com/evstack/ev-node/types"

	"verifharness/vk"
	"verifharness/world"
)

const findingID = "C12-address-without-key"

func findingRegion(ctx context.Context, r *vk.Run, n int) {
	rng := r.Rand("finding-address-without-key")
	dir := world.TempDir(vk.Root(), "C12-find-*")
	defer os.RemoveAll(dir)
	reproduced, clean := 0, 0
	observeFullNodeGenesis(ctx, r)
	for i := 0; i < n; i++ {
		c := caseInfo{ID: i, Seed: rng.Int63(), Kind: "address-without-key"}
		g := &G{rng: rand.New(rand.NewSource(c.Seed))}
		j := &judge{r: r, c: c}
		var addr []byte
		switch g.rng.Intn(4) {
		case 0:
			addr = keyPool()[0].Addr // the genesis proposer address of the harness's worlds
		case 1:
			addr = []byte{1}
		default:
			addr = g.rnd(1 + g.rng.Intn(40))
		}
		if i == 0 {
			addr = []byte{1}
		}
		if i%2 == 0 {
			// exactly what a full node builds locally: genesis header, no signature, no key
			sh := SignedHeaderSpec{Header: g.header(), Signer: SignerSpec{Addr: addr}}
			if i == 0 { // the smallest instance: zero header, one-byte address
				sh.Header = HeaderSpec{}
			} else if i%4 == 0 {
				sh.Header = HeaderSpec{VBlock: 11, Height: 1, Time: 1_700_000_000_000_000_000, ChainID: "verif-chain", DataHash: refCommitment(nil), ProposerAddress: addr}
			} else {
				sh.Signature = g.hash()
			}
			r.Eval("SignedHeader:"+hex.EncodeToString(sha(refSignedHeader(sh))), true, nil)
			expect := sh
			expect.Signer.Addr = nil
			refHash := refHeaderHash(sh.Header)
			real := sh.Real()
			obs := signedHeaderWirePaths(real)
			so := storePath(ctx, real, DataSpec{}.Real(), refHash)
			if so.Err != nil {
				j.viol("roundtrip", "SignedHeader", "store", so.Err.Error(), showSignedHeader(sh), nil)
				continue
			}
			obs = append(obs, so.ByHeight, so.HeaderOnly, so.ByHash)
			hOut, _, _, err := gobRound(dir, []uint64{uint64(i)}, []*types.SignedHeader{real}, []*types.Data{nil}, nil)
			if err != nil {
				j.viol("roundtrip", "SignedHeader", "gob", err.Error(), showSignedHeader(sh), nil)
				continue
			}
			obs = append(obs, obsSH("gob", nil, hOut[0]))
			for _, o := range obs {
				if o.Err != nil {
					j.viol("roundtrip", "SignedHeader", o.Path, "encode/decode failed: "+o.Err.Error(), showSignedHeader(sh), o.Enc)
					continue
				}
				if !bytes.Equal(o.Hash, refHash) {
					j.viol("same-hash", "SignedHeader", o.Path, fmt.Sprintf("Hash() %x, reference %x", o.Hash, refHash), showSignedHeader(sh), o.Enc)
					continue
				}
				if d := diffSignedHeader(sh, o.Got); len(d) == 0 {
					clean++
					r.Hit("roundtrip")
					continue
				}
				if d := diffSignedHeader(expect, o.Got); len(d) > 0 || (o.Enc != nil && !bytes.Equal(o.Enc, refSignedHeader(expect))) {
					j.viol("roundtrip", "SignedHeader", o.Path, "trigger region of "+findingID+" but not its shape: besides the address "+fmt.Sprint(d), showSignedHeader(sh), o.Enc)
					continue
				}
				reproduced++
				r.Finding(findingID, "roundtrip", fmt.Sprintf("SignedHeader with Signer{PubKey:nil, Address:%s} via %s: decoded Signer.Address is empty, every other field, the hash and the bytes are as expected (written %s, faithful encoding %s)", hexS(addr), o.Path, shortHex(o.Enc), shortHex(refSignedHeader(sh))),
					map[string]any{"case": c, "value": showSignedHeader(sh), "path": o.Path, "encoded_hex": encHex(o.Enc), "reference_hex": encHex(refSignedHeader(sh))})
			}
		} else {
			sd := SignedDataSpec{Data: g.data(), Signature: g.hash(), Signer: SignerSpec{Addr: addr}}
			r.Eval("SignedData:"+hex.EncodeToString(sha(refSignedData(sd))), true, nil)
			expect := sd
			expect.Signer.Addr = nil
			o := signedDataPath(sd.Real())
			if o.Err != nil {
				j.viol("roundtrip", "SignedData", o.Path, "encode/decode failed: "+o.Err.Error(), showSignedData(sd), o.Enc)
				continue
			}
			if !bytes.Equal(o.Hash, refDataHash(sd.Data)) || !bytes.Equal(o.Commit, refCommitment(sd.Data.Txs)) {
				j.viol("same-hash", "SignedData", o.Path, "hash or commitment changed", showSignedData(sd), o.Enc)
				continue
			}
			if d := diffSignedData(sd, o.Got); len(d) == 0 {
				clean++
				r.Hit("roundtrip")
				continue
			}
			if d := diffSignedData(expect, o.Got); len(d) > 0 || !bytes.Equal(o.Enc, refSignedData(expect)) {
				j.viol("roundtrip", "SignedData", o.Path, "trigger region of "+findingID+" but not its shape: besides the address "+fmt.Sprint(d), showSignedData(sd), o.Enc)
				continue
			}
			reproduced++
			r.Finding(findingID, "roundtrip", fmt.Sprintf("SignedData with Signer{PubKey:nil, Address:%s} via %s: decoded Signer.Address is empty, everything else as expected", hexS(addr), o.Path),
				map[string]any{"case": c, "value": showSignedData(sd), "path": o.Path, "encoded_hex": encHex(o.Enc), "reference_hex": encHex(refSignedData(sd))})
		}
	}
	r.Count("finding_region_paths_reproduced", int64(reproduced))
	r.Count("finding_region_paths_round_tripped", int64(clean))
}

func shortHex(b []byte) string {
	if b == nil {
		return "(not observable on this path)"
	}
	if len(b) > 48 {
		return hex.EncodeToString(b[:48]) + "…"
	}
	return hex.EncodeToString(b)
}

// observeFullNodeGenesis starts a real non-aggregator Manager on an empty store and records what
// it stored as its local genesis header: the place where the trigger shape arises in the node.
func observeFullNodeGenesis(ctx context.Context, r *vk.Run) {
	defer func() {
		if p := recover(); p != nil {
			r.Inconclusive(fmt.Sprintf("observation of a full node's genesis header panicked: %v", p))
		}
	}()
	keys := world.NewKeys("proposer")
	n, err := world.NewNode(ctx, world.NodeOpts{Aggregator: false}, keys, world.NewMemDS(world.NewImage()), world.NewExecDouble(), world.NewSeqDouble(), world.NewDADouble(), nil)
	if err != nil {
		r.Inconclusive("observation of a full node's genesis header: node did not start: " + err.Error())
		return
	}
	h, _, err := n.Store.GetBlockData(ctx, 1)
	if err != nil {
		r.Inconclusive("observation of a full node's genesis header: " + err.Error())
		return
	}
	r.Set("observation_full_node_genesis_header", map[string]any{
		"built_by":                   "block/manager.go getInitialState with signer == nil: Signer{PubKey: nil, Address: genesis.ProposerAddress}",
		"genesis_proposer_address":   hexS(n.Genesis.ProposerAddress),
		"stored_header_proposer":     hexS(h.ProposerAddress),
		"stored_signer_address":      hexS(h.Signer.Address),
		"stored_signer_has_key":      h.Signer.PubKey != nil,
		"address_survived_the_store": bytes.Equal(h.Signer.Address, n.Genesis.ProposerAddress),
	})
}
