package c12

// Harness-side description ("spec") of every wire value. A spec is plain data owned by the
// harness; the real types of /repo are built from it (Real) and read back into it (specOf...).
// All comparisons and all reference encodings work on specs, never on the real types.

import (
	"bytes"
	"crypto/sha256"
	"encoding/hex"
	"fmt"
	"time"

	"github.com/libp2p/go-libp2p/core/crypto"
	cpb "github.com/libp2p/go-libp2p/core/crypto/pb"

	"github.com/evstack/ev-node/types"
)

// HeaderSpec mirrors types.Header.
type HeaderSpec struct {
	VBlock, VApp    uint64
	Height, Time    uint64
	ChainID         string
	LastHeaderHash  []byte
	LastCommitHash  []byte
	DataHash        []byte
	ConsensusHash   []byte
	AppHash         []byte
	LastResultsHash []byte
	ValidatorHash   []byte
	ProposerAddress []byte
}

// SignerSpec mirrors types.Signer: a key is described by libp2p key type + raw bytes.
type SignerSpec struct {
	HasKey  bool
	KeyType int32
	KeyRaw  []byte
	Addr    []byte
}

// SignedHeaderSpec mirrors types.SignedHeader.
type SignedHeaderSpec struct {
	Header    HeaderSpec
	Signature []byte
	Signer    SignerSpec
	// Signed: the signature was produced by the harness with the signer's private key over the
	// reference encoding of the header and proposer/signer address are the key's address.
	Signed bool
}

// MetadataSpec mirrors types.Metadata.
type MetadataSpec struct {
	ChainID      string
	Height, Time uint64
	LastDataHash []byte
}

// DataSpec mirrors types.Data (Meta == nil: no metadata at all).
type DataSpec struct {
	Meta *MetadataSpec
	Txs  [][]byte
}

// SignedDataSpec mirrors types.SignedData.
type SignedDataSpec struct {
	Data      DataSpec
	Signature []byte
	Signer    SignerSpec
	Signed    bool
}

// StateSpec mirrors types.State; the time is the instant (Unix seconds, nanoseconds).
type StateSpec struct {
	VBlock, VApp    uint64
	ChainID         string
	InitialHeight   uint64
	LastBlockHeight uint64
	Sec             int64
	Nanos           int32
	Local           bool // build the time.Time in a non-UTC location (same instant)
	DAHeight        uint64
	LastResultsHash []byte
	AppHash         []byte
}

// ---------- spec -> real ----------

func (h HeaderSpec) Real() types.Header {
	return types.Header{
		BaseHeader:      types.BaseHeader{Height: h.Height, Time: h.Time, ChainID: h.ChainID},
		Version:         types.Version{Block: h.VBlock, App: h.VApp},
		LastHeaderHash:  h.LastHeaderHash,
		LastCommitHash:  h.LastCommitHash,
		DataHash:        h.DataHash,
		ConsensusHash:   h.ConsensusHash,
		AppHash:         h.AppHash,
		LastResultsHash: h.LastResultsHash,
		ValidatorHash:   h.ValidatorHash,
		ProposerAddress: h.ProposerAddress,
	}
}

func (s SignerSpec) Real() (types.Signer, error) {
	out := types.Signer{Address: s.Addr}
	if s.HasKey {
		um, ok := crypto.PubKeyUnmarshallers[cpb.KeyType(s.KeyType)]
		if !ok {
			return out, fmt.Errorf("no unmarshaller for key type %d", s.KeyType)
		}
		pk, err := um(s.KeyRaw)
		if err != nil {
			return out, err
		}
		out.PubKey = pk
	}
	return out, nil
}

func (s SignedHeaderSpec) Real() *types.SignedHeader {
	sg, err := s.Signer.Real()
	if err != nil {
		panic("harness: signer spec not constructible: " + err.Error())
	}
	return &types.SignedHeader{Header: s.Header.Real(), Signature: s.Signature, Signer: sg}
}

func (m MetadataSpec) Real() *types.Metadata {
	return &types.Metadata{ChainID: m.ChainID, Height: m.Height, Time: m.Time, LastDataHash: m.LastDataHash}
}

func (d DataSpec) Real() *types.Data {
	out := &types.Data{}
	if d.Meta != nil {
		out.Metadata = d.Meta.Real()
	}
	if d.Txs != nil {
		out.Txs = make(types.Txs, len(d.Txs))
		for i := range d.Txs {
			out.Txs[i] = d.Txs[i]
		}
	}
	return out
}

func (s SignedDataSpec) Real() *types.SignedData {
	sg, err := s.Signer.Real()
	if err != nil {
		panic("harness: signer spec not constructible: " + err.Error())
	}
	return &types.SignedData{Data: *s.Data.Real(), Signature: s.Signature, Signer: sg}
}

var localZone = time.FixedZone("verif+5:30", 5*3600+1800)

func (s StateSpec) Real() types.State {
	t := time.Unix(s.Sec, int64(s.Nanos))
	if s.Local {
		t = t.In(localZone)
	} else {
		t = t.UTC()
	}
	return types.State{
		Version: types.Version{Block: s.VBlock, App: s.VApp}, ChainID: s.ChainID,
		InitialHeight: s.InitialHeight, LastBlockHeight: s.LastBlockHeight, LastBlockTime: t,
		DAHeight: s.DAHeight, LastResultsHash: s.LastResultsHash, AppHash: s.AppHash,
	}
}

// ---------- real -> spec ----------

func specOfHeader(h *types.Header) HeaderSpec {
	return HeaderSpec{
		VBlock: h.Version.Block, VApp: h.Version.App, Height: h.BaseHeader.Height, Time: h.BaseHeader.Time,
		ChainID: h.BaseHeader.ChainID, LastHeaderHash: h.LastHeaderHash, LastCommitHash: h.LastCommitHash,
		DataHash: h.DataHash, ConsensusHash: h.ConsensusHash, AppHash: h.AppHash,
		LastResultsHash: h.LastResultsHash, ValidatorHash: h.ValidatorHash, ProposerAddress: h.ProposerAddress,
	}
}

func specOfSigner(s *types.Signer) SignerSpec {
	out := SignerSpec{Addr: s.Address}
	if s.PubKey != nil {
		out.HasKey = true
		out.KeyType = int32(s.PubKey.Type())
		raw, err := s.PubKey.Raw()
		if err != nil {
			raw = []byte("raw-error:" + err.Error())
		}
		out.KeyRaw = raw
	}
	return out
}

func specOfSignedHeader(s *types.SignedHeader) SignedHeaderSpec {
	return SignedHeaderSpec{Header: specOfHeader(&s.Header), Signature: s.Signature, Signer: specOfSigner(&s.Signer)}
}

func specOfMetadata(m *types.Metadata) MetadataSpec {
	return MetadataSpec{ChainID: m.ChainID, Height: m.Height, Time: m.Time, LastDataHash: m.LastDataHash}
}

func specOfData(d *types.Data) DataSpec {
	out := DataSpec{}
	if d.Metadata != nil {
		m := specOfMetadata(d.Metadata)
		out.Meta = &m
	}
	if d.Txs != nil {
		out.Txs = make([][]byte, len(d.Txs))
		for i := range d.Txs {
			out.Txs[i] = d.Txs[i]
		}
	}
	return out
}

func specOfSignedData(s *types.SignedData) SignedDataSpec {
	return SignedDataSpec{Data: specOfData(&s.Data), Signature: s.Signature, Signer: specOfSigner(&s.Signer)}
}

func specOfState(s *types.State) StateSpec {
	return StateSpec{
		VBlock: s.Version.Block, VApp: s.Version.App, ChainID: s.ChainID, InitialHeight: s.InitialHeight,
		LastBlockHeight: s.LastBlockHeight, Sec: s.LastBlockTime.Unix(), Nanos: int32(s.LastBlockTime.Nanosecond()),
		DAHeight: s.DAHeight, LastResultsHash: s.LastResultsHash, AppHash: s.AppHash,
	}
}

// ---------- equality modulo nil/empty of byte strings and slices ----------

type differ struct{ diffs []string }

func (d *differ) b(name string, a, b []byte) {
	if !bytes.Equal(a, b) { // bytes.Equal treats nil and empty alike
		d.diffs = append(d.diffs, fmt.Sprintf("%s: %s != %s", name, hexS(a), hexS(b)))
	}
}
func (d *differ) u(name string, a, b uint64) {
	if a != b {
		d.diffs = append(d.diffs, fmt.Sprintf("%s: %d != %d", name, a, b))
	}
}
func (d *differ) s(name string, a, b string) {
	if a != b {
		d.diffs = append(d.diffs, fmt.Sprintf("%s: %q != %q", name, a, b))
	}
}

func (d *differ) header(p string, a, b HeaderSpec) {
	d.u(p+"Version.Block", a.VBlock, b.VBlock)
	d.u(p+"Version.App", a.VApp, b.VApp)
	d.u(p+"Height", a.Height, b.Height)
	d.u(p+"Time", a.Time, b.Time)
	d.s(p+"ChainID", a.ChainID, b.ChainID)
	d.b(p+"LastHeaderHash", a.LastHeaderHash, b.LastHeaderHash)
	d.b(p+"LastCommitHash", a.LastCommitHash, b.LastCommitHash)
	d.b(p+"DataHash", a.DataHash, b.DataHash)
	d.b(p+"ConsensusHash", a.ConsensusHash, b.ConsensusHash)
	d.b(p+"AppHash", a.AppHash, b.AppHash)
	d.b(p+"LastResultsHash", a.LastResultsHash, b.LastResultsHash)
	d.b(p+"ValidatorHash", a.ValidatorHash, b.ValidatorHash)
	d.b(p+"ProposerAddress", a.ProposerAddress, b.ProposerAddress)
}

func (d *differ) signer(p string, a, b SignerSpec) {
	if a.HasKey != b.HasKey {
		d.diffs = append(d.diffs, fmt.Sprintf("%sSigner.PubKey: present=%v != present=%v", p, a.HasKey, b.HasKey))
	} else if a.HasKey {
		if a.KeyType != b.KeyType {
			d.diffs = append(d.diffs, fmt.Sprintf("%sSigner.PubKey.Type: %d != %d", p, a.KeyType, b.KeyType))
		}
		d.b(p+"Signer.PubKey.Raw", a.KeyRaw, b.KeyRaw)
	}
	d.b(p+"Signer.Address", a.Addr, b.Addr)
}

func (d *differ) metadata(p string, a, b MetadataSpec) {
	d.s(p+"ChainID", a.ChainID, b.ChainID)
	d.u(p+"Height", a.Height, b.Height)
	d.u(p+"Time", a.Time, b.Time)
	d.b(p+"LastDataHash", a.LastDataHash, b.LastDataHash)
}

func (d *differ) txs(p string, a, b [][]byte) {
	if len(a) != len(b) {
		d.diffs = append(d.diffs, fmt.Sprintf("%sTxs: %d transactions != %d transactions", p, len(a), len(b)))
		return
	}
	for i := range a {
		if !bytes.Equal(a[i], b[i]) {
			d.diffs = append(d.diffs, fmt.Sprintf("%sTxs[%d]: %s != %s", p, i, hexS(a[i]), hexS(b[i])))
			return
		}
	}
}

func (d *differ) data(p string, a, b DataSpec) {
	if (a.Meta == nil) != (b.Meta == nil) {
		d.diffs = append(d.diffs, fmt.Sprintf("%sMetadata: present=%v != present=%v", p, a.Meta != nil, b.Meta != nil))
	} else if a.Meta != nil {
		d.metadata(p+"Metadata.", *a.Meta, *b.Meta)
	}
	d.txs(p, a.Txs, b.Txs)
}

func diffHeader(a, b HeaderSpec) []string { var d differ; d.header("", a, b); return d.diffs }
func diffSignedHeader(a, b SignedHeaderSpec) []string {
	var d differ
	d.header("Header.", a.Header, b.Header)
	d.b("Signature", a.Signature, b.Signature)
	d.signer("", a.Signer, b.Signer)
	return d.diffs
}
func diffMetadata(a, b MetadataSpec) []string { var d differ; d.metadata("", a, b); return d.diffs }
func diffData(a, b DataSpec) []string         { var d differ; d.data("", a, b); return d.diffs }
func diffSignedData(a, b SignedDataSpec) []string {
	var d differ
	d.data("Data.", a.Data, b.Data)
	d.b("Signature", a.Signature, b.Signature)
	d.signer("", a.Signer, b.Signer)
	return d.diffs
}
func diffState(a, b StateSpec) []string {
	var d differ
	d.u("Version.Block", a.VBlock, b.VBlock)
	d.u("Version.App", a.VApp, b.VApp)
	d.s("ChainID", a.ChainID, b.ChainID)
	d.u("InitialHeight", a.InitialHeight, b.InitialHeight)
	d.u("LastBlockHeight", a.LastBlockHeight, b.LastBlockHeight)
	if a.Sec != b.Sec || a.Nanos != b.Nanos {
		d.diffs = append(d.diffs, fmt.Sprintf("LastBlockTime: %d.%09d != %d.%09d", a.Sec, a.Nanos, b.Sec, b.Nanos))
	}
	d.u("DAHeight", a.DAHeight, b.DAHeight)
	d.b("LastResultsHash", a.LastResultsHash, b.LastResultsHash)
	d.b("AppHash", a.AppHash, b.AppHash)
	return d.diffs
}
func diffBatch(a, b [][]byte) []string { var d differ; d.txs("", a, b); return d.diffs }

// ---------- display (witnesses, samples) ----------

func hexS(b []byte) string {
	if b == nil {
		return "nil"
	}
	if len(b) <= 40 {
		return "0x" + hex.EncodeToString(b)
	}
	h := sha256.Sum256(b)
	return fmt.Sprintf("0x%s…(%dB sha256=%s)", hex.EncodeToString(b[:12]), len(b), hex.EncodeToString(h[:8]))
}

func showHeader(h HeaderSpec) map[string]any {
	return map[string]any{
		"version": fmt.Sprintf("%d/%d", h.VBlock, h.VApp), "height": h.Height, "time": h.Time, "chain_id": h.ChainID,
		"last_header_hash": hexS(h.LastHeaderHash), "last_commit_hash": hexS(h.LastCommitHash), "data_hash": hexS(h.DataHash),
		"consensus_hash": hexS(h.ConsensusHash), "app_hash": hexS(h.AppHash), "last_results_hash": hexS(h.LastResultsHash),
		"validator_hash": hexS(h.ValidatorHash), "proposer_address": hexS(h.ProposerAddress),
	}
}

func showSigner(s SignerSpec) map[string]any {
	m := map[string]any{"address": hexS(s.Addr), "pub_key": "nil"}
	if s.HasKey {
		m["pub_key"] = fmt.Sprintf("type=%d raw=%s", s.KeyType, hexS(s.KeyRaw))
	}
	return m
}

func showSignedHeader(s SignedHeaderSpec) map[string]any {
	return map[string]any{"header": showHeader(s.Header), "signature": hexS(s.Signature), "signer": showSigner(s.Signer), "signed_by_harness": s.Signed}
}

func showMetadata(m *MetadataSpec) any {
	if m == nil {
		return nil
	}
	return map[string]any{"chain_id": m.ChainID, "height": m.Height, "time": m.Time, "last_data_hash": hexS(m.LastDataHash)}
}

func showTxs(txs [][]byte) any {
	if txs == nil {
		return "nil"
	}
	out := []string{}
	for i, tx := range txs {
		if i >= 8 {
			out = append(out, fmt.Sprintf("… %d more", len(txs)-i))
			break
		}
		out = append(out, hexS(tx))
	}
	return map[string]any{"count": len(txs), "txs": out}
}

func showData(d DataSpec) map[string]any {
	return map[string]any{"metadata": showMetadata(d.Meta), "txs": showTxs(d.Txs)}
}

func showSignedData(s SignedDataSpec) map[string]any {
	return map[string]any{"data": showData(s.Data), "signature": hexS(s.Signature), "signer": showSigner(s.Signer), "signed_by_harness": s.Signed}
}

func showState(s StateSpec) map[string]any {
	return map[string]any{
		"version": fmt.Sprintf("%d/%d", s.VBlock, s.VApp), "chain_id": s.ChainID, "initial_height": s.InitialHeight,
		"last_block_height": s.LastBlockHeight, "time_sec": s.Sec, "time_nanos": s.Nanos, "local_zone": s.Local,
		"da_height": s.DAHeight, "last_results_hash": hexS(s.LastResultsHash), "app_hash": hexS(s.AppHash),
	}
}
