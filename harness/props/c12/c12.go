// Package c12 decides C12: wire encodings round-trip, hashes are stable, decoders are total
// (see /verif/DESIGN.md §7).
//
// Files: spec.go (harness-side description of every wire value, equality modulo nil/empty),
// ref.go (hand-written protobuf/hash reference), gen.go (keys, structural generators),
// paths.go + roundtrip.go (clause a), golden.go (clause b), mutate.go + total.go (clause c,
// child processes), commit.go (clause d), finding.go (trigger region C12-address-without-key).
package c12

import (
	"bytes"
	"context"
	"encoding/hex"
	"encoding/json"
	"fmt"
	"os"
	"os/exec"
	"path/filepath"
	"sort"
	"strconv"
	"sync"
	"time"

	"verifharness/vk"
	"verifharness/world"
)

// Level is the verification level claimed for this property.
const Level = "exploration"

// Run is the check entry point.
func Run(r *vk.Run) {
	world.Silence()
	if os.Getenv("VERIF_C12_WRITE_GOLDEN") == "1" {
		os.Exit(writeGolden())
	}
	ctx := context.Background()
	r.Rule = "structured values: every wire type (Header, SignedHeader, Data, SignedData, Metadata, State, batch-cursor list) drawn by structural generators (nil vs empty byte strings and lists, 0/boundary/max integers, 0-300 txs of 0-70000 bytes, ed25519/secp256k1/RSA/ECDSA signers, harness-signed and unsigned), each sent through every path (MarshalBinary/P2P, DA blob, block store on MemDS, gob cache files, State via store, batch codec via store metadata) - all non-trivial, distinct by type + sha256 of the reference encoding; commitment cases distinct by the tx list; decoder inputs: enumerated 1-/2-byte strings, random bytes, random protobuf-framed field streams and 1-3 stacked mutations (bit flips, truncations, slice deletion, garbage/valid-encoding appended or inserted, length-varint edits incl. absurd and non-minimal, field reorder/duplicate/delete, varint value edits, foreign/mistyped fields, tag edits, the same inside nested messages, 4-byte length edits of batch encodings, mutated gob cache files) of reference encodings - non-trivial unless empty or byte-identical to a valid encoding, distinct by sha256 of the input"
	r.Assume("the datastore under the block store is the in-memory MemDS double")
	r.Assume("libp2p key (un)marshalling, encoding/gob, google.golang.org/protobuf and crypto/sha256 are trusted; the reference encoder is hand-written from proto/evnode/v1/*.proto")
	r.Assume("signature payloads: the default provider on every signed header; one custom provider (domain tag || header encoding) on a third of the signed block headers, re-attached to the decoded header the way the node does; the node's own re-attachment sites (block/store.go, sync.go, retriever.go) are not exercised here")
	r.Assume("strings are valid UTF-8 (proto3 string fields cannot carry anything else; see observation_invalid_utf8)")

	nCases := r.N(9000, 400000)
	nCommit := r.N(1500, 60000)
	nFinding := r.N(200, 4000)
	nInputs := r.N(21000, 2600000)

	r.Require("roundtrip", int64(nCases))
	r.Require("same-hash", int64(nCases/2))
	r.Require("same-commitment", int64(nCases/4))
	r.Require("signature", int64(nCases/10))
	r.Require("ref-bytes", int64(nCases/2))
	r.Require("ref-hash", int64(nCases/4))
	r.Require("roundtrip-large-cache-file", 1)
	r.Require("golden-bytes", 60)
	r.Require("golden-hash", 30)
	r.Require("golden-decode", 60)
	r.Require("golden-reference", 60)
	r.Require("commit-metadata-independent", int64(nCommit))
	r.Require("commit-order-sensitive", int64(nCommit/2))
	r.Require("commit-split-sensitive", int64(nCommit))
	r.Require("total-rejected-cleanly", int64(nInputs))
	r.Require("total-fixpoint", int64(nInputs/20))
	r.Require("total-survived", int64(nInputs))

	checkGolden(ctx, r)
	observeInvalidUTF8(r)
	callerWrites(r)
	decodedIndependence(ctx, r, r.N(60, 1500))
	roundTrips(ctx, r, nCases)
	commitments(r, nCommit)
	totality(ctx, r, nInputs)
	// last, so that its reports never crowd out violations of the clean regions
	findingRegion(ctx, r, nFinding)
}

// observeInvalidUTF8 records (without a verdict) what happens to a chain id that is not valid
// UTF-8: proto3 refuses to encode it, so such a value has no encoding at all.
func observeInvalidUTF8(r *vk.Run) {
	defer func() {
		if p := recover(); p != nil {
			violation(r, "no-panic", fmt.Sprintf("panic while encoding a header with a non-UTF-8 chain id: %v", p), nil)
		}
	}()
	h := HeaderSpec{ChainID: "\xff\xfe", Height: 1}.Real()
	_, err := h.MarshalBinary()
	d1 := DataSpec{Meta: &MetadataSpec{ChainID: "\xff", Height: 1}, Txs: [][]byte{[]byte("a")}}.Real()
	d2 := DataSpec{Meta: &MetadataSpec{ChainID: "\xfe", Height: 2}, Txs: [][]byte{[]byte("b")}}.Real()
	r.Set("observation_invalid_utf8", map[string]any{
		"header_marshal_error":              fmt.Sprint(err),
		"header_hash_is_nil":                h.Hash() == nil,
		"two_different_data_share_one_hash": bytes.Equal(d1.Hash(), d2.Hash()),
		"commitments_still_differ":          !bytes.Equal(d1.DACommitment(), d2.DACommitment()),
		"note":                              "outside the quantifier (not a wire value: it cannot be encoded); recorded only",
	})
}

// ---------- clause (c): parent side ----------

type shardPlan struct {
	Index int
	Seed  int64
	N     int
}

func totality(ctx context.Context, r *vk.Run, nInputs int) {
	nShards := r.N(32, 256)
	rng := r.Rand("decoder-shards")
	plans := make([]shardPlan, nShards)
	per := nInputs / nShards
	for i := range plans {
		plans[i] = shardPlan{Index: i, Seed: rng.Int63(), N: per}
	}
	plans[nShards-1].N += nInputs - per*nShards
	base := world.TempDir(vk.Root(), "C12-total-*")
	defer os.RemoveAll(base)

	var mu sync.Mutex
	accepted, rejected, classes := map[string]int64{}, map[string]int64{}, map[string]int64{}
	obsNotes, obsWit := map[string]int64{}, map[string]string{}
	sampleQ := []childSample{}

	work := make(chan shardPlan)
	var wg sync.WaitGroup
	for w := 0; w < 16; w++ {
		wg.Add(1)
		go func() {
			defer wg.Done()
			for p := range work {
				runShard(ctx, r, p, nShards, base, func(rep childReport) {
					mu.Lock()
					for k, v := range rep.Accepted {
						accepted[k] += v
					}
					for k, v := range rep.Rejected {
						rejected[k] += v
					}
					for k, v := range rep.Mutations {
						classes[k] += v
					}
					for k, v := range rep.Notes {
						obsNotes[k] += v
						if _, ok := obsWit[k]; !ok && rep.NoteWit[k] != "" {
							obsWit[k] = rep.NoteWit[k]
						}
					}
					if len(sampleQ) < 64 {
						sampleQ = append(sampleQ, rep.Samples...)
					}
					mu.Unlock()
				})
			}
		}()
	}
	for _, p := range plans {
		work <- p
	}
	close(work)
	wg.Wait()

	sort.Slice(sampleQ, func(a, b int) bool { // accepted inputs first, then by class: a stable, varied pick
		if (len(sampleQ[a].Accepted) > 0) != (len(sampleQ[b].Accepted) > 0) {
			return len(sampleQ[a].Accepted) > 0
		}
		return sampleQ[a].Mut+sampleQ[a].Input < sampleQ[b].Mut+sampleQ[b].Input
	})
	for i := 0; i < len(sampleQ) && i < 3; i++ {
		r.Sample(map[string]any{"type": "decoder-input", "input": sampleQ[i]})
	}
	// keys -> distinct counting (in shard order, so the result is a function of the seed)
	for _, p := range plans {
		kb, err := os.ReadFile(filepath.Join(base, fmt.Sprintf("shard-%03d", p.Index), "keys"))
		if err != nil {
			continue
		}
		for off := 0; off+13 <= len(kb); off += 13 {
			r.Eval("in:"+hex.EncodeToString(kb[off:off+12]), kb[off+12] == 1, nil)
		}
	}
	var accTotal, rejTotal int64
	for _, v := range accepted {
		accTotal += v
	}
	for _, v := range rejected {
		rejTotal += v
	}
	r.HitN("total-fixpoint", accTotal)
	r.HitN("total-rejected-cleanly", rejTotal)
	r.HitN("total-survived", accTotal+rejTotal)
	r.Set("decoder_accepted", accepted)
	r.Set("decoder_rejected", rejected)
	r.Set("decoder_input_classes", classes)
	// observations without a verdict (see total.go `notes`)
	for k, v := range obsNotes {
		r.Count("observation:"+k, v)
	}
	r.Set("decoder_observations_first_input", obsWit)
}

// runShard runs one shard in a child process, restarting it behind every input that killed it.
func runShard(ctx context.Context, r *vk.Run, p shardPlan, nShards int, base string, merge func(childReport)) {
	dir := filepath.Join(base, fmt.Sprintf("shard-%03d", p.Index))
	if err := os.MkdirAll(dir, 0o755); err != nil {
		r.Inconclusive("cannot create shard directory: " + err.Error())
		return
	}
	startAt := 0
	deaths := 0
	for startAt < p.N {
		_ = os.Remove(filepath.Join(dir, "report.json"))
		_ = os.Remove(filepath.Join(dir, "journal"))
		cctx, cancel := context.WithTimeout(ctx, 20*time.Minute)
		cmd := exec.CommandContext(cctx, vk.SelfExe(), "child", "c12-decoders",
			strconv.FormatInt(p.Seed, 10), strconv.Itoa(p.Index), strconv.Itoa(nShards), strconv.Itoa(p.N), strconv.Itoa(startAt), r.Tier, dir)
		errPath := filepath.Join(dir, fmt.Sprintf("stderr-%d.txt", deaths))
		ef, _ := os.Create(errPath)
		cmd.Stdout, cmd.Stderr = ef, ef
		err := cmd.Run()
		timedOut := cctx.Err() != nil
		cancel()
		if ef != nil {
			ef.Close()
		}
		var rep childReport
		if b, e := os.ReadFile(filepath.Join(dir, "report.json")); e == nil {
			_ = json.Unmarshal(b, &rep)
		}
		merge(rep)
		for _, pr := range rep.Problems {
			violation(r, "total-fixpoint", fmt.Sprintf("decoder %s accepted an input but %s (input derived from %s by %s)", pr.Decoder, pr.Detail, pr.Class, pr.Mut),
				map[string]any{"shard": p, "problem": pr, "replay": "feed input_hex to the named decoder"})
		}
		if err == nil {
			return
		}
		if timedOut {
			r.Inconclusive(fmt.Sprintf("decoder shard %d: watchdog (20 min) fired", p.Index))
			return
		}
		tail := tailFile(errPath, 6000)
		code := -1
		if ee, ok := err.(*exec.ExitError); ok {
			code = ee.ExitCode()
		}
		jr, jerr := readJournal(filepath.Join(dir, "journal"))
		if code == 7 || jerr != nil || jr.Index < 0 {
			r.Inconclusive(fmt.Sprintf("decoder shard %d: child failed outside the code under test (exit %d): %s", p.Index, code, firstLine(tail)))
			return
		}
		if jr.Phase == 0 {
			r.Inconclusive(fmt.Sprintf("decoder shard %d: child died in harness code at input %d (exit %d): %s", p.Index, jr.Index, code, firstLine(tail)))
		} else {
			name := decoderNames[jr.Phase]
			if name == "" {
				name = fmt.Sprintf("decoder #%d", jr.Phase)
				for _, d := range buildDecoders(ctx, &storeKeys{}) {
					if d.ID == jr.Phase {
						name = d.Name
					}
				}
			}
			violation(r, "total-no-crash", fmt.Sprintf("the process died (exit %d) while %s was working on an input of %d bytes: %s", code, name, len(jr.Input), firstLine(tail)),
				map[string]any{"shard": p, "input_index": jr.Index, "decoder": name, "input_hex": hex.EncodeToString(jr.Input), "stderr_tail": tail})
		}
		deaths++
		if deaths > 25 {
			r.Inconclusive(fmt.Sprintf("decoder shard %d: gave up after %d child deaths", p.Index, deaths))
			return
		}
		startAt = jr.Index + 1
	}
}

func tailFile(path string, n int) string {
	b, err := os.ReadFile(path)
	if err != nil {
		return ""
	}
	if len(b) > n {
		// keep the head (the panic message) and some of the stack
		return string(b[:n])
	}
	return string(b)
}

func firstLine(s string) string {
	for i := 0; i < len(s); i++ {
		if s[i] == '\n' {
			if i > 300 {
				return s[:300]
			}
			return s[:i]
		}
	}
	if len(s) > 300 {
		return s[:300]
	}
	return s
}

// violation reports at most three violations per clause (the kit lists twenty in all), so that a
// defect that trips one clause thousands of times cannot hide what the other clauses see.
var (
	violMu    sync.Mutex
	violCount = map[string]int{}
)

func violation(r *vk.Run, clause, detail string, witness any) {
	violMu.Lock()
	violCount[clause]++
	n := violCount[clause]
	violMu.Unlock()
	if n > 3 {
		r.Count("violations_not_listed:"+clause, 1)
		return
	}
	r.Violation(clause, detail, witness)
}
