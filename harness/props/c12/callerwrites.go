package c12

// Hashes are values: what a caller does with the bytes one call returned must not change what the next call - on
// another, equal value - returns. (A hash function that hands out a shared backing array, e.g. a precomputed
// constant for the empty transaction list, is "stable" only until the first caller writes into its result.) Each
// value is built twice, separately; an implementation that remembers a hash inside the value it belongs to is fine.

import (
	"bytes"
	"fmt"

	"verifharness/vk"
)

func callerWrites(r *vk.Run) {
	type hv struct {
		name string
		hash func() []byte // builds the value afresh and returns one of its hashes
	}
	hdr := richHeaderSpec()
	var vals []hv
	for _, txs := range [][][]byte{nil, {}, {[]byte("a")}, {[]byte("a"), {}, []byte("bc")}} {
		txs := txs
		name := fmt.Sprintf("%d txs", len(txs))
		if txs == nil {
			name = "nil tx list"
		}
		vals = append(vals,
			hv{"Data.DACommitment, " + name, func() []byte { return DataSpec{Txs: txs}.Real().DACommitment() }},
			hv{"Data.DACommitment with metadata, " + name, func() []byte { d := richDataSpec(); d.Txs = txs; return d.Real().DACommitment() }},
			hv{"Data.Hash, " + name, func() []byte { d := richDataSpec(); d.Txs = txs; return d.Real().Hash() }},
			hv{"SignedData.DACommitment, " + name, func() []byte {
				d := richDataSpec()
				d.Txs = txs
				return SignedDataSpec{Data: d, Signature: pat(64, "cw-sig"), Signer: signerOf(1)}.Real().DACommitment()
			}},
		)
	}
	vals = append(vals,
		hv{"Header.Hash", func() []byte { h := hdr.Real(); return h.Hash() }},
		hv{"SignedHeader.Hash", func() []byte {
			return SignedHeaderSpec{Header: hdr, Signature: pat(64, "cw-sig"), Signer: signerOf(2)}.Real().Hash()
		}},
	)
	r.Require("hash-unaffected-by-caller-writes", int64(len(vals)))
	for round := 0; round < 2; round++ { // the second round meets whatever the first round's writes left behind
		for _, v := range vals {
			want := bytes.Clone(v.hash())
			got := v.hash()
			for i := range got {
				got[i] ^= 0xA5
			}
			again := v.hash()
			if !bytes.Equal(again, want) {
				violation(r, "hash-unaffected-by-caller-writes", fmt.Sprintf("%s: a caller overwrote the bytes one call returned; the next call, on a separately built equal value, returns %x instead of %x: the result shares memory with something that outlives the call", v.name, again, want), map[string]any{"value": v.name, "round": round})
				return
			}
			r.Hit("hash-unaffected-by-caller-writes")
		}
	}
}
