package c12

// Deterministic keys and structural generators over every wire type.

import (
	"crypto/ecdh"
	"crypto/ecdsa"
	"crypto/elliptic"
	"crypto/rsa"
	"crypto/sha256"
	"crypto/x509"
	"fmt"
	"math"
	"math/big"
	"math/rand"
	"strings"
	"sync"

	"github.com/libp2p/go-libp2p/core/crypto"

	"verifharness/world"
)

type poolKey struct {
	Label string
	Type  int32
	Raw   []byte
	Addr  []byte // sha256(raw public key): what types.KeyAddress / NewSigner define
	Priv  crypto.PrivKey
	Pub   crypto.PubKey
}

var (
	keyOnce sync.Once
	keys    []poolKey // 0..3 ed25519, 4..5 secp256k1 (can sign); 6 rsa, 7 ecdsa (public only)
)

const nSigningKeys = 6

func keyPool() []poolKey {
	keyOnce.Do(func() {
		add := func(label string, priv crypto.PrivKey, pub crypto.PubKey) {
			raw, err := pub.Raw()
			if err != nil {
				panic(err)
			}
			a := sha256.Sum256(raw)
			keys = append(keys, poolKey{Label: label, Type: int32(pub.Type()), Raw: raw, Addr: a[:], Priv: priv, Pub: pub})
		}
		for i := 0; i < 4; i++ {
			k := world.NewKeys(fmt.Sprintf("c12-ed-%d", i))
			add(fmt.Sprintf("ed25519-%d", i), k.Priv, k.Pub)
		}
		for i := 0; i < 2; i++ {
			seed := sha256.Sum256([]byte(fmt.Sprintf("verif-key-c12-secp-%d", i)))
			priv, err := crypto.UnmarshalSecp256k1PrivateKey(seed[:])
			if err != nil {
				panic(err)
			}
			add(fmt.Sprintf("secp256k1-%d", i), priv, priv.GetPublic())
		}
		{ // RSA public key with a fixed 2048-bit odd modulus (never used to sign or verify)
			var nb []byte
			for i := 0; len(nb) < 256; i++ {
				h := sha256.Sum256([]byte(fmt.Sprintf("verif-key-c12-rsa-%d", i)))
				nb = append(nb, h[:]...)
			}
			nb[0] |= 0x80
			nb[255] |= 1
			der, err := x509.MarshalPKIXPublicKey(&rsa.PublicKey{N: new(big.Int).SetBytes(nb), E: 65537})
			if err != nil {
				panic(err)
			}
			pub, err := crypto.UnmarshalRsaPublicKey(der)
			if err != nil {
				panic(err)
			}
			add("rsa-2048", nil, pub)
		}
		{ // ECDSA P-256 public key from a fixed scalar
			seed := sha256.Sum256([]byte("verif-key-c12-ecdsa"))
			seed[0] &= 0x7f
			pk, err := ecdh.P256().NewPrivateKey(seed[:])
			if err != nil {
				panic(err)
			}
			pt := pk.PublicKey().Bytes() // 0x04 || X || Y
			der, err := x509.MarshalPKIXPublicKey(&ecdsa.PublicKey{Curve: elliptic.P256(), X: new(big.Int).SetBytes(pt[1:33]), Y: new(big.Int).SetBytes(pt[33:65])})
			if err != nil {
				panic(err)
			}
			pub, err := crypto.UnmarshalECDSAPublicKey(der)
			if err != nil {
				panic(err)
			}
			add("ecdsa-p256", nil, pub)
		}
	})
	return keys
}

// G generates spec values from a PRNG.
type G struct {
	rng *rand.Rand
	// small keeps values small (used for the seeds of the decoder corpus).
	small bool
}

var edgeU64 = []uint64{0, 1, 2, 127, 128, 255, 256, 16383, 16384, 1<<32 - 1, 1 << 32, 1<<63 - 1, 1 << 63, math.MaxUint64 - 1, math.MaxUint64}

func (g *G) u64() uint64 {
	switch g.rng.Intn(10) {
	case 0, 1:
		return 0
	case 2:
		return math.MaxUint64
	case 3, 4:
		return edgeU64[g.rng.Intn(len(edgeU64))]
	case 5, 6:
		return uint64(g.rng.Intn(100000))
	case 7:
		return 1_700_000_000_000_000_000 + uint64(g.rng.Int63n(1_000_000_000_000))
	default:
		return g.rng.Uint64()
	}
}

func (g *G) rnd(n int) []byte {
	b := make([]byte, n)
	g.rng.Read(b)
	return b
}

// hash: the byte-string fields (hashes, addresses, signatures when unsigned).
func (g *G) hash() []byte {
	switch g.rng.Intn(20) {
	case 0, 1, 2:
		return nil
	case 3, 4:
		return []byte{}
	case 5:
		return []byte{0}
	case 6:
		return make([]byte, 32)
	case 7:
		b := make([]byte, 32)
		for i := range b {
			b[i] = 0xff
		}
		return b
	case 8:
		return g.rnd(20)
	case 9:
		return g.rnd(64)
	case 10:
		return g.rnd(1 + g.rng.Intn(300))
	case 11:
		return g.rnd([]int{1, 127, 128, 129}[g.rng.Intn(4)])
	default:
		return g.rnd(32)
	}
}

var fixedStrings = []string{
	"", "a", "verif-chain", "test-chain-1", "чейн-☃-𝔘𝔫𝔦", "with\x00nul", " ", "\n\t", "日本語", "é́", "\U0010FFFF",
}

func (g *G) str() string {
	switch g.rng.Intn(8) {
	case 0:
		return ""
	case 1, 2, 3:
		return fixedStrings[g.rng.Intn(len(fixedStrings))]
	case 4:
		return strings.Repeat("x", []int{127, 128, 300}[g.rng.Intn(3)])
	default: // random valid UTF-8
		n := 1 + g.rng.Intn(20)
		var sb strings.Builder
		for i := 0; i < n; i++ {
			var r rune
			switch g.rng.Intn(4) {
			case 0:
				r = rune(g.rng.Intn(0x80))
			case 1:
				r = rune(0x80 + g.rng.Intn(0x780))
			case 2:
				r = rune(0x800 + g.rng.Intn(0xD000-0x800))
			default:
				r = rune(0x10000 + g.rng.Intn(0x100000))
			}
			sb.WriteRune(r)
		}
		return sb.String()
	}
}

var edgeTxLen = []int{0, 1, 127, 128, 129, 255, 256, 16383, 16384, 16385, 65535, 65536, 69999, 70000}

// txs: 0-300 transactions of 0-70000 bytes; nil and empty lists; empty transactions.
func (g *G) txs() [][]byte {
	p := g.rng.Intn(1000)
	var count, maxLen int
	edge := false
	switch {
	case p < 60:
		return nil
	case p < 120:
		return [][]byte{}
	case p < 600 || g.small:
		count, maxLen = 1+g.rng.Intn(5), 64
		if g.small && p >= 990 { // occasionally something large also in the corpus seeds
			count, maxLen = 1+g.rng.Intn(300), 300
		}
	case p < 850:
		count, maxLen = 1+g.rng.Intn(40), 600
	case p < 950:
		count, maxLen = 41+g.rng.Intn(260), 200
	case p < 996:
		count, maxLen, edge = 1+g.rng.Intn(4), 70000, true
	default:
		count, maxLen = 200+g.rng.Intn(101), 70000
		if g.rng.Intn(4) == 0 {
			count = 300
		}
	}
	out := make([][]byte, count)
	for i := range out {
		var n int
		switch q := g.rng.Intn(20); {
		case q == 0:
			n = 0
		case q == 1 && edge:
			n = edgeTxLen[g.rng.Intn(len(edgeTxLen))]
		case q == 2 && maxLen >= 128:
			n = []int{127, 128}[g.rng.Intn(2)]
		case q < 5:
			n = 1 + g.rng.Intn(3)
		default:
			n = g.rng.Intn(maxLen + 1)
		}
		if n == 0 && g.rng.Intn(2) == 0 {
			out[i] = nil
			continue
		}
		b := make([]byte, n)
		if q := g.rng.Intn(10); q == 0 {
			// low-entropy payload: letters
			for j := range b {
				b[j] = byte('a' + g.rng.Intn(3))
			}
		} else {
			g.rng.Read(b)
		}
		out[i] = b
	}
	return out
}

func (g *G) header() HeaderSpec {
	h := HeaderSpec{}
	if g.rng.Intn(25) == 0 {
		return h // the zero header
	}
	h.VBlock, h.VApp = g.u64(), g.u64()
	if g.rng.Intn(3) == 0 {
		h.VBlock, h.VApp = 11, 0
	}
	h.Height, h.Time = g.u64(), g.u64()
	h.ChainID = g.str()
	h.LastHeaderHash, h.LastCommitHash, h.DataHash, h.ConsensusHash = g.hash(), g.hash(), g.hash(), g.hash()
	h.AppHash, h.LastResultsHash, h.ValidatorHash, h.ProposerAddress = g.hash(), g.hash(), g.hash(), g.hash()
	return h
}

// signer draws a signer of the clean region: never "address without key".
// Returns the pool index of the key (-1: none).
func (g *G) signer() (SignerSpec, int) {
	ks := keyPool()
	switch g.rng.Intn(12) {
	case 0, 1:
		return SignerSpec{}, -1
	case 2:
		return SignerSpec{Addr: []byte{}}, -1
	default:
		i := g.rng.Intn(len(ks))
		if g.rng.Intn(3) > 0 {
			i = g.rng.Intn(nSigningKeys)
		}
		s := SignerSpec{HasKey: true, KeyType: ks[i].Type, KeyRaw: ks[i].Raw, Addr: ks[i].Addr}
		switch g.rng.Intn(10) {
		case 0:
			s.Addr = nil
		case 1:
			s.Addr = []byte{}
		case 2:
			s.Addr = g.rnd(20)
		case 3:
			s.Addr = g.rnd(1 + g.rng.Intn(64))
		}
		return s, i
	}
}

func (g *G) signedHeader() SignedHeaderSpec {
	s := SignedHeaderSpec{Header: g.header()}
	sg, ki := g.signer()
	s.Signer = sg
	if ki >= 0 && ki < nSigningKeys && g.rng.Intn(10) < 6 {
		k := keyPool()[ki]
		s.Signer.Addr = k.Addr
		s.Header.ProposerAddress = k.Addr
		sig, err := k.Priv.Sign(refHeader(s.Header))
		if err != nil {
			panic(err)
		}
		s.Signature = sig
		s.Signed = true
		return s
	}
	switch g.rng.Intn(6) {
	case 0:
		s.Signature = nil
	case 1:
		s.Signature = []byte{}
	case 2:
		s.Signature = g.rnd(1 + g.rng.Intn(100))
	default:
		s.Signature = g.rnd(64)
	}
	return s
}

func (g *G) metadata() MetadataSpec {
	if g.rng.Intn(15) == 0 {
		return MetadataSpec{}
	}
	return MetadataSpec{ChainID: g.str(), Height: g.u64(), Time: g.u64(), LastDataHash: g.hash()}
}

func (g *G) data() DataSpec {
	d := DataSpec{Txs: g.txs()}
	if g.rng.Intn(4) > 0 {
		m := g.metadata()
		d.Meta = &m
	}
	return d
}

func (g *G) signedData() SignedDataSpec {
	s := SignedDataSpec{Data: g.data()}
	sg, ki := g.signer()
	s.Signer = sg
	if ki >= 0 && ki < nSigningKeys && g.rng.Intn(10) < 6 {
		k := keyPool()[ki]
		s.Signer.Addr = k.Addr
		sig, err := k.Priv.Sign(refData(s.Data, true))
		if err != nil {
			panic(err)
		}
		s.Signature = sig
		s.Signed = true
		return s
	}
	switch g.rng.Intn(5) {
	case 0:
		s.Signature = nil
	case 1:
		s.Signature = []byte{}
	default:
		s.Signature = g.rnd(64)
	}
	return s
}

// Seconds of 0001-01-01T00:00:00Z and 9999-12-31T23:59:59Z (the range of a valid protobuf Timestamp).
const (
	minTimestampSec = -62135596800
	maxTimestampSec = 253402300799
)

func (g *G) state() StateSpec {
	s := StateSpec{}
	switch g.rng.Intn(10) {
	case 0: // the zero time.Time
		s.Sec, s.Nanos = minTimestampSec, 0
	case 1:
		s.Sec, s.Nanos = 0, 0
	case 2:
		s.Sec, s.Nanos = maxTimestampSec, 999_999_999
	case 3: // before 1970
		s.Sec, s.Nanos = -1-g.rng.Int63n(-minTimestampSec), int32(g.rng.Intn(1_000_000_000))
	case 4:
		s.Sec, s.Nanos = g.rng.Int63n(maxTimestampSec), int32(g.rng.Intn(1_000_000_000))
	default:
		s.Sec, s.Nanos = 1_700_000_000+g.rng.Int63n(100_000_000), int32(g.rng.Intn(1_000_000_000))
	}
	if g.rng.Intn(25) == 0 {
		return s
	}
	s.Local = g.rng.Intn(3) == 0
	s.VBlock, s.VApp = g.u64(), g.u64()
	s.ChainID = g.str()
	s.InitialHeight, s.LastBlockHeight, s.DAHeight = g.u64(), g.u64(), g.u64()
	s.LastResultsHash, s.AppHash = g.hash(), g.hash()
	return s
}

// batch: the batch-cursor list ([][]byte of DA ids).
func (g *G) batch() [][]byte {
	switch g.rng.Intn(12) {
	case 0:
		return nil
	case 1:
		return [][]byte{}
	case 2:
		return [][]byte{nil}
	case 3:
		return [][]byte{{}, {}, {}}
	}
	n := 1 + g.rng.Intn(6)
	if g.rng.Intn(10) == 0 {
		n = 1 + g.rng.Intn(300)
	}
	out := make([][]byte, n)
	for i := range out {
		switch g.rng.Intn(8) {
		case 0:
			out[i] = nil
		case 1:
			out[i] = []byte{}
		case 2:
			out[i] = g.rnd(40) // 8-byte height + 32-byte commitment: the shape of a DA id
		case 3:
			out[i] = g.rnd([]int{1, 255, 256, 257, 65535, 65536}[g.rng.Intn(6)])
		case 4:
			if !g.small && g.rng.Intn(10) == 0 {
				out[i] = g.rnd(70000)
			} else {
				out[i] = g.rnd(4)
			}
		default:
			out[i] = g.rnd(1 + g.rng.Intn(64))
		}
	}
	return out
}
