package c12

// The cache-file path with a large backlog: a full node far behind a chain with large blocks stops with many
// multi-megabyte blocks waiting in its data cache; what SaveToDisk wrote must load again, every block equal, with the
// same hash and commitment. One case of 20 blocks of about 4 MiB (one cache file of about 80 MiB) - the size classes
// of the generated cases stop at 48 MiB per file.

import (
	"fmt"
	"math/rand"
	"os"
	"runtime/debug"
	"time"

	"github.com/evstack/ev-node/types"

	"verifharness/vk"
	"verifharness/world"
)

func largeCacheFile(r *vk.Run) {
	c := caseInfo{ID: -2, Seed: r.Rand("large-cache-file").Int63(), Kind: "large cache file"}
	j := &judge{r: r, c: c}
	t0 := time.Now()
	defer func() { r.Set("large_cache_file_seconds", time.Since(t0).Seconds()) }()
	defer debug.FreeOSMemory()
	defer func() {
		if p := recover(); p != nil {
			j.viol("no-panic", "cache", "gob", fmt.Sprintf("panic in the cache file round trip of a large backlog: %v", p), nil, nil)
		}
	}()
	dir := world.TempDir(vk.Root(), "C12-gob-large-*")
	defer os.RemoveAll(dir)
	rng := rand.New(rand.NewSource(c.Seed))
	const nBlocks = 20
	keys := make([]uint64, nBlocks)
	specs := make([]DataSpec, nBlocks)
	hs := make([]*types.SignedHeader, nBlocks)
	dd := make([]*types.Data, nBlocks)
	total := 0
	for i := range specs {
		h := 1000 + uint64(i)
		big := make([]byte, 4<<20-rng.Intn(64<<10))
		rng.Read(big)
		specs[i] = DataSpec{Meta: &MetadataSpec{ChainID: "c12-backlog", Height: h, Time: 1_700_000_000_000_000_000 + h, LastDataHash: pat(32, "backlog")},
			Txs: [][]byte{[]byte(fmt.Sprintf("small-tx-%d", i)), big}}
		keys[i], dd[i] = h, specs[i].Real()
		total += len(big)
	}
	r.Set("large_cache_file", map[string]any{"blocks": nBlocks, "payload_bytes": total})
	_, dOut, _, err := gobRound(dir, keys, hs, dd, nil)
	if err != nil {
		j.viol("roundtrip", "cache", "gob", fmt.Sprintf("a data cache holding %d waiting blocks (%d MiB of transactions) does not survive SaveToDisk/LoadFromDisk: %v", nBlocks, total>>20, err),
			map[string]any{"blocks": nBlocks, "payload_bytes": total}, nil)
		return
	}
	for i := range specs {
		if dOut[i] == nil {
			j.viol("roundtrip", "Data", "gob", fmt.Sprintf("item under key %d is missing after SaveToDisk/LoadFromDisk of a large cache (%d blocks, %d MiB)", keys[i], nBlocks, total>>20), showData(specs[i]), nil)
			return
		}
		j.judgeData(specs[i], obsData("gob (large cache file)", nil, dOut[i]))
	}
	r.Hit("roundtrip-large-cache-file")
}
