package c12

// Receivers that are not fresh: every decoder of /repo fills a value in place, so "decode(encode(x)) == x" must also
// hold when the receiver held another value before. The receivers built here held a value with every field, the
// metadata, a signer with a key, a signature and several transactions set, obtained by decoding (the way a reused
// receiver comes into being): whatever a decoder fails to overwrite or reset shows as a difference from x.

import (
	"bytes"
	"sync"

	"google.golang.org/protobuf/proto"

	"github.com/evstack/ev-node/types"
	pb "github.com/evstack/ev-node/types/pb/evnode/v1"
)

var (
	richOnce sync.Once
	richSH   []byte // MarshalBinary of a fully populated signed header
	richSD   []byte // ... signed data
	richSt   []byte // ... state (protobuf)
	richMeta []byte
)

func richHeaderSpec() HeaderSpec {
	return HeaderSpec{VBlock: 3, VApp: 4, Height: 77, Time: 1_700_000_000_000_000_077, ChainID: "stale-chain",
		LastHeaderHash: pat(32, "stale-lhh"), LastCommitHash: pat(32, "stale-lch"), DataHash: pat(32, "stale-dh"), ConsensusHash: pat(32, "stale-ch"),
		AppHash: pat(32, "stale-ah"), LastResultsHash: pat(32, "stale-lrh"), ValidatorHash: pat(32, "stale-vh"), ProposerAddress: pat(32, "stale-pa")}
}

func richDataSpec() DataSpec {
	return DataSpec{Meta: &MetadataSpec{ChainID: "stale-chain", Height: 77, Time: 78, LastDataHash: pat(32, "stale-ldh")},
		Txs: [][]byte{[]byte("stale-tx-1"), []byte("stale-tx-2"), pat(40, "stale-tx-3")}}
}

func richInit() {
	richOnce.Do(func() {
		var err error
		sh := SignedHeaderSpec{Header: richHeaderSpec(), Signature: pat(64, "stale-sig"), Signer: signerOf(3)}
		if richSH, err = sh.Real().MarshalBinary(); err != nil {
			panic("harness: rich signed header: " + err.Error())
		}
		sd := SignedDataSpec{Data: richDataSpec(), Signature: pat(64, "stale-dsig"), Signer: signerOf(5)}
		if richSD, err = sd.Real().MarshalBinary(); err != nil {
			panic("harness: rich signed data: " + err.Error())
		}
		st := StateSpec{VBlock: 3, VApp: 4, ChainID: "stale-chain", InitialHeight: 5, LastBlockHeight: 76, Sec: 1_700_000_077, Nanos: 78, DAHeight: 9,
			LastResultsHash: pat(32, "stale-slr"), AppHash: pat(32, "stale-sah")}.Real()
		p, err := st.ToProto()
		if err == nil {
			richSt, err = proto.Marshal(p)
		}
		if err != nil {
			panic("harness: rich state: " + err.Error())
		}
		if richMeta, err = richDataSpec().Meta.Real().MarshalBinary(); err != nil {
			panic("harness: rich metadata: " + err.Error())
		}
	})
}

// usedSignedHeader returns a receiver that has just decoded the rich signed header (nil if even that fails: then
// there is nothing to observe and the fresh-receiver clauses report the reason).
func usedSignedHeader() *types.SignedHeader {
	richInit()
	v := new(types.SignedHeader)
	if v.UnmarshalBinary(richSH) != nil {
		return nil
	}
	return v
}

func usedHeader() *types.Header {
	if sh := usedSignedHeader(); sh != nil {
		return &sh.Header
	}
	return nil
}

func usedSignedData() *types.SignedData {
	richInit()
	v := new(types.SignedData)
	if v.UnmarshalBinary(richSD) != nil {
		return nil
	}
	return v
}

func usedData() *types.Data {
	if sd := usedSignedData(); sd != nil {
		return &sd.Data
	}
	return nil
}

func usedMetadata() *types.Metadata {
	richInit()
	v := new(types.Metadata)
	if v.UnmarshalBinary(richMeta) != nil {
		return nil
	}
	return v
}

func usedState() *types.State {
	richInit()
	var q pb.State
	v := new(types.State)
	if proto.Unmarshal(richSt, &q) != nil || v.FromProto(&q) != nil {
		return nil
	}
	return v
}

// ---- observation for arbitrary decoder inputs (no verdict: the node itself decodes into fresh receivers only, and
// the statement's clause for arbitrary bytes speaks of the value a decode yields, not of the receiver's history)

func noteReused(name string, freshOK bool, usedErr error, diffs []string, hashSame bool) {
	switch {
	case !freshOK:
	case usedErr != nil:
		note("decode-into-used-receiver-fails-where-fresh-succeeds:" + name)
	case len(diffs) > 0 || !hashSame:
		note("decode-into-used-receiver-yields-another-value:" + name)
	}
}

func observeReused(b []byte) {
	{
		f := new(types.Header)
		if f.UnmarshalBinary(b) == nil {
			if u := usedHeader(); u != nil {
				err := u.UnmarshalBinary(b)
				var d []string
				same := true
				if err == nil {
					d, same = diffHeader(specOfHeader(f), specOfHeader(u)), bytes.Equal(f.Hash(), u.Hash())
				}
				noteReused("Header", true, err, d, same)
			}
		}
	}
	{
		f := new(types.SignedHeader)
		if f.UnmarshalBinary(b) == nil {
			if u := usedSignedHeader(); u != nil {
				err := u.UnmarshalBinary(b)
				var d []string
				same := true
				if err == nil {
					d, same = diffSignedHeader(specOfSignedHeader(f), specOfSignedHeader(u)), bytes.Equal(f.Hash(), u.Hash())
				}
				noteReused("SignedHeader", true, err, d, same)
			}
		}
	}
	{
		f := new(types.Data)
		if f.UnmarshalBinary(b) == nil {
			if u := usedData(); u != nil {
				err := u.UnmarshalBinary(b)
				var d []string
				same := true
				if err == nil {
					d, same = diffData(specOfData(f), specOfData(u)), bytes.Equal(f.Hash(), u.Hash()) && bytes.Equal(f.DACommitment(), u.DACommitment())
				}
				noteReused("Data", true, err, d, same)
			}
		}
	}
	{
		f := new(types.SignedData)
		if f.UnmarshalBinary(b) == nil {
			if u := usedSignedData(); u != nil {
				err := u.UnmarshalBinary(b)
				var d []string
				same := true
				if err == nil {
					d, same = diffSignedData(specOfSignedData(f), specOfSignedData(u)), bytes.Equal(f.Hash(), u.Hash()) && bytes.Equal(f.DACommitment(), u.DACommitment())
				}
				noteReused("SignedData", true, err, d, same)
			}
		}
	}
	{
		f := new(types.Metadata)
		if f.UnmarshalBinary(b) == nil {
			if u := usedMetadata(); u != nil {
				err := u.UnmarshalBinary(b)
				var d []string
				if err == nil {
					d = diffMetadata(specOfMetadata(f), specOfMetadata(u))
				}
				noteReused("Metadata", true, err, d, true)
			}
		}
	}
	{
		if f, err := decodeState(b); err == nil {
			if u := usedState(); u != nil {
				var q pb.State
				err := proto.Unmarshal(b, &q)
				if err == nil {
					err = u.FromProto(&q)
				}
				var d []string
				if err == nil {
					d = diffState(specOfState(f), specOfState(u))
				}
				noteReused("State", true, err, d, true)
			}
		}
	}
}
