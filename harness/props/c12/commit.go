package c12

// Clause (d): the data commitment depends on the ordered transaction list only.

import (
	"bytes"
	"encoding/hex"
	"fmt"
	"math/rand"
	"sync"

	"verifharness/vk"
)

func sameList(a, b [][]byte) bool {
	if len(a) != len(b) {
		return false
	}
	for i := range a {
		if !bytes.Equal(a[i], b[i]) {
			return false
		}
	}
	return true
}

func commitCase(r *vk.Run, c caseInfo) {
	g := &G{rng: rand.New(rand.NewSource(c.Seed))}
	rng := g.rng
	txs := g.txs()
	if len(txs) < 2 && rng.Intn(3) > 0 { // favour lists that can be permuted and re-split
		txs = [][]byte{g.rnd(1 + rng.Intn(8)), g.rnd(1 + rng.Intn(8)), g.rnd(rng.Intn(4))}
	}
	witness := func(extra map[string]any) any {
		m := map[string]any{"case": c, "txs": showTxs(txs)}
		if len(txs) <= 64 {
			var full []string
			for _, tx := range txs {
				if len(tx) > 2048 {
					full = nil
					break
				}
				full = append(full, hex.EncodeToString(tx))
			}
			m["txs_hex"] = full
		}
		for k, v := range extra {
			m[k] = v
		}
		return m
	}
	r.Eval("commit:"+hex.EncodeToString(refCommitment(txs)), true, map[string]any{"type": "commitment-case", "txs": showTxs(txs)})
	base := []byte(DataSpec{Txs: txs}.Real().DACommitment())
	if ref := refCommitment(txs); !bytes.Equal(base, ref) {
		violation(r, "ref-hash", fmt.Sprintf("DACommitment() of a metadata-free Data is %x, reference sha256(0x00||proto(txs)) is %x", base, ref), witness(nil))
		return
	}
	r.Hit("ref-hash")
	// --- metadata varied (and the wrapper type, and nil vs empty list): equal commitment
	metas := []*MetadataSpec{{}, {ChainID: "verif-chain", Height: 1, Time: 1}}
	for i := 0; i < 2; i++ {
		m := g.metadata()
		metas = append(metas, &m)
	}
	for _, m := range metas {
		got := []byte(DataSpec{Meta: m, Txs: txs}.Real().DACommitment())
		if !bytes.Equal(got, base) {
			violation(r, "commit-metadata-independent", fmt.Sprintf("same tx list, metadata %v: commitment %x, without metadata %x", showMetadata(m), got, base), witness(map[string]any{"metadata": showMetadata(m)}))
			return
		}
		r.Hit("commit-metadata-independent")
	}
	sd := g.signedData()
	sd.Data.Txs = txs
	if got := []byte(sd.Real().DACommitment()); !bytes.Equal(got, base) {
		violation(r, "commit-metadata-independent", fmt.Sprintf("same tx list inside a SignedData: commitment %x, plain Data %x", got, base), witness(map[string]any{"signed_data": showSignedData(sd)}))
		return
	}
	r.Hit("commit-metadata-independent")
	if len(txs) == 0 {
		a, b := []byte(DataSpec{Txs: nil}.Real().DACommitment()), []byte(DataSpec{Txs: [][]byte{}}.Real().DACommitment())
		if !bytes.Equal(a, b) {
			violation(r, "commit-metadata-independent", fmt.Sprintf("nil tx list %x vs empty tx list %x", a, b), witness(nil))
			return
		}
		r.Hit("commit-nil-vs-empty")
	}
	differs := func(clause, what string, other [][]byte) bool {
		if sameList(txs, other) {
			return true // not a different list: nothing to observe
		}
		meta := metas[rng.Intn(len(metas))]
		got := []byte(DataSpec{Meta: meta, Txs: other}.Real().DACommitment())
		if bytes.Equal(got, base) {
			violation(r, clause, fmt.Sprintf("%s yields a different ordered tx list but the same commitment %x", what, got), witness(map[string]any{"other_txs": showTxs(other), "what": what}))
			return false
		}
		if ref := refCommitment(other); !bytes.Equal(got, ref) {
			violation(r, "ref-hash", fmt.Sprintf("DACommitment()=%x, reference=%x", got, ref), witness(map[string]any{"other_txs": showTxs(other)}))
			return false
		}
		r.Hit(clause)
		return true
	}
	// --- permutations
	if len(txs) >= 2 {
		perm := make([][]byte, len(txs))
		for i, p := range rng.Perm(len(txs)) {
			perm[i] = txs[p]
		}
		if !differs("commit-order-sensitive", "a permutation", perm) {
			return
		}
		i := rng.Intn(len(txs) - 1)
		sw := append([][]byte(nil), txs...)
		sw[i], sw[i+1] = sw[i+1], sw[i]
		if !differs("commit-order-sensitive", fmt.Sprintf("swapping transactions %d and %d", i, i+1), sw) {
			return
		}
		rev := make([][]byte, len(txs))
		for i := range txs {
			rev[len(txs)-1-i] = txs[i]
		}
		if !differs("commit-order-sensitive", "reversing the list", rev) {
			return
		}
	}
	// --- re-splits: same concatenation, different boundaries
	if len(txs) >= 2 {
		i := rng.Intn(len(txs) - 1)
		joined := append(append([]byte(nil), txs[i]...), txs[i+1]...)
		if len(joined) > 0 {
			k := rng.Intn(len(joined) + 1)
			moved := append(append(append([][]byte(nil), txs[:i]...), joined[:k:k], joined[k:]), txs[i+2:]...)
			if !differs("commit-split-sensitive", fmt.Sprintf("moving the boundary between transactions %d and %d to offset %d ([ab][c] vs [a][bc])", i, i+1, k), moved) {
				return
			}
		}
		merged := append(append(append([][]byte(nil), txs[:i]...), joined), txs[i+2:]...)
		if !differs("commit-split-sensitive", fmt.Sprintf("merging transactions %d and %d into one", i, i+1), merged) {
			return
		}
	}
	if len(txs) >= 1 {
		i := rng.Intn(len(txs))
		if len(txs[i]) >= 1 {
			k := rng.Intn(len(txs[i]) + 1)
			split := append(append(append([][]byte(nil), txs[:i]...), txs[i][:k:k], txs[i][k:]), txs[i+1:]...)
			if !differs("commit-split-sensitive", fmt.Sprintf("splitting transaction %d at offset %d", i, k), split) {
				return
			}
		}
	}
	// --- an extra empty transaction is another list
	pos := rng.Intn(len(txs) + 1)
	withEmpty := append(append(append([][]byte(nil), txs[:pos]...), []byte{}), txs[pos:]...)
	if !differs("commit-split-sensitive", fmt.Sprintf("inserting an empty transaction at position %d", pos), withEmpty) {
		return
	}
	if len(txs) >= 1 {
		if !differs("commit-split-sensitive", "dropping the last transaction", txs[:len(txs)-1]) {
			return
		}
	}
}

func commitments(r *vk.Run, n int) {
	rng := r.Rand("commitment-cases")
	cases := make([]caseInfo, n)
	for i := range cases {
		cases[i] = caseInfo{ID: i, Seed: rng.Int63(), Kind: "commitment"}
	}
	ch := make(chan caseInfo, 64)
	var wg sync.WaitGroup
	for w := 0; w < 16; w++ {
		wg.Add(1)
		go func() {
			defer wg.Done()
			for c := range ch {
				func() {
					defer func() {
						if p := recover(); p != nil {
							violation(r, "no-panic", fmt.Sprintf("panic while computing a commitment: %v", p), c)
						}
					}()
					commitCase(r, c)
				}()
			}
		}()
	}
	for _, c := range cases {
		ch <- c
	}
	close(ch)
	wg.Wait()
}
