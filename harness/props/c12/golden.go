package c12

// Clause (b): golden vectors. The values are constructed here, deterministically, in code; the
// file /verif/golden/c12/vectors.json holds only what the pinned tree produced for them (bytes,
// hashes, commitments). VERIF_C12_WRITE_GOLDEN=1 regenerates the file (done once).

import (
	"bytes"
	"context"
	"crypto/sha256"
	"encoding/hex"
	"encoding/json"
	"fmt"
	"math"
	"os"
	"path/filepath"
	"sort"

	"google.golang.org/protobuf/proto"

	"github.com/evstack/ev-node/block"
	"github.com/evstack/ev-node/pkg/cache"
	"github.com/evstack/ev-node/types"
	pb "github.com/evstack/ev-node/types/pb/evnode/v1"

	"verifharness/vk"
	"verifharness/world"
)

type goldenValue struct {
	Name string
	Kind string // header signedheader metadata data signeddata state batch cachefile
	V    any
}

// pat is a deterministic byte pattern.
func pat(n int, salt string) []byte {
	out := make([]byte, 0, n+32)
	for i := 0; len(out) < n; i++ {
		h := sha256.Sum256([]byte(fmt.Sprintf("c12-golden-%s-%d", salt, i)))
		out = append(out, h[:]...)
	}
	return out[:n]
}

func signerOf(i int) SignerSpec {
	k := keyPool()[i]
	return SignerSpec{HasKey: true, KeyType: k.Type, KeyRaw: k.Raw, Addr: k.Addr}
}

func signHeader(h HeaderSpec, key int) SignedHeaderSpec {
	k := keyPool()[key]
	h.ProposerAddress = k.Addr
	sig, err := k.Priv.Sign(refHeader(h))
	if err != nil {
		panic(err)
	}
	return SignedHeaderSpec{Header: h, Signature: sig, Signer: signerOf(key), Signed: true}
}

func signData(d DataSpec, key int) SignedDataSpec {
	k := keyPool()[key]
	sig, err := k.Priv.Sign(refData(d, true))
	if err != nil {
		panic(err)
	}
	return SignedDataSpec{Data: d, Signature: sig, Signer: signerOf(key), Signed: true}
}

func goldenValues() []goldenValue {
	const m = math.MaxUint64
	typical := HeaderSpec{VBlock: 11, Height: 1, Time: 1_700_000_000_000_000_000, ChainID: "verif-chain",
		LastHeaderHash: pat(32, "lhh"), LastCommitHash: pat(32, "lch"), DataHash: refCommitment(nil), ConsensusHash: pat(32, "ch"),
		AppHash: pat(32, "ah"), LastResultsHash: pat(32, "lrh"), ValidatorHash: pat(32, "vh"), ProposerAddress: pat(32, "pa")}
	maxH := HeaderSpec{VBlock: m, VApp: m, Height: m, Time: m, ChainID: "чейн-☃-𝔘",
		LastHeaderHash: pat(32, "a"), LastCommitHash: pat(20, "b"), DataHash: pat(64, "c"), ConsensusHash: pat(1, "d"),
		AppHash: pat(300, "e"), LastResultsHash: pat(33, "f"), ValidatorHash: pat(31, "g"), ProposerAddress: pat(128, "h")}
	emptyFields := HeaderSpec{LastHeaderHash: []byte{}, LastCommitHash: []byte{}, DataHash: []byte{}, ConsensusHash: []byte{}, AppHash: []byte{}, LastResultsHash: []byte{}, ValidatorHash: []byte{}, ProposerAddress: []byte{}}
	metaT := MetadataSpec{ChainID: "verif-chain", Height: 42, Time: 1_700_000_000_123_456_789, LastDataHash: pat(32, "ldh")}
	metaMax := MetadataSpec{ChainID: "日本語", Height: m, Time: m, LastDataHash: pat(64, "ldh2")}
	tx := func(s string) []byte { return []byte(s) }
	singles := make([][]byte, 300)
	for i := range singles {
		singles[i] = []byte{byte(i)}
	}
	manyIDs := make([][]byte, 300)
	for i := range manyIDs {
		manyIDs[i] = pat(i%5, fmt.Sprint("id", i))
	}
	vs := []goldenValue{
		// ---- headers
		{"header-zero", "header", HeaderSpec{}},
		{"header-typical", "header", typical},
		{"header-max", "header", maxH},
		{"header-empty-byte-fields", "header", emptyFields},
		{"header-chain-id-only", "header", HeaderSpec{ChainID: "c"}},
		{"header-app-version-only", "header", HeaderSpec{VApp: 1}},
		{"header-varint-boundaries", "header", HeaderSpec{VBlock: 127, VApp: 128, Height: 16383, Time: 16384}},
		{"header-proposer-only", "header", HeaderSpec{ProposerAddress: []byte{0}}},
		{"header-2pow63", "header", HeaderSpec{Height: 1 << 63, Time: 1<<63 - 1}},
		{"header-long-chain-id", "header", HeaderSpec{ChainID: string(bytes.Repeat([]byte("x"), 300)), Height: 5}},
		// ---- signed headers
		{"sh-zero", "signedheader", SignedHeaderSpec{}},
		{"sh-genesis-signed-ed25519", "signedheader", signHeader(typical, 0)},
		{"sh-signed-secp256k1", "signedheader", signHeader(HeaderSpec{VBlock: 11, Height: 2, Time: 1_700_000_001_000_000_000, ChainID: "verif-chain", LastHeaderHash: pat(32, "p"), DataHash: refCommitment([][]byte{tx("a")}), AppHash: pat(32, "q")}, 4)},
		{"sh-max-signed-ed25519", "signedheader", signHeader(maxH, 2)},
		{"sh-key-unsigned", "signedheader", SignedHeaderSpec{Header: typical, Signature: pat(64, "sig"), Signer: signerOf(1)}},
		{"sh-key-nil-address", "signedheader", SignedHeaderSpec{Header: typical, Signature: pat(64, "sig2"), Signer: SignerSpec{HasKey: true, KeyType: keyPool()[1].Type, KeyRaw: keyPool()[1].Raw}}},
		{"sh-key-foreign-address", "signedheader", SignedHeaderSpec{Header: typical, Signature: pat(65, "sig3"), Signer: SignerSpec{HasKey: true, KeyType: keyPool()[5].Type, KeyRaw: keyPool()[5].Raw, Addr: pat(20, "addr")}}},
		{"sh-rsa-signer", "signedheader", SignedHeaderSpec{Header: HeaderSpec{Height: 3, ProposerAddress: keyPool()[6].Addr}, Signature: pat(256, "rsasig"), Signer: signerOf(6)}},
		{"sh-ecdsa-signer", "signedheader", SignedHeaderSpec{Header: HeaderSpec{Height: 4, ProposerAddress: keyPool()[7].Addr}, Signature: pat(70, "ecsig"), Signer: signerOf(7)}},
		{"sh-no-signer-with-signature", "signedheader", SignedHeaderSpec{Header: HeaderSpec{Height: 9, ChainID: "x"}, Signature: []byte{1, 2, 3}}},
		// ---- metadata
		{"meta-zero", "metadata", MetadataSpec{}},
		{"meta-typical", "metadata", metaT},
		{"meta-max", "metadata", metaMax},
		{"meta-chain-only", "metadata", MetadataSpec{ChainID: "only"}},
		{"meta-hash-only", "metadata", MetadataSpec{LastDataHash: []byte{0}}},
		{"meta-varint-boundaries", "metadata", MetadataSpec{Height: 128, Time: 127}},
		// ---- data
		{"data-zero", "data", DataSpec{}},
		{"data-empty-list", "data", DataSpec{Txs: [][]byte{}}},
		{"data-zero-metadata", "data", DataSpec{Meta: &MetadataSpec{}}},
		{"data-one-tx", "data", DataSpec{Txs: [][]byte{tx("a")}}},
		{"data-three-txs", "data", DataSpec{Meta: &metaT, Txs: [][]byte{tx("a"), tx("b"), tx("c")}}},
		{"data-resplit-ab-c", "data", DataSpec{Txs: [][]byte{tx("ab"), tx("c")}}},
		{"data-resplit-a-bc", "data", DataSpec{Txs: [][]byte{tx("a"), tx("bc")}}},
		{"data-empty-transactions", "data", DataSpec{Meta: &metaT, Txs: [][]byte{{}, tx("a"), nil}}},
		{"data-300-one-byte-txs", "data", DataSpec{Meta: &metaMax, Txs: singles}},
		{"data-one-70000-byte-tx", "data", DataSpec{Meta: &metaT, Txs: [][]byte{pat(70000, "big")}}},
		{"data-127-128-16384", "data", DataSpec{Txs: [][]byte{pat(127, "x"), pat(128, "y"), pat(16384, "z")}}},
		{"data-max-metadata", "data", DataSpec{Meta: &metaMax, Txs: [][]byte{pat(32, "t1"), pat(200, "t2")}}},
		// ---- signed data
		{"sd-zero", "signeddata", SignedDataSpec{}},
		{"sd-signed-ed25519", "signeddata", signData(DataSpec{Meta: &metaT, Txs: [][]byte{tx("tx-1"), tx("tx-2")}}, 0)},
		{"sd-signed-secp256k1", "signeddata", signData(DataSpec{Meta: &metaT, Txs: [][]byte{pat(500, "s")}}, 5)},
		{"sd-signed-no-metadata", "signeddata", signData(DataSpec{Txs: [][]byte{tx("a"), {}, tx("b")}}, 3)},
		{"sd-signed-300-txs", "signeddata", signData(DataSpec{Meta: &metaMax, Txs: singles}, 1)},
		{"sd-no-signer-with-signature", "signeddata", SignedDataSpec{Data: DataSpec{Txs: [][]byte{tx("z")}}, Signature: pat(64, "s1")}},
		{"sd-key-no-signature", "signeddata", SignedDataSpec{Data: DataSpec{Meta: &MetadataSpec{Height: 1}}, Signer: signerOf(2)}},
		{"sd-rsa-signer", "signeddata", SignedDataSpec{Data: DataSpec{Txs: [][]byte{tx("r")}}, Signature: pat(256, "s2"), Signer: signerOf(6)}},
		// ---- state
		{"state-zero-time", "state", StateSpec{Sec: minTimestampSec}},
		{"state-typical", "state", StateSpec{VBlock: 11, ChainID: "verif-chain", InitialHeight: 1, LastBlockHeight: 17, Sec: 1_700_000_017, Nanos: 123_456_789, DAHeight: 5, AppHash: pat(32, "sa")}},
		{"state-max", "state", StateSpec{VBlock: m, VApp: m, ChainID: "чейн", InitialHeight: m, LastBlockHeight: m, Sec: maxTimestampSec, Nanos: 999_999_999, DAHeight: m, LastResultsHash: pat(32, "sl"), AppHash: pat(64, "sb")}},
		{"state-before-1970", "state", StateSpec{ChainID: "old", Sec: -1, Nanos: 1}},
		{"state-epoch", "state", StateSpec{InitialHeight: 1, DAHeight: 1}},
		{"state-local-zone", "state", StateSpec{VBlock: 11, ChainID: "verif-chain", InitialHeight: 7, LastBlockHeight: 6, Sec: 1_700_000_000, Local: true, DAHeight: 1}},
		{"state-empty-byte-fields", "state", StateSpec{Sec: 1, LastResultsHash: []byte{}, AppHash: []byte{}}},
		{"state-genesis", "state", StateSpec{VBlock: 11, ChainID: "verif-chain", InitialHeight: 1, Sec: 1_700_000_000, DAHeight: 1}},
		// ---- batch cursor lists
		{"batch-nil", "batch", [][]byte(nil)},
		{"batch-empty", "batch", [][]byte{}},
		{"batch-one-nil-entry", "batch", [][]byte{nil}},
		{"batch-three-empty-entries", "batch", [][]byte{{}, {}, {}}},
		{"batch-one-byte", "batch", [][]byte{{1}}},
		{"batch-two-da-ids", "batch", [][]byte{pat(40, "id1"), pat(40, "id2")}},
		{"batch-256-and-65536", "batch", [][]byte{pat(256, "e1"), pat(65536, "e2")}},
		{"batch-300-entries", "batch", manyIDs},
	}
	return vs
}

type goldenRecord struct {
	Name       string `json:"name"`
	Kind       string `json:"kind"`
	Bytes      string `json:"bytes_hex"`
	Hash       string `json:"hash_hex,omitempty"`
	Commitment string `json:"commitment_hex,omitempty"`
	Validates  *bool  `json:"validate_basic_ok,omitempty"`
}

type goldenFile struct {
	Note        string         `json:"note"`
	Vectors     []goldenRecord `json:"vectors"`
	CacheHeader string         `json:"cachefile_header_items_by_height_hex"`
	CacheData   string         `json:"cachefile_data_items_by_height_hex"`
}

func goldenPath() string { return filepath.Join(vk.Root(), "golden", "c12", "vectors.json") }

// produce runs the real code on one golden value.
func produce(v goldenValue) (goldenRecord, error) {
	rec := goldenRecord{Name: v.Name, Kind: v.Kind}
	var bz []byte
	var err error
	switch s := v.V.(type) {
	case HeaderSpec:
		real := s.Real()
		bz, err = real.MarshalBinary()
		rec.Hash = hex.EncodeToString(real.Hash())
	case SignedHeaderSpec:
		real := s.Real()
		bz, err = real.MarshalBinary()
		rec.Hash = hex.EncodeToString(real.Hash())
		if s.Signer.HasKey {
			ok := real.ValidateBasic() == nil
			rec.Validates = &ok
		}
	case MetadataSpec:
		bz, err = s.Real().MarshalBinary()
	case DataSpec:
		real := s.Real()
		bz, err = real.MarshalBinary()
		rec.Hash = hex.EncodeToString(real.Hash())
		rec.Commitment = hex.EncodeToString(real.DACommitment())
	case SignedDataSpec:
		real := s.Real()
		bz, err = real.MarshalBinary()
		rec.Hash = hex.EncodeToString(real.Hash())
		rec.Commitment = hex.EncodeToString(real.DACommitment())
	case StateSpec:
		real := s.Real()
		var p *pb.State
		if p, err = real.ToProto(); err == nil {
			bz, err = proto.Marshal(p)
		}
	case [][]byte:
		bz = block.VerifBatchDataToBytes(s)
	default:
		return rec, fmt.Errorf("unknown golden value type %T", v.V)
	}
	rec.Bytes = hex.EncodeToString(bz)
	return rec, err
}

// reference computes the same record from the hand-written model only.
func reference(v goldenValue) goldenRecord {
	rec := goldenRecord{Name: v.Name, Kind: v.Kind}
	var bz []byte
	switch s := v.V.(type) {
	case HeaderSpec:
		bz = refHeader(s)
		rec.Hash = hex.EncodeToString(sha(bz))
	case SignedHeaderSpec:
		bz = refSignedHeader(s)
		rec.Hash = hex.EncodeToString(refHeaderHash(s.Header))
	case MetadataSpec:
		bz = refMetadata(s)
	case DataSpec:
		bz = refData(s, true)
		rec.Hash = hex.EncodeToString(refDataHash(s))
		rec.Commitment = hex.EncodeToString(refCommitment(s.Txs))
	case SignedDataSpec:
		bz = refSignedData(s)
		rec.Hash = hex.EncodeToString(refDataHash(s.Data))
		rec.Commitment = hex.EncodeToString(refCommitment(s.Data.Txs))
	case StateSpec:
		bz = refState(s)
	case [][]byte:
		bz = refBatch(s)
	}
	rec.Bytes = hex.EncodeToString(bz)
	return rec
}

// decodeGolden decodes recorded bytes with today's decoder and reports how the result differs
// from the value the bytes were recorded for.
func decodeGolden(v goldenValue, bz []byte) (diffs []string, hash []byte, err error) {
	switch s := v.V.(type) {
	case HeaderSpec:
		d := new(types.Header)
		if err = d.UnmarshalBinary(bz); err == nil {
			diffs, hash = diffHeader(s, specOfHeader(d)), d.Hash()
		}
	case SignedHeaderSpec:
		d := new(types.SignedHeader)
		if err = d.UnmarshalBinary(bz); err == nil {
			diffs, hash = diffSignedHeader(s, specOfSignedHeader(d)), d.Hash()
			if s.Signed {
				// still-valid signature, decided directly under the harness's key over what the decoded header
				// encodes to (the default signature payload); the node's ValidateBasic is consulted only when it
				// accepts the same value freshly built
				payload, perr := d.Header.MarshalBinary()
				k := poolKeyFor(s.Signer)
				ok, verr := k.Pub.Verify(payload, d.Signature)
				if perr != nil || verr != nil || !ok {
					diffs = append(diffs, fmt.Sprintf("signature no longer verifies under the signer's key over the decoded header (ok=%v encode-err=%v verify-err=%v)", ok, perr, verr))
				} else if s.Real().ValidateBasic() == nil {
					if e := d.ValidateBasic(); e != nil {
						diffs = append(diffs, "ValidateBasic accepts the value built in memory and refuses the one decoded from the recorded bytes: "+e.Error())
					}
				}
			}
		}
	case MetadataSpec:
		d := new(types.Metadata)
		if err = d.UnmarshalBinary(bz); err == nil {
			diffs = diffMetadata(s, specOfMetadata(d))
		}
	case DataSpec:
		d := new(types.Data)
		if err = d.UnmarshalBinary(bz); err == nil {
			diffs, hash = diffData(s, specOfData(d)), d.Hash()
		}
	case SignedDataSpec:
		d := new(types.SignedData)
		if err = d.UnmarshalBinary(bz); err == nil {
			diffs, hash = diffSignedData(s, specOfSignedData(d)), d.Hash()
		}
	case StateSpec:
		var d *types.State
		if d, err = decodeState(bz); err == nil {
			diffs = diffState(s, specOfState(d))
		}
	case [][]byte:
		var d [][]byte
		if d, err = block.VerifBytesToBatchData(bz); err == nil {
			diffs = diffBatch(s, d)
		}
	}
	return
}

func goldenCacheValues() (SignedHeaderSpec, DataSpec) {
	gv := goldenValues()
	var sh SignedHeaderSpec
	var d DataSpec
	for _, v := range gv {
		if v.Name == "sh-genesis-signed-ed25519" {
			sh = v.V.(SignedHeaderSpec)
		}
		if v.Name == "data-three-txs" {
			d = v.V.(DataSpec)
		}
	}
	return sh, d
}

// cacheFileBytes saves a one-item cache with the real code and returns items_by_height.gob.
func cacheFileBytes() (hdr, data []byte, err error) {
	dir := world.TempDir(vk.Root(), "C12-golden-*")
	defer os.RemoveAll(dir)
	sh, d := goldenCacheValues()
	hc := cache.NewCache[types.SignedHeader]()
	hc.SetItem(7, sh.Real())
	dc := cache.NewCache[types.Data]()
	dc.SetItem(7, d.Real())
	if err = hc.SaveToDisk(filepath.Join(dir, "h")); err != nil {
		return
	}
	if err = dc.SaveToDisk(filepath.Join(dir, "d")); err != nil {
		return
	}
	if hdr, err = os.ReadFile(filepath.Join(dir, "h", cacheFiles[0])); err != nil {
		return
	}
	data, err = os.ReadFile(filepath.Join(dir, "d", cacheFiles[0]))
	return
}

// writeGolden records what the current tree produces. It refuses to record anything the
// hand-written reference disagrees with.
func writeGolden() int {
	gf := goldenFile{Note: "C12 golden vectors: bytes/hashes/commitments produced by the pinned tree for the values constructed in /verif/harness/props/c12/golden.go (generated once with VERIF_C12_WRITE_GOLDEN=1; do not regenerate to make a check pass)"}
	bad := 0
	for _, v := range goldenValues() {
		rec, err := produce(v)
		if err != nil {
			fmt.Printf("golden: %s: encode failed: %v\n", v.Name, err)
			bad++
			continue
		}
		ref := reference(v)
		if rec.Bytes != ref.Bytes || rec.Hash != ref.Hash || rec.Commitment != ref.Commitment {
			fmt.Printf("golden: %s: real code and reference disagree\n  real=%s hash=%s commit=%s\n  ref =%s hash=%s commit=%s\n", v.Name, trunc(rec.Bytes), rec.Hash, rec.Commitment, trunc(ref.Bytes), ref.Hash, ref.Commitment)
			bad++
		}
		gf.Vectors = append(gf.Vectors, rec)
	}
	h, d, err := cacheFileBytes()
	if err != nil {
		fmt.Println("golden: cache files:", err)
		bad++
	}
	gf.CacheHeader, gf.CacheData = hex.EncodeToString(h), hex.EncodeToString(d)
	if bad > 0 {
		fmt.Printf("golden: %d problem(s); nothing written\n", bad)
		return 1
	}
	if err := os.MkdirAll(filepath.Dir(goldenPath()), 0o755); err != nil {
		fmt.Println("golden:", err)
		return 1
	}
	b, _ := json.MarshalIndent(gf, "", " ")
	if err := os.WriteFile(goldenPath(), append(b, '\n'), 0o644); err != nil {
		fmt.Println("golden:", err)
		return 1
	}
	fmt.Printf("golden: wrote %d vectors to %s\n", len(gf.Vectors), goldenPath())
	return 0
}

func trunc(s string) string {
	if len(s) > 160 {
		return s[:160] + "…"
	}
	return s
}

// checkGolden: recompute and compare byte for byte; decode the recorded bytes; compare with the reference.
func checkGolden(ctx context.Context, r *vk.Run) {
	b, err := os.ReadFile(goldenPath())
	if err != nil {
		r.Inconclusive("golden vectors not readable: " + err.Error())
		return
	}
	var gf goldenFile
	if err := json.Unmarshal(b, &gf); err != nil {
		r.Inconclusive("golden vectors not parseable: " + err.Error())
		return
	}
	byName := map[string]goldenRecord{}
	for _, rec := range gf.Vectors {
		byName[rec.Name] = rec
	}
	vals := goldenValues()
	names := make([]string, 0, len(vals))
	for _, v := range vals {
		names = append(names, v.Name)
	}
	sort.Strings(names)
	r.Set("golden_vectors", names)
	for _, v := range vals {
		want, ok := byName[v.Name]
		if !ok {
			r.Inconclusive("golden vector missing from file: " + v.Name)
			continue
		}
		func() {
			defer func() {
				if p := recover(); p != nil {
					violation(r, "no-panic", fmt.Sprintf("golden %s: panic: %v", v.Name, p), map[string]any{"golden": v.Name})
				}
			}()
			witness := func(got goldenRecord) any {
				return map[string]any{"golden": v.Name, "kind": v.Kind, "recorded": want, "now": got, "file": goldenPath()}
			}
			got, err := produce(v)
			if err != nil {
				violation(r, "golden-bytes", fmt.Sprintf("golden %s: encoding fails today: %v", v.Name, err), witness(got))
				return
			}
			if got.Bytes != want.Bytes {
				violation(r, "golden-bytes", fmt.Sprintf("golden %s (%s): encoded bytes changed: recorded %s, now %s", v.Name, v.Kind, trunc(want.Bytes), trunc(got.Bytes)), witness(got))
				return
			}
			r.Hit("golden-bytes")
			if got.Hash != want.Hash {
				violation(r, "golden-hash", fmt.Sprintf("golden %s (%s): Hash() changed: recorded %s, now %s", v.Name, v.Kind, want.Hash, got.Hash), witness(got))
				return
			}
			if got.Commitment != want.Commitment {
				violation(r, "golden-hash", fmt.Sprintf("golden %s (%s): DACommitment() changed: recorded %s, now %s", v.Name, v.Kind, want.Commitment, got.Commitment), witness(got))
				return
			}
			if want.Hash != "" || want.Commitment != "" {
				r.Hit("golden-hash")
			}
			if want.Validates != nil && (got.Validates == nil || *got.Validates != *want.Validates) {
				// what ValidateBasic accepts is not pinned by the statement: recorded, not judged
				r.Count("observation:golden-ValidateBasic-outcome-differs-from-recorded", 1)
			}
			// the bytes recorded then still decode to the same value now
			wb, _ := hex.DecodeString(want.Bytes)
			diffs, hash, err := decodeGolden(v, wb)
			if err != nil {
				violation(r, "golden-decode", fmt.Sprintf("golden %s: recorded bytes no longer decode: %v", v.Name, err), witness(got))
				return
			}
			if len(diffs) > 0 {
				violation(r, "golden-decode", fmt.Sprintf("golden %s: recorded bytes decode to another value: %v", v.Name, diffs), witness(got))
				return
			}
			if hash != nil && hex.EncodeToString(hash) != want.Hash {
				violation(r, "golden-decode", fmt.Sprintf("golden %s: value decoded from the recorded bytes has hash %x, recorded %s", v.Name, hash, want.Hash), witness(got))
				return
			}
			r.Hit("golden-decode")
			// independent reference against the recorded behaviour
			ref := reference(v)
			if ref.Bytes != want.Bytes || ref.Hash != want.Hash || ref.Commitment != want.Commitment {
				violation(r, "ref-bytes", fmt.Sprintf("golden %s: hand-written reference disagrees with the recorded vector", v.Name), map[string]any{"golden": v.Name, "recorded": want, "reference": ref})
				return
			}
			r.Hit("golden-reference")
			r.Eval("golden:"+v.Name, true, nil)
		}()
	}
	// cache files written by the pinned tree: observation only. The statement names the cache file as a path of the
	// round trip (judged format-agnostically in roundtrip.go through SaveToDisk/LoadFromDisk), not as a format that must
	// stay readable; whether a file recorded from today's tree still loads is counted, never judged. A panic is.
	sh, d := goldenCacheValues()
	dir := world.TempDir(vk.Root(), "C12-goldencache-*")
	defer os.RemoveAll(dir)
	observed := map[string]string{}
	for _, cf := range []struct {
		name string
		hexs string
	}{{"header", gf.CacheHeader}, {"data", gf.CacheData}} {
		raw, _ := hex.DecodeString(cf.hexs)
		sub := filepath.Join(dir, cf.name)
		_ = os.MkdirAll(sub, 0o755)
		if err := os.WriteFile(filepath.Join(sub, cacheFiles[0]), raw, 0o644); err != nil {
			observed[cf.name] = "cannot write scratch cache file: " + err.Error()
			continue
		}
		func() {
			defer func() {
				if p := recover(); p != nil {
					violation(r, "no-panic", fmt.Sprintf("loading the recorded %s cache file panics: %v", cf.name, p), cf)
				}
			}()
			outcome := "loads with the recorded value"
			if cf.name == "header" {
				c := cache.NewCache[types.SignedHeader]()
				if err := c.LoadFromDisk(sub); err != nil {
					outcome = "no longer loads: " + err.Error()
				} else if it := c.GetItem(7); it == nil {
					outcome = "loads without its item"
				} else if df := diffSignedHeader(sh, specOfSignedHeader(it)); len(df) > 0 {
					outcome = fmt.Sprintf("loads another value: %v", df)
				}
			} else {
				c := cache.NewCache[types.Data]()
				if err := c.LoadFromDisk(sub); err != nil {
					outcome = "no longer loads: " + err.Error()
				} else if it := c.GetItem(7); it == nil {
					outcome = "loads without its item"
				} else if df := diffData(d, specOfData(it)); len(df) > 0 {
					outcome = fmt.Sprintf("loads another value: %v", df)
				}
			}
			observed[cf.name] = outcome
			if outcome == "loads with the recorded value" {
				r.Count("observation:recorded-cache-file-still-loads", 1)
			} else {
				r.Count("observation:recorded-cache-file-does-not-load-as-recorded", 1)
			}
		}()
	}
	r.Set("observation_recorded_cache_files", observed)
}
