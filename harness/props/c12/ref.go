package c12

// Independent reference model: protobuf wire format written by hand from
// /repo/proto/evnode/v1/{evnode,state,batch}.proto (proto3: zero scalars, empty strings and empty
// byte strings are omitted; a present sub-message is always emitted, even when empty; fields in
// field-number order; every element of a repeated bytes field is emitted, also the empty ones),
// and the hashes defined over it. Nothing in this file imports code of /repo.

import (
	"crypto/sha256"
	"encoding/binary"
)

const (
	wtVarint = 0
	wtI64    = 1
	wtBytes  = 2
	wtSGroup = 3
	wtEGroup = 4
	wtI32    = 5
)

func pbVarint(b []byte, v uint64) []byte {
	for v >= 0x80 {
		b = append(b, byte(v)|0x80)
		v >>= 7
	}
	return append(b, byte(v))
}

func pbTag(b []byte, field, wt int) []byte { return pbVarint(b, uint64(field)<<3|uint64(wt)) }

// pbUint emits a uint64/int64/int32 scalar field (omitted when zero).
func pbUint(b []byte, field int, v uint64) []byte {
	if v == 0 {
		return b
	}
	return pbVarint(pbTag(b, field, wtVarint), v)
}

// pbBytes emits a bytes/string scalar field (omitted when empty).
func pbBytes(b []byte, field int, v []byte) []byte {
	if len(v) == 0 {
		return b
	}
	return pbLen(b, field, v)
}

// pbLen emits a length-delimited field unconditionally (sub-message, repeated element).
func pbLen(b []byte, field int, v []byte) []byte {
	b = pbVarint(pbTag(b, field, wtBytes), uint64(len(v)))
	return append(b, v...)
}

func refVersion(block, app uint64) []byte {
	var b []byte
	b = pbUint(b, 1, block)
	b = pbUint(b, 2, app)
	return b
}

func refHeader(h HeaderSpec) []byte {
	var b []byte
	b = pbLen(b, 1, refVersion(h.VBlock, h.VApp))
	b = pbUint(b, 2, h.Height)
	b = pbUint(b, 3, h.Time)
	b = pbBytes(b, 4, h.LastHeaderHash)
	b = pbBytes(b, 5, h.LastCommitHash)
	b = pbBytes(b, 6, h.DataHash)
	b = pbBytes(b, 7, h.ConsensusHash)
	b = pbBytes(b, 8, h.AppHash)
	b = pbBytes(b, 9, h.LastResultsHash)
	b = pbBytes(b, 10, h.ProposerAddress)
	b = pbBytes(b, 11, h.ValidatorHash)
	b = pbBytes(b, 12, []byte(h.ChainID))
	return b
}

// refPubKey is libp2p's crypto.pb.PublicKey (proto2, both fields required => always emitted).
func refPubKey(keyType int32, raw []byte) []byte {
	var b []byte
	b = pbVarint(pbTag(b, 1, wtVarint), uint64(keyType))
	b = pbLen(b, 2, raw)
	return b
}

// refSigner: a signer without a key is written as an empty message by the node (that the
// address is lost in this case is finding C12-address-without-key; the reference keeps it).
func refSigner(s SignerSpec) []byte {
	var b []byte
	b = pbBytes(b, 1, s.Addr)
	if s.HasKey {
		b = pbLen(b, 2, refPubKey(s.KeyType, s.KeyRaw))
	}
	return b
}

func refSignedHeader(s SignedHeaderSpec) []byte {
	var b []byte
	b = pbLen(b, 1, refHeader(s.Header))
	b = pbBytes(b, 2, s.Signature)
	b = pbLen(b, 3, refSigner(s.Signer))
	return b
}

func refMetadata(m MetadataSpec) []byte {
	var b []byte
	b = pbBytes(b, 1, []byte(m.ChainID))
	b = pbUint(b, 2, m.Height)
	b = pbUint(b, 3, m.Time)
	b = pbBytes(b, 4, m.LastDataHash)
	return b
}

func refData(d DataSpec, withMeta bool) []byte {
	var b []byte
	if withMeta && d.Meta != nil {
		b = pbLen(b, 1, refMetadata(*d.Meta))
	}
	for _, tx := range d.Txs {
		b = pbLen(b, 2, tx)
	}
	return b
}

func refSignedData(s SignedDataSpec) []byte {
	var b []byte
	b = pbLen(b, 1, refData(s.Data, true))
	b = pbBytes(b, 2, s.Signature)
	b = pbLen(b, 3, refSigner(s.Signer))
	return b
}

func refTimestamp(sec int64, nanos int32) []byte {
	var b []byte
	b = pbUint(b, 1, uint64(sec))          // int64: two's complement, 10 bytes when negative
	b = pbUint(b, 2, uint64(int64(nanos))) // int32: sign-extended to 64 bits
	return b
}

func refState(s StateSpec) []byte {
	var b []byte
	b = pbLen(b, 1, refVersion(s.VBlock, s.VApp))
	b = pbBytes(b, 2, []byte(s.ChainID))
	b = pbUint(b, 3, s.InitialHeight)
	b = pbUint(b, 4, s.LastBlockHeight)
	b = pbLen(b, 5, refTimestamp(s.Sec, s.Nanos))
	b = pbUint(b, 6, s.DAHeight)
	b = pbBytes(b, 7, s.LastResultsHash)
	b = pbBytes(b, 8, s.AppHash)
	return b
}

// refBatch: the batch-cursor list codec of block/manager.go: per entry a 4-byte little-endian
// length followed by the entry; the empty list is the empty string.
func refBatch(list [][]byte) []byte {
	b := []byte{}
	for _, e := range list {
		b = binary.LittleEndian.AppendUint32(b, uint32(len(e)))
		b = append(b, e...)
	}
	return b
}

func sha(b []byte) []byte { h := sha256.Sum256(b); return h[:] }

func leaf(b []byte) []byte {
	h := sha256.New()
	h.Write([]byte{0})
	h.Write(b)
	return h.Sum(nil)
}

// refHeaderHash = sha256(proto(header)).
func refHeaderHash(h HeaderSpec) []byte { return sha(refHeader(h)) }

// refDataHash = sha256(0x00 || proto(data)).
func refDataHash(d DataSpec) []byte { return leaf(refData(d, true)) }

// refCommitment = sha256(0x00 || proto(data without metadata)): a function of the ordered tx list.
func refCommitment(txs [][]byte) []byte { return leaf(refData(DataSpec{Txs: txs}, false)) }
