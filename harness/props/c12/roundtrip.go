package c12

// Clause (a) in the clean region: generated values through every path, judged against the
// original spec and the reference hashes; plus the reference-bytes check of clause (b) on every
// generated value.

import (
	"bytes"
	"context"
	"encoding/hex"
	"fmt"
	"math"
	"math/rand"
	"os"
	"sync"

	"github.com/evstack/ev-node/types"

	"verifharness/vk"
	"verifharness/world"
)

type caseInfo struct {
	ID   int    `json:"id"`
	Seed int64  `json:"case_seed"`
	Kind string `json:"kind"`
}

type judge struct {
	r *vk.Run
	c caseInfo
	// validBefore: the case's signed header passed the node's own ValidateBasic before it was encoded. Only then is a
	// ValidateBasic failure after a path a lost signature; what ValidateBasic demands of a header is not C12's subject.
	validBefore bool
}

func encHex(b []byte) string {
	if len(b) <= 8192 {
		return hex.EncodeToString(b)
	}
	return fmt.Sprintf("%s… (%d bytes, sha256=%x; rebuild the value from case_seed)", hex.EncodeToString(b[:256]), len(b), sha(b))
}

func (j *judge) viol(clause, typ, path, detail string, value any, enc []byte) {
	violation(j.r, clause, fmt.Sprintf("%s via %s: %s", typ, path, detail), map[string]any{
		"case": j.c, "type": typ, "path": path, "value": value, "encoded_hex": encHex(enc),
		"rebuild": "value = generator of props/c12 (gen.go) run on rand.NewSource(case_seed) for the given kind",
	})
}

func (j *judge) hit(clause, typ, path string) {
	j.r.Hit(clause)
	j.r.Count("path:"+typ+"/"+path, 1)
}

func poolKeyFor(s SignerSpec) *poolKey {
	if !s.HasKey {
		return nil
	}
	for i := range keyPool() {
		k := &keyPool()[i]
		if k.Type == s.KeyType && bytes.Equal(k.Raw, s.KeyRaw) {
			return k
		}
	}
	return nil
}

// judgeSH: one observation of a signed header against the original.
func (j *judge) judgeSH(orig SignedHeaderSpec, refHash []byte, o shObs) {
	const typ = "SignedHeader"
	show := showSignedHeader(orig)
	if o.Err != nil {
		j.viol("roundtrip", typ, o.Path, "encode/decode failed: "+o.Err.Error(), show, o.Enc)
		return
	}
	if d := diffSignedHeader(orig, o.Got); len(d) > 0 {
		j.viol("roundtrip", typ, o.Path, "decoded value differs (original != decoded): "+fmt.Sprint(d), show, o.Enc)
		return
	}
	j.hit("roundtrip", typ, o.Path)
	if !bytes.Equal(o.Hash, refHash) {
		j.viol("same-hash", typ, o.Path, fmt.Sprintf("Hash() after the path is %x, reference sha256(proto(header)) is %x", o.Hash, refHash), show, o.Enc)
		return
	}
	j.r.Hit("same-hash")
	if orig.Signed {
		k := poolKeyFor(orig.Signer)
		if j.validBefore && o.Validate != nil {
			j.viol("signature", typ, o.Path, "the header passed ValidateBasic() before the path and fails it after: "+o.Validate.Error(), show, o.Enc)
			return
		}
		ok, err := k.Pub.Verify(o.Payload, o.Got.Signature)
		if err != nil || !ok || !bytes.Equal(o.Payload, refHeader(orig.Header)) {
			j.viol("signature", typ, o.Path, fmt.Sprintf("signature does not verify under the harness's key over the decoded header's payload (ok=%v err=%v payload==reference:%v)", ok, err, bytes.Equal(o.Payload, refHeader(orig.Header))), show, o.Enc)
			return
		}
		j.r.Hit("signature")
	}
}

func (j *judge) judgeData(orig DataSpec, o dataObs) {
	const typ = "Data"
	show := showData(orig)
	if o.Err != nil {
		j.viol("roundtrip", typ, o.Path, "encode/decode failed: "+o.Err.Error(), show, o.Enc)
		return
	}
	if d := diffData(orig, o.Got); len(d) > 0 {
		j.viol("roundtrip", typ, o.Path, "decoded value differs (original != decoded): "+fmt.Sprint(d), show, o.Enc)
		return
	}
	j.hit("roundtrip", typ, o.Path)
	if rh := refDataHash(orig); !bytes.Equal(o.Hash, rh) {
		j.viol("same-hash", typ, o.Path, fmt.Sprintf("Hash() after the path is %x, reference sha256(0x00||proto(data)) is %x", o.Hash, rh), show, o.Enc)
		return
	}
	j.r.Hit("same-hash")
	if rc := refCommitment(orig.Txs); !bytes.Equal(o.Commit, rc) {
		j.viol("same-commitment", typ, o.Path, fmt.Sprintf("DACommitment() after the path is %x, reference sha256(0x00||proto(txs)) is %x", o.Commit, rc), show, o.Enc)
		return
	}
	j.r.Hit("same-commitment")
}

// refCheckSH: clause (b), independent reference, on a generated signed header.
func (j *judge) refCheckSH(orig SignedHeaderSpec, real *types.SignedHeader) bool {
	bz, err := real.MarshalBinary()
	if err != nil {
		j.viol("roundtrip", "SignedHeader", "encode", "MarshalBinary failed: "+err.Error(), showSignedHeader(orig), nil)
		return false
	}
	if rb := refSignedHeader(orig); !bytes.Equal(bz, rb) {
		j.viol("ref-bytes", "SignedHeader", "encode", fmt.Sprintf("MarshalBinary differs from the hand-written protobuf encoding: real=%s reference=%s", encHex(bz), encHex(rb)), showSignedHeader(orig), bz)
		return false
	}
	j.r.Hit("ref-bytes")
	if rh := refHeaderHash(orig.Header); !bytes.Equal([]byte(real.Hash()), rh) {
		j.viol("ref-hash", "SignedHeader", "encode", fmt.Sprintf("Hash()=%x, reference sha256(proto(header))=%x", []byte(real.Hash()), rh), showSignedHeader(orig), bz)
		return false
	}
	j.r.Hit("ref-hash")
	if orig.Signed {
		// the signature was made by the harness over the reference encoding, which MarshalBinary was just seen to
		// equal; whether the node's ValidateBasic also likes the header (height, chain id, ... rules) is recorded
		// only, and decides whether ValidateBasic is consulted after the paths
		j.validBefore = real.ValidateBasic() == nil
		if !j.validBefore {
			j.r.Count("observation:generated-signed-header-refused-by-ValidateBasic-before-encoding", 1)
		}
	}
	return true
}

func (j *judge) refCheckData(orig DataSpec, real *types.Data) bool {
	bz, err := real.MarshalBinary()
	if err != nil {
		j.viol("roundtrip", "Data", "encode", "MarshalBinary failed: "+err.Error(), showData(orig), nil)
		return false
	}
	if rb := refData(orig, true); !bytes.Equal(bz, rb) {
		j.viol("ref-bytes", "Data", "encode", fmt.Sprintf("MarshalBinary differs from the hand-written protobuf encoding: real=%s reference=%s", encHex(bz), encHex(rb)), showData(orig), bz)
		return false
	}
	j.r.Hit("ref-bytes")
	if rh := refDataHash(orig); !bytes.Equal([]byte(real.Hash()), rh) {
		j.viol("ref-hash", "Data", "encode", fmt.Sprintf("Hash()=%x, reference sha256(0x00||proto(data))=%x", []byte(real.Hash()), rh), showData(orig), bz)
		return false
	}
	if rc := refCommitment(orig.Txs); !bytes.Equal([]byte(real.DACommitment()), rc) {
		j.viol("ref-hash", "Data", "encode", fmt.Sprintf("DACommitment()=%x, reference sha256(0x00||proto(txs))=%x", []byte(real.DACommitment()), rc), showData(orig), bz)
		return false
	}
	j.r.Hit("ref-hash")
	return true
}

// ---------- gob batches ----------

type gobItem struct {
	j  *judge
	sh *SignedHeaderSpec
	d  *DataSpec
	rh *types.SignedHeader
	rd *types.Data
}

type gobBatch struct {
	dir   string
	items []gobItem
	bytes int
	rng   *rand.Rand
}

func (gb *gobBatch) add(it gobItem, size int) {
	gb.items = append(gb.items, it)
	gb.bytes += size
	if len(gb.items) >= 48 || gb.bytes > 48<<20 {
		gb.flush()
	}
}

func (gb *gobBatch) flush() {
	if len(gb.items) == 0 {
		return
	}
	items := gb.items
	gb.items, gb.bytes = nil, 0
	used := map[uint64]bool{}
	keys := make([]uint64, len(items))
	hs := make([]*types.SignedHeader, len(items))
	dd := make([]*types.Data, len(items))
	var marks []gobMark
	for i, it := range items {
		r := rand.New(rand.NewSource(it.j.c.Seed ^ 0x60b))
		var k uint64
		for {
			switch r.Intn(6) {
			case 0:
				k = 0
			case 1:
				k = math.MaxUint64
			case 2:
				k = uint64(r.Intn(1000))
			default:
				k = r.Uint64()
			}
			if !used[k] {
				break
			}
		}
		used[k] = true
		keys[i], hs[i], dd[i] = k, it.rh, it.rd
		if r.Intn(2) == 0 {
			g := &G{rng: r}
			marks = append(marks, gobMark{Key: fmt.Sprintf("%x", g.rnd(32)), Height: g.u64()})
		}
	}
	marks = append(marks, gobMark{Key: "", Height: 0})
	j0 := items[0].j
	hOut, dOut, markProblems, err := gobRound(gb.dir, keys, hs, dd, marks)
	if err != nil {
		// find the culprit by saving each item alone
		for i := range items {
			_, _, _, e1 := gobRound(gb.dir, keys[i:i+1], hs[i:i+1], dd[i:i+1], nil)
			if e1 != nil {
				it := items[i]
				if it.sh != nil {
					it.j.viol("roundtrip", "SignedHeader", "gob", "cache file round trip failed: "+e1.Error(), showSignedHeader(*it.sh), nil)
				} else {
					it.j.viol("roundtrip", "Data", "gob", "cache file round trip failed: "+e1.Error(), showData(*it.d), nil)
				}
				return
			}
		}
		j0.viol("roundtrip", "cache", "gob", "cache file round trip of a batch failed although every item alone works: "+err.Error(), nil, nil)
		return
	}
	for _, p := range markProblems {
		j0.viol("roundtrip", "cache-marks", "gob", p, marks, nil)
	}
	j0.r.HitN("roundtrip-cache-marks", int64(len(marks)))
	for i, it := range items {
		if it.sh != nil {
			if hOut[i] == nil {
				it.j.viol("roundtrip", "SignedHeader", "gob", fmt.Sprintf("item under key %d is missing after SaveToDisk/LoadFromDisk", keys[i]), showSignedHeader(*it.sh), nil)
			} else {
				it.j.judgeSH(*it.sh, refHeaderHash(it.sh.Header), obsSH("gob", nil, hOut[i]))
			}
		}
		if it.d != nil {
			if dOut[i] == nil {
				it.j.viol("roundtrip", "Data", "gob", fmt.Sprintf("item under key %d is missing after SaveToDisk/LoadFromDisk", keys[i]), showData(*it.d), nil)
			} else {
				it.j.judgeData(*it.d, obsData("gob", nil, dOut[i]))
			}
		}
	}
}

// ---------- case runner ----------

var caseKinds = []string{"block", "block", "block", "header", "metadata", "signeddata", "signeddata", "state", "state", "batch", "batch", "data"}

func dataSize(d DataSpec) int {
	n := 0
	for _, tx := range d.Txs {
		n += len(tx) + 4
	}
	return n
}

// linkedBlock draws a data and a signed header; half of the time the header commits to the data
// the way a produced block does.
func (g *G) linkedBlock() (SignedHeaderSpec, DataSpec) {
	d := g.data()
	if g.rng.Intn(2) == 0 {
		return g.signedHeader(), d
	}
	// build the header first, then sign: reuse signedHeader's logic by drawing and re-signing
	s := g.signedHeader()
	s.Header.DataHash = refCommitment(d.Txs)
	if d.Meta != nil {
		d.Meta.ChainID, d.Meta.Height, d.Meta.Time = s.Header.ChainID, s.Header.Height, s.Header.Time
	}
	if s.Signed {
		k := poolKeyFor(s.Signer)
		sig, err := k.Priv.Sign(refHeader(s.Header))
		if err != nil {
			panic(err)
		}
		s.Signature = sig
	}
	return s, d
}

func runCase(ctx context.Context, r *vk.Run, c caseInfo, gb *gobBatch) {
	j := &judge{r: r, c: c}
	defer func() {
		if p := recover(); p != nil {
			j.viol("no-panic", c.Kind, "any", fmt.Sprintf("panic while encoding/decoding a generated value: %v", p), nil, nil)
		}
	}()
	g := &G{rng: rand.New(rand.NewSource(c.Seed))}
	switch c.Kind {
	case "block":
		sh, d := g.linkedBlock()
		rh, rd := sh.Real(), d.Real()
		refHash := refHeaderHash(sh.Header)
		okH := j.refCheckSH(sh, rh)
		okD := j.refCheckData(d, rd)
		r.Eval("SignedHeader:"+hex.EncodeToString(sha(refSignedHeader(sh))), true, map[string]any{"type": "SignedHeader", "value": showSignedHeader(sh)})
		r.Eval("Data:"+hex.EncodeToString(refDataHash(d)), true, map[string]any{"type": "Data", "value": showData(d)})
		if !okH || !okD {
			return
		}
		for _, o := range signedHeaderWirePaths(rh) {
			j.judgeSH(sh, refHash, o)
		}
		for _, o := range dataWirePaths(rd) {
			j.judgeData(d, o)
		}
		so := storePath(ctx, rh, rd, refHash)
		if so.Err != nil {
			j.viol("roundtrip", "block", "store", so.Err.Error(), map[string]any{"header": showSignedHeader(sh), "data": showData(d)}, nil)
		} else {
			j.judgeSH(sh, refHash, so.ByHeight)
			j.judgeSH(sh, refHash, so.HeaderOnly)
			j.judgeSH(sh, refHash, so.ByHash)
			j.judgeData(d, so.Data)
			j.judgeData(d, so.DataByHash)
			if !bytes.Equal(so.Signature, sh.Signature) || !bytes.Equal(so.SigByHash, sh.Signature) {
				j.viol("roundtrip", "Signature", "store", fmt.Sprintf("stored signature %s / %s, saved %s", hexS(so.Signature), hexS(so.SigByHash), hexS(sh.Signature)), showSignedHeader(sh), nil)
			} else {
				j.hit("roundtrip", "Signature", "store")
			}
		}
		gb.add(gobItem{j: j, sh: &sh, d: &d, rh: rh, rd: rd}, dataSize(d))
		if sh.Signed && c.Seed%3 == 0 {
			j.customPayload(ctx, sh, d)
		}
	case "data":
		d := g.data()
		rd := d.Real()
		ok := j.refCheckData(d, rd)
		r.Eval("Data:"+hex.EncodeToString(refDataHash(d)), true, map[string]any{"type": "Data", "value": showData(d)})
		if !ok {
			return
		}
		for _, o := range dataWirePaths(rd) {
			j.judgeData(d, o)
		}
		gb.add(gobItem{j: j, d: &d, rd: rd}, dataSize(d))
	case "header":
		h := g.header()
		real := h.Real()
		rb, rh := refHeader(h), refHeaderHash(h)
		r.Eval("Header:"+hex.EncodeToString(rh), true, map[string]any{"type": "Header", "value": showHeader(h)})
		bz, err := real.MarshalBinary()
		if err != nil {
			j.viol("roundtrip", "Header", "encode", "MarshalBinary failed: "+err.Error(), showHeader(h), nil)
			return
		}
		if !bytes.Equal(bz, rb) {
			j.viol("ref-bytes", "Header", "encode", fmt.Sprintf("MarshalBinary differs from the hand-written protobuf encoding: real=%x reference=%x", bz, rb), showHeader(h), bz)
			return
		}
		r.Hit("ref-bytes")
		if !bytes.Equal([]byte(real.Hash()), rh) {
			j.viol("ref-hash", "Header", "encode", fmt.Sprintf("Hash()=%x, reference sha256(proto(header))=%x", []byte(real.Hash()), rh), showHeader(h), bz)
			return
		}
		r.Hit("ref-hash")
		for _, o := range headerPaths(&real) {
			if o.Err != nil {
				j.viol("roundtrip", "Header", o.Path, "encode/decode failed: "+o.Err.Error(), showHeader(h), o.Enc)
				continue
			}
			if d := diffHeader(h, o.Got); len(d) > 0 {
				j.viol("roundtrip", "Header", o.Path, "decoded value differs (original != decoded): "+fmt.Sprint(d), showHeader(h), o.Enc)
				continue
			}
			j.hit("roundtrip", "Header", o.Path)
			if !bytes.Equal(o.Hash, rh) {
				j.viol("same-hash", "Header", o.Path, fmt.Sprintf("Hash() after the path is %x, reference is %x", o.Hash, rh), showHeader(h), o.Enc)
				continue
			}
			r.Hit("same-hash")
		}
	case "metadata":
		m := g.metadata()
		rb := refMetadata(m)
		r.Eval("Metadata:"+hex.EncodeToString(sha(rb)), true, map[string]any{"type": "Metadata", "value": showMetadata(&m)})
		o := metadataPath(m.Real())
		if o.Err != nil {
			j.viol("roundtrip", "Metadata", "binary", "encode/decode failed: "+o.Err.Error(), showMetadata(&m), o.Enc)
			return
		}
		if !bytes.Equal(o.Enc, rb) {
			j.viol("ref-bytes", "Metadata", "encode", fmt.Sprintf("MarshalBinary differs from the hand-written protobuf encoding: real=%x reference=%x", o.Enc, rb), showMetadata(&m), o.Enc)
			return
		}
		r.Hit("ref-bytes")
		if d := diffMetadata(m, o.Got); len(d) > 0 {
			j.viol("roundtrip", "Metadata", "binary", "decoded value differs (original != decoded): "+fmt.Sprint(d), showMetadata(&m), o.Enc)
			return
		}
		j.hit("roundtrip", "Metadata", "binary")
		if ou, ok := metadataUsed(o.Enc); ok {
			if ou.Err != nil {
				j.viol("roundtrip", "Metadata", "binary into a used receiver", "decode failed: "+ou.Err.Error(), showMetadata(&m), o.Enc)
			} else if d := diffMetadata(m, ou.Got); len(d) > 0 {
				j.viol("roundtrip", "Metadata", "binary into a used receiver", "decoded value differs (original != decoded): "+fmt.Sprint(d), showMetadata(&m), o.Enc)
			} else {
				j.hit("roundtrip", "Metadata", "binary into a used receiver")
			}
		}
	case "signeddata":
		s := g.signedData()
		real := s.Real()
		rb := refSignedData(s)
		r.Eval("SignedData:"+hex.EncodeToString(sha(rb)), true, map[string]any{"type": "SignedData", "value": showSignedData(s)})
		if rh := refDataHash(s.Data); !bytes.Equal([]byte(real.Hash()), rh) {
			j.viol("ref-hash", "SignedData", "encode", fmt.Sprintf("Hash()=%x, reference=%x", []byte(real.Hash()), rh), showSignedData(s), nil)
			return
		}
		r.Hit("ref-hash")
		o := signedDataPath(real)
		if o.Err != nil {
			j.viol("roundtrip", "SignedData", o.Path, "encode/decode failed: "+o.Err.Error(), showSignedData(s), o.Enc)
			return
		}
		if !bytes.Equal(o.Enc, rb) {
			j.viol("ref-bytes", "SignedData", "encode", fmt.Sprintf("MarshalBinary differs from the hand-written protobuf encoding: real=%s reference=%s", encHex(o.Enc), encHex(rb)), showSignedData(s), o.Enc)
			return
		}
		r.Hit("ref-bytes")
		if d := diffSignedData(s, o.Got); len(d) > 0 {
			j.viol("roundtrip", "SignedData", o.Path, "decoded value differs (original != decoded): "+fmt.Sprint(d), showSignedData(s), o.Enc)
			return
		}
		j.hit("roundtrip", "SignedData", o.Path)
		if !bytes.Equal(o.Hash, refDataHash(s.Data)) {
			j.viol("same-hash", "SignedData", o.Path, fmt.Sprintf("Hash() after the path is %x, reference is %x", o.Hash, refDataHash(s.Data)), showSignedData(s), o.Enc)
			return
		}
		r.Hit("same-hash")
		if !bytes.Equal(o.Commit, refCommitment(s.Data.Txs)) {
			j.viol("same-commitment", "SignedData", o.Path, fmt.Sprintf("DACommitment() after the path is %x, reference is %x", o.Commit, refCommitment(s.Data.Txs)), showSignedData(s), o.Enc)
			return
		}
		r.Hit("same-commitment")
		if s.Signed {
			k := poolKeyFor(s.Signer)
			ok, err := k.Pub.Verify(o.Payload, o.Got.Signature)
			if err != nil || !ok || !bytes.Equal(o.Payload, refData(s.Data, true)) {
				j.viol("signature", "SignedData", o.Path, fmt.Sprintf("data signature does not verify under the harness's key over the decoded data (ok=%v err=%v payload==reference:%v)", ok, err, bytes.Equal(o.Payload, refData(s.Data, true))), showSignedData(s), o.Enc)
				return
			}
			r.Hit("signature")
		}
		if ou, ok := signedDataUsed(o.Enc); ok {
			switch {
			case ou.Err != nil:
				j.viol("roundtrip", "SignedData", ou.Path, "decode failed: "+ou.Err.Error(), showSignedData(s), o.Enc)
			case len(diffSignedData(s, ou.Got)) > 0:
				j.viol("roundtrip", "SignedData", ou.Path, "decoded value differs (original != decoded): "+fmt.Sprint(diffSignedData(s, ou.Got)), showSignedData(s), o.Enc)
			case !bytes.Equal(ou.Hash, refDataHash(s.Data)):
				j.viol("same-hash", "SignedData", ou.Path, fmt.Sprintf("Hash() after the path is %x, reference is %x", ou.Hash, refDataHash(s.Data)), showSignedData(s), o.Enc)
			case !bytes.Equal(ou.Commit, refCommitment(s.Data.Txs)):
				j.viol("same-commitment", "SignedData", ou.Path, fmt.Sprintf("DACommitment() after the path is %x, reference is %x", ou.Commit, refCommitment(s.Data.Txs)), showSignedData(s), o.Enc)
			default:
				j.hit("roundtrip", "SignedData", ou.Path)
			}
		}
	case "state":
		s := g.state()
		rb := refState(s)
		r.Eval("State:"+hex.EncodeToString(sha(rb)), true, map[string]any{"type": "State", "value": showState(s)})
		for _, o := range statePaths(ctx, s.Real()) {
			if o.Err != nil {
				j.viol("roundtrip", "State", o.Path, "encode/decode failed: "+o.Err.Error(), showState(s), o.Enc)
				continue
			}
			if o.Enc == nil {
				// store path: observed through the store API only
			} else if !bytes.Equal(o.Enc, rb) {
				j.viol("ref-bytes", "State", o.Path, fmt.Sprintf("encoding differs from the hand-written protobuf encoding: real=%x reference=%x", o.Enc, rb), showState(s), o.Enc)
				continue
			} else {
				r.Hit("ref-bytes")
			}
			if d := diffState(s, o.Got); len(d) > 0 {
				j.viol("roundtrip", "State", o.Path, "decoded value differs (original != decoded): "+fmt.Sprint(d), showState(s), o.Enc)
				continue
			}
			j.hit("roundtrip", "State", o.Path)
		}
	case "batch":
		l := g.batch()
		rb := refBatch(l)
		r.Eval("Batch:"+hex.EncodeToString(sha(rb)), true, map[string]any{"type": "BatchCursorList", "value": showTxs(l)})
		for _, o := range batchPaths(ctx, l) {
			if o.Err != nil {
				j.viol("roundtrip", "BatchCursorList", o.Path, "decode failed: "+o.Err.Error(), showTxs(l), o.Enc)
				continue
			}
			if !bytes.Equal(o.Enc, rb) {
				j.viol("ref-bytes", "BatchCursorList", o.Path, fmt.Sprintf("encoding differs from the reference (4-byte little-endian length + entry): real=%s reference=%s", encHex(o.Enc), encHex(rb)), showTxs(l), o.Enc)
				continue
			}
			r.Hit("ref-bytes")
			if d := diffBatch(l, o.Got); len(d) > 0 {
				j.viol("roundtrip", "BatchCursorList", o.Path, "decoded list differs (original != decoded): "+fmt.Sprint(d), showTxs(l), o.Enc)
				continue
			}
			j.hit("roundtrip", "BatchCursorList", o.Path)
		}
	}
}

// roundTrips runs n cases on a worker pool. The case list (kind, seed) is drawn sequentially
// from the run's PRNG; every value is a function of its case seed.
func roundTrips(ctx context.Context, r *vk.Run, n int) {
	rng := r.Rand("roundtrip-cases")
	cases := make([]caseInfo, n)
	for i := range cases {
		cases[i] = caseInfo{ID: i, Seed: rng.Int63(), Kind: caseKinds[rng.Intn(len(caseKinds))]}
	}
	ch := make(chan caseInfo, 64)
	var wg sync.WaitGroup
	wg.Add(1)
	go func() { // next to the generated cases: it spends its time in file I/O
		defer wg.Done()
		largeCacheFile(r)
	}()
	for w := 0; w < 16; w++ {
		wg.Add(1)
		go func() {
			defer wg.Done()
			dir := world.TempDir(vk.Root(), "C12-gob-*")
			defer os.RemoveAll(dir)
			gb := &gobBatch{dir: dir}
			for c := range ch {
				runCase(ctx, r, c, gb)
			}
			func() {
				defer func() {
					if p := recover(); p != nil {
						violation(r, "no-panic", fmt.Sprintf("panic in the cache file round trip: %v", p), nil)
					}
				}()
				gb.flush()
			}()
		}()
	}
	for _, c := range cases {
		ch <- c
	}
	close(ch)
	wg.Wait()
}

// customProvider is a signature payload provider other than the default one (a chain may sign something else than the
// header's protobuf encoding): a domain tag followed by the header's own binary encoding.
func customProvider(h *types.Header) ([]byte, error) {
	bz, err := h.MarshalBinary()
	if err != nil {
		return nil, err
	}
	return append([]byte("verif-custom-payload/"), bz...), nil
}

// customPayload: a header signed over a custom payload keeps a valid signature after every path. The provider is not
// part of the wire value; the node re-attaches it to every header it decodes (SetCustomVerifier) and so does this.
func (j *judge) customPayload(ctx context.Context, sh SignedHeaderSpec, d DataSpec) {
	k := poolKeyFor(sh.Signer)
	payload := append([]byte("verif-custom-payload/"), refHeader(sh.Header)...)
	sig, err := k.Priv.Sign(payload)
	if err != nil {
		return
	}
	cs := sh
	cs.Signature = sig
	real := cs.Real()
	real.SetCustomVerifier(customProvider)
	validBefore := real.ValidateBasic() == nil
	var obs []shObs
	for _, o := range signedHeaderWirePaths(real) {
		obs = append(obs, o)
	}
	if so := storePath(ctx, real, d.Real(), refHeaderHash(cs.Header)); so.Err == nil {
		obs = append(obs, so.ByHeight, so.HeaderOnly, so.ByHash)
	}
	for _, o := range obs {
		if o.Err != nil || len(diffSignedHeader(cs, o.Got)) > 0 {
			continue // reported by the ordinary clauses on the default-payload twin of this header
		}
		dec := o.Got.Real()
		dec.SetCustomVerifier(customProvider)
		got, perr := customProvider(&dec.Header)
		ok, verr := k.Pub.Verify(got, dec.Signature)
		if perr != nil || verr != nil || !ok {
			j.viol("signature", "SignedHeader", o.Path+" (custom signature payload)", fmt.Sprintf("a signature made over a custom payload no longer verifies under the signer's key over the custom payload of the decoded header (ok=%v payload-err=%v verify-err=%v)", ok, perr, verr), showSignedHeader(cs), o.Enc)
			return
		}
		if validBefore {
			if e := dec.ValidateBasic(); e != nil {
				j.viol("signature", "SignedHeader", o.Path+" (custom signature payload)", "with the custom payload provider attached the header passed ValidateBasic() before the path and fails it after: "+e.Error(), showSignedHeader(cs), o.Enc)
				return
			}
		}
		j.r.Hit("signature-custom-payload")
	}
}
