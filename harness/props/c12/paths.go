package c12

// Clause (a): the paths a value travels in the node, each as "encode with the real code, decode
// with the real code", returning what came out as a spec plus the hashes the real code reports.

import (
	"context"
	"encoding/gob"
	"fmt"
	"os"
	"path/filepath"

	"google.golang.org/protobuf/proto"

	"github.com/evstack/ev-node/block"
	"github.com/evstack/ev-node/pkg/cache"
	"github.com/evstack/ev-node/pkg/store"
	"github.com/evstack/ev-node/types"
	pb "github.com/evstack/ev-node/types/pb/evnode/v1"

	"verifharness/world"
)

func init() {
	// what block.Manager.LoadCache does before touching the cache files
	gob.Register(&types.SignedHeader{})
	gob.Register(&types.Data{})
}

// shObs is one observation of a signed header after a path.
type shObs struct {
	Path     string
	Err      error // encode or decode failed
	Enc      []byte
	Got      SignedHeaderSpec
	Hash     []byte
	Validate error  // ValidateBasic() of the decoded value
	Payload  []byte // MarshalBinary of the decoded embedded header (the default signature payload)
}

func obsSH(path string, enc []byte, d *types.SignedHeader) shObs {
	o := shObs{Path: path, Enc: enc, Got: specOfSignedHeader(d), Hash: d.Hash()}
	if d.Signer.PubKey != nil { // ValidateBasic dereferences the key; without one there is nothing to verify
		o.Validate = d.ValidateBasic()
	}
	o.Payload, _ = d.Header.MarshalBinary()
	return o
}

// signedHeaderWirePaths: P2P (MarshalBinary/UnmarshalBinary) and DA blob (submitter: ToProto +
// proto.Marshal; retriever: proto.Unmarshal + FromProto).
func signedHeaderWirePaths(real *types.SignedHeader) []shObs {
	var out []shObs
	{
		bz, err := real.MarshalBinary()
		if err != nil {
			out = append(out, shObs{Path: "p2p", Err: fmt.Errorf("MarshalBinary: %w", err)})
		} else {
			d := new(types.SignedHeader)
			if err := d.UnmarshalBinary(bz); err != nil {
				out = append(out, shObs{Path: "p2p", Enc: bz, Err: fmt.Errorf("UnmarshalBinary: %w", err)})
			} else {
				out = append(out, obsSH("p2p", bz, d))
			}
			if u := usedSignedHeader(); u != nil {
				if err := u.UnmarshalBinary(bz); err != nil {
					out = append(out, shObs{Path: "p2p into a used receiver", Enc: bz, Err: fmt.Errorf("UnmarshalBinary: %w", err)})
				} else {
					out = append(out, obsSH("p2p into a used receiver", bz, u))
				}
			}
		}
	}
	{
		var bz []byte
		p, err := real.ToProto()
		if err == nil {
			bz, err = proto.Marshal(p)
		}
		if err != nil {
			out = append(out, shObs{Path: "da", Err: fmt.Errorf("ToProto/Marshal: %w", err)})
		} else {
			d := new(types.SignedHeader)
			var q pb.SignedHeader
			err := proto.Unmarshal(bz, &q)
			if err == nil {
				err = d.FromProto(&q)
			}
			if err != nil {
				out = append(out, shObs{Path: "da", Enc: bz, Err: fmt.Errorf("Unmarshal/FromProto: %w", err)})
			} else {
				out = append(out, obsSH("da", bz, d))
			}
			if u := usedSignedHeader(); u != nil {
				var q2 pb.SignedHeader
				err := proto.Unmarshal(bz, &q2)
				if err == nil {
					err = u.FromProto(&q2)
				}
				if err != nil {
					out = append(out, shObs{Path: "da into a used receiver", Enc: bz, Err: fmt.Errorf("Unmarshal/FromProto: %w", err)})
				} else {
					out = append(out, obsSH("da into a used receiver", bz, u))
				}
			}
		}
	}
	return out
}

// dataObs is one observation of a Data after a path.
type dataObs struct {
	Path   string
	Err    error
	Enc    []byte
	Got    DataSpec
	Hash   []byte
	Commit []byte
}

func obsData(path string, enc []byte, d *types.Data) dataObs {
	return dataObs{Path: path, Enc: enc, Got: specOfData(d), Hash: d.Hash(), Commit: d.DACommitment()}
}

func dataWirePaths(real *types.Data) []dataObs {
	bz, err := real.MarshalBinary()
	if err != nil {
		return []dataObs{{Path: "p2p", Err: fmt.Errorf("MarshalBinary: %w", err)}}
	}
	d := new(types.Data)
	if err := d.UnmarshalBinary(bz); err != nil {
		return []dataObs{{Path: "p2p", Enc: bz, Err: fmt.Errorf("UnmarshalBinary: %w", err)}}
	}
	out := []dataObs{obsData("p2p", bz, d)}
	if u := usedData(); u != nil {
		if err := u.UnmarshalBinary(bz); err != nil {
			out = append(out, dataObs{Path: "p2p into a used receiver", Enc: bz, Err: fmt.Errorf("UnmarshalBinary: %w", err)})
		} else {
			out = append(out, obsData("p2p into a used receiver", bz, u))
		}
	}
	// ToProto / FromProto with an explicit protobuf round trip in between
	bz2, err := proto.Marshal(real.ToProto())
	if err != nil {
		return append(out, dataObs{Path: "proto", Err: err})
	}
	var q pb.Data
	d2 := new(types.Data)
	err = proto.Unmarshal(bz2, &q)
	if err == nil {
		err = d2.FromProto(&q)
	}
	if err != nil {
		return append(out, dataObs{Path: "proto", Enc: bz2, Err: err})
	}
	return append(out, obsData("proto", bz2, d2))
}

// storeObs: what the block store returns for a saved (header, data, signature) triple.
type storeObs struct {
	Err        error
	ByHeight   shObs
	HeaderOnly shObs
	ByHash     shObs
	Data       dataObs
	DataByHash dataObs
	Signature  []byte
	SigByHash  []byte
}

// storePath saves the pair in a fresh block store over the in-memory datastore and reads it back
// by height, header-only, by (reference) hash, and the stored signature.
func storePath(ctx context.Context, rh *types.SignedHeader, rd *types.Data, refHash []byte) storeObs {
	var o storeObs
	st := store.New(world.NewMemDS(world.NewImage()))
	sig := rh.Signature
	if err := st.SaveBlockData(ctx, rh, rd, &sig); err != nil {
		o.Err = fmt.Errorf("SaveBlockData: %w", err)
		return o
	}
	height := rh.Height()
	h2, d2, err := st.GetBlockData(ctx, height)
	if err != nil {
		o.Err = fmt.Errorf("GetBlockData(%d): %w", height, err)
		return o
	}
	o.ByHeight = obsSH("store", nil, h2)
	o.Data = obsData("store", nil, d2)
	h3, err := st.GetHeader(ctx, height)
	if err != nil {
		o.Err = fmt.Errorf("GetHeader(%d): %w", height, err)
		return o
	}
	o.HeaderOnly = obsSH("store/GetHeader", nil, h3)
	h4, d4, err := st.GetBlockByHash(ctx, refHash)
	if err != nil {
		o.Err = fmt.Errorf("GetBlockByHash(reference hash): %w", err)
		return o
	}
	o.ByHash = obsSH("store/GetBlockByHash", nil, h4)
	o.DataByHash = obsData("store/GetBlockByHash", nil, d4)
	s2, err := st.GetSignature(ctx, height)
	if err != nil {
		o.Err = fmt.Errorf("GetSignature(%d): %w", height, err)
		return o
	}
	o.Signature = *s2
	s3, err := st.GetSignatureByHash(ctx, refHash)
	if err != nil {
		o.Err = fmt.Errorf("GetSignatureByHash: %w", err)
		return o
	}
	o.SigByHash = *s3
	return o
}

// gobRound writes the items into the two caches the manager keeps, saves them to disk, loads them
// into fresh caches and returns what those hold under the same keys. marks are hash strings with
// a DA height (the seen / DA-included maps of the cache files).
type gobMark struct {
	Key    string
	Height uint64
}

func gobRound(dir string, keys []uint64, hs []*types.SignedHeader, ds []*types.Data, marks []gobMark) (hOut []*types.SignedHeader, dOut []*types.Data, marksOK []string, err error) {
	hc := cache.NewCache[types.SignedHeader]()
	dc := cache.NewCache[types.Data]()
	for i, k := range keys {
		if hs[i] != nil {
			hc.SetItem(k, hs[i])
		}
		if ds[i] != nil {
			dc.SetItem(k, ds[i])
		}
	}
	for _, m := range marks {
		hc.SetSeen(m.Key)
		hc.SetDAIncluded(m.Key, m.Height)
		dc.SetSeen(m.Key)
		dc.SetDAIncluded(m.Key, m.Height)
	}
	hdir, ddir := filepath.Join(dir, "header"), filepath.Join(dir, "data")
	defer os.RemoveAll(hdir)
	defer os.RemoveAll(ddir)
	if err = hc.SaveToDisk(hdir); err != nil {
		return nil, nil, nil, fmt.Errorf("header cache SaveToDisk: %w", err)
	}
	if err = dc.SaveToDisk(ddir); err != nil {
		return nil, nil, nil, fmt.Errorf("data cache SaveToDisk: %w", err)
	}
	hc2 := cache.NewCache[types.SignedHeader]()
	dc2 := cache.NewCache[types.Data]()
	if err = hc2.LoadFromDisk(hdir); err != nil {
		return nil, nil, nil, fmt.Errorf("header cache LoadFromDisk: %w", err)
	}
	if err = dc2.LoadFromDisk(ddir); err != nil {
		return nil, nil, nil, fmt.Errorf("data cache LoadFromDisk: %w", err)
	}
	for _, k := range keys {
		hOut = append(hOut, hc2.GetItem(k))
		dOut = append(dOut, dc2.GetItem(k))
	}
	for _, m := range marks {
		for name, c := range map[string]interface {
			IsSeen(string) bool
			GetDAIncludedHeight(string) (uint64, bool)
		}{"header": hc2, "data": dc2} {
			if !c.IsSeen(m.Key) {
				marksOK = append(marksOK, fmt.Sprintf("%s cache: seen mark %q lost", name, m.Key))
			}
			if h, ok := c.GetDAIncludedHeight(m.Key); !ok || h != m.Height {
				marksOK = append(marksOK, fmt.Sprintf("%s cache: DA-included mark %q=%d came back as %d (present=%v)", name, m.Key, m.Height, h, ok))
			}
		}
	}
	return hOut, dOut, marksOK, nil
}

// ---------- the simpler types ----------

type headerObs struct {
	Path string
	Err  error
	Enc  []byte
	Got  HeaderSpec
	Hash []byte
}

func headerPaths(real *types.Header) []headerObs {
	var out []headerObs
	bz, err := real.MarshalBinary()
	if err != nil {
		return []headerObs{{Path: "binary", Err: fmt.Errorf("MarshalBinary: %w", err)}}
	}
	d := new(types.Header)
	if err := d.UnmarshalBinary(bz); err != nil {
		out = append(out, headerObs{Path: "binary", Enc: bz, Err: fmt.Errorf("UnmarshalBinary: %w", err)})
	} else {
		out = append(out, headerObs{Path: "binary", Enc: bz, Got: specOfHeader(d), Hash: d.Hash()})
	}
	if u := usedHeader(); u != nil {
		if err := u.UnmarshalBinary(bz); err != nil {
			out = append(out, headerObs{Path: "binary into a used receiver", Enc: bz, Err: fmt.Errorf("UnmarshalBinary: %w", err)})
		} else {
			out = append(out, headerObs{Path: "binary into a used receiver", Enc: bz, Got: specOfHeader(u), Hash: u.Hash()})
		}
	}
	bz2, err := proto.Marshal(real.ToProto())
	if err != nil {
		return append(out, headerObs{Path: "proto", Err: err})
	}
	var q pb.Header
	d2 := new(types.Header)
	err = proto.Unmarshal(bz2, &q)
	if err == nil {
		err = d2.FromProto(&q)
	}
	if err != nil {
		return append(out, headerObs{Path: "proto", Enc: bz2, Err: err})
	}
	return append(out, headerObs{Path: "proto", Enc: bz2, Got: specOfHeader(d2), Hash: d2.Hash()})
}

type metaObs struct {
	Err error
	Enc []byte
	Got MetadataSpec
}

func metadataPath(real *types.Metadata) metaObs {
	bz, err := real.MarshalBinary()
	if err != nil {
		return metaObs{Err: fmt.Errorf("MarshalBinary: %w", err)}
	}
	d := new(types.Metadata)
	if err := d.UnmarshalBinary(bz); err != nil {
		return metaObs{Enc: bz, Err: fmt.Errorf("UnmarshalBinary: %w", err)}
	}
	return metaObs{Enc: bz, Got: specOfMetadata(d)}
}

// metadataUsed decodes the encoding into a receiver that held another metadata before.
func metadataUsed(bz []byte) (metaObs, bool) {
	u := usedMetadata()
	if u == nil {
		return metaObs{}, false
	}
	if err := u.UnmarshalBinary(bz); err != nil {
		return metaObs{Enc: bz, Err: fmt.Errorf("UnmarshalBinary into a used receiver: %w", err)}, true
	}
	return metaObs{Enc: bz, Got: specOfMetadata(u)}, true
}

type sdObs struct {
	Path    string
	Err     error
	Enc     []byte
	Got     SignedDataSpec
	Hash    []byte
	Commit  []byte
	Payload []byte // MarshalBinary of the decoded embedded Data (what the data signature covers)
}

// signedDataPath: DA blob of signed data (submitter: MarshalBinary; retriever: UnmarshalBinary).
func signedDataPath(real *types.SignedData) sdObs {
	bz, err := real.MarshalBinary()
	if err != nil {
		return sdObs{Path: "da", Err: fmt.Errorf("MarshalBinary: %w", err)}
	}
	d := new(types.SignedData)
	if err := d.UnmarshalBinary(bz); err != nil {
		return sdObs{Path: "da", Enc: bz, Err: fmt.Errorf("UnmarshalBinary: %w", err)}
	}
	o := sdObs{Path: "da", Enc: bz, Got: specOfSignedData(d), Hash: d.Hash(), Commit: d.DACommitment()}
	o.Payload, _ = d.Data.MarshalBinary()
	return o
}

// signedDataUsed decodes the blob into a receiver that held another signed data before.
func signedDataUsed(bz []byte) (sdObs, bool) {
	u := usedSignedData()
	if u == nil {
		return sdObs{}, false
	}
	const path = "da into a used receiver"
	if err := u.UnmarshalBinary(bz); err != nil {
		return sdObs{Path: path, Enc: bz, Err: fmt.Errorf("UnmarshalBinary: %w", err)}, true
	}
	o := sdObs{Path: path, Enc: bz, Got: specOfSignedData(u), Hash: u.Hash(), Commit: u.DACommitment()}
	o.Payload, _ = u.Data.MarshalBinary()
	return o, true
}

type stateObs struct {
	Path string
	Err  error
	Enc  []byte
	Got  StateSpec
}

func statePaths(ctx context.Context, real types.State) []stateObs {
	var out []stateObs
	{
		var bz []byte
		p, err := real.ToProto()
		if err == nil {
			bz, err = proto.Marshal(p)
		}
		if err != nil {
			out = append(out, stateObs{Path: "proto", Err: err})
		} else {
			var q pb.State
			var d types.State
			err = proto.Unmarshal(bz, &q)
			if err == nil {
				err = d.FromProto(&q)
			}
			if err != nil {
				out = append(out, stateObs{Path: "proto", Enc: bz, Err: err})
			} else {
				out = append(out, stateObs{Path: "proto", Enc: bz, Got: specOfState(&d)})
			}
			if u := usedState(); u != nil {
				var q2 pb.State
				err := proto.Unmarshal(bz, &q2)
				if err == nil {
					err = u.FromProto(&q2)
				}
				if err != nil {
					out = append(out, stateObs{Path: "proto into a used receiver", Enc: bz, Err: err})
				} else {
					out = append(out, stateObs{Path: "proto into a used receiver", Enc: bz, Got: specOfState(u)})
				}
			}
		}
	}
	{
		st := store.New(world.NewMemDS(world.NewImage()))
		if err := st.UpdateState(ctx, real); err != nil {
			out = append(out, stateObs{Path: "store", Err: fmt.Errorf("UpdateState: %w", err)})
		} else if d, err := st.GetState(ctx); err != nil {
			out = append(out, stateObs{Path: "store", Err: fmt.Errorf("GetState: %w", err)})
		} else {
			// read back through the store API only: which keys the store writes and what it puts under them is its
			// own business as long as GetState returns the state
			out = append(out, stateObs{Path: "store", Got: specOfState(&d)})
		}
	}
	return out
}

type batchObs struct {
	Path string
	Err  error
	Enc  []byte
	Got  [][]byte
}

// batchPaths: the batch-cursor codec directly and through the store metadata key the manager uses.
func batchPaths(ctx context.Context, list [][]byte) []batchObs {
	var out []batchObs
	enc := block.VerifBatchDataToBytes(list)
	got, err := block.VerifBytesToBatchData(enc)
	out = append(out, batchObs{Path: "codec", Enc: enc, Got: got, Err: err})
	st := store.New(world.NewMemDS(world.NewImage()))
	if err := st.SetMetadata(ctx, store.LastBatchDataKey, block.VerifBatchDataToBytes(list)); err != nil {
		return append(out, batchObs{Path: "store", Err: err})
	}
	raw, err := st.GetMetadata(ctx, store.LastBatchDataKey)
	if err != nil {
		return append(out, batchObs{Path: "store", Err: err})
	}
	got2, err := block.VerifBytesToBatchData(raw)
	return append(out, batchObs{Path: "store", Enc: raw, Got: got2, Err: err})
}
