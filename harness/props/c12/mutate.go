package c12

// Byte corpus for clause (c): random strings, protobuf-shaped random streams, and mutations of
// valid encodings. Valid encodings come from the reference encoder (ref.go), so the corpus is a
// function of the shard seed only and does not depend on the code under test.

import (
	"encoding/binary"
	"math/rand"
)

type input struct {
	Bytes    []byte
	Class    string // what it was derived from: header|signedheader|data|signeddata|metadata|state|batch|random|pbstream|enum
	Mut      string // mutation(s) applied
	Verbatim bool   // byte-identical to a valid encoding
}

type corpus struct {
	rng   *rand.Rand
	g     *G
	enumN int // how many leading inputs of this shard are enumerated 1- and 2-byte strings
	shard int
	of    int
	full2 bool
	i     int // number of inputs drawn so far
}

func newCorpus(seed int64, shard, of int, thorough bool) *corpus {
	rng := rand.New(rand.NewSource(seed))
	c := &corpus{rng: rng, g: &G{rng: rng, small: true}, shard: shard, of: of, full2: thorough}
	total := 256
	if thorough {
		total += 65536
	}
	c.enumN = (total - shard + of - 1) / of
	if c.enumN < 0 {
		c.enumN = 0
	}
	return c
}

// seed returns a valid encoding of a generated value of a random wire type.
func (c *corpus) seed() (string, []byte) {
	g := c.g
	switch c.rng.Intn(16) {
	case 0, 1:
		return "header", refHeader(g.header())
	case 2, 3, 4:
		return "signedheader", refSignedHeader(c.anySignedHeader())
	case 5, 6:
		return "data", refData(g.data(), true)
	case 7, 8, 9:
		s := g.signedData()
		c.maybeKeyless(&s.Signer)
		return "signeddata", refSignedData(s)
	case 10:
		return "metadata", refMetadata(g.metadata())
	case 11, 12:
		return "state", refState(g.state())
	default:
		return "batch", refBatch(g.batch())
	}
}

// In the byte corpus the "address without key" signer is just another byte string.
func (c *corpus) maybeKeyless(s *SignerSpec) {
	if c.rng.Intn(12) == 0 {
		*s = SignerSpec{Addr: c.g.rnd(32)}
	}
}

func (c *corpus) anySignedHeader() SignedHeaderSpec {
	s := c.g.signedHeader()
	c.maybeKeyless(&s.Signer)
	return s
}

func (c *corpus) next() input {
	i := c.i
	c.i++
	if i < c.enumN {
		v := c.shard + i*c.of
		if v < 256 {
			return input{Bytes: []byte{byte(v)}, Class: "enum", Mut: "1-byte"}
		}
		v -= 256
		return input{Bytes: []byte{byte(v >> 8), byte(v)}, Class: "enum", Mut: "2-byte"}
	}
	p := c.rng.Intn(100)
	switch {
	case p < 1:
		return input{Bytes: []byte{}, Class: "random", Mut: "empty"}
	case p < 6:
		n := 1 + c.rng.Intn(64)
		if c.rng.Intn(20) == 0 {
			n = 1 + c.rng.Intn(2000)
		}
		return input{Bytes: c.g.rnd(n), Class: "random", Mut: "random-bytes"}
	case p < 14:
		return input{Bytes: c.pbStream(0), Class: "pbstream", Mut: "random-fields"}
	case p < 15:
		k, b := c.seed()
		return input{Bytes: b, Class: k, Mut: "verbatim", Verbatim: true}
	}
	kind, b := c.seed()
	orig := b
	mut := ""
	n := 1
	if c.rng.Intn(4) == 0 {
		n = 2 + c.rng.Intn(2)
	}
	for j := 0; j < n; j++ {
		var name string
		b, name = c.mutate(b, kind, 0)
		if mut != "" {
			mut += "+"
		}
		mut += name
	}
	return input{Bytes: b, Class: kind, Mut: mut, Verbatim: string(b) == string(orig)}
}

// ---------- protobuf wire helpers ----------

func rdVarint(b []byte, off int) (uint64, int) {
	var v uint64
	for i := 0; i < 10; i++ {
		if off+i >= len(b) {
			return 0, 0
		}
		c := b[off+i]
		if i == 9 && c > 1 {
			return 0, 0
		}
		v |= uint64(c&0x7f) << (7 * uint(i))
		if c < 0x80 {
			return v, i + 1
		}
	}
	return 0, 0
}

type fld struct {
	start, end int // whole field
	num        uint64
	wt         int
	ps, pe     int // payload (wt 2: the bytes; wt 0: the varint; wt 1/5: the fixed bytes)
}

// parsePB parses consecutive well-framed fields from the start of b and stops at the first
// problem; ok tells whether all of b was consumed.
func parsePB(b []byte) (fs []fld, ok bool) {
	off := 0
	for off < len(b) {
		t, n := rdVarint(b, off)
		if n == 0 || t>>3 == 0 {
			return fs, false
		}
		f := fld{start: off, num: t >> 3, wt: int(t & 7)}
		p := off + n
		switch f.wt {
		case wtVarint:
			_, m := rdVarint(b, p)
			if m == 0 {
				return fs, false
			}
			f.ps, f.pe = p, p+m
		case wtI64:
			if p+8 > len(b) {
				return fs, false
			}
			f.ps, f.pe = p, p+8
		case wtI32:
			if p+4 > len(b) {
				return fs, false
			}
			f.ps, f.pe = p, p+4
		case wtBytes:
			l, m := rdVarint(b, p)
			if m == 0 || l > uint64(len(b)-p-m) {
				return fs, false
			}
			f.ps, f.pe = p+m, p+m+int(l)
		default:
			return fs, false
		}
		f.end = f.pe
		fs = append(fs, f)
		off = f.end
	}
	return fs, true
}

func cat(parts ...[]byte) []byte {
	n := 0
	for _, p := range parts {
		n += len(p)
	}
	out := make([]byte, 0, n)
	for _, p := range parts {
		out = append(out, p...)
	}
	return out
}

var weirdVarints = []uint64{0, 1, 127, 128, 1<<31 - 1, 1 << 31, 1<<32 - 1, 1 << 32, 1<<63 - 1, 1 << 63, 1<<64 - 1}

// nonMinimal encodes v as a varint with k redundant continuation bytes.
func nonMinimal(v uint64, k int) []byte {
	b := pbVarint(nil, v)
	if len(b)+k > 10 {
		k = 10 - len(b)
	}
	if k <= 0 {
		return b
	}
	b[len(b)-1] |= 0x80
	for i := 0; i < k-1; i++ {
		b = append(b, 0x80)
	}
	return append(b, 0x00)
}

// pbStream builds a random, well-framed field stream over the field numbers and wire types the
// messages of evnode.v1 use (plus a few they do not).
func (c *corpus) pbStream(depth int) []byte {
	var b []byte
	n := 1 + c.rng.Intn(6)
	for i := 0; i < n; i++ {
		num := 1 + c.rng.Intn(13)
		if c.rng.Intn(20) == 0 {
			num = []int{0, 14, 15, 16, 1000, 1<<29 - 1}[c.rng.Intn(6)]
		}
		switch wt := []int{0, 0, 2, 2, 2, 2, 1, 5, 3, 4, 6, 7}[c.rng.Intn(12)]; wt {
		case wtVarint:
			b = pbTag(b, num, wt)
			if c.rng.Intn(2) == 0 {
				b = pbVarint(b, weirdVarints[c.rng.Intn(len(weirdVarints))])
			} else {
				b = pbVarint(b, c.rng.Uint64()>>uint(c.rng.Intn(64)))
			}
		case wtBytes:
			var payload []byte
			switch q := c.rng.Intn(6); {
			case q == 0 && depth < 4:
				payload = c.pbStream(depth + 1)
			case q == 1:
				k := keyPool()[c.rng.Intn(len(keyPool()))]
				payload = refPubKey(k.Type, k.Raw)
			case q == 2:
				payload = nil
			default:
				payload = c.g.rnd(c.rng.Intn(40))
			}
			b = pbLen(b, num, payload)
		case wtI64:
			b = append(pbTag(b, num, wt), c.g.rnd(8)...)
		case wtI32:
			b = append(pbTag(b, num, wt), c.g.rnd(4)...)
		default: // groups and the two undefined wire types
			b = pbTag(b, num, wt)
			if wt == wtSGroup && c.rng.Intn(2) == 0 {
				if depth < 4 {
					b = append(b, c.pbStream(depth+1)...)
				}
				b = pbTag(b, num, wtEGroup)
			}
		}
	}
	return b
}

// mutate applies one mutation. kind is the wire type the bytes were derived from.
func (c *corpus) mutate(b []byte, kind string, depth int) ([]byte, string) {
	r := c.rng
	if kind == "batch" && depth == 0 && r.Intn(2) == 0 {
		return c.mutateBatch(b)
	}
	fs, _ := parsePB(b)
	structural := len(fs) > 0 && kind != "batch" && kind != "gob"
	pick := r.Intn(20)
	if !structural && pick >= 8 {
		pick = r.Intn(8)
	}
	if len(b) == 0 && pick < 8 {
		pick = 5
	}
	switch pick {
	case 0: // bit flips
		out := append([]byte(nil), b...)
		for k := 1 + r.Intn(3); k > 0; k-- {
			out[r.Intn(len(out))] ^= 1 << uint(r.Intn(8))
		}
		return out, "bitflip"
	case 1: // byte replace
		out := append([]byte(nil), b...)
		out[r.Intn(len(out))] = byte(r.Intn(256))
		return out, "byte"
	case 2: // truncate anywhere
		return append([]byte(nil), b[:r.Intn(len(b))]...), "truncate"
	case 3: // cut the tail
		k := 1 + r.Intn(3)
		if k > len(b) {
			k = len(b)
		}
		return append([]byte(nil), b[:len(b)-k]...), "cut-tail"
	case 4: // delete a slice in the middle
		i := r.Intn(len(b))
		j := i + 1 + r.Intn(minInt(8, len(b)-i))
		return cat(b[:i], b[j:]), "delete-slice"
	case 5: // append garbage
		return cat(b, c.g.rnd(1+r.Intn(16))), "append-garbage"
	case 6: // append another valid encoding (protobuf merge semantics)
		k2, s2 := c.seed()
		if r.Intn(2) == 0 {
			return cat(b, s2), "append-" + k2
		}
		return cat(b, b), "append-self"
	case 7: // insert garbage in the middle
		i := r.Intn(len(b) + 1)
		return cat(b[:i], c.g.rnd(1+r.Intn(8)), b[i:]), "insert-garbage"
	}
	f := fs[r.Intn(len(fs))]
	tag := b[f.start:minInt(f.ps, f.end)]
	if f.wt == wtBytes {
		_, tn := rdVarint(b, f.start)
		tag = b[f.start : f.start+tn]
	}
	switch pick {
	case 8, 9: // length edit
		if f.wt != wtBytes {
			return c.mutate(b, kind, depth) // try again with another draw
		}
		l := uint64(f.pe - f.ps)
		var nl []byte
		name := "length-edit"
		switch r.Intn(8) {
		case 0:
			nl = pbVarint(nil, l+1)
		case 1:
			nl = pbVarint(nil, l-1) // wraps to 2^64-1 when l == 0
		case 2:
			nl = pbVarint(nil, 0)
		case 3:
			nl = pbVarint(nil, l+uint64(1+r.Intn(200)))
		case 4:
			nl = pbVarint(nil, weirdVarints[r.Intn(len(weirdVarints))])
			name = "absurd-length"
		case 5:
			nl = []byte{0xff, 0xff, 0xff, 0xff, 0xff, 0xff, 0xff, 0xff, 0xff, 0x7f} // overlong varint
			name = "absurd-length"
		case 6:
			nl = nonMinimal(l, 1+r.Intn(4))
			name = "nonminimal-length"
		default:
			nl = pbVarint(nil, uint64(r.Intn(int(l)+2)))
		}
		return cat(b[:f.start], tag, nl, b[f.ps:]), name
	case 10: // reorder top-level fields
		perm := r.Perm(len(fs))
		var out []byte
		for _, i := range perm {
			out = append(out, b[fs[i].start:fs[i].end]...)
		}
		out = append(out, b[fs[len(fs)-1].end:]...)
		return out, "reorder"
	case 11: // duplicate a field somewhere
		g := fs[r.Intn(len(fs))]
		return cat(b[:g.start], b[f.start:f.end], b[g.start:]), "duplicate-field"
	case 12: // delete a field
		return cat(b[:f.start], b[f.end:]), "delete-field"
	case 13: // replace a varint value
		if f.wt != wtVarint {
			return c.mutate(b, kind, depth)
		}
		nv := pbVarint(nil, weirdVarints[r.Intn(len(weirdVarints))])
		if r.Intn(3) == 0 {
			v, _ := rdVarint(b, f.ps)
			nv = nonMinimal(v, 1+r.Intn(5))
		}
		return cat(b[:f.ps], nv, b[f.pe:]), "varint-edit"
	case 14: // insert an unknown / mistyped field
		num := []int{0, 1, 2, 3, 4, 12, 13, 14, 15, 16, 1000, 1<<29 - 1}[r.Intn(12)]
		wt := r.Intn(8)
		x := pbTag(nil, num, wt)
		switch wt {
		case wtVarint:
			x = pbVarint(x, r.Uint64())
		case wtI64:
			x = append(x, c.g.rnd(8)...)
		case wtI32:
			x = append(x, c.g.rnd(4)...)
		case wtBytes:
			p := c.g.rnd(r.Intn(12))
			x = append(pbVarint(x, uint64(len(p))), p...)
		case wtSGroup:
			if r.Intn(2) == 0 {
				x = pbTag(x, num, wtEGroup)
			}
		}
		g := fs[r.Intn(len(fs))]
		return cat(b[:g.start], x, b[g.start:]), "foreign-field"
	case 15: // change wire type or number in a tag
		t, tn := rdVarint(b, f.start)
		var nt uint64
		if r.Intn(2) == 0 {
			nt = t&^7 | uint64(r.Intn(8))
		} else {
			nt = uint64(1+r.Intn(14))<<3 | t&7
		}
		return cat(b[:f.start], pbVarint(nil, nt), b[f.start+tn:]), "tag-edit"
	case 16: // non-minimal tag
		t, tn := rdVarint(b, f.start)
		return cat(b[:f.start], nonMinimal(t, 1+r.Intn(3)), b[f.start+tn:]), "nonminimal-tag"
	default: // 17-19: mutate inside a nested field and keep the framing valid
		if f.wt != wtBytes || depth >= 3 {
			return c.mutate(b, kind, depth)
		}
		inner, name := c.mutate(append([]byte(nil), b[f.ps:f.pe]...), kind, depth+1)
		return cat(b[:f.start], tag, pbVarint(nil, uint64(len(inner))), inner, b[f.pe:]), "nested(" + name + ")"
	}
}

// mutateBatch edits the 4-byte little-endian length prefixes of a batch-cursor encoding.
func (c *corpus) mutateBatch(b []byte) ([]byte, string) {
	r := c.rng
	var offs []int
	for off := 0; off+4 <= len(b); {
		offs = append(offs, off)
		l := int(binary.LittleEndian.Uint32(b[off:]))
		if l > len(b)-off-4 {
			break
		}
		off += 4 + l
	}
	if len(offs) == 0 {
		return c.g.rnd(1 + r.Intn(7)), "batch-short"
	}
	off := offs[r.Intn(len(offs))]
	l := binary.LittleEndian.Uint32(b[off:])
	out := append([]byte(nil), b...)
	var nl uint32
	switch r.Intn(8) {
	case 0:
		nl = l + 1
	case 1:
		nl = l - 1
	case 2:
		nl = 0
	case 3:
		nl = 0xffffffff
	case 4:
		nl = 0x80000000
	case 5:
		nl = 0x7fffffff
	case 6: // big-endian instead of little-endian
		binary.BigEndian.PutUint32(out[off:], l)
		return out, "batch-length-bigendian"
	default:
		nl = uint32(r.Intn(len(b) + 2))
	}
	binary.LittleEndian.PutUint32(out[off:], nl)
	return out, "batch-length-edit"
}

func minInt(a, b int) int {
	if a < b {
		return a
	}
	return b
}
