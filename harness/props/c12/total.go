package c12

// Clause (c): decoders are total. Runs in child processes; the input about to be tried is
// written to a journal before every call, so a panic / fatal error is attributed to its input.

import (
	"bytes"
	"context"
	"crypto/sha256"
	"encoding/binary"
	"encoding/gob"
	"encoding/hex"
	"encoding/json"
	"fmt"
	"math"
	"math/rand"
	"os"
	"path/filepath"
	"sort"
	"strconv"

	ds "github.com/ipfs/go-datastore"
	"google.golang.org/protobuf/proto"

	"github.com/evstack/ev-node/block"
	"github.com/evstack/ev-node/pkg/cache"
	"github.com/evstack/ev-node/pkg/store"
	"github.com/evstack/ev-node/types"
	pb "github.com/evstack/ev-node/types/pb/evnode/v1"

	"verifharness/vk"
	"verifharness/world"
)

func init() { vk.Children["c12-decoders"] = childDecoders }

// decoder runs one decoder on one input: decode; if it succeeds, re-encode, decode again and
// compare. accepted=false: clean rejection. problem != "": the fixpoint clause failed.
type decoder struct {
	ID   byte
	Name string
	Run  func(b []byte) (accepted bool, problem string)
}

// notes are observations without a verdict made while judging decoder inputs (child process, one goroutine): how
// often the encoding of a value decoded from arbitrary bytes differs from the hand-written reference encoding of what
// the harness can see of that value (a wire field the harness does not know is carried through), and how often
// decoding into a receiver that held another value before yields something else than decoding into a fresh one.
var notes = map[string]int64{}

func note(k string) { notes[k]++ }

func firstDiff(d []string) string {
	if len(d) == 0 {
		return ""
	}
	return fmt.Sprintf("%d field(s) differ, first: %s", len(d), d[0])
}

func fixHeader(v *types.Header) string {
	e, err := v.MarshalBinary()
	if err != nil {
		return "re-encode of the decoded value failed: " + err.Error()
	}
	v2 := new(types.Header)
	if err := v2.UnmarshalBinary(e); err != nil {
		return "decode of the re-encoded value failed: " + err.Error()
	}
	s1 := specOfHeader(v)
	if d := firstDiff(diffHeader(s1, specOfHeader(v2))); d != "" {
		return "decode(encode(v)) != v: " + d
	}
	if !bytes.Equal(v.Hash(), v2.Hash()) {
		return "hash changed over encode/decode"
	}
	if e2, err := v2.MarshalBinary(); err != nil || !bytes.Equal(e2, e) {
		return fmt.Sprintf("encode(decode(encode(v))) != encode(v) (err=%v)", err)
	}
	if !bytes.Equal(e, refHeader(s1)) || !bytes.Equal(v.Hash(), sha(e)) {
		note("decoded-value-encodes-unlike-reference:Header")
	}
	return ""
}

func fixSignedHeader(v *types.SignedHeader, daPath bool) string {
	var e []byte
	var err error
	v2 := new(types.SignedHeader)
	if daPath {
		var p *pb.SignedHeader
		if p, err = v.ToProto(); err == nil {
			e, err = proto.Marshal(p)
		}
		if err != nil {
			return "re-encode of the decoded value failed: " + err.Error()
		}
		var q pb.SignedHeader
		if err = proto.Unmarshal(e, &q); err == nil {
			err = v2.FromProto(&q)
		}
	} else {
		if e, err = v.MarshalBinary(); err != nil {
			return "re-encode of the decoded value failed: " + err.Error()
		}
		err = v2.UnmarshalBinary(e)
	}
	if err != nil {
		return "decode of the re-encoded value failed: " + err.Error()
	}
	s1 := specOfSignedHeader(v)
	if d := firstDiff(diffSignedHeader(s1, specOfSignedHeader(v2))); d != "" {
		return "decode(encode(v)) != v: " + d
	}
	if !bytes.Equal(v.Hash(), v2.Hash()) {
		return "hash changed over encode/decode"
	}
	var e2 []byte
	if daPath {
		var p *pb.SignedHeader
		if p, err = v2.ToProto(); err == nil {
			e2, err = proto.Marshal(p)
		}
	} else {
		e2, err = v2.MarshalBinary()
	}
	if err != nil || !bytes.Equal(e2, e) {
		return fmt.Sprintf("encode(decode(encode(v))) != encode(v) (err=%v)", err)
	}
	if !bytes.Equal(e, refSignedHeader(s1)) || !bytes.Equal(v.Hash(), refHeaderHash(s1.Header)) {
		note("decoded-value-encodes-unlike-reference:SignedHeader")
	}
	return ""
}

func fixData(v *types.Data) string {
	e, err := v.MarshalBinary()
	if err != nil {
		return "re-encode of the decoded value failed: " + err.Error()
	}
	v2 := new(types.Data)
	if err := v2.UnmarshalBinary(e); err != nil {
		return "decode of the re-encoded value failed: " + err.Error()
	}
	s1 := specOfData(v)
	if d := firstDiff(diffData(s1, specOfData(v2))); d != "" {
		return "decode(encode(v)) != v: " + d
	}
	if !bytes.Equal(v.Hash(), v2.Hash()) || !bytes.Equal(v.DACommitment(), v2.DACommitment()) {
		return "hash or commitment changed over encode/decode"
	}
	if e2, err := v2.MarshalBinary(); err != nil || !bytes.Equal(e2, e) {
		return fmt.Sprintf("encode(decode(encode(v))) != encode(v) (err=%v)", err)
	}
	if !bytes.Equal(e, refData(s1, true)) || !bytes.Equal(v.Hash(), refDataHash(s1)) || !bytes.Equal(v.DACommitment(), refCommitment(s1.Txs)) {
		note("decoded-value-encodes-unlike-reference:Data")
	}
	return ""
}

func fixSignedData(v *types.SignedData) string {
	e, err := v.MarshalBinary()
	if err != nil {
		return "re-encode of the decoded value failed: " + err.Error()
	}
	v2 := new(types.SignedData)
	if err := v2.UnmarshalBinary(e); err != nil {
		return "decode of the re-encoded value failed: " + err.Error()
	}
	s1 := specOfSignedData(v)
	if d := firstDiff(diffSignedData(s1, specOfSignedData(v2))); d != "" {
		return "decode(encode(v)) != v: " + d
	}
	if !bytes.Equal(v.Hash(), v2.Hash()) || !bytes.Equal(v.DACommitment(), v2.DACommitment()) {
		return "hash or commitment changed over encode/decode"
	}
	if e2, err := v2.MarshalBinary(); err != nil || !bytes.Equal(e2, e) {
		return fmt.Sprintf("encode(decode(encode(v))) != encode(v) (err=%v)", err)
	}
	if !bytes.Equal(e, refSignedData(s1)) || !bytes.Equal(v.DACommitment(), refCommitment(s1.Data.Txs)) {
		note("decoded-value-encodes-unlike-reference:SignedData")
	}
	return ""
}

func fixMetadata(v *types.Metadata) string {
	e, err := v.MarshalBinary()
	if err != nil {
		return "re-encode of the decoded value failed: " + err.Error()
	}
	v2 := new(types.Metadata)
	if err := v2.UnmarshalBinary(e); err != nil {
		return "decode of the re-encoded value failed: " + err.Error()
	}
	s1 := specOfMetadata(v)
	if d := firstDiff(diffMetadata(s1, specOfMetadata(v2))); d != "" {
		return "decode(encode(v)) != v: " + d
	}
	if e2, err := v2.MarshalBinary(); err != nil || !bytes.Equal(e2, e) {
		return fmt.Sprintf("encode(decode(encode(v))) != encode(v) (err=%v)", err)
	}
	if !bytes.Equal(e, refMetadata(s1)) {
		note("decoded-value-encodes-unlike-reference:Metadata")
	}
	return ""
}

func decodeState(b []byte) (*types.State, error) {
	var q pb.State
	if err := proto.Unmarshal(b, &q); err != nil {
		return nil, err
	}
	v := new(types.State)
	if err := v.FromProto(&q); err != nil {
		return nil, err
	}
	return v, nil
}

func fixState(v *types.State) string {
	p, err := v.ToProto()
	var e []byte
	if err == nil {
		e, err = proto.Marshal(p)
	}
	if err != nil {
		return "re-encode of the decoded value failed: " + err.Error()
	}
	v2, err := decodeState(e)
	if err != nil {
		return "decode of the re-encoded value failed: " + err.Error()
	}
	s1 := specOfState(v)
	if d := firstDiff(diffState(s1, specOfState(v2))); d != "" {
		return "decode(encode(v)) != v: " + d
	}
	if !v.LastBlockTime.Equal(v2.LastBlockTime) {
		return "LastBlockTime is another instant after encode/decode"
	}
	var e2 []byte
	if p2, err2 := v2.ToProto(); err2 == nil {
		e2, err = proto.Marshal(p2)
	} else {
		err = err2
	}
	if err != nil || !bytes.Equal(e2, e) {
		return fmt.Sprintf("encode(decode(encode(v))) != encode(v) (err=%v)", err)
	}
	if !bytes.Equal(e, refState(s1)) {
		note("decoded-value-encodes-unlike-reference:State")
	}
	return ""
}

// storeKeys are the datastore keys the block store uses, discovered by saving a probe block.
type storeKeys struct {
	im                 *world.Image
	header, data, stat string
	height             uint64
}

func probeStore(ctx context.Context) (*storeKeys, error) {
	im := world.NewImage()
	st := store.New(world.NewMemDS(im))
	hs := SignedHeaderSpec{Header: HeaderSpec{Height: 7, ChainID: "probe", ProposerAddress: []byte("p")}, Signature: []byte("sig")}
	dsp := DataSpec{Txs: [][]byte{[]byte("probe-tx")}}
	sig := types.Signature(hs.Signature)
	if err := st.SaveBlockData(ctx, hs.Real(), dsp.Real(), &sig); err != nil {
		return nil, err
	}
	if err := st.UpdateState(ctx, StateSpec{ChainID: "probe-state"}.Real()); err != nil {
		return nil, err
	}
	sk := &storeKeys{im: im, height: 7}
	for _, k := range im.Keys("") {
		v, _ := im.Get(k)
		switch {
		case bytes.Equal(v, refSignedHeader(hs)):
			sk.header = k
		case bytes.Equal(v, refData(dsp, true)):
			sk.data = k
		case bytes.Contains(v, []byte("probe-state")):
			sk.stat = k
		}
	}
	if sk.header == "" || sk.data == "" || sk.stat == "" {
		return nil, fmt.Errorf("could not identify the block store keys among %v", im.Keys(""))
	}
	return sk, nil
}

func buildDecoders(ctx context.Context, sk *storeKeys) []decoder {
	return []decoder{
		{1, "Header.UnmarshalBinary", func(b []byte) (bool, string) {
			v := new(types.Header)
			if err := v.UnmarshalBinary(b); err != nil {
				return false, ""
			}
			return true, fixHeader(v)
		}},
		{2, "SignedHeader.UnmarshalBinary(p2p,store)", func(b []byte) (bool, string) {
			v := new(types.SignedHeader)
			if err := v.UnmarshalBinary(b); err != nil {
				return false, ""
			}
			return true, fixSignedHeader(v, false)
		}},
		{3, "SignedHeader DA blob (proto.Unmarshal+FromProto+ValidateBasic)", func(b []byte) (bool, string) {
			var q pb.SignedHeader
			if err := proto.Unmarshal(b, &q); err != nil {
				return false, ""
			}
			v := new(types.SignedHeader)
			if err := v.FromProto(&q); err != nil {
				return false, ""
			}
			_ = v.ValidateBasic() // the retriever's next step on every decoded blob; only "does not crash" is observed
			return true, fixSignedHeader(v, true)
		}},
		{4, "Data.UnmarshalBinary", func(b []byte) (bool, string) {
			v := new(types.Data)
			if err := v.UnmarshalBinary(b); err != nil {
				return false, ""
			}
			return true, fixData(v)
		}},
		{5, "SignedData.UnmarshalBinary(DA blob)", func(b []byte) (bool, string) {
			v := new(types.SignedData)
			if err := v.UnmarshalBinary(b); err != nil {
				return false, ""
			}
			return true, fixSignedData(v)
		}},
		{6, "Metadata.UnmarshalBinary", func(b []byte) (bool, string) {
			v := new(types.Metadata)
			if err := v.UnmarshalBinary(b); err != nil {
				return false, ""
			}
			return true, fixMetadata(v)
		}},
		{7, "State proto.Unmarshal+FromProto", func(b []byte) (bool, string) {
			v, err := decodeState(b)
			if err != nil {
				return false, ""
			}
			return true, fixState(v)
		}},
		{8, "bytesToBatchData", func(b []byte) (bool, string) {
			v, err := block.VerifBytesToBatchData(b)
			if err != nil {
				return false, ""
			}
			e := block.VerifBatchDataToBytes(v)
			v2, err := block.VerifBytesToBatchData(e)
			if err != nil {
				return true, "decode of the re-encoded value failed: " + err.Error()
			}
			if d := firstDiff(diffBatch(v, v2)); d != "" {
				return true, "decode(encode(v)) != v: " + d
			}
			if e2 := block.VerifBatchDataToBytes(v2); !bytes.Equal(e2, e) {
				return true, "encode(decode(encode(v))) != encode(v)"
			}
			if !bytes.Equal(e, refBatch(v)) {
				note("decoded-value-encodes-unlike-reference:BatchCursorList")
			}
			return true, ""
		}},
		{9, "store.GetHeader on raw bytes", func(b []byte) (bool, string) {
			dsp := world.NewMemDS(sk.im)
			defer func() {
				_ = dsp.Put(ctx, ds.NewKey(sk.header), refSignedHeader(SignedHeaderSpec{Header: HeaderSpec{Height: sk.height}}))
			}()
			if err := dsp.Put(ctx, ds.NewKey(sk.header), b); err != nil {
				return false, ""
			}
			v, err := store.New(dsp).GetHeader(ctx, sk.height)
			if err != nil {
				return false, ""
			}
			return true, fixSignedHeader(v, false)
		}},
		{10, "store.GetBlockData on raw data bytes", func(b []byte) (bool, string) {
			dsp := world.NewMemDS(sk.im)
			if err := dsp.Put(ctx, ds.NewKey(sk.data), b); err != nil {
				return false, ""
			}
			_, v, err := store.New(dsp).GetBlockData(ctx, sk.height)
			if err != nil {
				return false, ""
			}
			return true, fixData(v)
		}},
		{11, "store.GetState on raw bytes", func(b []byte) (bool, string) {
			dsp := world.NewMemDS(sk.im)
			if err := dsp.Put(ctx, ds.NewKey(sk.stat), b); err != nil {
				return false, ""
			}
			v, err := store.New(dsp).GetState(ctx)
			if err != nil {
				return false, ""
			}
			return true, fixState(&v)
		}},
	}
}

const (
	decGobHeader = 20
	decGobData   = 21
	decReused    = 30
)

var decoderNames = map[byte]string{decGobHeader: "Cache[SignedHeader].LoadFromDisk", decGobData: "Cache[Data].LoadFromDisk", decReused: "the binary decoders filling a receiver that held another value"}

// ---------- cache files ----------

var cacheFiles = []string{"items_by_height.gob", "items_by_hash.gob", "hashes.gob", "da_included.gob"}

// gobSeeds holds the files a one-item cache of each kind consists of - whatever files SaveToDisk writes (today four per
// cache; the names and the number are the cache's own business).
type gobSeeds struct {
	hNames, dNames []string
	header, data   [][]byte
}

// listCacheDir returns the regular files of a saved cache directory: first the ones of today's layout in the order
// of cacheFiles, then any others by name.
func listCacheDir(dir string) (names []string, contents [][]byte, err error) {
	ents, err := os.ReadDir(dir)
	if err != nil {
		return nil, nil, err
	}
	have := map[string]bool{}
	for _, e := range ents {
		if e.Type().IsRegular() {
			have[e.Name()] = true
		}
	}
	for _, f := range cacheFiles {
		if have[f] {
			names = append(names, f)
			delete(have, f)
		}
	}
	var rest []string
	for f := range have {
		rest = append(rest, f)
	}
	sort.Strings(rest)
	names = append(names, rest...)
	for _, f := range names {
		b, err := os.ReadFile(filepath.Join(dir, f))
		if err != nil {
			return nil, nil, err
		}
		contents = append(contents, b)
	}
	if len(names) == 0 {
		return nil, nil, fmt.Errorf("SaveToDisk left no file in %s", dir)
	}
	return names, contents, nil
}

func makeGobSeeds(dir string) (*gobSeeds, error) {
	gs := &gobSeeds{}
	hc := cache.NewCache[types.SignedHeader]()
	k := keyPool()[0]
	hs := SignedHeaderSpec{Header: HeaderSpec{VBlock: 11, Height: 9, Time: 1_700_000_000_000_000_000, ChainID: "verif-chain", DataHash: refCommitment(nil), ProposerAddress: k.Addr},
		Signer: SignerSpec{HasKey: true, KeyType: k.Type, KeyRaw: k.Raw, Addr: k.Addr}, Signature: bytes.Repeat([]byte{7}, 64)}
	hc.SetItem(9, hs.Real())
	hc.SetSeen("aabbcc")
	hc.SetDAIncluded("aabbcc", 77)
	dc := cache.NewCache[types.Data]()
	dc.SetItem(9, DataSpec{Meta: &MetadataSpec{ChainID: "verif-chain", Height: 9, Time: 5}, Txs: [][]byte{[]byte("tx-one"), {}, []byte("tx-three")}}.Real())
	dc.SetSeen("ddeeff")
	dc.SetDAIncluded("ddeeff", 78)
	hd, dd := filepath.Join(dir, "seed-h"), filepath.Join(dir, "seed-d")
	if err := hc.SaveToDisk(hd); err != nil {
		return nil, err
	}
	if err := dc.SaveToDisk(dd); err != nil {
		return nil, err
	}
	var err error
	if gs.hNames, gs.header, err = listCacheDir(hd); err != nil {
		return nil, err
	}
	if gs.dNames, gs.data, err = listCacheDir(dd); err != nil {
		return nil, err
	}
	return gs, nil
}

func readGobMap[K comparable, V any](path string) (map[K]V, error) {
	f, err := os.Open(path)
	if err != nil {
		return nil, err
	}
	defer f.Close()
	m := map[K]V{}
	err = gob.NewDecoder(f).Decode(&m)
	return m, err
}

// gobCase loads a cache directory in which one file was replaced by the mutated bytes.
func gobCase[T any](dir string, names []string, files [][]byte, which int, mutated []byte, diff func(a, b *T) string) (bool, string) {
	in, out := filepath.Join(dir, "in"), filepath.Join(dir, "out")
	_ = os.RemoveAll(in)
	_ = os.MkdirAll(in, 0o755)
	for i, f := range names {
		content := files[i]
		if i == which {
			content = mutated
		}
		if err := os.WriteFile(filepath.Join(in, f), content, 0o644); err != nil {
			return false, "harness: " + err.Error()
		}
	}
	c := cache.NewCache[T]()
	if err := c.LoadFromDisk(in); err != nil {
		return false, ""
	}
	if err := c.SaveToDisk(out); err != nil {
		return true, "saving the loaded cache failed: " + err.Error()
	}
	c2 := cache.NewCache[T]()
	if err := c2.LoadFromDisk(out); err != nil {
		return true, "loading the re-saved cache failed: " + err.Error()
	}
	// which keys to look at: the ones the seed cache held plus, best effort, whatever this harness can read out of
	// the re-saved files with its own gob decoder (if it cannot - the file format is the cache's own business - the
	// fixed probes remain). The verdict itself uses the cache's API only.
	heights := []uint64{0, 1, 7, 9, 10, math.MaxUint64}
	if items, err := readGobMap[uint64, *T](filepath.Join(out, cacheFiles[0])); err == nil {
		for k := range items {
			heights = append(heights, k)
		}
	} else {
		note("harness-cannot-read-resaved-cache-file:" + cacheFiles[0])
	}
	for _, k := range heights {
		a, b := c.GetItem(k), c2.GetItem(k)
		if (a == nil) != (b == nil) {
			return true, fmt.Sprintf("item %d present=%v before, present=%v after save/load", k, a != nil, b != nil)
		}
		if a == nil {
			continue
		}
		if d := diff(a, b); d != "" {
			return true, fmt.Sprintf("item %d: %s", k, d)
		}
	}
	marks := []string{"", "aabbcc", "ddeeff"}
	if seen, err := readGobMap[string, bool](filepath.Join(out, cacheFiles[2])); err == nil {
		for k := range seen {
			marks = append(marks, k)
		}
	} else {
		note("harness-cannot-read-resaved-cache-file:" + cacheFiles[2])
	}
	if inc, err := readGobMap[string, uint64](filepath.Join(out, cacheFiles[3])); err == nil {
		for k := range inc {
			marks = append(marks, k)
		}
	} else {
		note("harness-cannot-read-resaved-cache-file:" + cacheFiles[3])
	}
	for _, k := range marks {
		if c.IsSeen(k) != c2.IsSeen(k) {
			return true, fmt.Sprintf("seen mark %q differs after save/load", k)
		}
		h1, ok1 := c.GetDAIncludedHeight(k)
		h2, ok2 := c2.GetDAIncludedHeight(k)
		if h1 != h2 || ok1 != ok2 {
			return true, fmt.Sprintf("DA-included mark %q differs after save/load", k)
		}
	}
	return true, ""
}

// ---------- journal ----------

// journal layout: [8]index [1]phase [4]length [length]input. phase 0: harness code is running;
// otherwise the id of the decoder that is running on the input.
type journal struct{ f *os.File }

func (j *journal) begin(i int, b []byte) {
	rec := make([]byte, 13+len(b))
	binary.LittleEndian.PutUint64(rec, uint64(i))
	rec[8] = 0
	binary.LittleEndian.PutUint32(rec[9:], uint32(len(b)))
	copy(rec[13:], b)
	if _, err := j.f.WriteAt(rec, 0); err != nil {
		fmt.Fprintln(os.Stderr, "harness: journal write:", err)
		os.Exit(7)
	}
}

func (j *journal) phase(p byte) {
	if _, err := j.f.WriteAt([]byte{p}, 8); err != nil {
		fmt.Fprintln(os.Stderr, "harness: journal write:", err)
		os.Exit(7)
	}
}

type journalRec struct {
	Index int
	Phase byte
	Input []byte
}

func readJournal(path string) (journalRec, error) {
	b, err := os.ReadFile(path)
	if err != nil {
		return journalRec{}, err
	}
	if len(b) < 13 {
		return journalRec{Index: -1}, nil
	}
	n := int(binary.LittleEndian.Uint32(b[9:]))
	if 13+n > len(b) {
		n = len(b) - 13
	}
	return journalRec{Index: int(binary.LittleEndian.Uint64(b)), Phase: b[8], Input: b[13 : 13+n]}, nil
}

// ---------- child ----------

type childProblem struct {
	Index   int    `json:"index"`
	Decoder string `json:"decoder"`
	Class   string `json:"class"`
	Mut     string `json:"mutation"`
	Input   string `json:"input_hex"`
	Detail  string `json:"detail"`
}

type childSample struct {
	Class    string   `json:"derived_from"`
	Mut      string   `json:"mutation"`
	Input    string   `json:"input"`
	Accepted []string `json:"accepted_by"`
}

type childReport struct {
	Done      int               `json:"done"` // index after the last executed input
	Accepted  map[string]int64  `json:"accepted"`
	Rejected  map[string]int64  `json:"rejected"`
	Mutations map[string]int64  `json:"mutations"`
	Problems  []childProblem    `json:"problems"`
	Samples   []childSample     `json:"samples"`
	Notes     map[string]int64  `json:"notes"`
	NoteWit   map[string]string `json:"note_witness"` // first input (hex) per note
}

// childDecoders: args = seed shard nshards n startAt tier dir
// Files in dir: journal, keys (13 bytes per executed input: sha256[:12] + nontrivial flag), report.json
func childDecoders(args []string) int {
	if len(args) != 7 {
		fmt.Fprintln(os.Stderr, "harness: bad arguments")
		return 7
	}
	seed, _ := strconv.ParseInt(args[0], 10, 64)
	shard, _ := strconv.Atoi(args[1])
	nshards, _ := strconv.Atoi(args[2])
	n, _ := strconv.Atoi(args[3])
	startAt, _ := strconv.Atoi(args[4])
	thorough := args[5] == "thorough"
	dir := args[6]
	world.Silence()
	ctx := context.Background()
	jf, err := os.OpenFile(filepath.Join(dir, "journal"), os.O_CREATE|os.O_RDWR, 0o644)
	if err != nil {
		fmt.Fprintln(os.Stderr, "harness:", err)
		return 7
	}
	kf, err := os.OpenFile(filepath.Join(dir, "keys"), os.O_CREATE|os.O_WRONLY|os.O_APPEND, 0o644)
	if err != nil {
		fmt.Fprintln(os.Stderr, "harness:", err)
		return 7
	}
	j := &journal{f: jf}
	sk, err := probeStore(ctx)
	if err != nil {
		fmt.Fprintln(os.Stderr, "harness:", err)
		return 7
	}
	gobDir := filepath.Join(dir, "gob")
	gs, err := makeGobSeeds(gobDir)
	if err != nil {
		fmt.Fprintln(os.Stderr, "harness: gob seeds:", err)
		return 7
	}
	decs := buildDecoders(ctx, sk)
	rep := childReport{Accepted: map[string]int64{}, Rejected: map[string]int64{}, Mutations: map[string]int64{}, Notes: map[string]int64{}, NoteWit: map[string]string{}}
	c := newCorpus(seed, shard, nshards, thorough)
	gobRng := rand.New(rand.NewSource(seed ^ 0x5eed))
	gobEvery := 60 // one cache-file input per this many byte inputs
	var keybuf []byte
	flush := func() {
		if len(keybuf) > 0 {
			_, _ = kf.Write(keybuf)
			keybuf = keybuf[:0]
		}
		b, _ := json.Marshal(rep)
		_ = os.WriteFile(filepath.Join(dir, "report.json"), b, 0o644)
	}
	for i := 0; i < n; i++ {
		var in input
		isGob := i%gobEvery == gobEvery-1
		var gobWhich int
		var gobData bool
		if isGob {
			gobData = gobRng.Intn(2) == 0
			gobWhich = []int{0, 0, 0, 2, 3, 1}[gobRng.Intn(6)]
			names := gs.hNames
			if gobData {
				names = gs.dNames
			}
			gobWhich %= len(names)
			base := gs.header[gobWhich]
			if gobData {
				base = gs.data[gobWhich]
			}
			gc := &corpus{rng: gobRng, g: &G{rng: gobRng, small: true}}
			b := base
			mut := ""
			for k := 1 + gobRng.Intn(2); k > 0; k-- {
				var name string
				b, name = gc.mutate(b, "gob", 1)
				mut += name + " "
			}
			in = input{Bytes: b, Class: "cachefile:" + names[gobWhich], Mut: mut, Verbatim: bytes.Equal(b, base)}
		} else {
			in = c.next()
		}
		if i < startAt {
			continue
		}
		j.begin(i, in.Bytes)
		var accepted []string
		run := func(id byte, name string, f func() (bool, string)) {
			j.phase(id)
			ok, problem := f()
			j.phase(0)
			if ok {
				rep.Accepted[name]++
				accepted = append(accepted, name)
			} else {
				rep.Rejected[name]++
			}
			if problem != "" && len(rep.Problems) < 20 {
				rep.Problems = append(rep.Problems, childProblem{Index: i, Decoder: name, Class: in.Class, Mut: in.Mut, Input: hex.EncodeToString(in.Bytes), Detail: problem})
			}
		}
		syncNotes := func() {
			for k, v := range notes {
				if v > rep.Notes[k] {
					if _, ok := rep.NoteWit[k]; !ok {
						rep.NoteWit[k] = vk.HexShort(in.Bytes)
						if len(in.Bytes) <= 256 {
							rep.NoteWit[k] = hex.EncodeToString(in.Bytes)
						}
					}
					rep.Notes[k] = v
				}
			}
		}
		if !isGob && i%2 == 0 {
			j.phase(decReused)
			observeReused(in.Bytes)
			j.phase(0)
		}
		if isGob {
			if gobData {
				run(decGobData, decoderNames[decGobData], func() (bool, string) {
					return gobCase[types.Data](gobDir, gs.dNames, gs.data, gobWhich, in.Bytes, func(a, b *types.Data) string { return firstDiff(diffData(specOfData(a), specOfData(b))) })
				})
			} else {
				run(decGobHeader, decoderNames[decGobHeader], func() (bool, string) {
					return gobCase[types.SignedHeader](gobDir, gs.hNames, gs.header, gobWhich, in.Bytes, func(a, b *types.SignedHeader) string {
						return firstDiff(diffSignedHeader(specOfSignedHeader(a), specOfSignedHeader(b)))
					})
				})
			}
		} else {
			for _, d := range decs {
				if d.ID >= 9 && i%4 != 0 { // the store-path decoders see every fourth input
					continue
				}
				d := d
				run(d.ID, d.Name, func() (bool, string) { return d.Run(in.Bytes) })
			}
		}
		syncNotes()
		h := sha256.Sum256(in.Bytes)
		nontrivial := len(in.Bytes) > 0 && !in.Verbatim
		flag := byte(0)
		if nontrivial {
			flag = 1
		}
		keybuf = append(append(keybuf, h[:12]...), flag)
		rep.Mutations[in.Class]++
		if nontrivial && len(rep.Samples) < 4 && (i%97 == 3 || len(accepted) > 0 && len(rep.Samples) < 2) {
			rep.Samples = append(rep.Samples, childSample{Class: in.Class, Mut: in.Mut, Input: vk.HexShort(in.Bytes), Accepted: accepted})
		}
		rep.Done = i + 1
		if len(keybuf) >= 13*4096 {
			flush()
		}
	}
	flush()
	_ = os.RemoveAll(gobDir)
	return 0
}
