package c18

import (
	"math"
	"math/rand"
	"regexp"
	"strconv"
	"strings"
	"time"
	"unicode"
	"unicode/utf8"
)

// This file holds the string value space of C18 and the trigger predicates of the three findings that concern
// SaveAsYaml -> Load of string options. The file written by SaveAsYaml is produced by one YAML library
// (goccy/go-yaml) and read by another (viper -> gopkg.in/yaml.v3). The writer decides per string whether to quote it;
// the reader decides per PLAIN scalar whether it is a string. The findings are exactly the strings on which the two
// disagree. The predicates below are written from the two libraries' documented scalar rules, independently of them
// (nothing here calls either library), and they only classify generated cases into regions: a failure outside the
// regions is always a VIOLATION, a string inside a region that does not fail produces no line.

// printable single-line: valid UTF-8, every rune unicode.IsPrint (letters, marks, numbers, punctuation, symbols and
// the ASCII space; no tab, no line break of any kind, no format characters).
func printable(s string) bool {
	if !utf8.ValidString(s) {
		return false
	}
	for _, r := range s {
		if !unicode.IsPrint(r) {
			return false
		}
	}
	return true
}

// ---- what the writer writes without quotes ---------------------------------------------------

var writerReserved = func() map[string]bool {
	m := map[string]bool{}
	for _, k := range strings.Fields("null Null NULL ~ true True TRUE false False FALSE y Y yes Yes YES n N no No NO on On ON off Off OFF") {
		m[k] = true
	}
	return m
}()

// writerNumber: the writer's notion of "looks like a number" (quoted when true).
func writerNumber(s string) bool {
	if s == "" || strings.HasPrefix(s, "_") {
		return false
	}
	dots := strings.Count(s, ".")
	if dots > 1 {
		return false
	}
	neg := strings.HasPrefix(s, "-")
	n := strings.ReplaceAll(strings.TrimPrefix(strings.TrimPrefix(s, "+"), "-"), "_", "")
	base, isFloat := 10, false
	switch {
	case strings.HasPrefix(n, "0x"):
		n, base = n[2:], 16
	case strings.HasPrefix(n, "0o"):
		n, base = n[2:], 8
	case strings.HasPrefix(n, "0b"):
		n, base = n[2:], 2
	case strings.HasPrefix(n, "0") && len(n) > 1 && dots == 0:
		base = 8
	case dots == 1:
		isFloat = true
	}
	if neg {
		n = "-" + n
	}
	var err error
	switch {
	case isFloat:
		_, err = strconv.ParseFloat(n, 64)
	case neg:
		_, err = strconv.ParseInt(n, base, 64)
	default:
		_, err = strconv.ParseUint(n, base, 64)
	}
	if err != nil {
		if ne, ok := err.(*strconv.NumError); ok && ne.Err == strconv.ErrRange {
			return true
		}
		return false
	}
	return true
}

var writerTimestampLayouts = []string{time.RFC3339Nano, "2006-01-02t15:04:05.999999999Z07:00", time.DateTime, time.DateOnly, "15:4"}

func writerTimestamp(s string) bool {
	for _, l := range writerTimestampLayouts {
		if _, err := time.Parse(l, s); err == nil {
			return true
		}
	}
	return false
}

// writesPlain: the writer emits s without quotes.
func writesPlain(s string) bool {
	if s == "" || writerReserved[s] || writerNumber(s) || s == "-" {
		return false
	}
	if strings.ContainsRune("*&[{}],!|>%'\"@ `", rune(s[0])) {
		return false
	}
	if last := s[len(s)-1]; last == ':' || last == ' ' {
		return false
	}
	if writerTimestamp(s) {
		return false
	}
	for i := 0; i < len(s); i++ {
		switch s[i] {
		case '#', '\\':
			return false
		case ':', '-':
			if i+1 < len(s) && s[i+1] == ' ' {
				return false
			}
		}
	}
	return true
}

// ---- what the reader makes of a plain scalar -------------------------------------------------

// Num is the number a plain scalar denotes for the reader.
type Num struct {
	Kind byte // 'i' 'u' 'f'
	I    int64
	U    uint64
	F    float64
}

var readerInfNan = map[string]float64{
	".nan": math.NaN(), ".NaN": math.NaN(), ".NAN": math.NaN(),
	".inf": math.Inf(1), ".Inf": math.Inf(1), ".INF": math.Inf(1),
	"+.inf": math.Inf(1), "+.Inf": math.Inf(1), "+.INF": math.Inf(1),
	"-.inf": math.Inf(-1), "-.Inf": math.Inf(-1), "-.INF": math.Inf(-1),
}

var readerFloatRe = regexp.MustCompile(`^[-+]?(\.[0-9]+|[0-9]+(\.[0-9]*)?)([eE][-+]?[0-9]+)?$`)

// readerNumber: the reader resolves the plain scalar s to a number (YAML 1.1 + 1.2 integer forms with "_"
// separators, decimal floats, .inf / .nan).
func readerNumber(s string) (Num, bool) {
	if s == "" {
		return Num{}, false
	}
	if f, ok := readerInfNan[s]; ok {
		return Num{Kind: 'f', F: f}, true
	}
	c := s[0]
	if c == '.' {
		if f, err := strconv.ParseFloat(s, 64); err == nil {
			return Num{Kind: 'f', F: f}, true
		}
		return Num{}, false
	}
	if !(c >= '0' && c <= '9') && c != '+' && c != '-' {
		return Num{}, false
	}
	p := strings.ReplaceAll(s, "_", "")
	if i, err := strconv.ParseInt(p, 0, 64); err == nil {
		return Num{Kind: 'i', I: i}, true
	}
	if u, err := strconv.ParseUint(p, 0, 64); err == nil {
		return Num{Kind: 'u', U: u}, true
	}
	if readerFloatRe.MatchString(p) {
		if f, err := strconv.ParseFloat(p, 64); err == nil {
			return Num{Kind: 'f', F: f}, true
		}
	}
	for _, b := range []struct {
		pre  string
		base int
	}{{"0b", 2}, {"0o", 8}} {
		if strings.HasPrefix(p, b.pre) {
			if i, err := strconv.ParseInt(p[2:], b.base, 64); err == nil {
				return Num{Kind: 'i', I: i}, true
			}
			if u, err := strconv.ParseUint(p[2:], b.base, 64); err == nil {
				return Num{Kind: 'u', U: u}, true
			}
		} else if strings.HasPrefix(p, "-"+b.pre) {
			if i, err := strconv.ParseInt("-"+p[3:], b.base, 64); err == nil {
				return Num{Kind: 'i', I: i}, true
			}
		}
	}
	return Num{}, false
}

var readerTimestampLayouts = []string{"2006-1-2T15:4:5.999999999Z07:00", "2006-1-2t15:4:5.999999999Z07:00", "2006-1-2 15:4:5.999999999", "2006-1-2"}

func readerTimestamp(s string) bool {
	i := 0
	for i < len(s) && s[i] >= '0' && s[i] <= '9' {
		i++
	}
	if i != 4 || i == len(s) || s[i] != '-' {
		return false
	}
	for _, l := range readerTimestampLayouts {
		if _, err := time.Parse(l, s); err == nil {
			return true
		}
	}
	return false
}

// ---- trigger predicates ------------------------------------------------------------------------

const (
	idFloatLike = "C18-float-like-strings"     // number-like text saved unquoted, loads back re-formatted
	idTimestamp = "C18-timestamp-like-strings" // date-like text saved unquoted, Load fails
	idQuestion  = "C18-question-mark-strings"  // "?" / "? ..." saved unquoted, file unreadable, error swallowed: every file value lost
)

// triggerNumber (C18-float-like-strings): the writer leaves s unquoted and the reader takes it for a number.
// Members: exponent floats without a dot (12e4, 1E3, -1e-3, 00e1, 1_2e4), .inf/.nan forms, decimals with a leading
// zero that are not octal (08, 0956, -08), upper-case radix prefixes (0X1F, 0B11, 0O17), 0b-10 / 0o-7.
func triggerNumber(s string) (Num, bool) {
	if !writesPlain(s) || readerTimestamp(s) {
		return Num{}, false
	}
	return readerNumber(s)
}

// triggerTimestamp (C18-timestamp-like-strings): the writer leaves s unquoted and the reader takes it for a
// timestamp (dates and times whose month/day/hour/... are not zero-padded: 2020-1-2, 2020-01-02 1:2:3).
func triggerTimestamp(s string) bool { return writesPlain(s) && readerTimestamp(s) }

// triggerQuestion (C18-question-mark-strings): the writer leaves s unquoted and it starts with the "complex key"
// indicator ("?" alone or followed by a space).
func triggerQuestion(s string) bool {
	return writesPlain(s) && (s == "?" || strings.HasPrefix(s, "? "))
}

func triggered(s string) bool {
	if _, ok := triggerNumber(s); ok {
		return true
	}
	return triggerTimestamp(s) || triggerQuestion(s)
}

// cleanString: member of the clean region of the string value space.
func cleanString(s string) bool { return printable(s) && !triggered(s) }

// reformatted: got is the text of the number n (the predicted shape of C18-float-like-strings).
func reformatted(n Num, got string) bool {
	switch n.Kind {
	case 'i':
		i, err := strconv.ParseInt(got, 10, 64)
		return err == nil && i == n.I
	case 'u':
		u, err := strconv.ParseUint(got, 10, 64)
		return err == nil && u == n.U
	default:
		f, err := strconv.ParseFloat(got, 64)
		if err != nil {
			return false
		}
		if math.IsNaN(n.F) {
			return math.IsNaN(f)
		}
		return f == n.F
	}
}

// ---- value sets ------------------------------------------------------------------------------------

// curatedStrings: printable single-line strings including the YAML-significant ones. Every member must be in the
// clean region (checked at start-up; a member that is not is dropped and counted).
var curatedStrings = []string{
	"", "x", "true", "123", "~", "a: b", "#x", " lead", "trail ", " both ", "héllo wörld", "日本語", "😀 node",
	"false", "null", "Null", "yes", "no", "on", "off", "y", "N", "TRUE", "1.0", "007", "0x1F", "1_000", "-1", "+1", "0",
	"12.5", "1.5e3", ".5", "5.", "0o17", "0b11", "2020-01-02", "2020-01-02T10:00:00Z", "2020-01-02 10:00:00", "12:30",
	"a,b,c", "peer1@/ip4/1.2.3.4/tcp/7676,peer2@/ip4/5.6.7.8/tcp/7676", "/ip4/0.0.0.0/tcp/7676", "http://localhost:7980",
	"127.0.0.1:7331", ":26660", "key: value", "- item", "-", "--", "---", "...", "[a, b]", "{a: b}", "a#b", "a #b", "'single'",
	"\"double\"", "it's", "back\\slash", "`tick`", "@at", "%pct", "!bang", "&anchor", "*alias", "|", ">", "a|b", "<<", "=",
	"?x", "x?", "a ? b", ":", "::", "a:", ":a", "a:b", ",", "a  b", "e5", "1e", "12e", "inf", "NaN", "Inf", "1e999", "0x", "1:30",
	"_1", "_12e4", "x1e3", "1e3x", "1.2.3", "ñ", "€uro", "Ünïcödé", "data", "info", "evnode", "rollkit-test", "text", "json", "file", "grpc",
	"$HOME/.evnode", "${VAR}", "%(x)s", "a=b", "a;b", "(paren)", "<tag>", "tab-less", "UPPER", "MiXeD", "under_score", "dot.ted", "sl/ash",
	"00000000000000000000000000000000000000000000000000000000000000000000000000000000000000000000000000000000000000000000000000000000",
	"long " + strings.Repeat("value with spaces ", 12) + "end",
}

// curatedControl: valid UTF-8 strings that are NOT printable single-line text (tab, line breaks of every kind, other
// control characters, format characters), alone and embedded, next to quotes, backslashes and blanks at the ends. An
// auth token pasted with its trailing newline, a submit-options JSON document spanning lines or a Windows line ending
// are ordinary operator inputs; "written to disk loads back equal" holds for them as for any other string. Together
// with the YAML-significant words again, this time next to such characters.
var curatedControl = []string{
	"\t", "\n", "\r", "\r\n", "a\tb", "a\nb", "a\rb", "a\r\nb", "\ta", "a\t", "\na", "a\n", "a\n\n", "\n\na", " \n ", "a \n b", "line1\nline2\nline3\n",
	"\x00", "a\x00b", "\x01", "\x07", "\x08", "\x0b", "\x0c", "\x1b", "\x1b[31mred\x1b[0m", "\x1f", "\x7f", "a\x7fb",
	"\u0085", "a\u0085b", "\u00a0", "\u2028", "a\u2028b", "\u2029", "\u200b", "a\u200bb", "\u200e", "\ufeff", "\ufeffa", "\ufffd", "e\u0301", "\U000e0001",
	"\"", "\\", "\\n", "a\\tb", "\"\n\"", "'\n'", "\\\n", "\"quoted\"\n", "it's\ta tab",
	" lead", "trail ", " both ", "  ", "\t lead", "trail \t",
	"null\n", "~\n", "yes\n", "0x10\n", "1e3\n", "- a\n- b", "a: b\nc: d", "#x\n#y", "key: |\n  block", "? a\n: b", "---\na", "...\n", "[a,\nb]", "{a:\n b}",
	"null", "~", "yes", "0x10", "1e3", "- a", "a: b", "#x",
	"{\"gas\": 1,\n \"memo\": \"x\ty\"}\n",
}

// controlAlphabet: what the random control strings are drawn from.
const controlAlphabet = "ab \t\n\r\x00\x01\x1b\x7f\u0085\u2028\u2029\u200b\ufeff\"'\\:#-?~|>"

var cleanAlphabets = []string{
	"abcdefghijklmnopqrstuvwxyzABCDEFGHIJKLMNOPQRSTUVWXYZ0123456789-_./:@,=",
	"aA1 :#-?~<>=!&*|%@`'\"[]{},\\.;()$+^",
	"0123456789eE+-._xXoObB",
	"0123456789-: TZtz.+",
	"truefalsnoyTRUEFALSNOY~.infaINFAN+-",
	"äöüßéèêñçøåλπΩжщ中文字😀🚀±§",
}

func randomFrom(rng *rand.Rand, alpha string, maxLen int) string {
	a := []rune(alpha)
	n := rng.Intn(maxLen + 1)
	var sb strings.Builder
	for i := 0; i < n; i++ {
		sb.WriteRune(a[rng.Intn(len(a))])
	}
	return sb.String()
}

// randomCleanString draws from the clean region.
func randomCleanString(rng *rand.Rand) string {
	for {
		var s string
		switch rng.Intn(10) {
		case 0, 1:
			s = curatedStrings[rng.Intn(len(curatedStrings))]
		default:
			s = randomFrom(rng, cleanAlphabets[rng.Intn(len(cleanAlphabets))], 1+rng.Intn(24))
		}
		if cleanString(s) {
			return s
		}
	}
}

// curatedNumberLike: the probe list for the trigger predicate of C18-float-like-strings (members and near misses).
var curatedNumberLike = []string{
	"12e4", "00e1", ".inf", ".nan", "-.inf", "1e3", "1.0", "007", "0x1F", "1_000", "no", "Null", "2020-01-02",
	"1E3", "+1e3", "-1e3", "1e+3", "1e-3", "1e", "e5", "0e0", "1.e3", "1.5e3", ".5", "5.", "+.5", "1_2e4", "_12e4", "12e4_", "1e3_", "1e_3",
	"1e999", "1e308", "-1e999", "08", "09", "0089", "-08", "+08", "0X1F", "0B11", "0O17", "0o17", "0b11", "-0b11", "+0x1F", "0x", "0x1p-2",
	"1__0", "_1", "1_", "-_1", "+1", "-1", "0", "00", "-0", "+0", "99999999999999999999", "18446744073709551615", "-9223372036854775808",
	"1.7976931348623157e308", "1:30", "190:20:30", "0.1_5", ".Inf", ".INF", "+.inf", "+.Inf", "+.INF", "-.Inf", "-.INF", ".NaN", ".NAN",
	"inf", "Inf", "NaN", "nan", "+inf", "-Inf", ".Nan", ".iNF", "0b-10", "0o-7", "0_O_0_", "0956", "+0912", "-06080", "05e7", "0E-_3", "93e_3",
	"123", "-123", "12.5", "1,000", "1 000", "0.0", "-0.0", "1e3x", "x1e3", "1f", "0x1G", "0xg", "1e3.0", "1.0e", "+", "+-1", "1-", "1+", "1e+", "1e-",
	".", "..", ".e1", ".1e1", "1.2.3", "127.0.0.1", "0777", "0o777", "0888", "1e05", "1e0", "6e8", "+_1e3", "0XFF", "0Xg", "0B2", "0O8",
}

var curatedTimestampLike = []string{
	"2020-1-2", "2020-01-2", "2020-1-02", "2020-01-02 1:2:3", "2020-1-2 10:00:00", "2020-01-02T1:02:03Z", "2020-1-2t1:2:3Z", "2001-12-14 21:59:43.10",
	"2020-01-02", "2020-01-02 10:00:00", "2020-01-02T10:00:00Z", "2020-01-02t10:00:00+01:00", "2001-12-14 21:59:43.10 -5", "2020-13-45", "20200-1-2", "202-1-2", "2020-1", "2020-1-2x",
}

var curatedQuestionLike = []string{"?", "? a", "? 1", "?  x", "? a b", "?a", "??", "a?", "? a: b", "? #x", "? x ", "?-", "? -x"}

func randomNumberLike(rng *rand.Rand) string {
	switch rng.Intn(8) {
	case 0:
		return curatedNumberLike[rng.Intn(len(curatedNumberLike))]
	case 1:
		ks := []string{".inf", ".Inf", ".INF", "+.inf", "-.inf", "-.Inf", ".nan", ".NaN", ".NAN", "+.INF", "-.INF", "+.Inf"}
		return ks[rng.Intn(len(ks))]
	case 2:
		return []string{"", "+", "-"}[rng.Intn(3)] + "0" + randomFrom(rng, "0123456789", 3) + []string{"8", "9"}[rng.Intn(2)] + randomFrom(rng, "0123456789", 2)
	case 3:
		return []string{"", "+", "-"}[rng.Intn(3)] + []string{"0X", "0B", "0O"}[rng.Intn(3)] + randomFrom(rng, "01234567", 4) + "1"
	default:
		s := []string{"", "", "+", "-"}[rng.Intn(4)] + strconv.Itoa(rng.Intn(1000))
		if rng.Intn(6) == 0 {
			s = s[:len(s)-1] + "_" + s[len(s)-1:]
		}
		s += []string{"e", "E"}[rng.Intn(2)] + []string{"", "", "+", "-"}[rng.Intn(4)] + strconv.Itoa(rng.Intn(30))
		return s
	}
}

func randomTimestampLike(rng *rand.Rand) string {
	d := strconv.Itoa(1990+rng.Intn(60)) + "-" + strconv.Itoa(1+rng.Intn(12)) + "-" + strconv.Itoa(1+rng.Intn(28))
	switch rng.Intn(4) {
	case 0:
		return d
	case 1:
		return d + " " + strconv.Itoa(rng.Intn(24)) + ":" + strconv.Itoa(rng.Intn(60)) + ":" + strconv.Itoa(rng.Intn(60))
	case 2:
		return d + "T" + strconv.Itoa(rng.Intn(24)) + ":" + strconv.Itoa(rng.Intn(60)) + ":" + strconv.Itoa(rng.Intn(60)) + "Z"
	default:
		return curatedTimestampLike[rng.Intn(len(curatedTimestampLike))]
	}
}

func randomQuestionLike(rng *rand.Rand) string {
	if rng.Intn(4) == 0 {
		return "?"
	}
	return "? " + randomFrom(rng, "abcXYZ019 ._/", 8)
}
