package c18

import (
	"fmt"
	"reflect"
	"sort"
	"strings"
	"time"

	"github.com/evstack/ev-node/pkg/config"
	"github.com/spf13/cobra"
	"github.com/spf13/pflag"
)

// Leaf is one configuration option: a leaf field of config.Config discovered by reflection.
type Leaf struct {
	Path    string // path made of yaml tag names: the key the option has in the configuration file
	MapPath string // path made of the names mapstructure matches (tag, or field name), lower-cased; evidence only
	GoName  string // e.g. Node.BlockTime
	Kind    string // string | bool | int | uint | float | duration
	Bits    int    // for int / uint / float
	index   []int  // field index chain from Config (pointers are dereferenced while walking)

	Flag       *FlagInfo // the registered flag whose name is this leaf's path, if any
	LegacyFlag *FlagInfo // trigger region of C18-signer-flags: a flag that is meant for this leaf but does not name its path
}

// FlagInfo is one registered command-line flag.
type FlagInfo struct {
	Name       string
	Type       string // pflag value type
	DefValue   string
	Persistent bool
	Stripped   string // name without the optional "rollkit." prefix: the option path the flag names
	Class      string // field | by-design | legacy-signer | unsupported-kind | unmatched
	Leaf       *Leaf  // for Class field (and legacy-signer: the intended leaf)
}

var (
	durationWrapperT = reflect.TypeOf(config.DurationWrapper{})
	durationT        = reflect.TypeOf(time.Duration(0))
)

// The two flags that are, by design, not options of the configuration structure. The decision is taken from
// the code, not from the outcome of a run:
//
//   - config.FlagRootDir ("home"): Load reads it with cmd.Flags().GetString before any file is read, because it
//     says WHERE the file is; its target Config.RootDir is tagged yaml:"-" mapstructure:"-" and therefore can
//     neither be written to nor be read from the file. It is not ignored: it must end up in RootDir (checked).
//   - config.FlagSignerPassphrase: SignerConfig has no passphrase member at all; the consumers (pkg/cmd/run_node.go,
//     pkg/cmd/keys.go, apps/*/cmd/init.go) read it straight from the flag set with GetString, so that the secret
//     is never part of Config and never reaches SaveAsYaml (checked: the text never appears in a saved file).
//
// Nothing else is excused: any other flag that names no option path and changes no option is a violation.
func byDesignFlag(name string) bool {
	return name == config.FlagRootDir || name == config.FlagSignerPassphrase
}

// Trigger region of the finding C18-signer-flags: exactly these two flag NAMES (literal, today's values of
// FlagSignerType / FlagSignerPath). Their viper keys "signer.type" / "signer.path" match no option
// ("signer.signer_type" / "signer.signer_path"). After the constants are renamed these names no longer exist, the
// new names equal the option paths and are handled like every other flag.
var legacySignerFlags = map[string]string{
	"rollkit.signer.type": "signer.signer_type",
	"rollkit.signer.path": "signer.signer_path",
}

const idSignerFlags = "C18-signer-flags"

// Discovery is what reflection found.
type Discovery struct {
	Leaves      []*Leaf
	ByPath      map[string]*Leaf
	Flags       []*FlagInfo
	Unsupported []string
	// UnsupportedByPath: options of a kind the check has no value generator for (slice, map, pointer to scalar),
	// by the path a flag would name. They are not leaves; a flag naming one is judged by reflect.DeepEqual on the field.
	UnsupportedByPath map[string]*Leaf
	// NotInFile: exported fields that can neither be written to nor read from the file (yaml:"-" and
	// mapstructure:"-"): by construction not options of the file (today: RootDir). Evidence only.
	NotInFile []string
	// HiddenFromWriter: fields tagged yaml:"-" that the loader still decodes (their mapstructure name is not "-"):
	// they ARE options (the file sets them) and are treated as leaves under their mapstructure path.
	HiddenFromWriter []string
}

func tagName(f reflect.StructField, key string) (string, bool) {
	t, ok := f.Tag.Lookup(key)
	if !ok {
		return "", false
	}
	if i := strings.IndexByte(t, ','); i >= 0 {
		t = t[:i]
	}
	return t, true
}

func discoverLeaves(d *Discovery) {
	var walk func(t reflect.Type, yp, mp, gp string, idx []int)
	walk = func(t reflect.Type, yp, mp, gp string, idx []int) {
		for i := 0; i < t.NumField(); i++ {
			f := t.Field(i)
			if !f.IsExported() {
				continue
			}
			y, hasY := tagName(f, "yaml")
			m, hasM := tagName(f, "mapstructure")
			if !hasM || m == "" {
				m = f.Name // mapstructure matches the field name case-insensitively
			}
			m = strings.ToLower(m)
			if y == "-" {
				if m == "-" {
					// neither written to nor read from the file: not an option of the file (RootDir)
					d.NotInFile = append(d.NotInFile, gp+"."+f.Name)
					continue
				}
				// the writer skips it but the loader still reads it under its mapstructure name: an option
				d.HiddenFromWriter = append(d.HiddenFromWriter, gp+"."+f.Name)
				y = m
			}
			if !hasY || y == "" {
				y = strings.ToLower(f.Name) // the writer's default key
			}
			join := func(p, s string) string {
				if p == "" {
					return s
				}
				return p + "." + s
			}
			ni := append(append([]int{}, idx...), i)
			ft := f.Type
			if ft.Kind() == reflect.Pointer {
				ft = ft.Elem()
			}
			l := &Leaf{Path: join(yp, y), MapPath: join(mp, m), GoName: join(gp, f.Name), index: ni}
			switch {
			case ft == durationWrapperT || ft == durationT:
				l.Kind = "duration"
			case ft.Kind() == reflect.Struct:
				if f.Anonymous && (!hasY) {
					walk(ft, yp, mp, gp, ni) // embedded struct without tag is inlined
				} else {
					walk(ft, l.Path, l.MapPath, l.GoName, ni)
				}
				continue
			case ft.Kind() == reflect.String:
				l.Kind = "string"
			case ft.Kind() == reflect.Bool:
				l.Kind = "bool"
			case ft.Kind() >= reflect.Int && ft.Kind() <= reflect.Int64:
				l.Kind, l.Bits = "int", ft.Bits()
			case ft.Kind() >= reflect.Uint && ft.Kind() <= reflect.Uint64:
				l.Kind, l.Bits = "uint", ft.Bits()
			case ft.Kind() == reflect.Float32 || ft.Kind() == reflect.Float64:
				l.Kind, l.Bits = "float", ft.Bits()
			default:
				d.Unsupported = append(d.Unsupported, fmt.Sprintf("%s (%s)", l.GoName, f.Type))
				l.Kind = "unsupported"
				d.UnsupportedByPath[l.Path] = l
				continue
			}
			if f.Type.Kind() == reflect.Pointer && l.Kind != "" && ft.Kind() != reflect.Struct {
				d.Unsupported = append(d.Unsupported, fmt.Sprintf("%s (%s)", l.GoName, f.Type))
				l.Kind = "unsupported"
				d.UnsupportedByPath[l.Path] = l
				continue
			}
			d.Leaves = append(d.Leaves, l)
			d.ByPath[l.Path] = l
		}
	}
	walk(reflect.TypeOf(config.Config{}), "", "", "", nil)
}

// newCommand builds a command the way the applications do: AddFlags + AddGlobalFlags.
func newCommand() *cobra.Command {
	cmd := &cobra.Command{Use: "c18", Run: func(*cobra.Command, []string) {}}
	config.AddFlags(cmd)
	config.AddGlobalFlags(cmd, "c18")
	return cmd
}

// newCommandTree builds the commands the way every real binary does (apps/testapp/cmd/root.go,
// apps/evm/*/main.go + pkg/cmd/run_node.go): the global flags (home, log.*) are PERSISTENT flags of a root command, the
// node flags belong to a subcommand, and config.Load is called with the subcommand from inside its RunE.
//
// group = true is the layout of an application that mounts the node's commands under a command group of its own
// (`mychain node run`): the root carries nothing of the node, the global flags are persistent flags of the
// INTERMEDIATE command, the node flags belong to the leaf that calls config.Load. cobra hands the leaf the persistent
// flags of all its ancestors, so every flag is accepted on the command line exactly as in the two-level layout.
func newCommandTree(group bool, run func(sub *cobra.Command) error) *cobra.Command {
	root := &cobra.Command{Use: "c18", SilenceUsage: true, SilenceErrors: true}
	sub := &cobra.Command{Use: "run", SilenceUsage: true, SilenceErrors: true, Args: cobra.NoArgs,
		RunE: func(cmd *cobra.Command, _ []string) error { return run(cmd) }}
	config.AddFlags(sub)
	if !group {
		config.AddGlobalFlags(root, "c18")
		root.AddCommand(sub)
		return root
	}
	mid := &cobra.Command{Use: "node", SilenceUsage: true, SilenceErrors: true}
	config.AddGlobalFlags(mid, "c18")
	mid.AddCommand(sub)
	root.AddCommand(mid)
	return root
}

// rawField returns the field of an option of unsupported kind as an interface value (nil pointer chain: nil).
func rawField(c *config.Config, l *Leaf) any {
	v := reflect.ValueOf(c).Elem()
	for _, i := range l.index {
		if v.Kind() == reflect.Pointer {
			if v.IsNil() {
				return nil
			}
			v = v.Elem()
		}
		v = v.Field(i)
	}
	return v.Interface()
}

func discoverFlags(d *Discovery) {
	cmd := newCommand()
	seen := map[string]bool{}
	add := func(persistent bool) func(f *pflag.Flag) {
		return func(f *pflag.Flag) {
			if seen[f.Name] {
				return
			}
			seen[f.Name] = true
			fi := &FlagInfo{Name: f.Name, Type: f.Value.Type(), DefValue: f.DefValue, Persistent: persistent}
			fi.Stripped = strings.TrimPrefix(f.Name, "rollkit.")
			d.Flags = append(d.Flags, fi)
		}
	}
	cmd.PersistentFlags().VisitAll(add(true))
	cmd.Flags().VisitAll(add(false))
	sort.Slice(d.Flags, func(i, j int) bool { return d.Flags[i].Name < d.Flags[j].Name })
	for _, fi := range d.Flags {
		switch {
		case byDesignFlag(fi.Name):
			fi.Class = "by-design"
		case d.ByPath[fi.Stripped] != nil:
			fi.Class = "field"
			fi.Leaf = d.ByPath[fi.Stripped]
			fi.Leaf.Flag = fi
		case legacySignerFlags[fi.Name] != "" && d.ByPath[legacySignerFlags[fi.Name]] != nil:
			fi.Class = "legacy-signer"
			fi.Leaf = d.ByPath[legacySignerFlags[fi.Name]]
			fi.Leaf.LegacyFlag = fi
		case d.UnsupportedByPath[fi.Stripped] != nil:
			fi.Class = "unsupported-kind"
			fi.Leaf = d.UnsupportedByPath[fi.Stripped]
		default:
			fi.Class = "unmatched"
		}
	}
}

func discover() *Discovery {
	d := &Discovery{ByPath: map[string]*Leaf{}, UnsupportedByPath: map[string]*Leaf{}}
	discoverLeaves(d)
	discoverFlags(d)
	return d
}

// ---- access to leaves of a concrete Config -------------------------------------------------

func leafValue(root reflect.Value, l *Leaf, alloc bool) (reflect.Value, bool) {
	v := root
	for _, i := range l.index {
		if v.Kind() == reflect.Pointer {
			if v.IsNil() {
				if !alloc {
					return reflect.Value{}, false
				}
				v.Set(reflect.New(v.Type().Elem()))
			}
			v = v.Elem()
		}
		v = v.Field(i)
	}
	if v.Kind() == reflect.Pointer {
		return reflect.Value{}, false
	}
	return v, true
}

// get returns the normalised value of a leaf: string | bool | int64 | uint64 | float64 | time.Duration.
func get(c *config.Config, l *Leaf) (any, bool) {
	v, ok := leafValue(reflect.ValueOf(c).Elem(), l, false)
	if !ok {
		return nil, false
	}
	switch l.Kind {
	case "string":
		return v.String(), true
	case "bool":
		return v.Bool(), true
	case "int":
		return v.Int(), true
	case "uint":
		return v.Uint(), true
	case "float":
		return v.Float(), true
	case "duration":
		if v.Type() == durationWrapperT {
			return v.Interface().(config.DurationWrapper).Duration, true
		}
		return time.Duration(v.Int()), true
	}
	return nil, false
}

func set(c *config.Config, l *Leaf, val any) {
	v, _ := leafValue(reflect.ValueOf(c).Elem(), l, true)
	switch l.Kind {
	case "string":
		v.SetString(val.(string))
	case "bool":
		v.SetBool(val.(bool))
	case "int":
		v.SetInt(val.(int64))
	case "uint":
		v.SetUint(val.(uint64))
	case "float":
		v.SetFloat(val.(float64))
	case "duration":
		if v.Type() == durationWrapperT {
			v.Set(reflect.ValueOf(config.DurationWrapper{Duration: val.(time.Duration)}))
		} else {
			v.SetInt(int64(val.(time.Duration)))
		}
	}
}

// Vals is the reference model's view of a configuration: option path -> normalised value.
type Vals map[string]any

func (d *Discovery) valsOf(c *config.Config) Vals {
	out := Vals{}
	for _, l := range d.Leaves {
		if v, ok := get(c, l); ok {
			out[l.Path] = v
		} else {
			out[l.Path] = nil
		}
	}
	return out
}

func (v Vals) clone() Vals {
	o := make(Vals, len(v))
	for k, x := range v {
		o[k] = x
	}
	return o
}

// build makes a Config that holds the given values (fresh Instrumentation, never the shared default pointer).
func (d *Discovery) build(v Vals, rootDir string) config.Config {
	var c config.Config
	for _, l := range d.Leaves {
		if x, ok := v[l.Path]; ok && x != nil {
			set(&c, l, x)
		}
	}
	c.RootDir = rootDir
	return c
}

// Diff is one differing option.
type Diff struct {
	Path string `json:"path"`
	Want string `json:"want"`
	Got  string `json:"got"`
}

func show(x any) string {
	switch t := x.(type) {
	case nil:
		return "<nil>"
	case string:
		return fmt.Sprintf("%q", t)
	case time.Duration:
		return t.String()
	default:
		return fmt.Sprintf("%v", t)
	}
}

func (d *Discovery) diff(want, got Vals) []Diff {
	var out []Diff
	for _, l := range d.Leaves {
		if want[l.Path] != got[l.Path] {
			out = append(out, Diff{l.Path, show(want[l.Path]), show(got[l.Path])})
		}
	}
	return out
}
