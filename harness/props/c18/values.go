package c18

import (
	"math"
	"math/rand"
	"regexp"
	"strconv"
	"strings"
	"time"
)

// Value is one value of an option together with the texts that denote it in a configuration file written by
// the harness's own YAML writer and on the command line.
type Value struct {
	V    any    // normalised: string | bool | int64 | uint64 | float64 | time.Duration
	File string // YAML scalar text
	Flag string // text after "--name="
	Bare bool   // bool flag given without a value ("--name")
}

func (v Value) key() string { return show(v.V) + "|" + v.File + "|" + v.Flag }

var safePlainRe = regexp.MustCompile(`^[A-Za-z/][A-Za-z0-9_/.-]*$`)

// yamlString renders a string as a YAML scalar that every YAML reader takes for that string.
func yamlString(rng *rand.Rand, s string) string {
	style := 0
	if rng != nil {
		style = rng.Intn(6)
	}
	switch {
	case style == 1: // single quoted
		return "'" + strings.ReplaceAll(s, "'", "''") + "'"
	case style == 2 && safePlainRe.MatchString(s) && !writerReserved[s]:
		return s
	default: // double quoted; printable strings need only \" and \\
		return strconv.Quote(s)
	}
}

func strValue(rng *rand.Rand, s string) Value { return Value{V: s, File: yamlString(rng, s), Flag: s} }

func floatText(f float64) string { return strconv.FormatFloat(f, 'g', -1, 64) }

func floatValue(f float64) Value { return Value{V: f, File: floatText(f), Flag: floatText(f)} }

func durValue(rng *rand.Rand, d time.Duration, text string) Value {
	if text == "" {
		text = d.String()
	}
	file := text
	if rng == nil || rng.Intn(2) == 0 {
		file = strconv.Quote(text)
	}
	return Value{V: d, File: file, Flag: text}
}

func maxInt(bits int) int64 {
	if bits <= 0 || bits >= 64 {
		return math.MaxInt64
	}
	return int64(1)<<(bits-1) - 1
}

func maxUint(bits int) uint64 {
	if bits <= 0 || bits >= 64 {
		return math.MaxUint64
	}
	return uint64(1)<<bits - 1
}

// valuesFor returns n values of the leaf's type, distinct by value, most important first (the first five are what
// the quick tier uses for non-string kinds). offset rotates the string list so that the quick tier covers the whole
// curated set across fields.
func valuesFor(rng *rand.Rand, l *Leaf, n, offset int, clean []string) []Value {
	var out []Value
	seen := map[any]bool{}
	add := func(v Value) {
		if len(out) < n && !seen[v.V] {
			seen[v.V] = true
			out = append(out, v)
		}
	}
	switch l.Kind {
	case "bool":
		out = []Value{
			{V: true, File: "true", Flag: "true"},
			{V: false, File: "false", Flag: "false"},
			{V: true, File: "true", Bare: true},
		}
		if n < len(out) {
			out = out[:n]
		}
	case "uint":
		mx := maxUint(l.Bits)
		for _, u := range []uint64{0, 1, mx, 2, mx - 1, 10, 255, 256, 65535, 1 << 31, 1<<32 + 1, 1 << 62, 1 << 63, 1<<63 - 1, 1000000, 42} {
			if u <= mx {
				add(Value{V: u, File: strconv.FormatUint(u, 10), Flag: strconv.FormatUint(u, 10)})
			}
		}
		for len(out) < n {
			u := rng.Uint64() >> uint(rng.Intn(64))
			if u <= mx {
				add(Value{V: u, File: strconv.FormatUint(u, 10), Flag: strconv.FormatUint(u, 10)})
			}
		}
	case "int":
		mx := maxInt(l.Bits)
		for _, i := range []int64{0, 1, mx, -1, mx - 1, 3, 10, 255, 65536, 1 << 31, 1 << 40, -2, -1000, 1000000, 42, -mx} {
			if i <= mx && i >= -mx-1 {
				add(Value{V: i, File: strconv.FormatInt(i, 10), Flag: strconv.FormatInt(i, 10)})
			}
		}
		for len(out) < n {
			i := int64(rng.Uint64()>>uint(1+rng.Intn(63))) * int64(1-2*rng.Intn(2))
			if i <= mx && i >= -mx-1 {
				add(Value{V: i, File: strconv.FormatInt(i, 10), Flag: strconv.FormatInt(i, 10)})
			}
		}
	case "float":
		fs := []float64{0, 1, -1, 0.5, -2.5, 1e-9, 1e21, math.MaxFloat64, math.SmallestNonzeroFloat64, math.Pi, 123456789.125, -1e-300, 2, 100, 0.1, -0.3, 1e15, 1e16, 65536.5, 1.0000000000000002}
		if l.Bits == 32 {
			fs = []float64{0, 1, -1, 0.5, -2.5, math.MaxFloat32, math.SmallestNonzeroFloat32, 2, 100, 0.25, 65536.5}
		}
		for _, f := range fs {
			add(floatValue(f))
		}
		for len(out) < n {
			var f float64
			switch rng.Intn(3) {
			case 0:
				f = float64(rng.Intn(2000)-1000) / 8
			case 1:
				f = rng.NormFloat64() * math.Pow(10, float64(rng.Intn(40)-20))
			default:
				f = math.Float64frombits(rng.Uint64())
			}
			if l.Bits == 32 {
				f = float64(float32(f))
			}
			if math.IsNaN(f) || math.IsInf(f, 0) || (f == 0 && math.Signbit(f)) {
				continue
			}
			add(floatValue(f))
		}
	case "duration":
		type dt struct {
			d time.Duration
			t string
		}
		for _, x := range []dt{{0, ""}, {time.Second, ""}, {math.MaxInt64, ""}, {-5 * time.Second, ""}, {1, ""}, {time.Microsecond, ""}, {time.Millisecond, ""},
			{90 * time.Minute, "90m"}, {time.Hour, ""}, {500 * time.Millisecond, "500ms"}, {150 * time.Second, "2m30s"}, {150 * time.Minute, "2.5h"}, {3 * time.Microsecond, "3us"},
			{10 * time.Minute, "10m"}, {15 * time.Second, ""}, {24 * time.Hour, ""}, {1500 * time.Millisecond, "1.5s"}, {-time.Hour, ""}, {7 * time.Nanosecond, "7ns"}, {36 * time.Second, "0.01h"}} {
			add(durValue(rng, x.d, x.t))
		}
		for len(out) < n {
			d := time.Duration(rng.Int63n(int64(1000*time.Hour))) / time.Duration(1+rng.Intn(1000000))
			if rng.Intn(5) == 0 {
				d = -d
			}
			add(durValue(rng, d, ""))
		}
	case "string":
		for k := 0; k < len(clean) && len(out) < n; k++ {
			add(strValue(rng, clean[(offset+k)%len(clean)]))
		}
		for len(out) < n {
			add(strValue(rng, randomCleanString(rng)))
		}
	}
	return out
}

// randomValue draws one value of the leaf's type (clean region for strings).
func randomValue(rng *rand.Rand, l *Leaf) Value {
	if l.Kind == "string" {
		return strValue(rng, randomCleanString(rng))
	}
	if l.Kind == "bool" {
		b := rng.Intn(2) == 0
		v := Value{V: b, File: strconv.FormatBool(b), Flag: strconv.FormatBool(b)}
		if b && rng.Intn(3) == 0 {
			v.Bare = true
		}
		return v
	}
	vs := valuesFor(rng, l, 12+rng.Intn(8), 0, nil)
	return vs[rng.Intn(len(vs))]
}

// another returns a value of the leaf's type different from v.
func another(rng *rand.Rand, l *Leaf, v Value, pool []Value) Value {
	for k := range pool {
		if w := pool[(k+1+rng.Intn(len(pool)))%len(pool)]; w.V != v.V {
			return w
		}
	}
	for {
		w := randomValue(rng, l)
		if w.V != v.V {
			return w
		}
	}
}
