// Package c18 decides C18: every configuration option obeys flag > file > default and survives save/load; a
// genesis file written by the node loads back equal and an invalid genesis is refused (see /verif/DESIGN.md §7).
//
// The code under test is run for real: cobra command + config.AddFlags + config.AddGlobalFlags, ParseFlags,
// config.Load, (*Config).SaveAsYaml, config.LoadFromViper, genesis.Save / LoadGenesis / CreateGenesis. The oracle is
// a reference model over "option path -> value" maps: expected = defaults, overwritten by what the file says,
// overwritten by what the flags say. Options and flags are discovered by reflection; the files of the precedence
// cases are written by the harness's own YAML writer (never by the code under test).
//
// # Reading of the statement (what is demanded, and what is not)
//
//   - Every case in which a flag takes part runs twice: on one command carrying all flags, and in the topology of the
//     real binaries (root command with AddGlobalFlags as persistent flags, subcommand with AddFlags, `root run --flag..`
//     executed, config.Load called with the subcommand).
//   - A Load error is a precedence failure only if no single value explains it: when one (option, value) of the case
//     makes Load fail all by itself, alone in the file AND alone as a flag, the implementation rejects that VALUE
//     (validation); such cases are counted (load_rejects_value:*), not judged.
//   - A field tagged yaml:"-" AND mapstructure:"-" is by construction not an option of the file (RootDir). A field the
//     writer skips (yaml:"-") but the loader still decodes is an option and is judged like every other one, under its
//     mapstructure path.
//   - A flag that names an option of a kind the check cannot generate values for (slice, map, pointer) is judged on
//     the raw field (reflect.DeepEqual before/after) or is inconclusive; it is never "silently ignored".
//   - Strings: any valid UTF-8 string, including tab, line breaks, control and format characters, must survive
//     SaveAsYaml -> Load.
//   - Invalid genesis files are derived from a valid one through its parsed form (members found by value, re-marshalled),
//     so that nothing depends on key names, indentation or a trailing newline: a member the validity rules speak about
//     (chain id, initial height, start time, proposer address) absent / null / of an impossible JSON type; prefixes that
//     are not themselves a JSON document; content after the object. Members the rules do not mention are left alone.
package c18

import (
	"errors"
	"fmt"
	"io"
	"math/rand"
	"os"
	"path/filepath"
	"reflect"
	"sort"
	"strings"
	"time"

	"github.com/evstack/ev-node/pkg/config"
	"github.com/spf13/cobra"
	"github.com/spf13/viper"

	"verifharness/vk"
)

// Level is the verification level claimed for this property.
const Level = "exploration"

const idAlias = "C18-default-aliasing" // Load decodes through the *InstrumentationConfig shared with DefaultConfig

// Assign is one option given by one source.
type Assign struct {
	Path string `json:"path"`
	Flag string `json:"flag,omitempty"` // flag name when the source is the command line
	Text string `json:"text"`           // YAML scalar text / flag text
	Bare bool   `json:"bare,omitempty"`
	val  any
}

// Case is one generated load scenario (also the witness of a violation).
type Case struct {
	Region   string   `json:"region"`
	Field    string   `json:"field,omitempty"`
	Pattern  string   `json:"pattern,omitempty"`
	File     []Assign `json:"file,omitempty"`
	Flags    []Assign `json:"flags,omitempty"`
	FileText string   `json:"file_text,omitempty"` // exact content of <home>/config/evnode.yaml ("" with HasFile=false: no file)
	HasFile  bool     `json:"has_file"`
	Args     []string `json:"args,omitempty"`
	// Topology: "" = one command carrying AddFlags + AddGlobalFlags, ParseFlags + Load on it; "subcommand" = root command
	// with the global flags as persistent flags, subcommand with the node flags, `root run --flag...` executed, Load
	// called with the subcommand from its RunE (the shape of every real binary); "group" = root -> command group with the
	// global flags as ITS persistent flags -> leaf command with the node flags, `root node run --flag...` executed
	Topology string `json:"topology,omitempty"`
	// Link: "" = <home>/config/evnode.yaml is a regular file; otherwise the YAML lives elsewhere and the path is a symbolic
	// link to it: "absolute" (link to an absolute path outside the home), "relative" (../config-real/evnode.yaml),
	// "chain" (the layout of a Kubernetes ConfigMap volume: evnode.yaml -> ..data/evnode.yaml, ..data -> ..<timestamp>/)
	Link string `json:"config_file_is_symlink,omitempty"`
}

type harness struct {
	r            *vk.Run
	d            *Discovery
	def          Vals
	defCfg       config.Config
	defIns       *config.InstrumentationConfig
	scratch      string
	home         string
	cfgPath      string
	calls        map[string]int
	sigs         map[string]int
	nSample      int
	saves        int
	keepDefaults bool // sequences(): let one Load see what the previous one left behind
	clean        []string
	fileOK       map[string]bool // option -> set from the file with a non-default value
	flagOK       map[string]bool // flag name -> reached its option with a value different from the competing source
	flagOKSub    map[string]bool // the same in the subcommand topology
	flagOKGroup  map[string]bool // the same in the command-group topology
	nFiles       int             // files put in place so far (every fifth one goes behind a symbolic link)
	noSymlinks   bool            // the file system under the scratch directory refuses symbolic links
}

func tempDir(root, pattern string) string {
	base := filepath.Join(root, "out", "tmp")
	_ = os.MkdirAll(base, 0o755)
	d, err := os.MkdirTemp(base, pattern)
	if err != nil {
		panic(fmt.Sprintf("tempdir: %v", err))
	}
	return d
}

// finding forwards to r.Finding; for an id that is not listed (every call would print a VIOLATION line) only the
// first occurrence per clause is forwarded. The occurrences are counted in any case.
func (h *harness) finding(id, clause, detail string, witness any) {
	h.r.Count("finding_occurrences:"+id, 1)
	h.calls[id+"|"+clause]++
	if h.calls[id+"|"+clause] == 1 || h.r.IsKnown(id) {
		h.r.Finding(id, clause, detail, witness)
	}
}

// violation reports the first violation of each (clause, signature) and counts the repetitions: one broken option
// shows up in hundreds of cases, the bounded VIOLATION list should show the different failures instead.
func (h *harness) violation(clause, sig, detail string, witness any) {
	k := clause + "|" + sig
	h.sigs[k]++
	if h.sigs[k] > 1 {
		h.r.Count("violations_with_an_already_reported_signature", 1)
		return
	}
	h.r.Violation(clause, detail, witness)
}

func diffSig(ds []Diff) string {
	var p []string
	for _, d := range ds {
		p = append(p, d.Path)
	}
	return strings.Join(p, ",")
}

func errSig(err error) string {
	s := err.Error()
	if len(s) > 120 {
		s = s[:120]
	}
	return s
}

// ---- the harness's own YAML writer -----------------------------------------------------------

type ynode struct {
	key  string
	text string
	kids []*ynode
}

func renderYAML(as []Assign) string {
	root := &ynode{}
	for _, a := range as {
		n := root
		parts := strings.Split(a.Path, ".")
		for i, p := range parts {
			var c *ynode
			for _, k := range n.kids {
				if k.key == p {
					c = k
				}
			}
			if c == nil {
				c = &ynode{key: p}
				n.kids = append(n.kids, c)
			}
			if i == len(parts)-1 {
				c.text = a.Text
			}
			n = c
		}
	}
	var sb strings.Builder
	var emit func(n *ynode, ind string)
	emit = func(n *ynode, ind string) {
		for _, k := range n.kids {
			if len(k.kids) > 0 {
				sb.WriteString(ind + k.key + ":\n")
				emit(k, ind+"  ")
			} else {
				sb.WriteString(ind + k.key + ": " + k.text + "\n")
			}
		}
	}
	emit(root, "")
	return sb.String()
}

// ---- running the code under test -----------------------------------------------------------------

type outcome struct {
	Vals     Vals
	Cfg      config.Config
	RootDir  string
	ParseErr error
	Err      error
	Panic    string
}

func (h *harness) restoreDefaults() {
	if h.keepDefaults {
		return
	}
	config.DefaultConfig = h.defCfg
	if h.defIns != nil {
		ins := *h.defIns
		config.DefaultConfig.Instrumentation = &ins
	}
}

func args(flags []Assign) []string {
	var out []string
	for _, f := range flags {
		if f.Bare {
			out = append(out, "--"+f.Flag)
		} else {
			out = append(out, "--"+f.Flag+"="+f.Text)
		}
	}
	return out
}

func (h *harness) setFile(c *Case) {
	_ = os.Remove(h.cfgPath) // the file, or the link of an earlier case (never the link's target)
	if !c.HasFile {
		return
	}
	_ = os.MkdirAll(filepath.Dir(h.cfgPath), 0o755)
	if err := os.WriteFile(h.cfgPath, []byte(c.FileText), 0o600); err != nil {
		panic(err)
	}
	h.maybeLink(c)
}

var linkKinds = []string{"absolute", "relative", "chain"}

// maybeLink moves every fifth configuration file (written by the harness or by SaveAsYaml) somewhere else and leaves a
// symbolic link in its place: a file reached through a link is as much the configuration file as a regular one
// (ConfigMap volumes present every file that way; operators link the file from /etc). A case that already says
// which kind of link it had (a case put back after a probe) gets the same again.
func (h *harness) maybeLink(c *Case) {
	if h.noSymlinks {
		return
	}
	if c.Link == "" {
		h.nFiles++
		if h.nFiles%5 != 0 {
			return
		}
		c.Link = linkKinds[(h.nFiles/5)%len(linkKinds)]
	}
	dir := filepath.Dir(h.cfgPath)
	name := filepath.Base(h.cfgPath)
	var real, target string
	switch c.Link {
	case "absolute":
		real = filepath.Join(h.scratch, "elsewhere", name)
		target = real
	case "relative":
		real = filepath.Join(h.home, "config-real", name)
		target = filepath.Join("..", "config-real", name)
	default: // chain
		const stamp = "..2026_09_26_00_00_00.0000000001"
		real = filepath.Join(dir, stamp, name)
		target = filepath.Join("..data", name)
		_ = os.Remove(filepath.Join(dir, "..data"))
		if err := os.Symlink(stamp, filepath.Join(dir, "..data")); err != nil {
			h.noSymlinks, c.Link = true, ""
			h.r.Count("symbolic_links_not_available", 1)
			return
		}
	}
	_ = os.MkdirAll(filepath.Dir(real), 0o755)
	b, err := os.ReadFile(h.cfgPath)
	if err != nil {
		panic(err)
	}
	if err := os.WriteFile(real, b, 0o600); err != nil {
		panic(err)
	}
	_ = os.Remove(h.cfgPath)
	if err := os.Symlink(target, h.cfgPath); err != nil {
		// no symbolic links here: the case runs on a regular file
		h.noSymlinks, c.Link = true, ""
		h.r.Count("symbolic_links_not_available", 1)
		if err := os.WriteFile(h.cfgPath, b, 0o600); err != nil {
			panic(err)
		}
		return
	}
	h.r.Count("config_file_behind_symlink:"+c.Link, 1)
}

// load runs ParseFlags + config.Load on a fresh command. The file must be in place.
func (h *harness) load(c *Case) (o outcome) {
	h.restoreDefaults()
	defer h.restoreDefaults()
	c.Args = append([]string{"--" + config.FlagRootDir + "=" + h.home}, args(c.Flags)...)
	if c.Topology == "subcommand" || c.Topology == "group" {
		ran := false
		root := newCommandTree(c.Topology == "group", func(sub *cobra.Command) error {
			ran = true
			defer func() {
				if p := recover(); p != nil {
					o.Panic = fmt.Sprint(p)
				}
			}()
			o.Cfg, o.Err = config.Load(sub)
			return nil
		})
		c.Args = append([]string{"run"}, c.Args...)
		if c.Topology == "group" {
			c.Args = append([]string{"node"}, c.Args...)
		}
		root.SetArgs(c.Args)
		root.SetOut(io.Discard)
		root.SetErr(io.Discard)
		if err := root.Execute(); err != nil || !ran {
			if err == nil {
				err = errors.New("the subcommand was not run")
			}
			o.ParseErr = err
			return o
		}
	} else {
		cmd := newCommand()
		if err := cmd.ParseFlags(c.Args); err != nil {
			o.ParseErr = err
			return o
		}
		func() {
			defer func() {
				if p := recover(); p != nil {
					o.Panic = fmt.Sprint(p)
				}
			}()
			o.Cfg, o.Err = config.Load(cmd)
		}()
	}
	if o.Panic != "" {
		h.checkDefaults(c, nil)
		return o
	}
	o.RootDir = o.Cfg.RootDir
	o.Vals = h.d.valsOf(&o.Cfg) // Load returns the partly decoded Config together with an error
	h.checkDefaults(c, &o)
	if o.Err != nil {
		o.Vals = nil
		return o
	}
	// cut the result loose from whatever it may share with the defaults
	if o.Cfg.Instrumentation != nil {
		ins := *o.Cfg.Instrumentation
		o.Cfg.Instrumentation = &ins
	}
	return o
}

// checkDefaults: a Load must leave the default configuration as it found it.
func (h *harness) checkDefaults(c *Case, o *outcome) {
	cur := h.d.valsOf(&config.DefaultConfig)
	diffs := h.d.diff(h.def, cur)
	if o != nil && len(h.d.diff(h.def, o.Vals)) > 0 {
		h.r.Hit("defaults-intact")
	}
	if len(diffs) == 0 {
		return
	}
	shape := o != nil && o.Cfg.Instrumentation != nil && o.Cfg.Instrumentation == config.DefaultConfig.Instrumentation
	for _, d := range diffs {
		if !strings.HasPrefix(d.Path, "instrumentation.") || o == nil || o.Vals[d.Path] != cur[d.Path] {
			shape = false
		}
	}
	detail := fmt.Sprintf("config.Load changed config.DefaultConfig: %s", diffText(diffs))
	w := map[string]any{"case": c, "default_config_diffs": diffs}
	if shape {
		h.finding(idAlias, "defaults-intact", detail+" (the returned Config and DefaultConfig share one *InstrumentationConfig; the next Load in this process starts from these values)", w)
	} else {
		h.r.Violation("defaults-intact", detail, w)
	}
}

func diffText(ds []Diff) string {
	var parts []string
	for i, d := range ds {
		if i == 6 {
			parts = append(parts, fmt.Sprintf("… (%d in all)", len(ds)))
			break
		}
		parts = append(parts, fmt.Sprintf("%s: want %s got %s", d.Path, d.Want, d.Got))
	}
	return strings.Join(parts, "; ")
}

// expected is the reference model: defaults < file < flags.
func (h *harness) expected(c *Case) Vals {
	e := h.def.clone()
	if c.HasFile {
		for _, a := range c.File {
			e[a.Path] = a.val
		}
	}
	for _, a := range c.Flags {
		if a.Path != "" {
			e[a.Path] = a.val
		}
	}
	return e
}

// judge compares an outcome with the model. It returns the differing options (nil when equal) and reports
// hard failures (flag rejected, Load error, panic, wrong root dir) itself.
func (h *harness) judge(c *Case, o outcome, want Vals, clause string) ([]Diff, bool) {
	switch {
	case o.ParseErr != nil:
		h.violation(clause, "parse:"+errSig(o.ParseErr), fmt.Sprintf("the flag set rejects a legal value: %v", o.ParseErr), map[string]any{"case": c})
		return nil, false
	case o.Panic != "":
		h.violation(clause, "panic", "config.Load panicked: "+o.Panic, map[string]any{"case": c})
		return nil, false
	case o.Err != nil:
		if path, text := h.rejectedValue(c); path != "" {
			// the same value is refused when it is the only thing in the file and when it is the only flag: the
			// implementation rejects this VALUE (validation), which says nothing about precedence
			h.r.Count("load_rejects_value:"+path+"="+trunc(text, 24), 1)
			return nil, false
		}
		h.violation(clause, "err:"+errSig(o.Err), fmt.Sprintf("config.Load failed on a valid file / valid flags: %v", o.Err), map[string]any{"case": c})
		return nil, false
	}
	if o.RootDir != h.home {
		h.violation("home-flag", c.Topology, fmt.Sprintf("RootDir is %q, --home said %q (topology %q)", o.RootDir, h.home, c.Topology), map[string]any{"case": c})
		return nil, false
	}
	return h.d.diff(want, o.Vals), true
}

func trunc(s string, n int) string {
	if len(s) > n {
		return s[:n] + "…"
	}
	return s
}

// rejectedValue looks, after a failed Load, for a single (option, value) of the case that makes Load fail all by
// itself: alone in the file AND (if the option has a flag) alone on the command line. It returns "" if there is none.
func (h *harness) rejectedValue(c *Case) (string, string) {
	type cand struct {
		l    *Leaf
		a    Assign
		flag string
	}
	var cands []cand
	seen := map[string]bool{}
	add := func(a Assign) {
		l := h.d.ByPath[a.Path]
		if l == nil || seen[a.Path+"|"+show(a.val)] {
			return
		}
		seen[a.Path+"|"+show(a.val)] = true
		cands = append(cands, cand{l: l, a: a})
	}
	if c.HasFile {
		for _, a := range c.File {
			add(a)
		}
	}
	for _, a := range c.Flags {
		add(a)
	}
	saved := *c
	defer func() { h.setFile(&saved) }()
	for _, cd := range cands {
		v := valueOf(cd.l, cd.a.val)
		inFile := &Case{Region: "rejected-value-probe", Field: cd.l.Path, File: []Assign{assign(cd.l, v)}, HasFile: true, Topology: c.Topology}
		inFile.FileText = renderYAML(inFile.File)
		h.setFile(inFile)
		if o := h.load(inFile); o.Err == nil || o.Panic != "" {
			continue
		}
		if f := cd.l.Flag; f != nil {
			asFlag := &Case{Region: "rejected-value-probe", Field: cd.l.Path, Flags: []Assign{flagAssign(cd.l, f, v)}, Topology: c.Topology}
			h.setFile(asFlag)
			if o := h.load(asFlag); o.ParseErr != nil || o.Err == nil || o.Panic != "" {
				continue
			}
		}
		return cd.l.Path, v.Flag
	}
	return "", ""
}

// valueOf renders a normalised value as file / flag text (the plainest spelling).
func valueOf(l *Leaf, x any) Value {
	switch t := x.(type) {
	case string:
		return strValue(nil, t)
	case bool:
		return Value{V: t, File: fmt.Sprint(t), Flag: fmt.Sprint(t)}
	case int64:
		return Value{V: t, File: fmt.Sprint(t), Flag: fmt.Sprint(t)}
	case uint64:
		return Value{V: t, File: fmt.Sprint(t), Flag: fmt.Sprint(t)}
	case float64:
		return floatValue(t)
	case time.Duration:
		return durValue(nil, t, "")
	}
	return Value{V: x, File: fmt.Sprint(x), Flag: fmt.Sprint(x)}
}

func assign(l *Leaf, v Value) Assign { return Assign{Path: l.Path, Text: v.File, val: v.V} }

func flagAssign(l *Leaf, f *FlagInfo, v Value) Assign {
	a := Assign{Path: l.Path, Flag: f.Name, Text: v.Flag, Bare: v.Bare, val: v.V}
	return a
}

// background adds random sources for every option other than skip.
func (h *harness) background(rng *rand.Rand, c *Case, skip *Leaf) {
	for _, m := range h.d.Leaves {
		if m == skip {
			continue
		}
		p := rng.Intn(100)
		switch {
		case p < 40: // left to the default
		case p < 70 || m.Flag == nil:
			c.File = append(c.File, assign(m, randomValue(rng, m)))
		case p < 85:
			c.Flags = append(c.Flags, flagAssign(m, m.Flag, randomValue(rng, m)))
		default:
			c.File = append(c.File, assign(m, randomValue(rng, m)))
			c.Flags = append(c.Flags, flagAssign(m, m.Flag, randomValue(rng, m)))
		}
	}
}

func shuffleAssign(rng *rand.Rand, a []Assign) {
	rng.Shuffle(len(a), func(i, j int) { a[i], a[j] = a[j], a[i] })
}

// ---- phase: option x pattern x value ------------------------------------------------------------------

func (h *harness) patterns(rng *rand.Rand, nvals int) {
	r := h.r
	for li, l := range h.d.Leaves {
		vals := valuesFor(rng, l, nvals, li*nvals, h.clean)
		flag, legacy := l.Flag, false
		if flag == nil && l.LegacyFlag != nil {
			flag, legacy = l.LegacyFlag, true
		}
		for _, v := range vals {
			for p := 0; p < 8; p++ {
				noisy, hasFile, hasFlag := p&4 != 0, p&2 != 0, p&1 != 0
				if hasFlag && flag == nil {
					r.Count("patterns_not_applicable_option_has_no_flag", 1)
					continue
				}
				c := &Case{Region: "pattern", Field: l.Path, Pattern: fmt.Sprintf("background=%v file=%v flag=%v", noisy, hasFile, hasFlag)}
				if legacy && hasFlag {
					c.Region = "pattern/trigger:" + idSignerFlags
				}
				if noisy {
					h.background(rng, c, l)
				}
				var lower Value
				if hasFile && hasFlag {
					lower = another(rng, l, v, vals)
				}
				if hasFile {
					fv := v
					if hasFlag {
						fv = lower
					}
					c.File = append(c.File, assign(l, fv))
				}
				if hasFlag {
					c.Flags = append(c.Flags, flagAssign(l, flag, v))
				}
				shuffleAssign(rng, c.File)
				shuffleAssign(rng, c.Flags)
				c.HasFile = hasFile || len(c.File) > 0
				if noisy && !hasFile && rng.Intn(2) == 0 {
					// noisy background purely on the command line: keep "file absent" literally true
					c.File, c.HasFile = nil, false
				}
				c.FileText = renderYAML(c.File)
				h.runPattern(c, l, flag, legacy, v, lower, hasFile, hasFlag)
			}
		}
	}
}

// runPattern runs one pattern case on the flat command and, when a flag takes part, once more in the topology of the
// real binaries (global flags persistent on the root, node flags on the subcommand that reaches Load).
func (h *harness) runPattern(c *Case, l *Leaf, flag *FlagInfo, legacy bool, v, lower Value, hasFile, hasFlag bool) {
	h.runPatternIn(c, l, flag, legacy, v, lower, hasFile, hasFlag)
	if hasFlag {
		c2 := *c
		c2.Topology, c2.Link = "subcommand", ""
		c2.Region += "/subcommand"
		h.runPatternIn(&c2, l, flag, legacy, v, lower, hasFile, hasFlag)
		// and with a command group of the application in between, which owns the global flags
		c3 := *c
		c3.Topology, c3.Link = "group", ""
		c3.Region += "/group"
		h.runPatternIn(&c3, l, flag, legacy, v, lower, hasFile, hasFlag)
	}
}

func (h *harness) runPatternIn(c *Case, l *Leaf, flag *FlagInfo, legacy bool, v, lower Value, hasFile, hasFlag bool) {
	r := h.r
	sub := c.Topology != ""
	h.setFile(c)
	o := h.load(c)
	want := h.expected(c)
	r.Eval(c.Region+"|"+l.Path+"|"+c.Pattern+"|"+v.key(), hasFile || hasFlag, h.sample(c, l, want))
	diffs, ok := h.judge(c, o, want, "precedence")
	if !ok {
		return
	}
	def := h.def[l.Path]
	clause := "default-when-absent"
	nonVacuous := true
	switch {
	case hasFile && hasFlag:
		clause = "flag-over-file"
	case hasFlag:
		clause, nonVacuous = "flag-over-default", v.V != def
	case hasFile:
		clause, nonVacuous = "file-over-default", v.V != def
	}
	if len(diffs) == 0 {
		if nonVacuous {
			r.Hit(clause)
		}
		r.HitN("no-other-option-changes", int64(len(h.d.Leaves)-1))
		if hasFile && !hasFlag && v.V != def && !h.fileOK[l.Path] {
			h.fileOK[l.Path] = true
			r.Hit("every-option-settable-from-file")
		}
		competitor := def
		if hasFile {
			competitor = lower.V
		}
		if hasFile && nonVacuous && c.Link != "" {
			r.Hit("file-behind-a-symbolic-link")
		}
		if sub {
			seen, name := h.flagOKSub, "subcommand"
			if c.Topology == "group" {
				seen, name = h.flagOKGroup, "command-group"
			}
			r.Hit("flags-under-a-" + name)
			if hasFlag && v.V != competitor && !legacy && !seen[flag.Name] {
				seen[flag.Name] = true
				r.Hit("every-flag-reaches-the-option-it-names/" + name)
			}
			return
		}
		if hasFlag && v.V != competitor && !h.flagOK[flag.Name] {
			h.flagOK[flag.Name] = true
			if legacy {
				r.Count("legacy_signer_flag_now_reaches_its_option", 1)
			} else {
				r.Hit("every-flag-reaches-the-option-it-names")
			}
		}
		return
	}
	w := map[string]any{"case": c, "diffs": diffs}
	if legacy && hasFlag {
		// predicted shape of C18-signer-flags: the flag is ignored, the option keeps the file / default value,
		// nothing else differs
		ign := *c
		ign.Flags = nil
		for _, f := range c.Flags {
			if f.Flag != flag.Name {
				ign.Flags = append(ign.Flags, f)
			}
		}
		if len(h.d.diff(h.expected(&ign), o.Vals)) == 0 {
			h.finding(idSignerFlags, "every-flag-reaches-the-option-it-names",
				fmt.Sprintf("--%s=%s is ignored: %s stays %s (%s)", flag.Name, v.Flag, l.Path, show(o.Vals[l.Path]), c.Pattern), w)
			return
		}
	}
	topo := ""
	switch c.Topology {
	case "subcommand":
		topo = " [root command with persistent global flags + subcommand with the node flags, Load(subcommand)]"
	case "group":
		topo = " [root command -> command group with the global flags as its persistent flags -> leaf command with the node flags, Load(leaf)]"
	}
	if c.Link != "" {
		topo += " [the configuration file is a symbolic link (" + c.Link + ") to the YAML file]"
	}
	h.violation(clause, c.Topology+diffSig(diffs), fmt.Sprintf("option %s, %s, value %s%s: %s", l.Path, c.Pattern, show(v.V), topo, diffText(diffs)), w)
}

// sample hands a sample to the evidence only for every 173rd case, so that the few samples kept come from
// different options and patterns.
func (h *harness) sample(c *Case, l *Leaf, want Vals) any {
	h.nSample++
	if h.nSample%173 != 1 {
		return nil
	}
	return sampleOf(c, l, want)
}

func sampleOf(c *Case, l *Leaf, want Vals) any {
	s := map[string]any{"region": c.Region, "pattern": c.Pattern, "file_options": len(c.File), "flags": len(c.Flags)}
	if l != nil {
		s["option"] = l.Path
		s["expected"] = show(want[l.Path])
		for _, a := range c.File {
			if a.Path == l.Path && c.HasFile {
				s["file_says"] = a.Text
			}
		}
		for _, a := range c.Flags {
			if a.Path == l.Path {
				s["flag_says"] = "--" + a.Flag + "=" + a.Text
			}
		}
	}
	return s
}

// ---- phase: two loads in one process -------------------------------------------------------------------------

// sequences: a Load whose file sets options, then, WITHOUT the harness restoring anything in between, a Load with
// neither file nor flags: the second one must return the defaults ("else default"). This is where the shared
// *InstrumentationConfig (C18-default-aliasing) becomes visible at the level of the property itself.
func (h *harness) sequences(rng *rand.Rand, n int) {
	r := h.r
	for i := 0; i < n; i++ {
		a := &Case{Region: "sequence/first"}
		for _, l := range h.d.Leaves {
			if rng.Intn(3) > 0 {
				a.File = append(a.File, assign(l, randomValue(rng, l)))
			}
		}
		a.HasFile, a.FileText = true, renderYAML(a.File)
		b := &Case{Region: "sequence/second"}
		h.restoreDefaults()
		h.keepDefaults = true
		h.setFile(a)
		oa := h.load(a)
		h.setFile(b)
		ob := h.load(b)
		h.keepDefaults = false
		h.restoreDefaults()
		r.Eval("sequence|"+a.FileText, true, nil)
		if _, ok := h.judge(a, oa, h.expected(a), "precedence"); !ok {
			continue
		}
		diffs, ok := h.judge(b, ob, h.def, "default-when-absent")
		if !ok {
			continue
		}
		if len(diffs) == 0 {
			r.Hit("default-after-earlier-load")
			continue
		}
		w := map[string]any{"first_load": a, "second_load": b, "diffs": diffs}
		shape := true
		for _, d := range diffs {
			if !strings.HasPrefix(d.Path, "instrumentation.") || ob.Vals[d.Path] != oa.Vals[d.Path] {
				shape = false
			}
		}
		detail := "a Load with neither file nor flag, after an earlier Load in the same process, does not return the defaults: " + diffText(diffs)
		if shape {
			h.finding(idAlias, "default-after-earlier-load", detail+" (values the EARLIER Load read from its file)", w)
		} else {
			h.violation("default-after-earlier-load", diffSig(diffs), detail, w)
		}
	}
}

// ---- phase: flags that are not options, flags that name no option -----------------------------------------

func (h *harness) flagClasses() {
	r := h.r
	for _, f := range h.d.Flags {
		switch f.Class {
		case "by-design":
			if f.Name == config.FlagRootDir {
				// reaches RootDir: judged in every single case (judge compares RootDir with --home)
				for _, topo := range []string{"", "subcommand", "group"} {
					c := &Case{Region: "by-design-flag", Field: f.Name, Topology: topo}
					h.setFile(c)
					o := h.load(c)
					if diffs, ok := h.judge(c, o, h.def, "home-flag"); ok {
						if len(diffs) > 0 {
							r.Violation("home-flag", "--home alone changed options: "+diffText(diffs), map[string]any{"case": c, "diffs": diffs})
						} else {
							r.Hit("home-flag")
						}
					}
					r.Eval("by-design|"+f.Name+"|"+topo, false, nil)
				}
				continue
			}
			// the passphrase: changes no option and is never written to disk
			const token = "c18-Secret-Passphrase-7f3a"
			c := &Case{Region: "by-design-flag", Field: f.Name, Flags: []Assign{{Flag: f.Name, Text: token}}}
			h.setFile(c)
			o := h.load(c)
			r.Eval("by-design|"+f.Name, false, nil)
			diffs, ok := h.judge(c, o, h.def, "passphrase-flag")
			if !ok {
				continue
			}
			if len(diffs) > 0 {
				r.Violation("passphrase-flag", "the passphrase flag changed options: "+diffText(diffs), map[string]any{"case": c, "diffs": diffs})
				continue
			}
			cfg := o.Cfg
			if err := safeSave(&cfg); err != nil {
				r.Violation("passphrase-flag", "SaveAsYaml failed: "+err.Error(), map[string]any{"case": c})
				continue
			}
			b, _ := os.ReadFile(h.cfgPath)
			_ = os.Remove(h.cfgPath)
			if strings.Contains(string(b), token) {
				r.Violation("passphrase-flag", "the passphrase was written to the configuration file", map[string]any{"case": c, "file": string(b)})
				continue
			}
			r.Hit("passphrase-flag")
		case "unsupported-kind":
			// The flag names an option whose kind (slice, map, pointer) this check cannot generate values for. Whether
			// the flag reaches it is judged on the raw field: it must differ from the default after the flag was given.
			// A probe text the flag type does not accept, or an unchanged field, decide nothing (the probe may be the
			// default, or not a legal value).
			text := "7"
			if strings.HasPrefix(f.Type, "stringTo") {
				text = "c18key=7"
			}
			c := &Case{Region: "flag-of-unsupported-kind", Field: f.Name, Flags: []Assign{{Flag: f.Name, Text: text}}}
			h.setFile(c)
			o := h.load(c)
			r.Eval("unsupported-kind|"+f.Name, true, nil)
			switch {
			case o.ParseErr != nil || o.Err != nil || o.Panic != "":
				r.Inconclusive(fmt.Sprintf("flag --%s (%s) names the option %s of a kind this check cannot generate values for; the probe %q was not accepted: %v %v %s", f.Name, f.Type, f.Leaf.Path, text, o.ParseErr, o.Err, o.Panic))
			case !reflect.DeepEqual(rawField(&o.Cfg, f.Leaf), rawField(&h.defCfg, f.Leaf)):
				r.Count("flag_reaches_option_of_unsupported_kind", 1)
			default:
				r.Inconclusive(fmt.Sprintf("flag --%s (%s) names the option %s of a kind this check cannot generate values for; the probe %q left the field as it was", f.Name, f.Type, f.Leaf.Path, text))
			}
		case "unmatched":
			text := map[string]string{"string": "c18-probe-value", "bool": "true", "duration": "7h7m7s", "float64": "7.25", "float32": "7.25"}[f.Type]
			if text == "" {
				text = "7"
			}
			if f.Type == "bool" && f.DefValue == "true" {
				text = "false"
			}
			c := &Case{Region: "unmatched-flag", Field: f.Name, Flags: []Assign{{Flag: f.Name, Text: text}}}
			h.setFile(c)
			o := h.load(c)
			r.Eval("unmatched|"+f.Name, true, nil)
			diffs, ok := h.judge(c, o, h.def, "every-flag-reaches-the-option-it-names")
			if !ok {
				continue
			}
			w := map[string]any{"case": c, "diffs": diffs}
			switch len(diffs) {
			case 0:
				r.Violation("every-flag-reaches-the-option-it-names",
					fmt.Sprintf("flag --%s names no option (no option has the path %q) and setting it to %q changes no option: silently ignored", f.Name, f.Stripped, text), w)
			case 1:
				r.Count("flag_names_no_option_path_but_reaches_one_option", 1)
				r.Set("flag_reaching_differently_named_option:"+f.Name, diffs[0].Path)
			default:
				r.Violation("every-flag-reaches-the-option-it-names", fmt.Sprintf("flag --%s names no option and changes %d options: %s", f.Name, len(diffs), diffText(diffs)), w)
			}
		}
	}
}

// ---- phase: random whole configurations, mixed sources, file by either writer ------------------------------

func (h *harness) mixed(rng *rand.Rand, n int) {
	r := h.r
	var passphrase *FlagInfo
	for _, f := range h.d.Flags {
		if f.Name == config.FlagSignerPassphrase {
			passphrase = f
		}
	}
	for i := 0; i < n; i++ {
		c := &Case{Region: "mixed"}
		if i%2 == 1 {
			c.Topology = "subcommand"
			if i%4 == 3 {
				c.Topology = "group"
			}
		}
		h.background(rng, c, nil)
		if passphrase != nil && rng.Intn(4) == 0 {
			c.Flags = append(c.Flags, Assign{Flag: passphrase.Name, Text: randomCleanString(rng)})
		}
		shuffleAssign(rng, c.File)
		shuffleAssign(rng, c.Flags)
		c.HasFile = len(c.File) > 0
		bySave := c.HasFile && rng.Intn(2) == 0
		if bySave {
			// the file is written by SaveAsYaml from (defaults + file assignments): it then names every option
			c.Region = "mixed/saved-file"
			fv := h.def.clone()
			for _, a := range c.File {
				fv[a.Path] = a.val
			}
			cfg := h.d.build(fv, h.home)
			_ = os.Remove(h.cfgPath)
			if err := safeSave(&cfg); err != nil {
				r.Violation("save", "SaveAsYaml failed: "+err.Error(), map[string]any{"case": c})
				continue
			}
			b, _ := os.ReadFile(h.cfgPath)
			c.FileText = string(b)
			h.maybeLink(c)
		} else {
			c.FileText = renderYAML(c.File)
			h.setFile(c)
		}
		o := h.load(c)
		want := h.expected(c)
		nsrc := 0
		if c.HasFile {
			nsrc++
		}
		if len(c.Flags) > 0 {
			nsrc++
		}
		r.Eval(fmt.Sprintf("mixed|%v|%s|%s|%v", bySave, c.Topology, c.FileText, args(c.Flags)), nsrc > 0, sampleOf(c, nil, want))
		diffs, ok := h.judge(c, o, want, "mixed-precedence")
		if !ok {
			continue
		}
		if len(diffs) > 0 {
			h.violation("mixed-precedence", c.Topology+diffSig(diffs), fmt.Sprintf("%d options in the file, %d flags (topology %q): %s", len(c.File), len(c.Flags), c.Topology, diffText(diffs)), map[string]any{"case": c, "diffs": diffs})
			continue
		}
		r.Hit("mixed-precedence")
		h.fromViper(c, want)
	}
}

// fromViper: LoadFromViper documents "the same precedence as Load"; it is driven as the package's own test does
// (explicit values set on a viper instance under the flag names).
func (h *harness) fromViper(c *Case, want Vals) {
	r := h.r
	h.restoreDefaults()
	defer h.restoreDefaults()
	v := viper.New()
	v.Set(config.FlagRootDir, h.home)
	for _, a := range c.Flags {
		if a.Bare {
			v.Set(a.Flag, true)
		} else {
			v.Set(a.Flag, a.Text)
		}
	}
	var cfg config.Config
	var err error
	var pan string
	func() {
		defer func() {
			if p := recover(); p != nil {
				pan = fmt.Sprint(p)
			}
		}()
		cfg, err = config.LoadFromViper(v)
	}()
	w := map[string]any{"case": c}
	if pan != "" || err != nil {
		h.violation("load-from-viper", "err:"+fmt.Sprint(err)[:min(80, len(fmt.Sprint(err)))]+pan, fmt.Sprintf("LoadFromViper failed where Load succeeded: %v %s", err, pan), w)
		return
	}
	got := h.d.valsOf(&cfg)
	if diffs := h.d.diff(want, got); len(diffs) > 0 || cfg.RootDir != h.home {
		w["diffs"] = diffs
		h.violation("load-from-viper", diffSig(diffs), fmt.Sprintf("LoadFromViper differs from the model (and from Load): root=%q %s", cfg.RootDir, diffText(diffs)), w)
		return
	}
	r.Hit("load-from-viper")
}

// ---- phase: SaveAsYaml -> Load -----------------------------------------------------------------------------

// saveLoad writes the configuration holding vals with SaveAsYaml and loads it back without flags.
func (h *harness) saveLoad(c *Case, vals Vals) (outcome, bool) {
	// two saves of three start without a file; the third writes over whatever the previous case left there (a longer or
	// a shorter document, or one that does not parse): saving must replace the file, not patch it
	h.saves++
	if h.saves%3 != 0 {
		_ = os.Remove(h.cfgPath)
	} else if _, err := os.Stat(h.cfgPath); err == nil {
		h.r.Count("saves_over_an_existing_file", 1)
	}
	cfg := h.d.build(vals, h.home)
	var err error
	var pan string
	func() {
		defer func() {
			if p := recover(); p != nil {
				pan = fmt.Sprint(p)
			}
		}()
		err = cfg.SaveAsYaml()
	}()
	if err != nil || pan != "" {
		h.r.Violation("save", fmt.Sprintf("SaveAsYaml failed: %v %s", err, pan), map[string]any{"case": c, "written": stringVals(vals)})
		return outcome{}, false
	}
	b, _ := os.ReadFile(h.cfgPath)
	c.FileText, c.HasFile = string(b), true
	h.maybeLink(c) // what was written, then linked into the home, must load back as well
	return h.load(c), true
}

func stringVals(v Vals) map[string]string {
	o := map[string]string{}
	for k, x := range v {
		o[k] = show(x)
	}
	return o
}

// judgeRoundTrip decides one SaveAsYaml -> Load case, region by region.
func (h *harness) judgeRoundTrip(c *Case, written Vals, o outcome) {
	r := h.r
	var q, ts []string
	num := map[string]Num{}
	for _, l := range h.d.Leaves {
		s, isStr := written[l.Path].(string)
		if !isStr {
			continue
		}
		if n, ok := triggerNumber(s); ok {
			num[l.Path] = n
		} else if triggerTimestamp(s) {
			ts = append(ts, l.Path)
		} else if triggerQuestion(s) {
			q = append(q, l.Path)
		}
	}
	w := map[string]any{"case": c, "written": stringVals(written)}
	if o.Panic != "" {
		r.Violation("save-load", "config.Load panicked on a file written by SaveAsYaml: "+o.Panic, w)
		return
	}
	if o.ParseErr != nil {
		r.Violation("save-load", "flag parsing failed: "+o.ParseErr.Error(), w)
		return
	}
	inTrigger := len(q)+len(ts)+len(num) > 0
	if o.Err != nil {
		// a value the implementation refuses wherever it comes from (alone in a harness-written file and alone as a
		// flag) is a rejected VALUE, not a failure of the round trip
		probe := &Case{Region: "rejected-value-probe", HasFile: true, Topology: c.Topology}
		for _, l := range h.d.Leaves {
			if x, ok := written[l.Path]; ok && x != nil {
				probe.File = append(probe.File, assign(l, valueOf(l, x)))
			}
		}
		saved := *c
		path, text := h.rejectedValue(probe)
		h.setFile(&saved)
		if path != "" {
			r.Count("load_rejects_value:"+path+"="+trunc(text, 24), 1)
			return
		}
		// predicted shape of C18-timestamp-like-strings: Load refuses the file with a decoding error
		if len(q) == 0 && len(ts) > 0 && errors.Is(o.Err, config.ErrReadYaml) {
			h.finding(idTimestamp, "save-load", fmt.Sprintf("%s = %s is saved unquoted, the reader takes it for a timestamp and Load fails: %v",
				ts[0], show(written[ts[0]]), o.Err), w)
			return
		}
		// second accepted shape of C18-question-mark-strings: should Load stop dropping the reader's error, the
		// unparseable file makes it fail instead of returning the defaults
		if len(q) > 0 {
			h.finding(idQuestion, "save-load", fmt.Sprintf("%s = %s is saved unquoted, the file no longer parses and Load fails: %v", q[0], show(written[q[0]]), o.Err), w)
			return
		}
		h.violation("save-load", "err:"+errSig(o.Err), fmt.Sprintf("config.Load fails on a file written by SaveAsYaml: %v", o.Err), w)
		return
	}
	diffs := h.d.diff(written, o.Vals)
	w["diffs"] = diffs
	if o.RootDir != h.home {
		r.Violation("save-load", fmt.Sprintf("RootDir %q, want %q", o.RootDir, h.home), w)
		return
	}
	if len(diffs) == 0 {
		if inTrigger {
			r.Count("trigger_region_case_loaded_back_equal", 1)
		} else {
			r.Hit("save-load")
		}
		return
	}
	switch {
	case len(q) > 0:
		// predicted shape of C18-question-mark-strings: the file cannot be parsed, the error is dropped, the result is
		// the default configuration
		if len(h.d.diff(h.def, o.Vals)) == 0 {
			h.finding(idQuestion, "save-load", fmt.Sprintf("%s = %s is saved unquoted, the file no longer parses, Load drops the error and returns the defaults: %d options lost (%s)",
				q[0], show(written[q[0]]), len(diffs), diffText(diffs)), w)
			return
		}
	case len(ts) > 0:
		// a timestamp-like string must make Load fail (handled above) or survive
	case len(num) > 0:
		// predicted shape of C18-float-like-strings: only the options holding such strings differ, each loads back as
		// the text of the number it denotes
		shape := true
		for _, d := range diffs {
			n, ok := num[d.Path]
			got, isStr := o.Vals[d.Path].(string)
			if !ok || !isStr || !reformatted(n, got) {
				shape = false
			}
		}
		if shape {
			d := diffs[0]
			h.finding(idFloatLike, "save-load", fmt.Sprintf("%s = %s is saved unquoted and loads back as %s", d.Path, d.Want, d.Got), w)
			return
		}
	}
	h.violation("save-load", diffSig(diffs), "a configuration written by SaveAsYaml does not load back equal: "+diffText(diffs), w)
}

func (h *harness) randomWhole(rng *rand.Rand) Vals {
	v := Vals{}
	for _, l := range h.d.Leaves {
		if rng.Intn(6) == 0 {
			v[l.Path] = h.def[l.Path]
		} else {
			v[l.Path] = randomValue(rng, l).V
		}
	}
	return v
}

func (h *harness) roundTrips(rng *rand.Rand, n int) {
	for i := 0; i < n; i++ {
		vals := h.randomWhole(rng)
		c := &Case{Region: "save-load"}
		o, ok := h.saveLoad(c, vals)
		h.r.Eval("save-load|"+fmt.Sprint(stringVals(vals)), true, nil)
		if ok {
			h.judgeRoundTrip(c, vals, o)
		}
	}
}

// survey puts single strings (number-like, date-like, "?"-like probe lists and random strings over YAML-significant
// alphabets) into one string option of an otherwise default configuration. The class of the string decides the
// region; outside the trigger regions every failure is a violation.
func (h *harness) survey(rng *rand.Rand, nRandom int) {
	var strLeaves []*Leaf
	for _, l := range h.d.Leaves {
		if l.Kind == "string" {
			strLeaves = append(strLeaves, l)
		}
	}
	if len(strLeaves) == 0 {
		return
	}
	var list []string
	list = append(list, curatedNumberLike...)
	list = append(list, curatedTimestampLike...)
	list = append(list, curatedQuestionLike...)
	list = append(list, curatedStrings...)
	for i := 0; i < nRandom; i++ {
		switch rng.Intn(10) {
		case 0, 1:
			list = append(list, randomNumberLike(rng))
		case 2:
			list = append(list, randomTimestampLike(rng))
		case 3:
			list = append(list, randomQuestionLike(rng))
		default:
			list = append(list, randomFrom(rng, cleanAlphabets[rng.Intn(len(cleanAlphabets))], 1+rng.Intn(10)))
		}
	}
	seen := map[string]bool{}
	k := 0
	for _, s := range list {
		if seen[s] || !printable(s) {
			continue
		}
		seen[s] = true
		l := strLeaves[k%len(strLeaves)]
		k++
		vals := h.def.clone()
		vals[l.Path] = s
		region := "survey/clean"
		if _, ok := triggerNumber(s); ok {
			region = "survey/trigger:" + idFloatLike
		} else if triggerTimestamp(s) {
			region = "survey/trigger:" + idTimestamp
		} else if triggerQuestion(s) {
			region = "survey/trigger:" + idQuestion
		}
		h.r.Count("strings:"+region, 1)
		c := &Case{Region: region, Field: l.Path}
		o, ok := h.saveLoad(c, vals)
		h.r.Eval("survey|"+s, true, map[string]any{"region": region, "option": l.Path, "string": s})
		if ok {
			h.judgeRoundTrip(c, vals, o)
		}
	}
}

// surveyControl: SaveAsYaml -> Load of strings with tabs, line breaks, control and format characters (valid UTF-8
// throughout), one string option at a time and in whole configurations whose string options all hold such strings.
func (h *harness) surveyControl(rng *rand.Rand, nRandom int) {
	var strLeaves []*Leaf
	for _, l := range h.d.Leaves {
		if l.Kind == "string" {
			strLeaves = append(strLeaves, l)
		}
	}
	if len(strLeaves) == 0 {
		return
	}
	list := append([]string{}, curatedControl...)
	for i := 0; i < nRandom; i++ {
		list = append(list, randomFrom(rng, controlAlphabet, 1+rng.Intn(12)))
	}
	seen := map[string]bool{}
	k := 0
	for _, s := range list {
		if seen[s] || triggered(s) {
			continue
		}
		seen[s] = true
		l := strLeaves[k%len(strLeaves)]
		k++
		vals := h.def.clone()
		vals[l.Path] = s
		c := &Case{Region: "survey/control-characters", Field: l.Path}
		o, ok := h.saveLoad(c, vals)
		h.r.Eval("survey-control|"+s, true, map[string]any{"region": c.Region, "option": l.Path, "string": s})
		if ok {
			before := h.r.Violations()
			h.judgeRoundTrip(c, vals, o)
			if h.r.Violations() == before && o.Err == nil && o.Panic == "" && !printable(s) {
				h.r.Hit("save-load/control-characters")
			}
		}
	}
	for i := 0; i < nRandom/10+3; i++ {
		vals := h.randomWhole(rng)
		for _, l := range strLeaves {
			vals[l.Path] = list[rng.Intn(len(list))]
			if triggered(vals[l.Path].(string)) {
				vals[l.Path] = "a\nb"
			}
		}
		c := &Case{Region: "save-load/control-characters"}
		o, ok := h.saveLoad(c, vals)
		h.r.Eval("control-whole|"+fmt.Sprint(stringVals(vals)), true, nil)
		if ok {
			h.judgeRoundTrip(c, vals, o)
		}
	}
}

// triggerWholes: random whole configurations in which 1-3 string options hold strings of one trigger class.
func (h *harness) triggerWholes(rng *rand.Rand, n int) {
	var strLeaves []*Leaf
	for _, l := range h.d.Leaves {
		if l.Kind == "string" {
			strLeaves = append(strLeaves, l)
		}
	}
	if len(strLeaves) == 0 {
		return
	}
	for i := 0; i < n; i++ {
		vals := h.randomWhole(rng)
		class := i % 3
		id := []string{idFloatLike, idTimestamp, idQuestion}[class]
		for k := 1 + rng.Intn(3); k > 0; k-- {
			l := strLeaves[rng.Intn(len(strLeaves))]
			for {
				var s string
				switch class {
				case 0:
					s = randomNumberLike(rng)
					if _, ok := triggerNumber(s); !ok {
						continue
					}
				case 1:
					s = randomTimestampLike(rng)
					if !triggerTimestamp(s) {
						continue
					}
				default:
					s = randomQuestionLike(rng)
					if !triggerQuestion(s) {
						continue
					}
				}
				vals[l.Path] = s
				break
			}
		}
		c := &Case{Region: "save-load/trigger:" + id}
		o, ok := h.saveLoad(c, vals)
		h.r.Eval("trigger-whole|"+fmt.Sprint(stringVals(vals)), true, nil)
		if ok {
			h.judgeRoundTrip(c, vals, o)
		}
	}
}

// ---- entry point -------------------------------------------------------------------------------------------

func unsetEnv(d *Discovery) {
	exe, _ := os.Executable()
	base := filepath.Base(exe)
	names := map[string]bool{}
	add := func(k string) {
		names[strings.ToUpper(k)] = true
		names[base+"_"+strings.ToUpper(strings.ReplaceAll(k, "-", "_"))] = true
	}
	for _, l := range d.Leaves {
		add(l.Path)
		add(l.MapPath)
		add("rollkit." + l.Path)
	}
	for _, f := range d.Flags {
		if f.Name == config.FlagRootDir {
			continue
		}
		add(f.Name)
		add(f.Stripped)
	}
	for k := range names {
		_ = os.Unsetenv(k)
	}
}

// Run is the check entry point.
func Run(r *vk.Run) {
	r.Rule = "options = leaf fields of config.Config found by reflection (yaml-tag paths), flags = VisitAll over AddFlags+AddGlobalFlags; " +
		"pattern cases: every option x (background quiet|noisy, file absent|present, flag absent|present) x N values of its type " +
		"(bools; ints 0,1,max,...; floats incl. negatives and extremes; durations; printable single-line strings incl. YAML-significant ones), " +
		"every case with a flag also under the command topology of the real binaries (root with persistent global flags, subcommand with the node flags, Load(subcommand)) and under a three-level one (root -> command group owning the global flags -> leaf with the node flags); " +
		"every fifth configuration file is reached through a symbolic link (absolute | relative | the two-link chain of a ConfigMap volume); " +
		"the higher source carries the value, the lower one a different value; mixed cases: every option independently from default|file|flag|both, file written by the harness or by SaveAsYaml; " +
		"save-load cases: random whole configurations through SaveAsYaml -> Load; survey: one probe string in one string option, incl. strings with tab / line breaks / control and format characters (valid UTF-8); genesis cases. " +
		"non-trivial = at least one of file/flag present (>= 2 sources compete); distinct by parameter tuple (region, option, pattern, value texts / full file+args)"
	r.Assume("no environment variable is named after a configuration key (viper's AutomaticEnv would make it a fourth source); the check unsets such names at start")
	r.Assume("cases run one at a time in this process; config.DefaultConfig is restored to its start-up value before and after every Load")
	r.Assume("files of the precedence cases are produced by the harness's own YAML writer; the reader is whatever config.Load uses")

	d := discover()
	unsetEnv(d)
	scratch := tempDir(vk.Root(), "C18-*")
	defer os.RemoveAll(scratch)
	h := &harness{r: r, d: d, scratch: scratch, home: filepath.Join(scratch, "home"), calls: map[string]int{}, sigs: map[string]int{}, fileOK: map[string]bool{}, flagOK: map[string]bool{}, flagOKSub: map[string]bool{}, flagOKGroup: map[string]bool{}}
	h.cfgPath = filepath.Join(h.home, config.AppConfigDir, config.ConfigName)
	_ = os.MkdirAll(filepath.Dir(h.cfgPath), 0o755)
	h.defCfg = config.DefaultConfig
	if config.DefaultConfig.Instrumentation != nil {
		ins := *config.DefaultConfig.Instrumentation
		h.defIns = &ins
	}
	h.restoreDefaults()
	h.def = d.valsOf(&config.DefaultConfig)

	// evidence: what reflection found
	var fields, flags, noFlag []string
	nField, nLegacy, nByDesign, nUnmatched := 0, 0, 0, 0
	for _, l := range d.Leaves {
		fl := "-"
		if l.Flag != nil {
			fl = "--" + l.Flag.Name
		} else {
			noFlag = append(noFlag, l.Path)
		}
		fields = append(fields, fmt.Sprintf("%s (%s, %s, default %s, mapstructure %s, flag %s)", l.Path, l.GoName, l.Kind, show(h.def[l.Path]), l.MapPath, fl))
	}
	for _, f := range d.Flags {
		flags = append(flags, fmt.Sprintf("--%s (%s, default %q): %s", f.Name, f.Type, f.DefValue, f.Class))
		switch f.Class {
		case "field":
			nField++
		case "legacy-signer":
			nLegacy++
		case "by-design":
			nByDesign++
		default:
			nUnmatched++
		}
	}
	r.Set("fields_discovered", len(d.Leaves))
	r.Set("flags_discovered", len(d.Flags))
	r.Set("fields", fields)
	r.Set("flags", flags)
	r.Set("fields_without_flag", noFlag)
	// Absolute floor (evidence, not a verdict): the pinned commit has 34 options and 35 flags. Fewer means that options
	// or flags were removed or are hidden from discovery; the Requires below scale with what WAS discovered.
	const floorOptions, floorFlags = 34, 35
	r.Count("options_discovered", int64(len(d.Leaves)))
	r.Count("flags_discovered", int64(len(d.Flags)))
	if len(d.Leaves) < floorOptions {
		r.Count("options_discovered_below_the_floor_of_the_pinned_commit", int64(floorOptions-len(d.Leaves)))
	}
	if len(d.Flags) < floorFlags {
		r.Count("flags_discovered_below_the_floor_of_the_pinned_commit", int64(floorFlags-len(d.Flags)))
	}
	r.Set("discovery_floor_note", fmt.Sprintf("pinned commit: %d options, %d flags; this run: %d options, %d flags", floorOptions, floorFlags, len(d.Leaves), len(d.Flags)))
	r.Set("fields_neither_written_nor_read_from_the_file", d.NotInFile)
	r.Set("fields_the_writer_skips_but_the_loader_reads", d.HiddenFromWriter)
	r.Set("flag_classes", map[string]int{"names_an_option": nField, "by_design_not_an_option": nByDesign, "legacy_signer_trigger_region": nLegacy, "names_no_option": nUnmatched})
	for _, u := range d.Unsupported {
		r.Inconclusive("option of a type this check has no value generator for: " + u)
	}
	if len(d.Leaves) == 0 || len(d.Flags) == 0 {
		r.Inconclusive("reflection found no options or no flags")
		return
	}

	// clean-region string list (curated members that fall into a trigger region are dropped and counted)
	for _, s := range curatedStrings {
		if cleanString(s) {
			h.clean = append(h.clean, s)
		} else {
			r.Count("curated_strings_outside_clean_region", 1)
		}
	}

	nvals := r.N(5, 50)
	h.flagClasses()
	h.patterns(r.Rand("patterns"), nvals)
	h.sequences(r.Rand("sequences"), r.N(20, 300))
	h.mixed(r.Rand("mixed"), r.N(200, 2000))
	h.roundTrips(r.Rand("save-load"), r.N(200, 5000))
	h.survey(r.Rand("survey"), r.N(600, 12000))
	h.surveyControl(r.Rand("control-characters"), r.N(150, 3000))
	h.triggerWholes(r.Rand("trigger-wholes"), r.N(60, 600))
	genesisChecks(h, r.Rand("genesis"), r.N(200, 5000))

	// exhaustiveness over what was discovered
	var missFile, missFlag []string
	for _, l := range d.Leaves {
		if !h.fileOK[l.Path] {
			missFile = append(missFile, l.Path)
		}
	}
	for _, f := range d.Flags {
		if f.Class == "field" && !h.flagOK[f.Name] {
			missFlag = append(missFlag, f.Name)
		}
	}
	sort.Strings(missFile)
	sort.Strings(missFlag)
	r.Set("options_never_set_from_file", missFile)
	r.Set("flags_never_seen_reaching_their_option", missFlag)
	r.Require("every-option-settable-from-file", int64(len(d.Leaves)))
	r.Require("every-flag-reaches-the-option-it-names", int64(nField))
	r.Require("every-flag-reaches-the-option-it-names/subcommand", int64(nField))
	r.Require("every-flag-reaches-the-option-it-names/command-group", int64(nField))
	if !h.noSymlinks {
		r.Require("file-behind-a-symbolic-link", 20)
	}
	r.Require("flag-over-file", int64(nField))
	r.Require("file-over-default", int64(len(d.Leaves)))
	r.Require("flag-over-default", int64(nField))
	r.Require("default-when-absent", int64(len(d.Leaves)))
	r.Require("save-load", int64(r.N(100, 2500)))
	r.Require("save-load/control-characters", int64(r.N(100, 1500)))
	r.Require("mixed-precedence", int64(r.N(100, 1000)))
	r.Require("genesis-round-trip", int64(r.N(100, 2500)))
	r.Require("genesis-invalid-refused", 50)
	r.Require("genesis-create", 10)
	r.SetExhaustive(len(missFile) == 0 && len(missFlag) == 0 && len(d.Unsupported) == 0)
}

// safeSave calls the writer under test; a panic inside it is reported like an error.
func safeSave(cfg *config.Config) (err error) {
	defer func() {
		if p := recover(); p != nil {
			err = fmt.Errorf("SaveAsYaml panicked: %v", p)
		}
	}()
	return cfg.SaveAsYaml()
}
