package c18

import (
	"bytes"
	"encoding/base64"
	"encoding/hex"
	"encoding/json"
	"fmt"
	"math"
	"math/rand"
	"os"
	"path/filepath"
	"strconv"
	"time"

	"github.com/evstack/ev-node/pkg/genesis"

	"verifharness/vk"
)

// GenesisCase is the witness form of a genesis.
type GenesisCase struct {
	ChainID       string `json:"chain_id"`
	Time          string `json:"time_rfc3339nano"`
	InitialHeight uint64 `json:"initial_height"`
	AddressHex    string `json:"proposer_address_hex"`
	AddressNil    bool   `json:"proposer_address_nil"`
}

func witnessOf(g genesis.Genesis) GenesisCase {
	return GenesisCase{g.ChainID, g.GenesisDAStartTime.Format(time.RFC3339Nano), g.InitialHeight, vk.Hex(g.ProposerAddress), g.ProposerAddress == nil}
}

func randomGenesis(rng *rand.Rand) genesis.Genesis {
	var id string
	for id == "" {
		switch rng.Intn(4) {
		case 0:
			id = randomFrom(rng, "abc\n\t\"\\<>&\u2028é", 12) // JSON must escape these
		default:
			id = randomCleanString(rng)
		}
	}
	// any instant of the years 1..9999 that is not the zero time, in UTC or a fixed zone with whole-minute offset
	sec := rng.Int63n(253402300799+62135596800) - 62135596800
	t := time.Unix(sec, 0).UTC()
	if rng.Intn(2) == 0 {
		t = t.Add(time.Duration(rng.Int63n(1e9)))
	}
	if t.Year() < 2 || t.Year() > 9998 {
		t = time.Date(2+rng.Intn(9990), time.Month(1+rng.Intn(12)), 1+rng.Intn(28), rng.Intn(24), rng.Intn(60), rng.Intn(60), rng.Intn(1e9), time.UTC)
	}
	if rng.Intn(3) == 0 {
		t = t.In(time.FixedZone("", (rng.Intn(2*14*60)-14*60)*60))
	}
	var height uint64
	switch rng.Intn(5) {
	case 0:
		height = 1
	case 1:
		height = math.MaxUint64
	case 2:
		height = uint64(1 + rng.Intn(1000))
	default:
		height = rng.Uint64()>>uint(rng.Intn(64)) | 1
	}
	addr := make([]byte, 1+rng.Intn(64))
	rng.Read(addr)
	return genesis.NewGenesis(id, height, t, addr)
}

func sameGenesis(a, b genesis.Genesis) string {
	switch {
	case a.ChainID != b.ChainID:
		return fmt.Sprintf("chain id %q != %q", a.ChainID, b.ChainID)
	case a.InitialHeight != b.InitialHeight:
		return fmt.Sprintf("initial height %d != %d", a.InitialHeight, b.InitialHeight)
	case !a.GenesisDAStartTime.Equal(b.GenesisDAStartTime):
		return fmt.Sprintf("time %s != %s", a.GenesisDAStartTime.Format(time.RFC3339Nano), b.GenesisDAStartTime.Format(time.RFC3339Nano))
	case !bytes.Equal(a.ProposerAddress, b.ProposerAddress) || (a.ProposerAddress == nil) != (b.ProposerAddress == nil):
		return fmt.Sprintf("proposer address %x != %x", a.ProposerAddress, b.ProposerAddress)
	}
	return ""
}

// wrongTypes: JSON values that cannot denote the member under any reading (no quoted numbers, no numbers for strings:
// a lenient reader may accept those).
var wrongTypes = map[string][]string{
	"chain id":         {`{}`, `[]`, `["a"]`},
	"initial height":   {`"x"`, `{}`, `[1]`, `true`, `-1`, `1.5`},
	"start time":       {`"not a time"`, `{}`, `[]`, `true`},
	"proposer address": {`"!!! not base64 !!!"`, `{}`, `true`},
}

// genesisKeys finds, by value, the top-level key of each member the validity rules speak about ("" if none or
// several match).
func genesisKeys(m map[string]json.RawMessage, g genesis.Genesis) map[string]string {
	out := map[string]string{"chain id": "", "initial height": "", "start time": "", "proposer address": ""}
	n := map[string]int{}
	for k, raw := range m {
		var str string
		isStr := json.Unmarshal(raw, &str) == nil && len(raw) > 0 && raw[0] == '"'
		var num json.Number
		isNum := !isStr && json.Unmarshal(raw, &num) == nil
		match := func(what string) {
			out[what] = k
			n[what]++
		}
		if isStr && str == g.ChainID {
			match("chain id")
		}
		if isNum && num.String() == strconv.FormatUint(g.InitialHeight, 10) {
			match("initial height")
		}
		if isStr && str != g.ChainID {
			if t, err := time.Parse(time.RFC3339Nano, str); err == nil && t.Equal(g.GenesisDAStartTime) {
				match("start time")
			}
			for _, enc := range []*base64.Encoding{base64.StdEncoding, base64.RawStdEncoding, base64.URLEncoding} {
				if b, err := enc.DecodeString(str); err == nil && bytes.Equal(b, g.ProposerAddress) && len(b) > 0 {
					match("proposer address")
					break
				}
			}
			if b, err := hex.DecodeString(str); err == nil && bytes.Equal(b, g.ProposerAddress) && len(b) > 0 {
				match("proposer address")
			}
		}
	}
	for what, c := range n {
		if c != 1 {
			out[what] = ""
		}
	}
	return out
}

func loadGenesis(path string) (g genesis.Genesis, err error, pan string) {
	defer func() {
		if p := recover(); p != nil {
			pan = fmt.Sprint(p)
		}
	}()
	g, err = genesis.LoadGenesis(path)
	return
}

func genesisChecks(h *harness, rng *rand.Rand, n int) {
	r := h.r
	dir := filepath.Join(h.scratch, "genesis")
	_ = os.MkdirAll(dir, 0o755)
	path := filepath.Join(dir, "genesis.json")

	refused := func(what string, w any) {
		_, err, pan := loadGenesis(path)
		r.Eval("genesis-invalid|"+what+"|"+fmt.Sprint(w), true, nil)
		switch {
		case pan != "":
			r.Violation("genesis-invalid-refused", "LoadGenesis panicked on "+what+": "+pan, w)
		case err == nil:
			h.violation("genesis-invalid-refused", what, "LoadGenesis accepted an invalid genesis: "+what, w)
		default:
			r.Hit("genesis-invalid-refused")
			r.Count("genesis_invalid:"+what, 1)
		}
	}
	saveInvalid := func(what string, g genesis.Genesis) {
		_ = os.Remove(path)
		if err := g.Save(path); err != nil {
			// refusing to write an invalid genesis is also a refusal
			r.Count("genesis_invalid_not_even_saved:"+what, 1)
			return
		}
		refused(what, witnessOf(g))
	}
	writeRaw := func(what string, b []byte) {
		_ = os.WriteFile(path, b, 0o600)
		refused(what, map[string]any{"file": string(b)})
	}

	for i := 0; i < n; i++ {
		g := randomGenesis(rng)
		_ = os.Remove(path)
		r.Eval("genesis|"+fmt.Sprint(witnessOf(g)), true, nil)
		if err := g.Save(path); err != nil {
			r.Violation("genesis-round-trip", "Save failed on a valid genesis: "+err.Error(), witnessOf(g))
			continue
		}
		got, err, pan := loadGenesis(path)
		if err != nil || pan != "" {
			r.Violation("genesis-round-trip", fmt.Sprintf("LoadGenesis failed on a file written by Save: %v %s", err, pan), witnessOf(g))
			continue
		}
		if msg := sameGenesis(g, got); msg != "" {
			r.Violation("genesis-round-trip", "genesis written by Save loads back different: "+msg, map[string]any{"written": witnessOf(g), "loaded": witnessOf(got)})
			continue
		}
		r.Hit("genesis-round-trip")
		if i%10 != 0 {
			continue
		}
		// every way of being invalid, derived from this valid genesis
		valid, _ := os.ReadFile(path)
		bad := g
		bad.ChainID = ""
		saveInvalid("empty chain id", bad)
		bad = g
		bad.InitialHeight = 0
		saveInvalid("initial height 0", bad)
		bad = g
		bad.GenesisDAStartTime = time.Time{}
		saveInvalid("zero time", bad)
		bad = g
		bad.ProposerAddress = nil
		saveInvalid("nil proposer address", bad)
		// The file as a parsed map, so that nothing below depends on how Save lays the file out (indentation,
		// trailing newline, key order) or on the key names: the four members the validity rules speak about
		// are found by VALUE (the key whose value is this genesis' chain id / height / time / address).
		var m map[string]json.RawMessage
		if json.Unmarshal(valid, &m) != nil || len(m) == 0 {
			r.Count("genesis_file_is_not_a_json_object:derived_cases_skipped", 1)
			continue
		}
		keys := genesisKeys(m, g)
		remarshal := func(edit func(m2 map[string]json.RawMessage)) []byte {
			m2 := map[string]json.RawMessage{}
			for k, v := range m {
				m2[k] = v
			}
			edit(m2)
			b, _ := json.Marshal(m2)
			return b
		}
		for what, key := range keys {
			if key == "" {
				r.Count("genesis_member_not_identified_in_file:"+what, 1)
				continue
			}
			// absent: the member takes its zero value, which the validity rule for it forbids
			writeRaw(what+" absent", remarshal(func(m2 map[string]json.RawMessage) { delete(m2, key) }))
			writeRaw(what+" is JSON null", remarshal(func(m2 map[string]json.RawMessage) { m2[key] = json.RawMessage("null") }))
			// a value of a JSON type that cannot denote it
			for _, wrong := range wrongTypes[what] {
				writeRaw(what+" of the wrong JSON type", remarshal(func(m2 map[string]json.RawMessage) { m2[key] = json.RawMessage(wrong) }))
			}
		}
		// broken JSON: prefixes of the valid file that are not themselves a JSON document, junk
		cuts := []int{0, 1, len(valid) / 2, len(valid) - 1, rng.Intn(len(valid)), rng.Intn(len(valid))}
		if i == 0 {
			cuts = cuts[:0]
			for k := 0; k < len(valid); k++ {
				cuts = append(cuts, k)
			}
		}
		for _, k := range cuts {
			if json.Valid(valid[:k]) {
				r.Count("genesis_truncation_is_still_a_json_document:not_judged", 1)
				continue
			}
			writeRaw("broken JSON (truncated)", valid[:k])
		}
		if junk := []byte("{" + randomFrom(rng, "abc{}[]:,\" 123", 20)); !json.Valid(junk) {
			writeRaw("broken JSON (junk)", junk)
		}
		// not a JSON document: a complete genesis object followed by further content (a second, different object, the
		// tail of an interrupted rewrite, a stray brace, text, NUL padding): which genesis is meant is undefined
		other := g
		other.ChainID = g.ChainID + "-other"
		other.InitialHeight = g.InitialHeight + 7
		ob, _ := json.Marshal(other)
		for _, tail := range [][]byte{ob, append([]byte("\n"), ob...), valid[:len(valid)/2], []byte("}"), []byte("\n}\n"), []byte(" trailing text"), {0}, []byte("\n\x00\x00\x00"), []byte(",{}"), []byte("[]")} {
			if whole := append(append([]byte{}, valid...), tail...); !json.Valid(whole) {
				writeRaw("content after the genesis object", whole)
			}
		}
		writeRaw("JSON null", []byte("null"))
		writeRaw("JSON array", []byte("[]"))
		_ = os.Remove(path)
		refused("missing file", map[string]any{"path": path})
		_ = os.Mkdir(path, 0o755)
		refused("path is a directory", map[string]any{"path": path})
		_ = os.Remove(path)
	}

	// boundary value: a zero-length, non-nil proposer address. Whether such a genesis is valid is the node's own rule;
	// but if the node holds it valid (Validate passes) and writes it, the file it wrote must load back equal
	for i := 0; i < 5; i++ {
		g := randomGenesis(rng)
		g.ProposerAddress = []byte{}
		_ = os.Remove(path)
		if g.Validate() != nil {
			r.Set("genesis_zero_length_proposer_address_accepted", false)
			break
		}
		if err := g.Save(path); err != nil {
			continue
		}
		r.Set("genesis_zero_length_proposer_address_accepted", true)
		got, err, pan := loadGenesis(path)
		r.Hit("genesis-round-trip")
		if err != nil || pan != "" {
			r.Violation("genesis-round-trip", fmt.Sprintf("a genesis with a zero-length proposer address passes the node's own validation and is written by Save, but the file does not load: %v %s", err, pan), witnessOf(g))
		} else if msg := sameGenesis(g, got); msg != "" {
			r.Violation("genesis-round-trip", "genesis written by Save loads back different: "+msg, map[string]any{"written": witnessOf(g), "loaded": witnessOf(got)})
		}
	}
	_ = os.Remove(path)

	// CreateGenesis: the file the node itself writes
	for i := 0; i < 20; i++ {
		home := filepath.Join(dir, fmt.Sprintf("home%d", i))
		g := randomGenesis(rng)
		w := witnessOf(g)
		r.Eval("genesis-create|"+fmt.Sprint(w), true, nil)
		if err := genesis.CreateGenesis(home, g.ChainID, g.InitialHeight, g.ProposerAddress); err != nil {
			r.Violation("genesis-create", "CreateGenesis failed: "+err.Error(), w)
			continue
		}
		p := genesis.GenesisPath(home)
		got, err, pan := loadGenesis(p)
		if err != nil || pan != "" {
			r.Violation("genesis-create", fmt.Sprintf("the genesis written by CreateGenesis does not load: %v %s", err, pan), w)
			continue
		}
		g.GenesisDAStartTime = got.GenesisDAStartTime
		if msg := sameGenesis(g, got); msg != "" || got.GenesisDAStartTime.IsZero() {
			r.Violation("genesis-create", "the genesis written by CreateGenesis loads back different: "+msg, w)
			continue
		}
		r.Hit("genesis-create")
	}
}
