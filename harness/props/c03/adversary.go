package c03

import (
	"fmt"
	"math/rand"

	"github.com/evstack/ev-node/types"
	pb "github.com/evstack/ev-node/types/pb/evnode/v1"
	"github.com/libp2p/go-libp2p/core/crypto"
	"google.golang.org/protobuf/encoding/protowire"
	"google.golang.org/protobuf/proto"

	"verifharness/monitors"
	"verifharness/world"
)

// Adv is one adversarial item: bytes an attacker without the proposer's private key can publish.
type Adv struct {
	Kind              string `json:"kind"`
	Height            uint64 `json:"height"` // height it claims (0 = none)
	IsData            bool   `json:"is_data"`
	Blob              []byte `json:"-"` // DA / wire encoding
	HdrHash           []byte `json:"-"` // header hash if it decodes to a header
	DataComm          []byte `json:"-"` // data commitment if it decodes to signed data
	GenuineCommitment bool   `json:"reuses_genuine_commitment"`
}

// Kinds of adversarial items.
var Kinds = []string{"forged-otherkey", "forged-pair-header", "forged-pair-data", "resigned-data-copy", "mutated-resigned", "unsigned-linked",
	"garbage-signed", "keyless-signer-header", "keyless-signer-data", "sig-transplant", "past-height", "future-height", "wrong-chain", "own-address", "truncated", "bitflip", "random", "empty", "structured-junk", "resigned-header-copy", "garbage-signed-copy"}

// ExtraKinds are cooperating items and hand-made encodings. They are drawn only by the dedicated case list (replay.go):
// the draw from Kinds stays what it was.
//
// forged-then-keyswap / keyswap-then-forged (and data-...): two items. One is a self-consistent forgery under the
// proposer's address (signed with and carrying the forger's key); the other is the very same payload and signature
// carrying the PROPOSER's public key instead. Neither was signed by the proposer, in whichever order they arrive.
//
// data-second-field-* / header-second-field-*: a verbatim copy of a genuine blob with one more occurrence of its embedded
// message field (field 1: `data` resp. `header`) appended or prepended. Decoders merge repeated occurrences of an
// embedded message, so the blob decodes to the genuine item PLUS the attacker's transactions / metadata / header
// fields, next to the proposer's signature over the genuine bytes. No encoder of the node produces this shape.
var ExtraKinds = []string{"forged-then-keyswap", "keyswap-then-forged", "data-forged-then-keyswap", "data-keyswap-then-forged",
	"data-second-field-appended", "data-second-field-prepended", "data-second-field-metadata-only", "header-second-field-appended", "header-second-field-prepended"}

// ordered tells whether the items of a kind have to reach the node in the order MakeAdv returns them.
func ordered(kind string) bool {
	switch kind {
	case "forged-then-keyswap", "keyswap-then-forged", "data-forged-then-keyswap", "data-keyswap-then-forged":
		return true
	}
	return false
}

// withField1 returns blob with one more occurrence of field 1 (an embedded message, encoded in msg) after or before it.
func withField1(blob, msg []byte, after bool) []byte {
	f := protowire.AppendBytes(protowire.AppendTag(nil, 1, protowire.BytesType), msg)
	if after {
		return append(append([]byte{}, blob...), f...)
	}
	return append(f, blob...)
}

func signHeader(h *types.SignedHeader, k world.Keys) {
	payload, err := h.Header.MarshalBinary()
	if err != nil {
		panic(err)
	}
	sig, err := k.Signer.Sign(payload)
	if err != nil {
		panic(err)
	}
	h.Signature = sig
}

// forgeHeader builds a self-consistent header for block index i of the genuine chain (or tip+1 when i == len)
// under the proposer's address, carrying the attacker's key, with the attacker's own transactions.
func forgeHeader(p *world.Produced, i int, atk world.Keys, txs [][]byte, chainID string, addr []byte) *types.SignedHeader {
	var prevHash, prevRoot []byte
	var t uint64
	height := p.Spec.Initial + uint64(i)
	if i > 0 {
		prevHash = p.HeaderHash[i-1]
		prevRoot = p.Roots[i-1]
		g := p.Header(i - 1)
		t = g.BaseHeader.Time + 500_000_000
	} else {
		prevRoot = world.InitRoot(p.Agg.Genesis.ChainID, p.Spec.Initial)
		t = uint64(world.GenesisTime.UnixNano())
	}
	ref := p.Header(0)
	h := &types.SignedHeader{
		Header: types.Header{
			Version:         ref.Version,
			BaseHeader:      types.BaseHeader{Height: height, Time: t, ChainID: chainID},
			LastHeaderHash:  prevHash,
			DataHash:        monitors.Commitment(txs),
			ConsensusHash:   make([]byte, 32),
			AppHash:         prevRoot,
			ProposerAddress: addr,
			ValidatorHash:   ref.ValidatorHash,
		},
		Signer: types.Signer{PubKey: atk.Pub, Address: addr},
	}
	signHeader(h, atk)
	return h
}

func headerBlob(h *types.SignedHeader) []byte {
	b, err := h.MarshalBinary()
	if err != nil {
		panic(err)
	}
	return b
}

func signedDataBlob(height uint64, chainID string, t uint64, txs [][]byte, atk world.Keys, addr []byte) ([]byte, []byte) {
	return signedDataBlobCarrying(height, chainID, t, txs, atk, atk.Pub, addr)
}

// signedDataBlobCarrying: signed with atk's private key, carrying the public key pub.
func signedDataBlobCarrying(height uint64, chainID string, t uint64, txs [][]byte, atk world.Keys, pub crypto.PubKey, addr []byte) ([]byte, []byte) {
	d := types.Data{Metadata: &types.Metadata{ChainID: chainID, Height: height, Time: t}}
	for _, tx := range txs {
		d.Txs = append(d.Txs, tx)
	}
	payload, err := d.MarshalBinary()
	if err != nil {
		panic(err)
	}
	sig, err := atk.Signer.Sign(payload)
	if err != nil {
		panic(err)
	}
	sd := types.SignedData{Data: d, Signature: sig, Signer: types.Signer{PubKey: pub, Address: addr}}
	b, err := sd.MarshalBinary()
	if err != nil {
		panic(err)
	}
	return b, monitors.Commitment(txs)
}

// MakeAdv builds adversarial items of a kind aimed at block index i.
func MakeAdv(rng *rand.Rand, p *world.Produced, kind string, i int, atk world.Keys) []Adv {
	chain := p.Agg.Genesis.ChainID
	addr := p.Keys.Addr
	n := len(p.Heights)
	if i >= n {
		i = n - 1
	}
	height := p.Spec.Initial + uint64(i)
	atkTxs := [][]byte{[]byte(fmt.Sprintf("attacker-tx-%d-%d", i, rng.Intn(1000)))}
	mk := func(h *types.SignedHeader, k string) Adv {
		return Adv{Kind: k, Height: h.Height(), Blob: headerBlob(h), HdrHash: h.Hash()}
	}
	switch kind {
	case "forged-otherkey":
		var txs [][]byte
		if rng.Intn(2) == 0 {
			txs = nil // an empty forged block needs no data at all
		} else {
			txs = atkTxs
		}
		return []Adv{mk(forgeHeader(p, i, atk, txs, chain, addr), kind)}
	case "forged-pair-header", "forged-pair-data":
		h := forgeHeader(p, i, atk, atkTxs, chain, addr)
		db, comm := signedDataBlob(height, chain, h.BaseHeader.Time, atkTxs, atk, addr)
		return []Adv{mk(h, "forged-pair-header"), {Kind: "forged-pair-data", Height: height, IsData: true, Blob: db, DataComm: comm}}
	case "resigned-data-copy":
		// the genuine transactions of a non-empty block, re-signed by the attacker under the proposer's address
		for j := i; j < n; j++ {
			if len(p.Txs[j]) > 0 {
				g := p.Header(j)
				db, comm := signedDataBlob(p.Heights[j], chain, g.BaseHeader.Time, p.Txs[j], atk, addr)
				return []Adv{{Kind: kind, Height: p.Heights[j], IsData: true, Blob: db, DataComm: comm, GenuineCommitment: true}}
			}
		}
		return nil
	case "mutated-resigned":
		h := p.Header(i)
		switch rng.Intn(3) {
		case 0:
			h.BaseHeader.Time += 1
		case 1:
			h.AppHash = append([]byte{}, h.AppHash...)
			h.AppHash[0] ^= 1
		default:
			h.DataHash = monitors.Commitment(atkTxs)
		}
		h.Signer = types.Signer{PubKey: atk.Pub, Address: addr}
		signHeader(h, atk)
		return []Adv{mk(h, kind)}
	case "resigned-header-copy":
		// the genuine header, field for field (so it has the genuine header's hash, which covers neither signer nor
		// signature), re-signed by the attacker under the proposer's address
		h := p.Header(i)
		h.Signer = types.Signer{PubKey: atk.Pub, Address: addr}
		signHeader(h, atk)
		return []Adv{mk(h, kind)}
	case "garbage-signed-copy":
		// the genuine header with the proposer's key and address and a signature that is not the proposer's
		h := p.Header(i)
		h.Signature = make([]byte, 64)
		rng.Read(h.Signature)
		return []Adv{mk(h, kind)}
	case "unsigned-linked":
		h := forgeHeader(p, i, atk, nil, chain, addr)
		h.Signature = nil
		if rng.Intn(2) == 0 {
			h.Signer = types.Signer{}
		}
		return []Adv{mk(h, kind)}
	case "garbage-signed":
		h := forgeHeader(p, i, atk, nil, chain, addr)
		h.Signer = types.Signer{PubKey: p.Keys.Pub, Address: addr}
		h.Signature = make([]byte, 64)
		rng.Read(h.Signature)
		return []Adv{mk(h, kind)}
	case "keyless-signer-header":
		// a header naming the proposer's address in both places, carrying NO public key and some signature bytes
		// (built from the raw protobuf: the node's own encoder never produces this shape)
		h := forgeHeader(p, i, atk, nil, chain, addr)
		sig := make([]byte, 64)
		rng.Read(sig)
		raw := &pb.SignedHeader{Header: h.Header.ToProto(), Signature: sig, Signer: &pb.Signer{Address: addr}}
		b, err := proto.Marshal(raw)
		if err != nil {
			panic(err)
		}
		return []Adv{{Kind: kind, Height: h.Height(), Blob: b, HdrHash: h.Hash()}}
	case "keyless-signer-data":
		d := types.Data{Metadata: &types.Metadata{ChainID: chain, Height: height, Time: uint64(world.GenesisTime.UnixNano())}}
		for _, tx := range atkTxs {
			d.Txs = append(d.Txs, tx)
		}
		sig := make([]byte, 64)
		rng.Read(sig)
		raw := &pb.SignedData{Data: d.ToProto(), Signature: sig, Signer: &pb.Signer{Address: addr}}
		b, err := proto.Marshal(raw)
		if err != nil {
			panic(err)
		}
		return []Adv{{Kind: kind, Height: height, IsData: true, Blob: b, DataComm: monitors.Commitment(atkTxs)}}
	case "sig-transplant":
		h := forgeHeader(p, i, atk, atkTxs, chain, addr)
		g := p.Header(i)
		h.Signer = g.Signer
		h.Signature = g.Signature
		return []Adv{mk(h, kind)}
	case "past-height":
		return []Adv{mk(forgeHeader(p, 0, atk, atkTxs, chain, addr), kind)}
	case "future-height":
		h := forgeHeader(p, n-1, atk, nil, chain, addr)
		h.BaseHeader.Height = p.Tip() + 5 + uint64(rng.Intn(100))
		signHeader(h, atk)
		return []Adv{mk(h, kind)}
	case "wrong-chain":
		return []Adv{mk(forgeHeader(p, i, atk, nil, chain+"-x", addr), kind)}
	case "own-address":
		return []Adv{mk(forgeHeader(p, i, atk, nil, chain, atk.Addr), kind)}
	case "truncated":
		src := p.HeaderBlob[i]
		if p.DataBlob[i] != nil && rng.Intn(2) == 0 {
			src = p.DataBlob[i]
		}
		cut := 1 + rng.Intn(len(src)-1)
		return []Adv{{Kind: kind, Blob: append([]byte{}, src[:cut]...)}}
	case "bitflip":
		src := p.HeaderBlob[i]
		isData := false
		if p.DataBlob[i] != nil && rng.Intn(2) == 0 {
			src = p.DataBlob[i]
			isData = true
		}
		b := append([]byte{}, src...)
		b[rng.Intn(len(b))] ^= 1 << uint(rng.Intn(8))
		a := Adv{Kind: kind, Blob: b, IsData: isData}
		// a flipped bit may leave a blob that still decodes: remember what it decodes to
		if hgt, d, ok := world.DecodeBlobHeight(b); ok {
			a.Height = hgt
			a.IsData = d
		}
		return []Adv{a}
	case "structured-junk":
		var out []Adv
		for _, b := range world.StructuredJunk(rng, p) {
			a := Adv{Kind: kind, Blob: b}
			if hgt, d, ok := world.DecodeBlobHeight(b); ok {
				a.Height, a.IsData = hgt, d
			}
			out = append(out, a)
		}
		return out
	case "forged-then-keyswap", "keyswap-then-forged":
		var txs [][]byte // an empty forged block needs no data at all
		if rng.Intn(3) == 0 {
			txs = atkTxs
		}
		a := forgeHeader(p, i, atk, txs, chain, addr)
		b := *a
		b.Signer = types.Signer{PubKey: p.Keys.Pub, Address: addr}
		out := []Adv{mk(a, "replay-forged"), mk(&b, "replay-keyswap")}
		if kind == "keyswap-then-forged" {
			out[0], out[1] = out[1], out[0]
		}
		return out
	case "data-forged-then-keyswap", "data-keyswap-then-forged":
		t := p.Header(i).BaseHeader.Time
		fb, comm := signedDataBlobCarrying(height, chain, t, atkTxs, atk, atk.Pub, addr)
		kb, _ := signedDataBlobCarrying(height, chain, t, atkTxs, atk, p.Keys.Pub, addr)
		out := []Adv{{Kind: "replay-data-forged", Height: height, IsData: true, Blob: fb, DataComm: comm}, {Kind: "replay-data-keyswap", Height: height, IsData: true, Blob: kb, DataComm: comm}}
		if kind == "data-keyswap-then-forged" {
			out[0], out[1] = out[1], out[0]
		}
		return out
	case "data-second-field-appended", "data-second-field-prepended", "data-second-field-metadata-only":
		for j := i; j < n; j++ {
			if len(p.Txs[j]) == 0 || p.DataBlob[j] == nil {
				continue
			}
			second := &pb.Data{}
			claimed := p.Heights[j]
			switch rng.Intn(3) {
			case 0: // the height of a later block, or of the block after the tip
				claimed = p.Heights[j] + 1 + uint64(rng.Intn(n-j))
				second.Metadata = &pb.Metadata{Height: claimed}
			case 1:
				claimed = p.Heights[j] + 1
				second.Metadata = &pb.Metadata{Height: claimed, Time: p.Header(j).BaseHeader.Time + 1}
			}
			after := kind != "data-second-field-prepended"
			merged := append([][]byte{}, p.Txs[j]...)
			if kind != "data-second-field-metadata-only" {
				second.Txs = atkTxs
				if after {
					merged = append(merged, atkTxs...)
				} else {
					merged = append(append([][]byte{}, atkTxs...), merged...)
				}
			} else if second.Metadata == nil {
				claimed = p.Heights[j] + 1
				second.Metadata = &pb.Metadata{Height: claimed}
			}
			msg, err := proto.Marshal(second)
			if err != nil {
				panic(err)
			}
			blob := withField1(p.DataBlob[j], msg, after)
			if hgt, isData, ok := world.DecodeBlobHeight(blob); ok && isData {
				claimed = hgt // what a merging decoder makes of it
			}
			return []Adv{{Kind: kind, Height: claimed, IsData: true, Blob: blob, DataComm: monitors.Commitment(merged),
				GenuineCommitment: kind == "data-second-field-metadata-only"}}
		}
		return nil
	case "header-second-field-appended", "header-second-field-prepended":
		second := &pb.Header{}
		g := p.Header(i)
		if kind == "header-second-field-prepended" {
			// the genuine occurrence comes last and wins every field it sets: only a field the proposer left empty survives
			// (an occurrence that survives nowhere is just another encoding of the proposer's own header)
			switch {
			case len(g.LastResultsHash) == 0:
				second.LastResultsHash = monitors.Commitment(atkTxs)
			case len(g.LastCommitHash) == 0:
				second.LastCommitHash = monitors.Commitment(atkTxs)
			case len(g.LastHeaderHash) == 0:
				second.LastHeaderHash = monitors.Commitment(atkTxs)
			default:
				return nil
			}
		} else {
			switch rng.Intn(3) {
			case 0:
				second.DataHash = monitors.Commitment(atkTxs)
			case 1:
				second.AppHash = monitors.Commitment(atkTxs)
			default:
				second.Height = height + 1
			}
		}
		msg, err := proto.Marshal(second)
		if err != nil {
			panic(err)
		}
		a := Adv{Kind: kind, Height: height, Blob: withField1(p.HeaderBlob[i], msg, kind == "header-second-field-appended")}
		if h := decodeHeaderLoose(a.Blob); h != nil {
			a.Height, a.HdrHash = h.Height(), h.Hash()
		}
		return []Adv{a}
	case "random":
		b := make([]byte, 1+rng.Intn(300))
		rng.Read(b)
		return []Adv{{Kind: kind, Blob: b}}
	case "empty":
		return []Adv{{Kind: kind, Blob: []byte{}}}
	}
	panic("unknown kind " + kind)
}
