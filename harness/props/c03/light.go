package c03

import (
	"context"
	"errors"
	"fmt"
	"math/rand"
	"sync"
	"time"

	goheader "github.com/celestiaorg/go-header"
	goheaderstore "github.com/celestiaorg/go-header/store"
	goheadersync "github.com/celestiaorg/go-header/sync"
	ds "github.com/ipfs/go-datastore"
	dssync "github.com/ipfs/go-datastore/sync"

	"github.com/evstack/ev-node/types"

	"verifharness/vk"
	"verifharness/world"
)

// subDouble stands for go-header's p2p.Subscriber: it applies to every gossiped message exactly what the
// real subscriber applies (unmarshal, Validate(), then the verifier the Syncer registered).
type subDouble struct {
	mu       sync.Mutex
	verifier func(context.Context, *types.SignedHeader) error
}

type nullSubscription struct{ ch chan struct{} }

func (n *nullSubscription) NextHeader(ctx context.Context) (*types.SignedHeader, error) {
	select {
	case <-ctx.Done():
		return nil, ctx.Err()
	case <-n.ch:
		return nil, errors.New("subscription cancelled")
	}
}
func (n *nullSubscription) Cancel() { close(n.ch) }

func (s *subDouble) Subscribe() (goheader.Subscription[*types.SignedHeader], error) {
	return &nullSubscription{ch: make(chan struct{})}, nil
}

func (s *subDouble) SetVerifier(f func(context.Context, *types.SignedHeader) error) error {
	s.mu.Lock()
	s.verifier = f
	s.mu.Unlock()
	return nil
}

// Gossip delivers raw bytes as the pubsub validator would and reports whether the message was accepted.
func (s *subDouble) Gossip(ctx context.Context, raw []byte) (bool, error) {
	hdr := new(types.SignedHeader)
	if err := hdr.UnmarshalBinary(raw); err != nil {
		return false, nil
	}
	if err := hdr.Validate(); err != nil {
		return false, nil
	}
	s.mu.Lock()
	v := s.verifier
	s.mu.Unlock()
	if v == nil {
		return false, errors.New("no verifier registered")
	}
	if err := v(ctx, hdr); err != nil {
		return false, nil
	}
	return true, nil
}

// exDouble stands for the remote peers behind go-header's p2p.Exchange: whatever it holds is served
// (after the same Validate() call the real exchange session applies to every received header).
type exDouble struct {
	mu     sync.Mutex
	byH    map[uint64][]byte
	head   uint64
	served int
}

func (e *exDouble) put(h uint64, raw []byte) {
	e.mu.Lock()
	e.byH[h] = raw
	if h > e.head {
		e.head = h
	}
	e.mu.Unlock()
}

func (e *exDouble) get(h uint64) (*types.SignedHeader, error) {
	e.mu.Lock()
	raw, ok := e.byH[h]
	e.served++
	e.mu.Unlock()
	if !ok {
		return nil, goheader.ErrNotFound
	}
	hdr := new(types.SignedHeader)
	if err := hdr.UnmarshalBinary(raw); err != nil {
		return nil, err
	}
	if err := hdr.Validate(); err != nil {
		return nil, err
	}
	return hdr, nil
}

func (e *exDouble) Head(ctx context.Context, _ ...goheader.HeadOption[*types.SignedHeader]) (*types.SignedHeader, error) {
	e.mu.Lock()
	h := e.head
	e.mu.Unlock()
	return e.get(h)
}
func (e *exDouble) Get(ctx context.Context, hash goheader.Hash) (*types.SignedHeader, error) {
	return nil, goheader.ErrNotFound
}
func (e *exDouble) GetByHeight(ctx context.Context, h uint64) (*types.SignedHeader, error) {
	return e.get(h)
}
func (e *exDouble) GetRangeByHeight(ctx context.Context, from *types.SignedHeader, to uint64) ([]*types.SignedHeader, error) {
	var out []*types.SignedHeader
	for h := from.Height() + 1; h < to; h++ {
		hdr, err := e.get(h)
		if err != nil {
			return nil, err
		}
		out = append(out, hdr)
	}
	// the real exchange verifies the range against `from` before returning it
	if _, err := goheader.VerifyRange(from, out); err != nil {
		return nil, err
	}
	return out, nil
}

// LightCase is one header-only-node scenario.
type LightCase struct {
	ID     int      `json:"id"`
	Shape  string   `json:"chain_shape"`
	Events []string `json:"events"`
}

func (c LightCase) key() string { return fmt.Sprintf("%s %v", c.Shape, c.Events) }

// lightNode runs header-only nodes: the real go-header Store and Syncer, configured as the node's
// sync service configures them, fed with genuine and adversarial gossip and exchange answers.
func lightNode(r *vk.Run, keys, atk world.Keys) {
	ctx := context.Background()
	rng := r.Rand("light")
	n := r.N(40, 600)
	for id := 0; id < n; id++ {
		nb := 4 + rng.Intn(6)
		spec := world.ChainSpec{Initial: 1, GenesisTime: time.Now().Add(-time.Hour).Truncate(time.Second)}
		shape := ""
		for b := 0; b < nb; b++ {
			if rng.Intn(2) == 0 {
				spec.Blocks = append(spec.Blocks, nil)
				shape += "e"
			} else {
				spec.Blocks = append(spec.Blocks, [][]byte{[]byte(fmt.Sprintf("c03l-%d-%d", id, b))})
				shape += "x"
			}
		}
		p, err := world.ProduceChain(ctx, spec, keys)
		if err != nil {
			r.Inconclusive("the aggregator producing the reference chain failed (not this property's business): " + err.Error())
			return
		}
		runLight(r, rng, p, LightCase{ID: id, Shape: shape}, atk)
	}
}

func runLight(r *vk.Run, rng *rand.Rand, p *world.Produced, c LightCase, atk world.Keys) {
	ctx, cancel := context.WithCancel(context.Background())
	defer cancel()
	dstore := dssync.MutexWrap(ds.NewMapDatastore())
	st, err := goheaderstore.NewStore[*types.SignedHeader](dstore, goheaderstore.WithStorePrefix("headerSync"))
	if err != nil {
		r.Inconclusive("go-header store: " + err.Error())
		return
	}
	if err := st.Start(ctx); err != nil {
		r.Inconclusive("go-header store start: " + err.Error())
		return
	}
	defer st.Stop(context.Background())
	sub := &subDouble{}
	ex := &exDouble{byH: map[uint64][]byte{}}
	// the trusted first header
	if err := st.Init(ctx, p.Header(0)); err != nil {
		r.Inconclusive("store init: " + err.Error())
		return
	}
	ex.put(p.Heights[0], p.HeaderBin[0])
	syncer, err := goheadersync.NewSyncer[*types.SignedHeader](ex, st, sub, goheadersync.WithBlockTime(time.Second))
	if err != nil {
		r.Inconclusive("syncer: " + err.Error())
		return
	}
	if err := syncer.Start(ctx); err != nil {
		r.Inconclusive("syncer start: " + err.Error())
		return
	}
	defer syncer.Stop(context.Background())
	// Adjacent headers are appended synchronously by the verifier; a non-adjacent head starts a
	// background sync through the exchange. Wait for that briefly: the oracle only inspects what the
	// store holds at the end, so a short wait can make the run see less, never report something false.
	settle := func() bool {
		deadline := time.Now().Add(400 * time.Millisecond)
		for time.Now().Before(deadline) {
			if syncer.State().Finished() {
				return true
			}
			time.Sleep(2 * time.Millisecond)
		}
		r.Count("light_sync_wait_expired", 1)
		return true
	}
	nAdv := 0
	advKinds := map[string]bool{}
	n := len(p.Heights)
	for i := 1; i < n; i++ {
		// adversarial gossip arrives before the genuine header of the same height
		if rng.Intn(2) == 0 {
			kind := []string{"unsigned-linked", "garbage-signed", "forged-otherkey", "sig-transplant", "wrong-chain", "own-address", "random", "truncated", "keyless-signer-header"}[rng.Intn(9)]
			for _, a := range MakeAdv(rng, p, kind, i, atk) {
				if a.IsData {
					continue
				}
				ok, err := sub.Gossip(ctx, a.Blob)
				if err != nil {
					r.Inconclusive("gossip: " + err.Error())
					return
				}
				nAdv++
				advKinds[kind] = true
				c.Events = append(c.Events, fmt.Sprintf("adv:%s@%d accepted=%v", kind, a.Height, ok))
				r.Count("light_adversarial_gossip", 1)
				if ok {
					r.Count("light_adversarial_gossip_accepted", 1)
				}
			}
		}
		// sometimes the genuine header is skipped in gossip and must come through the exchange later
		ex.put(p.Heights[i], p.HeaderBin[i])
		if rng.Intn(5) > 0 {
			ok, _ := sub.Gossip(ctx, p.HeaderBin[i])
			c.Events = append(c.Events, fmt.Sprintf("genuine@%d accepted=%v", p.Heights[i], ok))
		}
		if !settle() {
			r.Inconclusive("light node: SyncWait watchdog")
			return
		}
	}
	// what does the header-only node hold (and serve to its peers)?
	var bad, other []string
	top := st.Height()
	for h := p.Spec.Initial; h <= top; h++ {
		hdr, err := st.GetByHeight(ctx, h)
		if err != nil {
			continue
		}
		r.Hit("light-node-store")
		payload, _ := hdr.Header.MarshalBinary()
		ok, verr := keys0(p).Verify(payload, hdr.Signature)
		if verr != nil || !ok {
			bad = append(bad, fmt.Sprintf("height %d: stored header is not signed by the genesis proposer's key", h))
			// the known shape: it names the proposer's address and the right chain (go-header checks exactly that)
			if string(hdr.ProposerAddress) != string(p.Keys.Addr) || hdr.ChainID() != p.Agg.Genesis.ChainID {
				other = append(other, fmt.Sprintf("height %d: stored header names proposer %x on chain %q", h, hdr.ProposerAddress, hdr.ChainID()))
			}
		}
	}
	wit := map[string]any{"case": c, "store_height": top}
	if len(other) > 0 {
		r.Violation("light-node-store", fmt.Sprintf("header-only node stored a header that does not even name the proposer / chain: %v", other), wit)
	} else if len(bad) > 0 {
		r.Finding("C03-p2p-validate", "light-node-store", fmt.Sprintf("header-only node (real go-header Syncer+Store) holds headers not signed by the proposer: %v", bad), wit)
	}
	r.Eval("light "+c.key(), nAdv > 0, map[string]any{"light_node_case": c})
}

func keys0(p *world.Produced) interface {
	Verify(data []byte, sig []byte) (bool, error)
} {
	return p.Keys.Pub
}
