// Package c03 decides C03: only material signed by the genesis proposer's key is ever accepted.
package c03

import (
	"bytes"
	"context"
	"fmt"
	"github.com/evstack/ev-node/types"
	"math/rand"
	"os"
	"sort"
	"strings"
	"sync"
	"time"

	"verifharness/vk"
	"verifharness/world"
)

// Level is the verification level claimed for this property.
const Level = "exploration"

// step is one action of a schedule; adversarial material is attached to it.
type step struct {
	Act     world.Action
	Adv     []Adv // placed at the same DA height as Act.DA (Act.Kind == "da")
	AdvP2P  *Adv  // a foreign header served over P2P at the next position (Act.Kind == "p2p-adv")
	Precede int   // genuine headers served in the same poll right before it
}

// Case is one generated differential case.
type Case struct {
	ID           int      `json:"id"`
	Shape        string   `json:"chain_shape"`
	Kinds        []string `json:"adversarial_kinds"`
	Ingress      string   `json:"adversarial_ingress"` // da | p2p
	Schedule     []string `json:"schedule"`
	OmitDataOnDA bool     `json:"genuine_data_not_on_da"`
}

func (c Case) key() string {
	return fmt.Sprintf("%s %v %s %v %s", c.Shape, c.Kinds, c.Ingress, c.OmitDataOnDA, strings.Join(c.Schedule, " "))
}

type endState struct {
	Height uint64
	Hashes []string
	StateH uint64
	Root   string
	DAInc  uint64
	Execs  []string
	Finals []uint64
	RHB    []string
	Dead   []string
}

func snapshot(ctx context.Context, f *world.FN) endState {
	var s endState
	s.Height, _ = f.N.Store.Height(ctx)
	for h := f.P.Spec.Initial; h <= s.Height; h++ {
		hdr, data, err := f.N.Store.GetBlockData(ctx, h)
		if err != nil {
			s.Hashes = append(s.Hashes, "missing")
			continue
		}
		s.Hashes = append(s.Hashes, fmt.Sprintf("%x/%d", hdr.Hash()[:8], len(data.Txs)))
	}
	if st, err := f.N.Store.GetState(ctx); err == nil {
		s.StateH = st.LastBlockHeight
		s.Root = fmt.Sprintf("%x", st.AppHash)
	}
	s.DAInc = f.N.M.GetDAIncludedHeight()
	for _, c := range f.Exec.Execs() {
		if c.Err == "" {
			s.Execs = append(s.Execs, fmt.Sprintf("%d:%d:%x", c.Height, len(c.Txs), c.Root[:6]))
		}
	}
	s.Finals = f.Exec.Finals()
	for _, k := range f.Im.Keys("/m/rhb/") {
		v, _ := f.Im.Get(k)
		s.RHB = append(s.RHB, fmt.Sprintf("%s=%x", k, v))
	}
	for _, name := range []string{"sync", "retrieve", "headerStore", "dataStore", "daIncluder"} {
		if f.L.Exited(name) {
			s.Dead = append(s.Dead, name)
		}
	}
	return s
}

func diff(a, b endState) []string {
	var out []string
	if a.Height != b.Height {
		out = append(out, fmt.Sprintf("chain height %d without, %d with adversarial traffic", a.Height, b.Height))
	}
	n := len(a.Hashes)
	if len(b.Hashes) < n {
		n = len(b.Hashes)
	}
	for i := 0; i < n; i++ {
		if a.Hashes[i] != b.Hashes[i] {
			out = append(out, fmt.Sprintf("stored block at index %d differs (%s vs %s)", i, a.Hashes[i], b.Hashes[i]))
			break
		}
	}
	if a.Root != b.Root || a.StateH != b.StateH {
		out = append(out, fmt.Sprintf("state differs (height %d/%d)", a.StateH, b.StateH))
	}
	if a.DAInc != b.DAInc {
		out = append(out, fmt.Sprintf("DA-included height %d without, %d with adversarial traffic", a.DAInc, b.DAInc))
	}
	if strings.Join(a.Execs, ",") != strings.Join(b.Execs, ",") {
		out = append(out, fmt.Sprintf("execution log differs: %v vs %v", a.Execs, b.Execs))
	}
	if fmt.Sprint(a.Finals) != fmt.Sprint(b.Finals) {
		out = append(out, fmt.Sprintf("SetFinal log differs: %v vs %v", a.Finals, b.Finals))
	}
	if strings.Join(a.RHB, ",") != strings.Join(b.RHB, ",") {
		out = append(out, "recorded DA heights (rhb metadata) differ")
	}
	return out
}

// runSide executes the schedule with (adv=true) or without adversarial material.
func runSide(ctx context.Context, r *vk.Run, p *world.Produced, steps []step, adv bool) (*world.FN, endState, string, bool) {
	root := world.TempDir(vk.Root(), "C03-*")
	defer os.RemoveAll(root)
	f, err := world.NewFN(ctx, p, root)
	if err != nil {
		return nil, endState{}, "full node failed to start: " + err.Error(), false
	}
	var pair *types.SignedHeader // the forged header of a forged/key-swapped pair served over P2P
	pairSeen := false
	for i, st := range steps {
		a := st.Act
		if a.Kind == "p2p-adv" {
			if st.AdvP2P == nil {
				continue
			}
			if k := st.AdvP2P.Kind; k == "replay-forged" || k == "replay-keyswap" {
				// the first of the two is served like any foreign header (after `Precede` genuine ones) and fixes the forged
				// header; the second one - the same header and signature under the other public key - follows at the next
				// position of the peer's store
				next := f.P2PHeaderNext()
				upTo := next - 1
				if !pairSeen {
					idx := next + st.Precede
					if idx >= len(p.Heights) {
						idx = len(p.Heights) - 1
					}
					upTo = idx - 1
					pair = forgeHeader(p, idx, world.NewKeys("attacker"), nil, p.Agg.Genesis.ChainID, p.Keys.Addr)
				}
				pairSeen = true
				var h *types.SignedHeader
				if adv {
					c := *pair
					if k == "replay-keyswap" {
						c.Signer = types.Signer{PubKey: p.Keys.Pub, Address: p.Keys.Addr}
					}
					h = &c
				}
				if upTo < next && h == nil {
					continue
				}
				if err := f.AddP2PBatch(upTo, h); err != nil {
					if err == world.ErrWatchdog {
						return f, endState{}, "", true
					}
					return f, snapshot(ctx, f), fmt.Sprintf("step %d (foreign P2P header %s): %v", i, k, err), false
				}
				continue
			}
			// the peer serves `Precede` genuine headers and then the foreign one, all within one poll of the store
			// loop; the run without adversarial traffic gets the same genuine headers
			next := f.P2PHeaderNext()
			idx := next + st.Precede
			if idx >= len(p.Heights) {
				idx = len(p.Heights) - 1
			}
			var h *types.SignedHeader
			if adv {
				prng := rand.New(rand.NewSource(int64(i)*7919 + int64(idx)))
				for _, it := range MakeAdv(prng, p, st.AdvP2P.Kind, idx, world.NewKeys("attacker")) {
					if !it.IsData {
						h = decodeHeaderLoose(it.Blob)
						break
					}
				}
			}
			if idx-1 < next && h == nil {
				continue
			}
			if err := f.AddP2PBatch(idx-1, h); err != nil {
				if err == world.ErrWatchdog {
					return f, endState{}, "", true
				}
				return f, snapshot(ctx, f), fmt.Sprintf("step %d (foreign P2P header %s): %v", i, st.AdvP2P.Kind, err), false
			}
			continue
		}
		if adv {
			for _, x := range st.Adv {
				a.Junk = append(a.Junk, x.Blob)
			}
			// adversarial blobs may come first or last within the DA height
			if len(st.Adv) > 0 && len(st.Adv)%2 == 1 {
				a.JunkFirst = true
			}
		}
		if err := f.Do(a); err != nil {
			if err == world.ErrWatchdog {
				return f, endState{}, "", true
			}
			return f, snapshot(ctx, f), fmt.Sprintf("step %d (%s): %v", i, a, err), false
		}
	}
	for _, a := range []world.Action{{Kind: "scan"}, {Kind: "include"}, {Kind: "include"}} {
		if err := f.Do(a); err != nil {
			if err == world.ErrWatchdog {
				return f, endState{}, "", true
			}
			return f, snapshot(ctx, f), fmt.Sprintf("final %s: %v", a.Kind, err), false
		}
	}
	s := snapshot(ctx, f)
	return f, s, "", false
}

// whereIs lists the DA heights at which a blob sits.
func whereIs(all map[uint64][][]byte, blob []byte) []uint64 {
	var at []uint64
	for dh, bs := range all {
		for _, b := range bs {
			if bytes.Equal(b, blob) {
				at = append(at, dh)
			}
		}
	}
	sort.Slice(at, func(i, j int) bool { return at[i] < at[j] })
	return at
}

func runCase(r *vk.Run, p *world.Produced, c Case, steps []step, advs []Adv) {
	ctx := context.Background()
	wit := func(extra map[string]any) any {
		m := map[string]any{"case": c}
		var items []string
		for _, a := range advs {
			items = append(items, fmt.Sprintf("%s h=%d data=%v blob=%s", a.Kind, a.Height, a.IsData, vk.HexShort(a.Blob)))
		}
		m["adversarial_items"] = items
		for k, v := range extra {
			m[k] = v
		}
		return m
	}
	fa, sa, errA, wdA := runSide(ctx, r, p, steps, false)
	if fa != nil {
		defer fa.L.Stop()
	}
	fb, sb, errB, wdB := runSide(ctx, r, p, steps, true)
	if fb != nil {
		defer fb.L.Stop()
	}
	if wdA || wdB {
		r.Inconclusive(fmt.Sprintf("watchdog in case %d", c.ID))
		return
	}
	if errA != "" {
		r.Violation("genuine-run", "the run WITHOUT adversarial traffic failed: "+errA, wit(nil))
		return
	}
	var viol []string
	keyBinding := false
	if errB != "" {
		viol = append(viol, "with adversarial traffic: "+errB)
	}
	r.Hit("differential")
	for _, d := range diff(sa, sb) {
		viol = append(viol, d)
	}
	if c.Ingress == "da" {
		r.Hit("not-halted")
		if len(sb.Dead) > len(sa.Dead) {
			viol = append(viol, fmt.Sprintf("loops terminated by third-party DA material: %v", sb.Dead))
		}
	}
	// direct clauses on the run with adversarial traffic
	if fb != nil {
		for h := p.Spec.Initial; h <= sb.Height; h++ {
			hdr, _, err := fb.N.Store.GetBlockData(ctx, h)
			if err != nil {
				continue
			}
			r.Hit("stored-header-signed-by-proposer")
			payload, _ := hdr.Header.MarshalBinary()
			if ok, err := p.Keys.Pub.Verify(payload, hdr.Signature); err != nil || !ok {
				viol = append(viol, fmt.Sprintf("stored header at height %d is not signed by the genesis proposer's key", h))
				keyBinding = true
			}
		}
		genuineHdr := map[string]bool{}
		genuineComm := map[string]bool{}
		for i := range p.Heights {
			genuineHdr[string(p.HeaderHash[i])] = true
			if len(p.Txs[i]) > 0 {
				genuineComm[string(commitmentOf(p.Txs[i]))] = true
			}
		}
		// a DA-inclusion mark of a GENUINE header or data must come from a blob the proposer signed: the DA height the node
		// remembers for it is one at which the proposer's own blob sits (a copy of the header with another signature has
		// the same hash - it must not be what the mark rests on). Judged on the marks themselves, not on what the
		// inclusion loop happened to record from them.
		all := fb.DA.AllBlobs()
		// (a blob "signed by the proposer": the proposer's own bytes, or any other encoding of the same item whose signature
		// verifies under the proposer's key - publishing the proposer's signed item once more is not forging it)
		sitsAt := func(blob []byte, dh uint64) bool {
			for _, b := range all[dh] {
				if bytes.Equal(b, blob) || sameSignedItem(b, blob, p.Keys) {
					return true
				}
			}
			return false
		}
		for i := range p.Heights {
			for _, key := range []string{fmt.Sprintf("%X", p.HeaderHash[i]), hashString(p.HeaderHash[i])} {
				if dh, ok := fb.N.M.HeaderCache().GetDAIncludedHeight(key); ok {
					r.Hit("da-mark-rests-on-proposer-blob")
					if !sitsAt(p.HeaderBlob[i], dh) {
						viol = append(viol, fmt.Sprintf("the header of height %d is marked DA-included at DA height %d, where no header blob signed by the proposer sits (the proposer's blob is at %v)", p.Heights[i], dh, whereIs(all, p.HeaderBlob[i])))
						keyBinding = true
					}
					break
				}
			}
			if len(p.Txs[i]) > 0 && p.DataBlob[i] != nil {
				if dh, ok := fb.N.M.DataCache().GetDAIncludedHeight(hashString(commitmentOf(p.Txs[i]))); ok {
					r.Hit("da-mark-rests-on-proposer-blob")
					okAt := false
					for j := range p.Heights { // blocks with the same transaction list share the mark (known finding of C07)
						if p.DataBlob[j] != nil && bytes.Equal(commitmentOf(p.Txs[j]), commitmentOf(p.Txs[i])) && sitsAt(p.DataBlob[j], dh) {
							okAt = true
						}
					}
					if !okAt {
						viol = append(viol, fmt.Sprintf("the data of height %d is marked DA-included at DA height %d, where no data blob signed by the proposer sits (the proposer's blob is at %v)", p.Heights[i], dh, whereIs(all, p.DataBlob[i])))
						keyBinding = true
					}
				}
			}
		}
		for _, a := range advs {
			if a.HdrHash != nil && !genuineHdr[string(a.HdrHash)] {
				r.Hit("no-da-mark-for-foreign-header")
				if fb.N.M.HeaderCache().IsDAIncluded(fmt.Sprintf("%X", a.HdrHash)) || fb.N.M.HeaderCache().IsDAIncluded(hashString(a.HdrHash)) {
					viol = append(viol, fmt.Sprintf("a %s header (height %d) not signed by the proposer is marked DA-included", a.Kind, a.Height))
					keyBinding = true
				}
			}
			if a.DataComm != nil && !genuineComm[string(a.DataComm)] {
				r.Hit("no-da-mark-for-foreign-data")
				if fb.N.M.DataCache().IsDAIncluded(hashString(a.DataComm)) {
					viol = append(viol, fmt.Sprintf("%s data (height %d) not signed by the proposer is marked DA-included", a.Kind, a.Height))
					keyBinding = true
				}
			}
		}
	}
	if len(viol) > 0 {
		detail := strings.Join(viol, " ;; ")
		id := "C03-key-binding"
		usesOtherKey := false
		for _, k := range c.Kinds {
			switch k {
			case "forged-otherkey", "forged-pair-header", "forged-pair-data", "resigned-data-copy", "mutated-resigned", "past-height", "future-height":
				usesOtherKey = true
			}
		}
		_ = keyBinding
		if r.IsKnown(id) && usesOtherKey {
			r.Finding(id, "only-proposer-key", detail, wit(map[string]any{"end_state_genuine": sa, "end_state_adversarial": sb}))
		} else {
			r.Violation("only-proposer-key", detail, wit(map[string]any{"end_state_genuine": sa, "end_state_adversarial": sb}))
		}
	}
	r.Eval(c.key(), len(advs) > 0 && sa.Height >= p.Spec.Initial, map[string]any{"case": c})
}

// genCase draws one case. force, if not empty, is the kind of the first adversarial item(s) (one of ExtraKinds) and
// ingress the path they take; the regular cases (force == "") draw everything.
func genCase(rng *rand.Rand, p *world.Produced, id int, shape string, atk world.Keys, force, ingress string) (Case, []step, []Adv) {
	n := len(p.Heights)
	c := Case{ID: id, Shape: shape, Ingress: "da"}
	if rng.Intn(5) == 0 {
		c.Ingress = "p2p"
	}
	if ingress != "" {
		c.Ingress = ingress
	}
	c.OmitDataOnDA = rng.Intn(4) == 0
	// genuine traffic: mostly DA, some channel/p2p
	type unit struct {
		data bool
		i    int
	}
	var daUnits []unit
	var steps []step
	var chActs []world.Action
	for i := 0; i < n; i++ {
		via := rng.Intn(10)
		if c.Ingress == "p2p" {
			via = 9 // headers reach the node through DA here; the P2P store carries the adversary's headers
		}
		if via < 2 {
			chActs = append(chActs, world.Action{Kind: "ch-h", I: i})
		} else {
			daUnits = append(daUnits, unit{false, i})
		}
		if len(p.Txs[i]) > 0 {
			if c.OmitDataOnDA || via < 2 {
				chActs = append(chActs, world.Action{Kind: "ch-d", I: i})
			} else {
				daUnits = append(daUnits, unit{true, i})
			}
		}
	}
	// near-ordered DA placement with some disorder
	for k := 0; k < len(daUnits)/2; k++ {
		a, b := rng.Intn(len(daUnits)), rng.Intn(len(daUnits))
		if a-b < 3 && b-a < 3 {
			daUnits[a], daUnits[b] = daUnits[b], daUnits[a]
		}
	}
	for len(daUnits) > 0 {
		k := 1 + rng.Intn(3)
		if k > len(daUnits) {
			k = len(daUnits)
		}
		a := world.Action{Kind: "da"}
		for _, u := range daUnits[:k] {
			a.DA = append(a.DA, world.Item{D: u.data, I: u.i})
		}
		daUnits = daUnits[k:]
		steps = append(steps, step{Act: a})
		if rng.Intn(3) == 0 {
			steps = append(steps, step{Act: world.Action{Kind: "da"}}) // empty DA height (may receive adversarial blobs)
		}
		if rng.Intn(4) == 0 {
			steps = append(steps, step{Act: world.Action{Kind: "include"}})
		}
	}
	// channel actions interleaved at random positions (kept in their own relative order)
	for _, a := range chActs {
		pos := rng.Intn(len(steps) + 1)
		steps = append(steps[:pos], append([]step{{Act: a}}, steps[pos:]...)...)
	}
	// adversarial items
	var advs []Adv
	nk := 1 + rng.Intn(3)
	for k := 0; k < nk; k++ {
		kind := Kinds[rng.Intn(len(Kinds))]
		if force != "" && k == 0 {
			kind = force
		}
		target := rng.Intn(n + 1)
		if target >= n {
			target = n - 1
		}
		items := MakeAdv(rng, p, kind, target, atk)
		if len(items) == 0 {
			continue
		}
		c.Kinds = append(c.Kinds, kind)
		advs = append(advs, items...)
		if c.Ingress == "p2p" {
			continue
		}
		// position relative to the genuine item of the same height: before, same DA height, or after
		var daIdx []int
		for si, st := range steps {
			if st.Act.Kind == "da" {
				daIdx = append(daIdx, si)
			}
		}
		if len(daIdx) == 0 {
			continue
		}
		if ordered(kind) {
			// cooperating items: the same DA height (adjacent), or the second at a later DA height
			a := rng.Intn(len(daIdx))
			b := a
			if rng.Intn(2) == 0 {
				b = a + rng.Intn(len(daIdx)-a)
			}
			steps[daIdx[a]].Adv = append(steps[daIdx[a]].Adv, items[0])
			steps[daIdx[b]].Adv = append(steps[daIdx[b]].Adv, items[1])
			continue
		}
		for _, it := range items {
			si := daIdx[rng.Intn(len(daIdx))]
			if rng.Intn(2) == 0 {
				// aim before the genuine header of that height
				for _, cand := range daIdx {
					found := false
					for _, g := range steps[cand].Act.DA {
						if !g.D && p.Spec.Initial+uint64(g.I) >= it.Height {
							found = true
						}
					}
					if found {
						si = cand
						break
					}
				}
			}
			steps[si].Adv = append(steps[si].Adv, it)
		}
	}
	if c.Ingress == "p2p" {
		// the adversary's headers are served by a peer: they occupy the next positions of the P2P header store
		var p2p []step
		for i := range advs {
			if advs[i].HdrHash != nil && !advs[i].IsData {
				a := advs[i]
				p2p = append(p2p, step{Act: world.Action{Kind: "p2p-adv"}, AdvP2P: &a, Precede: rng.Intn(3)})
			}
		}
		last := -1
		for _, st := range p2p {
			pos := rng.Intn(len(steps) + 1)
			if k := st.AdvP2P.Kind; k == "replay-forged" || k == "replay-keyswap" {
				// the two of a pair keep their order: right behind one another, or with other steps in between
				if last >= 0 {
					pos = last + 1
					if rng.Intn(2) == 0 {
						pos += rng.Intn(len(steps) + 1 - pos)
					}
				}
				last = pos
			} else if last >= pos {
				last++
			}
			steps = append(steps[:pos], append([]step{st}, steps[pos:]...)...)
		}
	}
	for _, st := range steps {
		s := st.Act.String()
		if st.Act.Kind == "p2p-adv" {
			s = fmt.Sprintf("p2p-adv(%s after %d genuine)", st.AdvP2P.Kind, st.Precede)
		}
		for _, a := range st.Adv {
			s += "+" + a.Kind
		}
		c.Schedule = append(c.Schedule, s)
	}
	sort.Strings(c.Kinds)
	return c, steps, advs
}

type job struct {
	p     *world.Produced
	c     Case
	steps []step
	advs  []Adv
}

// buildJobs generates the case list: a function of (seed, tier) only.
func buildJobs(r *vk.Run) ([]job, error) {
	ctx := context.Background()
	keys := world.NewKeys("proposer")
	atk := world.NewKeys("attacker")
	rng := r.Rand("cases")
	var jobs []job
	id := 0
	nChains := r.N(16, 150)
	per := r.N(40, 150)
	var chains []*world.Produced
	var shapes []string
	for ci := 0; ci < nChains; ci++ {
		n := 3 + rng.Intn(6)
		shape := ""
		spec := world.ChainSpec{Initial: 1}
		for b := 0; b < n; b++ {
			if rng.Intn(3) == 0 {
				spec.Blocks = append(spec.Blocks, nil)
				shape += "e"
			} else {
				spec.Blocks = append(spec.Blocks, [][]byte{[]byte(fmt.Sprintf("c03-%d-%d-a", ci, b)), []byte(fmt.Sprintf("c03-%d-%d-b", ci, b))})
				shape += "x"
			}
		}
		p, err := world.ProduceChain(ctx, spec, keys)
		if err != nil {
			return nil, err
		}
		for k := 0; k < per; k++ {
			c, steps, advs := genCase(rng, p, id, shape, atk, "", "")
			id++
			jobs = append(jobs, job{p, c, steps, advs})
		}
		chains = append(chains, p)
		shapes = append(shapes, shape)
	}
	// cooperating items and hand-made encodings (ExtraKinds), from a stream of their own so that the cases above stay
	// what they were: every kind on every chain; the forged/key-swapped header pairs through the DA layer and over P2P
	xrng := r.Rand("extra-kinds")
	for round := 0; round < r.N(1, 2); round++ {
		for ci, p := range chains {
			for _, kind := range ExtraKinds {
				ways := []string{"da"}
				if kind == "forged-then-keyswap" || kind == "keyswap-then-forged" {
					ways = []string{"da", "p2p", "p2p"}
				}
				for _, via := range ways {
					c, steps, advs := genCase(xrng, p, id, shapes[ci], atk, kind, via)
					id++
					if !contains(c.Kinds, kind) {
						continue
					}
					jobs = append(jobs, job{p, c, steps, advs})
				}
			}
		}
	}
	return jobs, nil
}

func init() { vk.Children["c03"] = child }

// child runs the cases of one shard (args: shard nShards tier). Adversarial bytes must never take the
// process down; if they do, the parent attributes the death to the journaled case.
func child(args []string) int {
	world.Silence()
	var shard, n int
	fmt.Sscanf(args[0], "%d", &shard)
	fmt.Sscanf(args[1], "%d", &n)
	r := vk.NewChildRun("C03", args[2], Level, os.Stdout)
	full := vk.NewRunNoCleanup("C03", args[2], Level)
	jobs, err := buildJobs(full)
	if err != nil {
		r.Inconclusive("the aggregator producing the reference chain failed (not this property's business): " + err.Error())
		return 0
	}
	var wg sync.WaitGroup
	ch := make(chan job)
	for w := 0; w < 2; w++ {
		wg.Add(1)
		go func() {
			defer wg.Done()
			for j := range ch {
				r.Journal(map[string]any{"case": j.c})
				runCase(r, j.p, j.c, j.steps, j.advs)
				r.FlushHits()
			}
		}()
	}
	for i, j := range jobs {
		if i%n == shard {
			ch <- j
		}
	}
	close(ch)
	wg.Wait()
	if shard == 1%n {
		// forged transaction data over P2P (p2pdata.go)
		r.Journal(map[string]any{"p2p_forged_data": true})
		prng := full.Rand("p2p-data")
		id := 0
		for _, shape := range []string{"xxx", "exxe", "xexx", "xxexx"} {
			p, err := world.ProduceChain(context.Background(), buildSpecC03(shape), world.NewKeys("proposer"))
			if err != nil {
				r.Inconclusive("the aggregator producing the reference chain failed (not this property's business): " + err.Error())
				break
			}
			for i := range p.Heights {
				if len(p.Txs[i]) == 0 {
					continue
				}
				for _, kind := range forgedDataKinds {
					for _, via := range []string{"p2p", "da"} {
						c := p2pDataCase{ID: id, Shape: shape, Target: i, Kind: kind, HdrVia: via, Restart: prng.Intn(3) == 0}
						id++
						r.Journal(map[string]any{"p2p_forged_data_case": c})
						runP2PData(r, p, c, prng.Int63())
					}
				}
			}
			r.FlushHits()
		}
	}
	if shard == 0 {
		r.Journal(map[string]any{"light_node": true})
		lightNode(r, world.NewKeys("proposer"), world.NewKeys("attacker"))
	}
	r.FlushHits()
	return 0
}

// Run is the check entry point.
func Run(r *vk.Run) {
	world.Silence()
	r.Rule = "differential runs of a real full node (all loops) on the same delivery schedule with and without adversarial items built without the proposer's private key: " + strings.Join(Kinds, ", ") + "; plus cooperating items and hand-made encodings, on every chain: " + strings.Join(ExtraKinds, ", ") + " (a self-consistent forgery and the same payload and signature carrying the proposer's public key, in both orders, adjacent or apart, over DA and - headers - over P2P; a genuine blob with a second occurrence of its embedded header/data field, which a merging decoder adds to the genuine fields); ingress DA (same DA height as genuine blobs, before or after them, or empty DA heights) and P2P header store; positions before/at/after the genuine item of the same height; chains with empty and non-empty blocks; optionally the genuine data never reaches DA (so a forged copy of it must not advance DA inclusion). End states (blocks, state, DA-included height, recorded DA heights, execution and SetFinal logs) must be equal, no loop may have terminated for DA-borne material, every stored header must verify under the harness's copy of the proposer key, no DA-included mark for foreign hashes; cases run in child processes (a process killed by adversarial bytes is a violation). Plus forged transaction data over P2P: a data item with the genuine metadata of block h and other / extra / fewer / reordered transactions sits in the P2P data store before the genuine header of h arrives (over P2P or DA), the genuine data follows over DA, optionally a clean restart in between: nothing the node applies may differ from the proposer's block (clause only-proposer-key; whether the node then still advances is recorded, not judged: the statement promises liveness for DA-borne material). Plus the header-only node: real go-header Store+Syncer behind subscriber/exchange doubles (clause light-node-store). non-trivial = at least one adversarial item and the genuine run applied at least one block; distinct by (chain shape, kinds, ingress, schedule)"
	r.Assume("adversary has no access to the proposer's private key; items are delivered through the node's own DA scan / P2P store loops, not through libp2p gossip")
	jobs, err := buildJobs(r)
	if err != nil {
		r.Inconclusive("the aggregator producing the reference chain failed (not this property's business): " + err.Error())
		return
	}
	shards := 8
	for _, res := range r.RunShards("c03", shards, shards, 60*time.Minute) {
		if res.ExitErr != nil {
			r.Violation("not-halted", fmt.Sprintf("the node process died (%v) while handling adversarial material", res.ExitErr),
				map[string]any{"last_case_started": res.LastCase, "output_tail": res.Tail})
		}
	}
	r.Require("differential", int64(len(jobs)*9/10))
}

func commitmentOf(txs [][]byte) []byte { return monitorsCommitment(txs) }

func contains(l []string, s string) bool {
	for _, x := range l {
		if x == s {
			return true
		}
	}
	return false
}

var _ = bytes.Equal
