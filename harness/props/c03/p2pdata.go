package c03

import (
	"context"
	"fmt"
	"math/rand"
	"os"

	"github.com/evstack/ev-node/types"

	"verifharness/monitors"
	"verifharness/vk"
	"verifharness/world"
)

// Forged transaction data over P2P. Data items travel unsigned through the P2P data store; what binds them to the
// proposer is the genuine header's commitment to the transaction list. A peer fills the node's data store with a data
// item for height h that carries the genuine metadata of block h and other transactions, before the genuine header of
// h arrives. The node must never apply (execute, store) those transactions - whatever else it does: it may wait for the
// genuine data, and (the statement promises liveness only for third-party material on the DA layer) it may even stop.

var forgedDataKinds = []string{"other-txs", "extra-tx", "dropped-tx", "reordered", "same-count-other-bytes"}

func forgeData(rng *rand.Rand, genuine *types.Data, kind string) *types.Data {
	d := &types.Data{}
	if genuine.Metadata != nil {
		m := *genuine.Metadata
		d.Metadata = &m
	}
	for _, tx := range genuine.Txs {
		d.Txs = append(d.Txs, append(types.Tx{}, tx...))
	}
	switch kind {
	case "other-txs":
		d.Txs = types.Txs{types.Tx(fmt.Sprintf("forged-%d", rng.Int63()))}
	case "extra-tx":
		d.Txs = append(d.Txs, types.Tx(fmt.Sprintf("forged-%d", rng.Int63())))
	case "dropped-tx":
		if len(d.Txs) > 1 {
			d.Txs = d.Txs[:len(d.Txs)-1]
		} else {
			d.Txs = types.Txs{types.Tx("forged-instead")}
		}
	case "reordered":
		if len(d.Txs) > 1 {
			d.Txs[0], d.Txs[len(d.Txs)-1] = d.Txs[len(d.Txs)-1], d.Txs[0]
		} else {
			d.Txs = append(d.Txs, d.Txs[0])
		}
	case "same-count-other-bytes":
		for i := range d.Txs {
			d.Txs[i] = types.Tx(fmt.Sprintf("forged-%d-%d", i, rng.Int63()))
		}
	}
	return d
}

type p2pDataCase struct {
	ID      int    `json:"id"`
	Shape   string `json:"chain_shape"`
	Target  int    `json:"target_block_index"`
	Kind    string `json:"forgery"`
	HdrVia  string `json:"genuine_header_via"` // p2p | da
	Restart bool   `json:"clean_restart_after_forgery"`
}

func runP2PData(r *vk.Run, p *world.Produced, c p2pDataCase, seed int64) {
	ctx := context.Background()
	root := world.TempDir(vk.Root(), "C03-p2pd-*")
	defer os.RemoveAll(root)
	f, err := world.NewFN(ctx, p, root)
	if err != nil {
		r.Inconclusive("full node failed to start: " + err.Error())
		return
	}
	defer func() { f.L.Stop() }()
	rng := rand.New(rand.NewSource(seed))
	i := c.Target
	forged := forgeData(rng, p.Data(i), c.Kind)
	wit := map[string]any{"case": c, "genuine_txs": len(p.Txs[i]), "forged_txs": len(forged.Txs)}
	step := func(a world.Action) bool {
		if err := f.Do(a); err != nil {
			if err == world.ErrWatchdog {
				r.Inconclusive("watchdog")
				return false
			}
			// a loop that stopped over P2P forgery is recorded, not judged
			r.Count("p2p_forged_data_stopped_a_loop", 1)
			return false
		}
		return true
	}
	ok := true
	if i > 0 {
		ok = step(world.Action{Kind: "p2p-h", I: i - 1}) && step(world.Action{Kind: "p2p-d", I: i - 1})
	}
	if ok {
		f.AddP2PForgedData(forged)
		ok = step(world.Action{Kind: "p2p-tick"})
	}
	if ok && c.Restart {
		ok = step(world.Action{Kind: "restart"})
	}
	if ok {
		if c.HdrVia == "p2p" {
			ok = step(world.Action{Kind: "p2p-h", I: i})
		} else {
			ok = step(world.Action{Kind: "da", DA: []world.Item{{I: i}}})
		}
	}
	if ok {
		// the genuine data (and the rest of the chain) arrives through the DA layer
		var items []world.Item
		for k := i; k < len(p.Heights); k++ {
			items = append(items, world.Item{I: k})
			if len(p.Txs[k]) > 0 {
				items = append(items, world.Item{D: true, I: k})
			}
		}
		ok = step(world.Action{Kind: "da", DA: items})
	}
	// whatever happened: everything the node applied is the proposer's
	r.Hit("p2p-forged-data-never-applied")
	_, probs := monitors.CheckFullNode(ctx, f, 0, false, r.Hit)
	var viol []string
	for _, pr := range probs {
		switch pr.Clause {
		case "same-txs", "same-header", "exec-txs", "exec-root", "same-root", "block-present", "beyond-tip", "exec-order":
			viol = append(viol, pr.String())
		}
	}
	for _, ex := range f.Exec.Execs() {
		for _, tx := range ex.Txs {
			if len(tx) >= 6 && string(tx[:6]) == "forged" {
				viol = append(viol, fmt.Sprintf("ExecuteTxs(height %d) received a transaction that only the forged P2P data item contains", ex.Height))
			}
		}
	}
	if len(viol) > 0 {
		r.Violation("only-proposer-key", fmt.Sprintf("transaction data delivered over P2P that the proposer never signed was applied: %v", viol), wit)
	}
	if h, _ := f.N.Store.Height(ctx); ok && h == p.Tip() {
		r.Count("p2p_forged_data_node_still_reached_the_tip", 1)
	} else {
		r.Count("p2p_forged_data_node_below_tip_not_judged", 1)
	}
	r.Eval(fmt.Sprintf("p2p-data|%s|%d|%s|%s|%v", c.Shape, c.Target, c.Kind, c.HdrVia, c.Restart), true, c)
}

// buildSpecC03 builds a chain from a shape string (x = two transactions, e = empty).
func buildSpecC03(shape string) world.ChainSpec {
	spec := world.ChainSpec{Initial: 1}
	if len(shape)%2 == 1 {
		spec.Initial = 3
	}
	for b, ch := range shape {
		if ch == 'e' {
			spec.Blocks = append(spec.Blocks, nil)
		} else {
			spec.Blocks = append(spec.Blocks, [][]byte{[]byte(fmt.Sprintf("c03p-%s-%d-a", shape, b)), []byte(fmt.Sprintf("c03p-%s-%d-b", shape, b))})
		}
	}
	return spec
}
