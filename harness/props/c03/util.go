package c03

import (
	"bytes"

	"github.com/evstack/ev-node/types"

	"verifharness/monitors"
	"verifharness/world"
)

// sameSignedItem tells whether blob b is another encoding of the proposer's item in blob genuine: it decodes to a header
// (signed data) whose signed payload equals the genuine one's and whose signature verifies under the proposer's key.
func sameSignedItem(b, genuine []byte, k world.Keys) bool {
	if gh, bh := decodeHeaderLoose(genuine), decodeHeaderLoose(b); gh != nil && bh != nil && len(gh.ProposerAddress) > 0 {
		gp, err1 := gh.Header.MarshalBinary()
		bp, err2 := bh.Header.MarshalBinary()
		if err1 != nil || err2 != nil || !bytes.Equal(gp, bp) {
			return false
		}
		ok, err := k.Pub.Verify(bp, bh.Signature)
		return err == nil && ok
	}
	var gd, bd types.SignedData
	if gd.UnmarshalBinary(genuine) != nil || bd.UnmarshalBinary(b) != nil || len(gd.Txs) == 0 {
		return false
	}
	gp, err1 := gd.Data.MarshalBinary()
	bp, err2 := bd.Data.MarshalBinary()
	if err1 != nil || err2 != nil || !bytes.Equal(gp, bp) {
		return false
	}
	ok, err := k.Pub.Verify(bp, bd.Signature)
	return err == nil && ok
}

func monitorsCommitment(txs [][]byte) []byte { return monitors.Commitment(txs) }

// hashString renders a hash the way the node keys its caches (types.Hash.String()).
func hashString(h []byte) string { return types.Hash(h).String() }

// decodeHeaderLoose decodes header bytes without validating them (what a P2P store hands out).
func decodeHeaderLoose(b []byte) *types.SignedHeader {
	h := new(types.SignedHeader)
	if err := h.UnmarshalBinary(b); err != nil {
		return nil
	}
	return h
}
