package c03

import (
	"github.com/evstack/ev-node/types"

	"verifharness/monitors"
)

func monitorsCommitment(txs [][]byte) []byte { return monitors.Commitment(txs) }

// hashString renders a hash the way the node keys its caches (types.Hash.String()).
func hashString(h []byte) string { return types.Hash(h).String() }

// decodeHeaderLoose decodes header bytes without validating them (what a P2P store hands out).
func decodeHeaderLoose(b []byte) *types.SignedHeader {
	h := new(types.SignedHeader)
	if err := h.UnmarshalBinary(b); err != nil {
		return nil
	}
	return h
}
