// Package c06 decides C06: every committed block reaches the DA layer in order; the watermark is sound.
package c06

import (
	"bytes"
	"context"
	"encoding/binary"
	"fmt"
	"strings"
	"sync"
	"time"

	"github.com/evstack/ev-node/types"

	"verifharness/vk"
	"verifharness/world"
)

// Level is the verification level claimed for this property.
const Level = "fault_enumeration"

const (
	keyHdrWM  = "/m/last-submitted-header-height"
	keyDataWM = "/m/last-submitted-data-height"
)

// Case is one enumerated fault sequence.
type Case struct {
	Initial  uint64   `json:"initial_height"`
	Shape    string   `json:"chain_shape"` // x = non-empty, e = empty, r = repeats the previous tx list; '|' = submission round
	Hdr      []string `json:"header_outcomes"`
	Data     []string `json:"data_outcomes"`
	Restarts []int    `json:"restart_after_round"`
}

func (c Case) key() string {
	return fmt.Sprintf("i%d %s H%v D%v R%v", c.Initial, c.Shape, c.Hdr, c.Data, c.Restarts)
}

var outcomeKinds = []string{"accept", "prefix1", "prefix2", "timeout", "mempool", "toobig", "error", "acklost", "cancelled"}

func outcome(s string) world.SubmitOutcome {
	switch s {
	case "prefix1":
		return world.SubmitOutcome{Kind: "prefix", Prefix: 1}
	case "prefix2":
		return world.SubmitOutcome{Kind: "prefix", Prefix: 2}
	}
	return world.SubmitOutcome{Kind: s}
}

func readWM(im *world.Image, key string) uint64 {
	raw, ok := im.Get(key)
	if !ok || len(raw) != 8 {
		return 0
	}
	return binary.LittleEndian.Uint64(raw)
}

type submitObs struct {
	stream    string // header | data
	heights   []uint64
	wmAtCall  uint64
	outcome   string
	stored    int
	callIndex int
}

type sim struct {
	r    *vk.Run
	c    Case
	ctx  context.Context
	im   *world.Image
	exec *world.ExecDouble
	seq  *world.SeqDouble
	da   *world.DADouble
	keys world.Keys
	n    *world.Node
	t    time.Time
	txN  int
	viol []string
	// accepted[stream][height] = stored on the DA double
	accepted  map[string]map[uint64]bool
	curStream string
	wmSnap    uint64
	nCalls    int
	freshProc bool // no submission seen yet from the current Manager
}

func (s *sim) start() error {
	n, err := world.NewNode(s.ctx, world.NodeOpts{Aggregator: true, InitialHeight: s.c.Initial}, s.keys, world.NewMemDS(s.im), s.exec, s.seq, s.da, nil)
	if err != nil {
		return err
	}
	s.n = n
	s.freshProc = true
	return nil
}

func (s *sim) produce(kind rune) error {
	s.t = s.t.Add(time.Second)
	if kind == 'e' {
		s.seq.Push(world.SeqResp{Kind: world.SeqEmpty, Time: s.t})
	} else if kind == 'r' && s.txN > 0 {
		// the same transaction list as the previous non-empty block (a different block: height, time and metadata differ)
		s.seq.Push(world.SeqResp{Kind: world.SeqTxs, Time: s.t, Txs: [][]byte{[]byte(fmt.Sprintf("c06-%d-a", s.txN)), []byte(fmt.Sprintf("c06-%d-b", s.txN))}})
	} else {
		s.txN++
		s.seq.Push(world.SeqResp{Kind: world.SeqTxs, Time: s.t, Txs: [][]byte{[]byte(fmt.Sprintf("c06-%d-a", s.txN)), []byte(fmt.Sprintf("c06-%d-b", s.txN))}})
	}
	return s.n.M.VerifPublishBlock(s.ctx)
}

func (s *sim) bad(f string, a ...any) { s.viol = append(s.viol, fmt.Sprintf(f, a...)) }

// judgeCalls inspects the submit calls the DA double received since `from`.
func (s *sim) judgeCalls(from int, stream string, wmBefore uint64) {
	calls := s.da.Calls()
	wm := wmBefore
	for _, c := range calls[from:] {
		if c.Kind != "submit" {
			continue
		}
		s.r.Hit("submit-call")
		var heights []uint64
		for bi, blob := range c.Blobs {
			if stream == "header" {
				h := new(types.SignedHeader)
				if err := h.UnmarshalBinary(blob); err != nil {
					s.bad("header blob %d of a submission does not decode: %v", bi, err)
					continue
				}
				st, _, err := s.n.Store.GetBlockData(s.ctx, h.Height())
				if err != nil {
					s.bad("submitted header for height %d which is not in the block store", h.Height())
					continue
				}
				s.r.Hit("blob-is-committed-header")
				if !bytes.Equal(st.Hash(), h.Hash()) {
					s.bad("submitted header blob for height %d differs from the committed header", h.Height())
				}
				payload, _ := h.Header.MarshalBinary()
				if ok, err := s.keys.Pub.Verify(payload, h.Signature); err != nil || !ok {
					s.bad("submitted header blob for height %d does not verify under the proposer's key", h.Height())
				}
				heights = append(heights, h.Height())
			} else {
				var sd types.SignedData
				if err := sd.UnmarshalBinary(blob); err != nil {
					s.bad("data blob %d of a submission does not decode: %v", bi, err)
					continue
				}
				if sd.Metadata == nil {
					s.bad("submitted data blob without metadata")
					continue
				}
				hgt := sd.Metadata.Height
				_, st, err := s.n.Store.GetBlockData(s.ctx, hgt)
				if err != nil {
					s.bad("submitted data for height %d which is not in the block store", hgt)
					continue
				}
				s.r.Hit("blob-is-committed-data")
				if len(sd.Txs) == 0 {
					s.bad("submitted a data blob for empty block %d", hgt)
				}
				if len(st.Txs) != len(sd.Txs) {
					s.bad("submitted data blob for height %d has %d txs, committed block has %d", hgt, len(sd.Txs), len(st.Txs))
				} else {
					for i := range st.Txs {
						if !bytes.Equal(st.Txs[i], sd.Txs[i]) {
							s.bad("submitted data blob for height %d differs from the committed data at tx %d", hgt, i)
							break
						}
					}
				}
				payload, _ := sd.Data.MarshalBinary()
				if ok, err := s.keys.Pub.Verify(payload, sd.Signature); err != nil || !ok {
					s.bad("submitted data blob for height %d does not verify under the proposer's key", hgt)
				}
				heights = append(heights, hgt)
			}
		}
		// order within the call and relative to the watermark
		s.r.Hit("in-order")
		for i := 1; i < len(heights); i++ {
			if heights[i] <= heights[i-1] {
				s.bad("%s submission not in increasing height order: %v", stream, heights)
				break
			}
		}
		if len(heights) > 0 {
			// nothing at or below the watermark is re-submitted, nothing between the watermark and the first blob is skipped
			exp := s.nextNeeded(stream, wm)
			if heights[0] != exp {
				s.bad("%s submission starts at height %d; watermark is %d so the next needed height is %d (blobs: %v)", stream, heights[0], wm, exp, heights)
			}
			for i := 1; i < len(heights); i++ {
				if e := s.nextNeeded(stream, heights[i-1]); heights[i] != e {
					s.bad("%s submission skips from %d to %d (next needed is %d)", stream, heights[i-1], heights[i], e)
					break
				}
			}
		}
		for i := 0; i < c.Stored && i < len(heights); i++ {
			s.accepted[stream][heights[i]] = true
		}
		if c.Acked > 0 && c.Acked <= len(heights) {
			wm = heights[c.Acked-1]
		}
	}
}

// nextNeeded returns the smallest height > wm that needs a blob in this stream.
func (s *sim) nextNeeded(stream string, wm uint64) uint64 {
	tip, _ := s.n.Store.Height(s.ctx)
	h := wm + 1
	if h < s.c.Initial {
		h = s.c.Initial
	}
	if stream == "header" {
		return h
	}
	for ; h <= tip; h++ {
		_, d, err := s.n.Store.GetBlockData(s.ctx, h)
		if err == nil && len(d.Txs) > 0 {
			return h
		}
	}
	return h
}

// acceptedPrefix is the largest height h such that every blob needed for heights <= h is on the double.
func (s *sim) acceptedPrefix(stream string) uint64 {
	tip, _ := s.n.Store.Height(s.ctx)
	last := s.c.Initial - 1
	for h := s.c.Initial; h <= tip; h++ {
		need := true
		if stream == "data" {
			_, d, err := s.n.Store.GetBlockData(s.ctx, h)
			need = err == nil && len(d.Txs) > 0
		}
		if need && !s.accepted[stream][h] {
			break
		}
		last = h
	}
	return last
}

func (s *sim) checkWatermarks(logFrom int) {
	// every watermark write since logFrom: monotone and not past the accepted prefix (evaluated at the end of the round,
	// which is sound because acceptance only grows and writes of a round happen after the acceptances they reflect)
	for _, stream := range []string{"header", "data"} {
		key := keyHdrWM
		if stream == "data" {
			key = keyDataWM
		}
		var prev uint64
		first := true
		for _, rec := range s.n.DS.Log()[logFrom:] {
			for i, k := range rec.Keys {
				if k != key {
					continue
				}
				var b [8]byte
				fmt.Sscanf(rec.Vals[i], "%02x%02x%02x%02x%02x%02x%02x%02x", &b[0], &b[1], &b[2], &b[3], &b[4], &b[5], &b[6], &b[7])
				v := binary.LittleEndian.Uint64(b[:])
				s.r.Hit("watermark-write")
				if !first && v < prev {
					s.bad("%s watermark went down: %d after %d", stream, v, prev)
				}
				if ap := s.acceptedPrefix(stream); v > ap {
					s.bad("%s watermark written as %d but the DA layer holds everything only up to %d", stream, v, ap)
				}
				prev, first = v, false
			}
		}
	}
}

func (s *sim) submitRound(stream string, outcomes []string) {
	key := keyHdrWM
	if stream == "data" {
		key = keyDataWM
	}
	for _, o := range outcomes {
		s.da.ScriptSubmit(outcome(o))
	}
	// call the submission step until the scripted outcomes are consumed (a step ends early on "cancelled")
	for i := 0; i < len(outcomes)+2; i++ {
		from := len(s.da.Calls())
		logFrom := len(s.n.DS.Log())
		wm := readWM(s.im, key)
		if wm == 0 && s.c.Initial > 1 {
			wm = 0
		}
		var err error
		if stream == "header" {
			err = s.n.M.VerifSubmitHeadersOnce(s.ctx)
		} else {
			err = s.n.M.VerifSubmitDataOnce(s.ctx)
		}
		_ = err
		s.judgeCalls(from, stream, wm)
		s.checkWatermarks(logFrom)
		if !s.pendingScript() {
			break
		}
	}
	s.da.ClearSubmitScript()
}

func (s *sim) pendingScript() bool {
	// the double exposes no length; probe by checking whether the last call used a scripted outcome is not needed:
	// scripts are short, so simply run the fixed number of iterations above
	return true
}

func run(r *vk.Run, c Case) {
	ctx := context.Background()
	s := &sim{r: r, c: c, ctx: ctx, im: world.NewImage(), exec: world.NewExecDouble(), seq: world.NewSeqDouble(), da: world.NewDADouble(),
		keys: world.NewKeys("proposer"), t: world.GenesisTime, accepted: map[string]map[uint64]bool{"header": {}, "data": {}}}
	wit := func() any {
		var calls []string
		for _, dc := range s.da.Calls() {
			calls = append(calls, fmt.Sprintf("%d %s h=%d blobs=%d stored=%d acked=%d %s %s", dc.Seq, dc.Kind, dc.Height, len(dc.Blobs), dc.Stored, dc.Acked, dc.Outcome, dc.Err))
		}
		return map[string]any{"case": c, "da_calls": calls}
	}
	if err := s.start(); err != nil {
		r.Violation("startup", err.Error(), wit())
		return
	}
	if err := s.n.M.VerifPublishBlock(ctx); err != nil {
		r.Violation("producer", "genesis step: "+err.Error(), wit())
		return
	}
	rounds := strings.Split(c.Shape, "|")
	restartAfter := map[int]bool{}
	for _, x := range c.Restarts {
		restartAfter[x] = true
	}
	split := func(o []string, k, n int) []string {
		// distribute the outcome sequence over the rounds
		per := (len(o) + n - 1) / n
		lo, hi := k*per, (k+1)*per
		if lo > len(o) {
			lo = len(o)
		}
		if hi > len(o) {
			hi = len(o)
		}
		return o[lo:hi]
	}
	for ri, round := range rounds {
		for _, b := range round {
			if err := s.produce(b); err != nil {
				r.Violation("producer", "production step failed: "+err.Error(), wit())
				return
			}
		}
		s.submitRound("header", split(c.Hdr, ri, len(rounds)))
		s.submitRound("data", split(c.Data, ri, len(rounds)))
		if restartAfter[ri] {
			if err := s.start(); err != nil {
				r.Violation("restart", "NewManager failed: "+err.Error(), wit())
				return
			}
			r.Hit("restart")
		}
	}
	// faults have stopped: everything committed must be on the DA layer after two clean iterations per stream
	s.da.ClearSubmitScript()
	for i := 0; i < 2; i++ {
		s.submitRound("header", nil)
		s.submitRound("data", nil)
	}
	tip, _ := s.n.Store.Height(ctx)
	r.Hit("eventually-submitted")
	if ap := s.acceptedPrefix("header"); ap != tip {
		s.bad("after faults stopped and two clean submission iterations the DA layer holds headers only up to %d of %d", ap, tip)
	}
	if ap := s.acceptedPrefix("data"); ap != tip {
		s.bad("after faults stopped and two clean submission iterations the DA layer holds data only up to %d of %d", ap, tip)
	}
	lh, ld, _, _ := s.n.M.VerifWatermarks()
	r.Hit("final-watermarks")
	if lh != tip {
		s.bad("header watermark is %d after everything was accepted (tip %d)", lh, tip)
	}
	if wantD := s.lastNonEmpty(tip); ld < wantD {
		s.bad("data watermark is %d after everything was accepted (last non-empty block %d)", ld, wantD)
	}
	if len(s.viol) > 0 {
		id := "C06-initial-height"
		if c.Initial > 1 && r.IsKnown(id) {
			r.Finding(id, "submission", strings.Join(s.viol, " ;; "), wit())
		} else {
			r.Violation("submission", strings.Join(s.viol, " ;; "), wit())
		}
	}
	nonAccept := 0
	for _, o := range append(append([]string{}, c.Hdr...), c.Data...) {
		if o != "accept" {
			nonAccept++
		}
	}
	r.Eval(c.key(), nonAccept > 0, c)
}

func (s *sim) lastNonEmpty(tip uint64) uint64 {
	for h := tip; h >= s.c.Initial; h-- {
		_, d, err := s.n.Store.GetBlockData(s.ctx, h)
		if err == nil && len(d.Txs) > 0 {
			return h
		}
	}
	return 0
}

// Run is the check entry point.
func Run(r *vk.Run) {
	world.Silence()
	maxLen := r.N(3, 5)
	r.Rule = fmt.Sprintf("every sequence of DA submit outcomes of length <= %d over {accept, prefix1, prefix2, timeout, mempool, toobig, error, acklost, cancelled} applied to the header stream and (rotated) to the data stream of a real aggregator, spread over two submission rounds with block production in between, for chain shapes mixing empty/non-empty blocks and initial heights {1,2,7}, with a restart (new Manager on the same store) after round 0, 1 or never; then accept-all. non-trivial = at least one non-accept outcome; distinct by (initial, shape, outcome sequences, restart position)", maxLen)
	r.Assume("one iteration of the submission loops is driven through VerifSubmitHeadersOnce/VerifSubmitDataOnce (the ticker-driven loops run unmodified in C13)")
	r.Assume("DA double: a blob is 'accepted' when the double stored it, also when the acknowledgement was lost")
	var seqs [][]string
	var rec func(prefix []string, n int)
	rec = func(prefix []string, n int) {
		if len(prefix) > 0 {
			seqs = append(seqs, append([]string{}, prefix...))
		}
		if n == 0 {
			return
		}
		for _, k := range outcomeKinds {
			rec(append(prefix, k), n-1)
		}
	}
	rec(nil, maxLen)
	shapes := []string{"xex|xe", "eex|ex", "xxx|x", "e|xee", "xrx|r", "xer|xr"}
	inits := []uint64{1, 2, 7}
	var cases []Case
	for i, hs := range seqs {
		ds := seqs[(i*7+3)%len(seqs)]
		c := Case{Initial: inits[i%3], Shape: shapes[i%len(shapes)], Hdr: hs, Data: ds}
		switch i % 3 {
		case 0:
			c.Restarts = []int{0}
		case 1:
			c.Restarts = []int{1}
		}
		cases = append(cases, c)
	}
	r.Set("outcome_sequences_enumerated", len(seqs))
	r.SetExhaustive(true)
	r.Require("submit-call", int64(len(cases)))
	var wg sync.WaitGroup
	ch := make(chan Case)
	for w := 0; w < 14; w++ {
		wg.Add(1)
		go func() {
			defer wg.Done()
			for c := range ch {
				r.Guard(c, func() { run(r, c) })
			}
		}()
	}
	for _, c := range cases {
		ch <- c
	}
	close(ch)
	wg.Wait()
}
