// Package c06 decides C06: every committed block reaches the DA layer in order; the watermark is sound.
package c06

import (
	"bytes"
	"context"
	"fmt"
	"strings"
	"sync"
	"time"

	"github.com/evstack/ev-node/types"

	"verifharness/vk"
	"verifharness/world"
)

// Level is the verification level claimed for this property.
const Level = "fault_enumeration"

// Case is one enumerated fault sequence.
type Case struct {
	Initial  uint64   `json:"initial_height"`
	Shape    string   `json:"chain_shape"` // x = non-empty, e = empty, r = repeats the previous tx list; '|' = submission round
	Hdr      []string `json:"header_outcomes"`
	Data     []string `json:"data_outcomes"`
	Restarts []int    `json:"restart_after_round"`
	// RestartCall > 0: the node is also restarted right after its k-th submission iteration (between two attempts of a
	// round, with outcomes still scripted and blocks still pending)
	RestartCall int `json:"restart_after_submission_iteration,omitempty"`
}

func (c Case) key() string {
	return fmt.Sprintf("i%d %s H%v D%v R%v/%d", c.Initial, c.Shape, c.Hdr, c.Data, c.Restarts, c.RestartCall)
}

var outcomeKinds = []string{"accept", "prefix1", "prefix2", "timeout", "mempool", "toobig", "error", "acklost", "cancelled"}

func outcome(s string) world.SubmitOutcome {
	switch s {
	case "prefix1":
		return world.SubmitOutcome{Kind: "prefix", Prefix: 1}
	case "prefix2":
		return world.SubmitOutcome{Kind: "prefix", Prefix: 2}
	}
	return world.SubmitOutcome{Kind: s}
}

type submitObs struct {
	stream    string // header | data
	heights   []uint64
	wmAtCall  uint64
	outcome   string
	stored    int
	callIndex int
}

type sim struct {
	r    *vk.Run
	c    Case
	ctx  context.Context
	im   *world.Image
	exec *world.ExecDouble
	seq  *world.SeqDouble
	da   *world.DADouble
	keys world.Keys
	n    *world.Node
	t    time.Time
	txN  int
	viol []string
	// accepted[stream][height] = stored on the DA double
	accepted  map[string]map[uint64]bool
	curStream string
	wmSnap    uint64
	nCalls    int
	freshProc bool // no submission seen yet from the current Manager
	// confirmed[stream]: the oracle's own record of the last height whose acceptance was acknowledged to the node
	// (kept across calls and restarts; never read from the node)
	confirmed map[string]uint64
	// lastWM[stream]: last sampled value of the node's last-submitted height (hook), across processes
	lastWM map[string]uint64
	iter   int // submission iterations performed so far
}

func (s *sim) start() error {
	n, err := world.NewNode(s.ctx, world.NodeOpts{Aggregator: true, InitialHeight: s.c.Initial}, s.keys, world.NewMemDS(s.im), s.exec, s.seq, s.da, nil)
	if err != nil {
		return err
	}
	s.n = n
	s.freshProc = true
	return nil
}

func (s *sim) produce(kind rune) error {
	s.t = s.t.Add(time.Second)
	if kind == 'e' {
		s.seq.Push(world.SeqResp{Kind: world.SeqEmpty, Time: s.t})
	} else if kind == 'r' && s.txN > 0 {
		// the same transaction list as the previous non-empty block (a different block: height, time and metadata differ)
		s.seq.Push(world.SeqResp{Kind: world.SeqTxs, Time: s.t, Txs: [][]byte{[]byte(fmt.Sprintf("c06-%d-a", s.txN)), []byte(fmt.Sprintf("c06-%d-b", s.txN))}})
	} else {
		s.txN++
		s.seq.Push(world.SeqResp{Kind: world.SeqTxs, Time: s.t, Txs: [][]byte{[]byte(fmt.Sprintf("c06-%d-a", s.txN)), []byte(fmt.Sprintf("c06-%d-b", s.txN))}})
	}
	return s.n.M.VerifPublishBlock(s.ctx)
}

func (s *sim) bad(f string, a ...any) { s.viol = append(s.viol, fmt.Sprintf(f, a...)) }

// judgeCalls inspects the submit calls the DA double received since `from`.
func (s *sim) judgeCalls(from int, stream string) {
	calls := s.da.Calls()
	wm := s.confirmed[stream]
	for _, c := range calls[from:] {
		if c.Kind != "submit" {
			continue
		}
		s.r.Hit("submit-call")
		var heights []uint64
		for bi, blob := range c.Blobs {
			if stream == "header" {
				h := new(types.SignedHeader)
				if err := h.UnmarshalBinary(blob); err != nil {
					s.bad("header blob %d of a submission does not decode: %v", bi, err)
					continue
				}
				st, _, err := s.n.Store.GetBlockData(s.ctx, h.Height())
				if err != nil {
					s.bad("submitted header for height %d which is not in the block store", h.Height())
					continue
				}
				s.r.Hit("blob-is-committed-header")
				if !bytes.Equal(st.Hash(), h.Hash()) {
					s.bad("submitted header blob for height %d differs from the committed header", h.Height())
				}
				payload, _ := h.Header.MarshalBinary()
				if ok, err := s.keys.Pub.Verify(payload, h.Signature); err != nil || !ok {
					s.bad("submitted header blob for height %d does not verify under the proposer's key", h.Height())
				}
				heights = append(heights, h.Height())
			} else {
				var sd types.SignedData
				if err := sd.UnmarshalBinary(blob); err != nil {
					s.bad("data blob %d of a submission does not decode: %v", bi, err)
					continue
				}
				if sd.Metadata == nil {
					s.bad("submitted data blob without metadata")
					continue
				}
				hgt := sd.Metadata.Height
				_, st, err := s.n.Store.GetBlockData(s.ctx, hgt)
				if err != nil {
					s.bad("submitted data for height %d which is not in the block store", hgt)
					continue
				}
				s.r.Hit("blob-is-committed-data")
				if len(sd.Txs) == 0 {
					s.r.Count("data_blobs_for_empty_blocks", 1)
				}
				// exactly the committed data: also the metadata that travels with it
				if a, err1 := st.MarshalBinary(); err1 == nil {
					if b, err2 := sd.Data.MarshalBinary(); err2 != nil || !bytes.Equal(a, b) {
						s.bad("submitted data blob for height %d is not the committed data (metadata or transactions differ)", hgt)
					}
				}
				if len(st.Txs) != len(sd.Txs) {
					s.bad("submitted data blob for height %d has %d txs, committed block has %d", hgt, len(sd.Txs), len(st.Txs))
				} else {
					for i := range st.Txs {
						if !bytes.Equal(st.Txs[i], sd.Txs[i]) {
							s.bad("submitted data blob for height %d differs from the committed data at tx %d", hgt, i)
							break
						}
					}
				}
				payload, _ := sd.Data.MarshalBinary()
				if ok, err := s.keys.Pub.Verify(payload, sd.Signature); err != nil || !ok {
					s.bad("submitted data blob for height %d does not verify under the proposer's key", hgt)
				}
				heights = append(heights, hgt)
			}
		}
		// order within the call and relative to the watermark
		s.r.Hit("in-order")
		for i := 1; i < len(heights); i++ {
			if heights[i] <= heights[i-1] {
				s.bad("%s submission not in increasing height order: %v", stream, heights)
				break
			}
		}
		if len(heights) > 0 {
			// nothing whose acceptance was acknowledged is re-submitted, and no block that needs a blob is skipped
			// (blobs for blocks that need none - empty data - may or may not be there)
			exp := s.nextNeeded(stream, wm)
			switch {
			case heights[0] <= wm:
				s.bad("%s submission starts at height %d although acceptance up to %d was already acknowledged (blobs: %v)", stream, heights[0], wm, heights)
			case heights[0] > exp:
				s.bad("%s submission starts at height %d; acceptance is acknowledged up to %d so the next needed height is %d (blobs: %v)", stream, heights[0], wm, exp, heights)
			}
			for i := 1; i < len(heights); i++ {
				if e := s.nextNeeded(stream, heights[i-1]); heights[i] > e {
					s.bad("%s submission skips from %d to %d (next needed is %d)", stream, heights[i-1], heights[i], e)
					break
				}
			}
		}
		for i := 0; i < c.Stored && i < len(heights); i++ {
			s.accepted[stream][heights[i]] = true
		}
		if c.Acked > 0 && c.Acked <= len(heights) {
			wm = heights[c.Acked-1]
		}
	}
	s.confirmed[stream] = wm
}

// nextNeeded returns the smallest height > wm that needs a blob in this stream.
func (s *sim) nextNeeded(stream string, wm uint64) uint64 {
	tip, _ := s.n.Store.Height(s.ctx)
	h := wm + 1
	if h < s.c.Initial {
		h = s.c.Initial
	}
	if stream == "header" {
		return h
	}
	for ; h <= tip; h++ {
		_, d, err := s.n.Store.GetBlockData(s.ctx, h)
		if err == nil && len(d.Txs) > 0 {
			return h
		}
	}
	return h
}

// acceptedPrefix is the largest height h such that every blob needed for heights <= h is on the double.
func (s *sim) acceptedPrefix(stream string) uint64 {
	tip, _ := s.n.Store.Height(s.ctx)
	last := s.c.Initial - 1
	for h := s.c.Initial; h <= tip; h++ {
		need := true
		if stream == "data" {
			_, d, err := s.n.Store.GetBlockData(s.ctx, h)
			need = err == nil && len(d.Txs) > 0
		}
		if need && !s.accepted[stream][h] {
			break
		}
		last = h
	}
	return last
}

// sampleWatermarks reads the node's last-submitted heights (hook) and judges them: never down (also across restarts),
// never past a height whose blob the DA double does not hold.
func (s *sim) sampleWatermarks(where string) {
	wh, wd, _, _ := s.n.M.VerifWatermarks()
	for stream, v := range map[string]uint64{"header": wh, "data": wd} {
		s.r.Hit("watermark-sample")
		if v < s.lastWM[stream] {
			s.bad("%s: the last-submitted %s height went down: %d after %d", where, stream, v, s.lastWM[stream])
		}
		if ap := s.acceptedPrefix(stream); v > ap && v >= s.c.Initial {
			s.bad("%s: the last-submitted %s height is %d but the DA layer holds everything only up to %d", where, stream, v, ap)
		}
		s.lastWM[stream] = v
	}
}

func (s *sim) submitRound(stream string, outcomes []string) {
	for _, o := range outcomes {
		s.da.ScriptSubmit(outcome(o))
	}
	// call the submission step until the scripted outcomes are consumed (a step ends early on "cancelled")
	for i := 0; i < len(outcomes)+2; i++ {
		s.submitOnce(stream)
	}
	s.da.ClearSubmitScript()
}

// submitOnce drives one iteration of a submission loop and judges what it did.
func (s *sim) submitOnce(stream string) {
	from := len(s.da.Calls())
	if stream == "header" {
		_ = s.n.M.VerifSubmitHeadersOnce(s.ctx)
	} else {
		_ = s.n.M.VerifSubmitDataOnce(s.ctx)
	}
	s.judgeCalls(from, stream)
	s.sampleWatermarks("after a " + stream + " submission iteration")
	s.iter++
	if s.c.RestartCall > 0 && s.iter == s.c.RestartCall {
		if err := s.start(); err != nil {
			s.bad("restart between two submission attempts: NewManager failed: %v", err)
			return
		}
		s.r.Hit("restart-mid-round")
		s.sampleWatermarks("after a restart between two submission attempts")
	}
}

func (s *sim) pendingScript() bool {
	// the double exposes no length; probe by checking whether the last call used a scripted outcome is not needed:
	// scripts are short, so simply run the fixed number of iterations above
	return true
}

func run(r *vk.Run, c Case) {
	ctx := context.Background()
	s := &sim{r: r, c: c, ctx: ctx, im: world.NewImage(), exec: world.NewExecDouble(), seq: world.NewSeqDouble(), da: world.NewDADouble(),
		keys: world.NewKeys("proposer"), t: world.GenesisTime, accepted: map[string]map[uint64]bool{"header": {}, "data": {}},
		confirmed: map[string]uint64{}, lastWM: map[string]uint64{}}
	wit := func() any {
		var calls []string
		for _, dc := range s.da.Calls() {
			calls = append(calls, fmt.Sprintf("%d %s h=%d blobs=%d stored=%d acked=%d %s %s", dc.Seq, dc.Kind, dc.Height, len(dc.Blobs), dc.Stored, dc.Acked, dc.Outcome, dc.Err))
		}
		return map[string]any{"case": c, "da_calls": calls}
	}
	if err := s.start(); err != nil {
		r.Violation("startup", err.Error(), wit())
		return
	}
	if err := s.n.M.VerifPublishBlock(ctx); err != nil {
		r.Violation("producer", "genesis step: "+err.Error(), wit())
		return
	}
	rounds := strings.Split(c.Shape, "|")
	restartAfter := map[int]bool{}
	for _, x := range c.Restarts {
		restartAfter[x] = true
	}
	split := func(o []string, k, n int) []string {
		// distribute the outcome sequence over the rounds
		per := (len(o) + n - 1) / n
		lo, hi := k*per, (k+1)*per
		if lo > len(o) {
			lo = len(o)
		}
		if hi > len(o) {
			hi = len(o)
		}
		return o[lo:hi]
	}
	for ri, round := range rounds {
		for _, b := range round {
			if err := s.produce(b); err != nil {
				r.Violation("producer", "production step failed: "+err.Error(), wit())
				return
			}
		}
		s.submitRound("header", split(c.Hdr, ri, len(rounds)))
		s.submitRound("data", split(c.Data, ri, len(rounds)))
		if restartAfter[ri] {
			if err := s.start(); err != nil {
				r.Violation("restart", "NewManager failed: "+err.Error(), wit())
				return
			}
			r.Hit("restart")
			s.sampleWatermarks("after a restart")
		}
	}
	// faults have stopped: clean iterations until everything committed is on the DA layer (four iterations in a row
	// without any progress end the wait)
	s.da.ClearSubmitScript()
	tip, _ := s.n.Store.Height(ctx)
	idle := 0
	for it := 0; it < 40 && idle < 4; it++ {
		before := s.acceptedPrefix("header") + s.acceptedPrefix("data")
		if s.acceptedPrefix("header") == tip && s.acceptedPrefix("data") == tip {
			break
		}
		s.submitOnce("header")
		s.submitOnce("data")
		if s.acceptedPrefix("header")+s.acceptedPrefix("data") == before {
			idle++
		} else {
			idle = 0
		}
	}
	r.Hit("eventually-submitted")
	if ap := s.acceptedPrefix("header"); ap != tip {
		s.bad("after faults stopped, clean submission iterations no longer make progress and the DA layer holds headers only up to %d of %d", ap, tip)
	}
	if ap := s.acceptedPrefix("data"); ap != tip {
		s.bad("after faults stopped, clean submission iterations no longer make progress and the DA layer holds data only up to %d of %d", ap, tip)
	}
	lh, ld, _, _ := s.n.M.VerifWatermarks()
	r.Hit("final-watermarks")
	if lh != tip || ld < s.lastNonEmpty(tip) {
		// the statement bounds the recorded height from above only; a lagging record shows up as re-submission
		r.Count("final_watermark_below_tip_not_judged", 1)
	}
	if len(s.viol) > 0 {
		id := "C06-initial-height"
		if c.Initial > 1 && r.IsKnown(id) {
			r.Finding(id, "submission", strings.Join(s.viol, " ;; "), wit())
		} else {
			r.Violation("submission", strings.Join(s.viol, " ;; "), wit())
		}
	}
	nonAccept := 0
	for _, o := range append(append([]string{}, c.Hdr...), c.Data...) {
		if o != "accept" {
			nonAccept++
		}
	}
	r.Eval(c.key(), nonAccept > 0, c)
}

func (s *sim) lastNonEmpty(tip uint64) uint64 {
	for h := tip; h >= s.c.Initial; h-- {
		_, d, err := s.n.Store.GetBlockData(s.ctx, h)
		if err == nil && len(d.Txs) > 0 {
			return h
		}
	}
	return 0
}

// Run is the check entry point.
func Run(r *vk.Run) {
	world.Silence()
	maxLen := r.N(4, 5)
	r.Rule = fmt.Sprintf("every sequence of DA submit outcomes of length <= %d over {accept, prefix1, prefix2, timeout, mempool, toobig, error, acklost, cancelled} applied to the header stream and (rotated) to the data stream of a real aggregator, spread over two submission rounds with block production in between, for chain shapes mixing empty/non-empty blocks and initial heights {1,2,7}, with a restart (new Manager on the same store) after round 0, after round 1, right after the k-th submission iteration (k = 1..6: between two attempts, outcomes still scripted, blocks pending) or never; then accept-all. What was acknowledged is the oracle's own record (from the double's replies), never read from the node; the node's last-submitted heights are sampled through the hook after every iteration and restart. non-trivial = at least one non-accept outcome; distinct by (initial, shape, outcome sequences, restart position)", maxLen)
	r.Assume("one iteration of the submission loops is driven through VerifSubmitHeadersOnce/VerifSubmitDataOnce (the ticker-driven loops run unmodified in C13)")
	r.Assume("DA double: a blob is 'accepted' when the double stored it, also when the acknowledgement was lost")
	var seqs [][]string
	var rec func(prefix []string, n int)
	rec = func(prefix []string, n int) {
		if len(prefix) > 0 {
			seqs = append(seqs, append([]string{}, prefix...))
		}
		if n == 0 {
			return
		}
		for _, k := range outcomeKinds {
			rec(append(prefix, k), n-1)
		}
	}
	rec(nil, maxLen)
	shapes := []string{"xex|xe", "eex|ex", "xxx|x", "e|xee", "xrx|r", "xer|xr"}
	inits := []uint64{1, 2, 7}
	var cases []Case
	for i, hs := range seqs {
		ds := seqs[(i*7+3)%len(seqs)]
		c := Case{Initial: inits[(i/5)%3], Shape: shapes[i%len(shapes)], Hdr: hs, Data: ds}
		switch i % 4 {
		case 0:
			c.Restarts = []int{0}
		case 1:
			c.Restarts = []int{1}
		case 2:
			// between two attempts of a round
			c.RestartCall = 1 + (i/4)%6
		}
		cases = append(cases, c)
	}
	r.Set("outcome_sequences_enumerated", len(seqs))
	r.SetExhaustive(true)
	r.Require("submit-call", int64(len(cases)))
	r.Require("watermark-sample", int64(len(cases)))
	r.Require("restart", int64(len(cases)/8))
	r.Require("restart-mid-round", int64(len(cases)/8))
	var wg sync.WaitGroup
	ch := make(chan Case)
	for w := 0; w < 14; w++ {
		wg.Add(1)
		go func() {
			defer wg.Done()
			for c := range ch {
				r.Guard(c, func() { run(r, c) })
			}
		}()
	}
	for _, c := range cases {
		ch <- c
	}
	close(ch)
	wg.Wait()
	for i := 0; i < r.N(12, 48); i++ {
		i := i
		r.Guard(map[string]any{"overlap_case": i}, func() { runOverlap(r, i) })
	}
}
