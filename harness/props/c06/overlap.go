package c06

// Block production INSIDE a data-submission iteration: the iteration has taken its list of pending data (only empty
// blocks are pending) and stands at the next thing it does that a harness can see - asking the signer for the public
// key - when a block with transactions is committed. Both orders a step-driven harness produces on its own (the block
// wholly before the iteration, wholly after it) are covered by the enumerated cases; this is the overlap. Whatever the
// iteration does with the watermark afterwards, the new block's data still has to reach the DA layer.

import (
	"context"
	"fmt"
	"sync/atomic"
	"time"

	"verifharness/vk"
	"verifharness/world"
)

func runOverlap(r *vk.Run, id int) {
	ctx := context.Background()
	c := Case{Initial: []uint64{1, 2, 7}[id%3], Shape: fmt.Sprintf("overlap-%d", id)}
	keys := world.NewKeys("proposer")
	hs := &world.HookSigner{Inner: keys.Signer}
	keys.Signer = hs
	s := &sim{r: r, c: c, ctx: ctx, im: world.NewImage(), exec: world.NewExecDouble(), seq: world.NewSeqDouble(), da: world.NewDADouble(),
		keys: keys, t: world.GenesisTime, accepted: map[string]map[uint64]bool{"header": {}, "data": {}},
		confirmed: map[string]uint64{}, lastWM: map[string]uint64{}}
	wit := func() any {
		var calls []string
		for _, dc := range s.da.Calls() {
			calls = append(calls, fmt.Sprintf("%d %s h=%d blobs=%d stored=%d acked=%d %s %s", dc.Seq, dc.Kind, dc.Height, len(dc.Blobs), dc.Stored, dc.Acked, dc.Outcome, dc.Err))
		}
		return map[string]any{"overlap_case": id, "initial_height": c.Initial, "da_calls": calls}
	}
	if err := s.start(); err != nil {
		r.Violation("startup", err.Error(), wit())
		return
	}
	if err := s.n.M.VerifPublishBlock(ctx); err != nil {
		r.Violation("producer", "genesis step: "+err.Error(), wit())
		return
	}
	step := func(kind rune) bool {
		if err := s.produce(kind); err != nil {
			r.Violation("producer", "production step failed: "+err.Error(), wit())
			return false
		}
		return true
	}
	// a prefix that is completely on the DA layer (id%2: the chain so far has a non-empty block, or none)
	if id%2 == 0 && !step('x') {
		return
	}
	for i := 0; i < 3; i++ {
		s.submitOnce("header")
		s.submitOnce("data")
	}
	// only empty blocks are pending
	for i := 0; i < 1+id%3; i++ {
		if !step('e') {
			return
		}
	}
	s.submitOnce("header")
	var armed atomic.Bool
	produced := make(chan error, 1)
	inWindow := false
	hs.OnGetPublic = func() {
		if !armed.CompareAndSwap(true, false) {
			return
		}
		inWindow = true
		// the block is committed by another goroutine, as in a node; the iteration waits here for it
		go func() { produced <- s.produce('x') }()
		select {
		case err := <-produced:
			produced <- err
		case <-time.After(20 * time.Second):
			// the iteration holds something production needs: no overlap is possible at this point of this node
		}
	}
	armed.Store(true)
	s.submitOnce("data")
	armed.Store(false)
	hs.OnGetPublic = nil
	if !inWindow {
		// the iteration never asked the signer for its key: this node has no such point
		r.Count("overlap_window_never_open", 1)
		r.Eval(c.Shape, false, c)
		return
	}
	select {
	case err := <-produced:
		if err != nil {
			r.Violation("producer", "production step inside a data-submission iteration failed: "+err.Error(), wit())
			return
		}
	case <-time.After(30 * time.Second):
		r.Inconclusive("C06 overlap case: the production step started inside the data-submission iteration did not finish")
		return
	}
	r.Hit("block-committed-inside-a-data-submission-iteration")
	// clean iterations until everything committed is on the DA layer
	tip, _ := s.n.Store.Height(ctx)
	idle := 0
	for it := 0; it < 40 && idle < 4; it++ {
		before := s.acceptedPrefix("header") + s.acceptedPrefix("data")
		if s.acceptedPrefix("header") == tip && s.acceptedPrefix("data") == tip {
			break
		}
		s.submitOnce("header")
		s.submitOnce("data")
		if s.acceptedPrefix("header")+s.acceptedPrefix("data") == before {
			idle++
		} else {
			idle = 0
		}
	}
	r.Hit("eventually-submitted")
	if ap := s.acceptedPrefix("header"); ap != tip {
		s.bad("a block was committed while a data-submission iteration was under way (only empty blocks were pending when it began); afterwards clean submission iterations no longer make progress and the DA layer holds headers only up to %d of %d", ap, tip)
	}
	if ap := s.acceptedPrefix("data"); ap != tip {
		s.bad("a block with transactions (height %d) was committed while a data-submission iteration was under way (only empty blocks were pending when it began); afterwards clean submission iterations no longer make progress and the DA layer holds data only up to %d of %d: the data of that block is never submitted", tip, ap, tip)
	}
	if len(s.viol) > 0 {
		r.Violation("submission", fmt.Sprintf("%v", s.viol), wit())
	}
	r.Eval(c.Shape, true, c)
}
