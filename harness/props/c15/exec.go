package c15

import (
	"context"
	"encoding/json"
	"errors"
	"fmt"
	"io"
	"os"
	"os/exec"
	"path/filepath"
	"reflect"
	"strconv"
	"strings"
	"sync"
	"time"
	"unsafe"

	kv "github.com/evstack/ev-node/apps/testapp/kv"

	"verifharness/vk"
	"verifharness/world"
)

// Obs is what one call returned.
type Obs struct {
	Root []byte   `json:"root,omitempty"`
	Err  string   `json:"err,omitempty"`
	Txs  []string `json:"txs,omitempty"`
}

// FirstExec records the arguments of the first execution of a block on an instance, so that a
// re-execution offers exactly the same block again (same height, time stamp and previous root).
type FirstExec struct {
	Height   uint64 `json:"height"`
	TimeMs   int64  `json:"time_ms"`
	PrevRoot []byte `json:"prev_root"`
}

// Resume is the driver state carried across a reopen (and across child processes).
type Resume struct {
	Height   uint64            `json:"height"`
	PrevRoot []byte            `json:"prev_root"`
	LastMs   int64             `json:"last_ms"` // time stamp of the last block offered (unix ms); never runs backwards
	First    map[int]FirstExec `json:"first,omitempty"`
}

var genesisTime = time.Unix(1_700_000_000, 0).UTC()

const chainID = "c15-chain"

func blockTime(i int) time.Time { return genesisTime.Add(time.Duration(i+1) * time.Second) }

func errStr(err error) string {
	if err == nil {
		return ""
	}
	if err.Error() == "" {
		return "error"
	}
	return err.Error()
}

// runSegment performs calls ops[start:] on ex until a reopen call (which it consumes) or the end.
func runSegment(ctx context.Context, ex *kv.KVExecutor, blocks []Block, ops []Op, start int, rs *Resume) (obs []Obs, next int) {
	for i := start; i < len(ops); i++ {
		op := ops[i]
		var o Obs
		switch op.K {
		case "reopen":
			obs = append(obs, o)
			return obs, i + 1
		case "init":
			root, _, err := ex.InitChain(ctx, genesisTime, 1, chainID)
			o.Root, o.Err = root, errStr(err)
			if err == nil && rs.Height == 0 && rs.PrevRoot == nil {
				// the chain starts from the genesis root
				rs.PrevRoot = root
			}
		case "exec", "reexec", "observe":
			var txs [][]byte
			if op.K != "observe" {
				for _, t := range blocks[op.B].Txs {
					txs = append(txs, []byte(t))
				}
			}
			if rs.LastMs == 0 {
				rs.LastMs = genesisTime.UnixMilli()
			}
			// a new block: next height, a time stamp after every earlier one (block B carries the same time on both
			// instances, an empty observation block comes 1 ms after its predecessor), on top of the last returned root
			a := FirstExec{Height: rs.Height + 1, TimeMs: rs.LastMs + 1, PrevRoot: rs.PrevRoot}
			if op.K == "exec" {
				if t := blockTime(op.B).UnixMilli(); t > a.TimeMs {
					a.TimeMs = t
				}
			}
			first, again := rs.First[op.B]
			if op.K == "reexec" && again {
				// the very same block once more
				a = first
			}
			root, _, err := ex.ExecuteTxs(ctx, txs, a.Height, time.UnixMilli(a.TimeMs).UTC(), a.PrevRoot)
			o.Root, o.Err = root, errStr(err)
			if err == nil && !(op.K == "reexec" && again) {
				rs.Height, rs.PrevRoot, rs.LastMs = a.Height, root, a.TimeMs
				if op.K != "observe" {
					if rs.First == nil {
						rs.First = map[int]FirstExec{}
					}
					if _, ok := rs.First[op.B]; !ok {
						rs.First[op.B] = a
					}
				}
			}
		case "setfinal":
			o.Err = errStr(ex.SetFinal(ctx, op.H))
		case "inject":
			ex.InjectTx([]byte(op.Tx))
		case "gettxs":
			txs, err := ex.GetTxs(ctx)
			o.Err = errStr(err)
			for _, t := range txs {
				o.Txs = append(o.Txs, string(t))
			}
		}
		obs = append(obs, o)
	}
	return obs, len(ops)
}

var errNoClose = errors.New("KVExecutor offers no way to close its database")

// forkMu keeps a Badger close apart from a concurrent fork+exec of a child process: between fork
// and exec the child shares the open file description that carries Badger's directory flock, so a
// close in that window would leave the lock held and the next open of the directory would fail.
// That is an artefact of running many instances and children in one process, not executor behaviour.
var forkMu sync.RWMutex

// closeExec releases the Badger directory of an executor. The type has no Close method, so the
// harness reaches the datastore field only to close it (never to read or write through it).
func closeExec(ex *kv.KVExecutor) error {
	forkMu.RLock()
	defer forkMu.RUnlock()
	if c, ok := any(ex).(io.Closer); ok {
		return c.Close()
	}
	v := reflect.ValueOf(ex).Elem().FieldByName("db")
	if !v.IsValid() || !v.CanAddr() {
		return errNoClose
	}
	v = reflect.NewAt(v.Type(), unsafe.Pointer(v.UnsafeAddr())).Elem()
	c, ok := v.Interface().(io.Closer)
	if !ok || c == nil {
		return errNoClose
	}
	return c.Close()
}

// runInProcess drives one instance in this process: a reopen is close + NewKVExecutor on the same directory.
func runInProcess(ctx context.Context, dir, sub string, blocks []Block, ops []Op) ([]Obs, error) {
	return runInProcessFrom(ctx, dir, sub, blocks, ops, &Resume{})
}

// runInProcessFrom is runInProcess for an instance that already has a past (driver state rs, updated in place).
func runInProcessFrom(ctx context.Context, dir, sub string, blocks []Block, ops []Op, rs *Resume) ([]Obs, error) {
	var all []Obs
	next := 0
	for {
		ex, err := kv.NewKVExecutor(dir, sub)
		if err != nil {
			return all, fmt.Errorf("NewKVExecutor: %w", err)
		}
		var obs []Obs
		obs, next = runSegment(ctx, ex, blocks, ops, next, rs)
		all = append(all, obs...)
		if err := closeExec(ex); err != nil {
			return all, fmt.Errorf("close: %w", err)
		}
		if next >= len(ops) {
			return all, nil
		}
	}
}

// ---- child processes: a restart without Close ---------------------------------------------------

type childJob struct {
	Dir    string  `json:"dir"`
	Sub    string  `json:"sub"`
	Blocks []Block `json:"blocks"`
	Ops    []Op    `json:"ops"`
	Start  int     `json:"start"`
	Resume Resume  `json:"resume"`
}

type childOut struct {
	// OpenRetries counts first opens that failed because the previous process died between Badger's
	// truncate and remove of a flushed write-ahead file (see openAfterUncleanExit)
	OpenRetries int    `json:"open_retries,omitempty"`
	Obs         []Obs  `json:"obs"`
	Next        int    `json:"next"`
	Resume      Resume `json:"resume"`
	Err         string `json:"err,omitempty"`
}

func init() {
	vk.Children["c15-segment"] = childSegment
}

// childSegment runs one segment and leaves the process without closing the database, which is
// what a restart of this type amounts to.
func childSegment(args []string) int {
	world.Silence()
	if len(args) != 2 {
		return 2
	}
	b, err := os.ReadFile(args[0])
	if err != nil {
		return 2
	}
	var job childJob
	if err := json.Unmarshal(b, &job); err != nil {
		return 2
	}
	var out childOut
	ex, retried, err := openAfterUncleanExit(job.Dir, job.Sub)
	if retried {
		out.OpenRetries = 1
	}
	if err != nil {
		out.Err = "NewKVExecutor: " + err.Error()
	} else {
		rs := job.Resume
		out.Obs, out.Next = runSegment(context.Background(), ex, job.Blocks, job.Ops, job.Start, &rs)
		out.Resume = rs
	}
	ob, _ := json.Marshal(out)
	if err := os.WriteFile(args[1], ob, 0o644); err != nil {
		return 2
	}
	return 0 // os.Exit follows: no Close, no deferred work
}

var errWatchdog = errors.New("child watchdog")

// childDied reports a child process that ended without delivering its result.
type childDied struct {
	seg    int
	err    error
	stderr string
}

func (c *childDied) Error() string {
	return fmt.Sprintf("child segment %d: %v: %s", c.seg, c.err, c.stderr)
}

// crashed says whether the child left the trace of a Go panic or fatal error of the code it ran (as opposed to
// being killed from outside or running out of memory).
func (c *childDied) crashed() bool {
	return (strings.Contains(c.stderr, "panic:") || strings.Contains(c.stderr, "fatal error:")) && !strings.Contains(c.stderr, "out of memory")
}

// tailBuf keeps the last few KiB written to it.
type tailBuf struct {
	mu sync.Mutex
	b  []byte
}

func (t *tailBuf) Write(p []byte) (int, error) {
	t.mu.Lock()
	defer t.mu.Unlock()
	t.b = append(t.b, p...)
	if len(t.b) > 8192 {
		t.b = t.b[len(t.b)-6144:]
	}
	return len(p), nil
}

func (t *tailBuf) String() string {
	t.mu.Lock()
	defer t.mu.Unlock()
	return string(t.b)
}

// environmental says whether an error text names trouble of the machine rather than behaviour of the executor.
func environmental(msg string) bool {
	for _, s := range []string{"Cannot acquire directory lock", "too many open files", "no space left on device", "cannot allocate memory", "resource temporarily unavailable", "out of memory"} {
		if strings.Contains(msg, s) {
			return true
		}
	}
	return false
}

// openAfterUncleanExit opens an executor whose previous process ended without closing Badger
// (the only way this type can be stopped). Badger v4.5.1 deletes a flushed write-ahead file by
// truncate(0) + remove; a process that ends between the two leaves a zero-length NNNNN.mem, and the
// next Open fails once with "while opening fid: N error: Create a new file" (that attempt re-extends
// the file, the following Open succeeds, the data had already been flushed). The harness retries
// that one shape once and counts it; everything after the reopen is judged as usual.
func openAfterUncleanExit(dir, sub string) (*kv.KVExecutor, bool, error) {
	ex, err := kv.NewKVExecutor(dir, sub)
	if err != nil && strings.Contains(err.Error(), "while opening fid") && strings.Contains(err.Error(), "Create a new file") {
		ex, err = kv.NewKVExecutor(dir, sub)
		return ex, true, err
	}
	return ex, false, err
}

// runInChildrenFrom is runInChildren for an instance that already has a past (driver state rs); it also
// returns the driver state at the end.
func runInChildrenFrom(dir, sub string, blocks []Block, ops []Op, rs Resume) ([]Obs, Resume, int, error) {
	obs, out, _, retries, err := runInChildrenRS(dir, sub, blocks, ops, rs)
	return obs, out, retries, err
}

func runInChildren(dir, sub string, blocks []Block, ops []Op) ([]Obs, int, int, error) {
	obs, _, segs, retries, err := runInChildrenRS(dir, sub, blocks, ops, Resume{})
	return obs, segs, retries, err
}

func runInChildrenRS(dir, sub string, blocks []Block, ops []Op, rs Resume) ([]Obs, Resume, int, int, error) {
	var all []Obs
	retries := 0
	next, segs := 0, 0
	for next < len(ops) {
		job := childJob{Dir: dir, Sub: sub, Blocks: blocks, Ops: ops, Start: next, Resume: rs}
		jb, _ := json.Marshal(job)
		jf := filepath.Join(dir, sub+"-job-"+strconv.Itoa(segs)+".json")
		of := filepath.Join(dir, sub+"-out-"+strconv.Itoa(segs)+".json")
		if err := os.WriteFile(jf, jb, 0o644); err != nil {
			return all, rs, segs, retries, err
		}
		ctx, cancel := context.WithTimeout(context.Background(), 120*time.Second)
		cmd := exec.CommandContext(ctx, vk.SelfExe(), "child", "c15-segment", jf, of)
		var stderr tailBuf
		cmd.Stdout, cmd.Stderr = nil, &stderr
		forkMu.Lock()
		err := cmd.Start()
		forkMu.Unlock()
		if err == nil {
			err = cmd.Wait()
		}
		timedOut := ctx.Err() != nil
		cancel()
		if timedOut {
			return all, rs, segs, retries, errWatchdog
		}
		if err != nil {
			// a child that died: the code under test crashed (its stack is on stderr) or the environment killed it
			return all, rs, segs, retries, &childDied{seg: segs, err: err, stderr: stderr.String()}
		}
		ob, err := os.ReadFile(of)
		if err != nil {
			return all, rs, segs, retries, err
		}
		var out childOut
		if err := json.Unmarshal(ob, &out); err != nil {
			return all, rs, segs, retries, err
		}
		if out.Err != "" {
			return all, rs, segs, retries, errors.New(out.Err)
		}
		all = append(all, out.Obs...)
		retries += out.OpenRetries
		next, rs = out.Next, out.Resume
		segs++
	}
	return all, rs, segs, retries, nil
}
