package c15

import (
	"crypto/sha256"
	"fmt"
	"path"
	"sort"
	"strconv"
	"strings"
	"sync"
)

// The deciding oracle is RELATIONAL (section "judge" below): nothing pins a root encoding or a notion of
// "malformed" beyond the documented format. The reference model at the top of this file is a second
// opinion on today's executor: where it disagrees with the implementation without any relational
// constraint being violated, the disagreement is counted, never reported as a violation.

// ---- reference model (second opinion) --------------------------------------------------------
//
// A map from normalised key to value, changed only by well-formed blocks. A transaction is
// "key=value" (split at the first '='); the key names a slash-separated path and is normalised the
// way a path is ("a", "/a", "x/../a" are one key); a block is refused as a whole when one of its
// transactions has no '=', has an empty key, or names one of the two reserved genesis keys. The
// root is the concatenation of "key:value;" over the keys in byte order.

const fhKey = "/finalizedHeight"

func parseTx(tx string) (key, val string, ok bool) {
	i := strings.IndexByte(tx, '=')
	if i < 0 {
		return "", "", false
	}
	// white space around the key and around the value is not part of them
	key, val = strings.TrimSpace(tx[:i]), strings.TrimSpace(tx[i+1:])
	if key == "" {
		return "", "", false
	}
	key = path.Clean("/" + key)
	if key == "/genesis/initialized" || key == "/genesis/stateroot" {
		return "", "", false
	}
	return key, val, true
}

// parseBlock returns the writes of a block, whether it is well-formed, and whether it writes fhKey.
func parseBlock(b Block) (writes [][2]string, wellFormed, writesFH bool) {
	wellFormed = true
	for _, tx := range b.Txs {
		k, v, ok := parseTx(tx)
		if !ok {
			wellFormed = false
			continue
		}
		if k == fhKey {
			writesFH = true
		}
		writes = append(writes, [2]string{k, v})
	}
	return
}

func render(state map[string]string) string {
	keys := make([]string, 0, len(state))
	for k := range state {
		keys = append(keys, k)
	}
	sort.Strings(keys)
	var sb strings.Builder
	for _, k := range keys {
		sb.WriteString(k)
		sb.WriteByte(':')
		sb.WriteString(state[k])
		sb.WriteByte(';')
	}
	return sb.String()
}

// ---- what the statement itself fixes about transactions ------------------------------------------

// mustRefuse reports whether the documented format "key=value" already excludes the transaction:
// no '=' at all, or nothing in front of the first '='. Everything else (reserved names and their
// aliases, padding, blank keys) is left to the implementation, which is only held to ONE verdict
// per transaction string.
func mustRefuse(tx string) bool {
	i := strings.IndexByte(tx, '=')
	return i <= 0
}

func blockMustRefuse(b Block) (string, bool) {
	for _, tx := range b.Txs {
		if mustRefuse(tx) {
			return tx, true
		}
	}
	return "", false
}

// ---- canonical histories -----------------------------------------------------------------------

// extendKey appends transactions to a canonical history: the ordered sequence of the transactions of
// all accepted first executions, block boundaries and empty blocks not included ("the ordered
// transactions executed so far").
func extendKey(key string, txs []string) string {
	if len(txs) == 0 {
		return key
	}
	h := sha256.New()
	h.Write([]byte(key))
	for _, t := range txs {
		fmt.Fprintf(h, "%d:", len(t))
		h.Write([]byte(t))
	}
	return string(h.Sum(nil))
}

func blockKey(txs []string) string {
	return extendKey("block", txs) + strconv.Itoa(len(txs))
}

// ---- verdicts observed for single transactions (run-wide, probe-and-remember) --------------------

type txVerdict struct {
	refused bool
	err     string
}

// verdictBook remembers, for the whole run, the verdict this build gave for a transaction string
// when it was offered alone on a scratch instance.
type verdictBook struct {
	mu     sync.Mutex
	probe  func(tx string) (refused bool, err string, ok bool)
	known  map[string]txVerdict
	probes int64
}

// probeClass maps the generator's filler transactions "<key>=w<digits>" / "<key>=v<digits>" (millions of them, all
// different) to one representative per key: they are probed once per key, not once each (a scratch instance that is
// offered tens of millions of transactions one by one costs tens of gigabytes). Every other transaction is its own class.
func probeClass(tx string) string {
	i := strings.IndexByte(tx, '=')
	if i < 0 || i+2 >= len(tx) || (tx[i+1] != 'w' && tx[i+1] != 'v') {
		return tx
	}
	for _, c := range tx[i+2:] {
		if c < '0' || c > '9' {
			return tx
		}
	}
	return tx[:i+2] + "#"
}

func (v *verdictBook) lookup(tx string) (txVerdict, bool) {
	v.mu.Lock()
	defer v.mu.Unlock()
	t, ok := v.known[probeClass(tx)]
	return t, ok
}

// ask returns the remembered verdict or probes the transaction once.
func (v *verdictBook) ask(tx string) (txVerdict, bool) {
	v.mu.Lock()
	defer v.mu.Unlock()
	cls := probeClass(tx)
	if t, ok := v.known[cls]; ok {
		return t, true
	}
	if v.probe == nil {
		return txVerdict{}, false
	}
	ref, e, ok := v.probe(tx)
	if !ok {
		return txVerdict{}, false
	}
	v.probes++
	t := txVerdict{refused: ref, err: e}
	v.known[cls] = t
	return t, true
}

// ---- judge -----------------------------------------------------------------------------------

type problem struct {
	clause  string
	detail  string
	finding string // id of the finding whose predicted shape this failure has ("" = none)
}

type hitFn func(clause string)
type countFn func(name string)

// rootSeen is one root returned for a canonical history, with what the judge knew at that moment.
type rootSeen struct {
	root    string
	inst    string
	call    int
	what    string
	physFH  string // value physically under /finalizedHeight as far as the calls tell
	hasFH   bool   // whether anything was written under that key
	finals  int    // successful SetFinal calls so far on this instance
	mempool int    // InjectTx/GetTxs calls so far
	reopens int
	inits   int
}

type keyRec struct {
	first  rootSeen
	byInst map[string]rootSeen
}

type blockSeen struct {
	refused bool
	where   string
	err     string
}

// learned is what one history (both instances) has taught so far.
type learned struct {
	roots  map[string]*keyRec   // canonical history -> roots seen for it
	inits  map[string]rootSeen  // canonical history at the first successful InitChain -> root it returned
	initOK map[string]blockSeen // canonical history at the first InitChain -> whether it succeeded
	blocks map[string]blockSeen // tx list -> verdict
	okTx   map[string]string    // tx string -> where it was accepted inside a block
	oldRe  map[string]blockSeen // canonical history + older block offered again -> whether its transactions were applied again
	book   *verdictBook
}

func newLearned(book *verdictBook) *learned {
	return &learned{roots: map[string]*keyRec{}, inits: map[string]rootSeen{}, initOK: map[string]blockSeen{}, blocks: map[string]blockSeen{}, okTx: map[string]string{}, oldRe: map[string]blockSeen{}, book: book}
}

type instJudge struct {
	name  string
	other string
	h     History
	L     *learned
	hit   hitFn
	count countFn

	key       string
	accepted  []int          // blocks accepted (first executions), in order
	firstRoot map[int]string // block -> root returned by its first accepted execution
	inited    bool
	genesis   string
	physFH    string
	hasFH     bool
	finals    int
	mempool   int
	reopens   int
	inits     int
	since     map[string]bool // call kinds since the last root observation

	// golden marks the instance that runs on a copy of the recorded data directory (golden.go); genesisUnknown:
	// its first InitChain was answered before this run
	golden         bool
	genesisUnknown bool

	// second opinion
	model      map[string]string
	modelLost  bool
	fhReserved bool

	probs []problem
}

func (j *instJudge) seen(call int, what, got string) rootSeen {
	return rootSeen{root: got, inst: j.name, call: call, what: what, physFH: j.physFH, hasFH: j.hasFH, finals: j.finals, mempool: j.mempool, reopens: j.reopens, inits: j.inits}
}

func (j *instJudge) histDesc() string {
	if len(j.accepted) == 0 {
		return "no transaction executed yet"
	}
	s := make([]string, len(j.accepted))
	for i, b := range j.accepted {
		s[i] = strconv.Itoa(b)
	}
	return "transactions of blocks [" + strings.Join(s, " ") + "] executed"
}

func (j *instJudge) modelNote() string {
	if j.modelLost {
		return ""
	}
	return fmt.Sprintf(" (reference model of today's executor: %q)", render(j.model))
}

func stripFH(root, fh string, has bool) string {
	if !has {
		return root
	}
	return strings.Replace(root, fhKey+":"+fh+";", "", 1)
}

func sinceKinds(m map[string]bool) []string {
	ks := make([]string, 0, len(m))
	for k := range m {
		ks = append(ks, k)
	}
	sort.Strings(ks)
	return ks
}

// observeRoot judges one returned root: whatever root was first seen for the same canonical history -
// on this instance or on the other one, before or after SetFinal / mempool / InitChain / reopen calls,
// refused blocks and re-executions - must be returned again.
func (j *instJudge) observeRoot(kind string, call int, what, got string) {
	j.hit("root-observed")
	cur := j.seen(call, what, got)
	rec := j.L.roots[j.key]
	if rec == nil {
		j.L.roots[j.key] = &keyRec{first: cur, byInst: map[string]rootSeen{j.name: cur}}
		j.secondOpinion(got)
		j.since = map[string]bool{}
		return
	}
	j.hit("same-history-same-root")
	own, hasOwn := rec.byInst[j.name]
	oth, hasOth := rec.byInst[j.other]
	if hasOth {
		j.hit("instances-equal")
		if j.golden {
			j.hit("golden-datadir-equals-fresh")
		}
		if oth.finals != cur.finals || oth.physFH != cur.physFH || oth.hasFH != cur.hasFH {
			j.hit("equal-despite-setfinal-timing")
		}
		if oth.mempool != cur.mempool {
			j.hit("equal-despite-mempool")
		}
		if oth.reopens != cur.reopens {
			j.hit("equal-despite-restarts")
		}
		if oth.inits != cur.inits {
			j.hit("equal-despite-initchain-calls")
		}
	}
	clause := "same-history-same-root"
	if !hasOwn {
		clause = "instances-equal"
		if j.golden && hasOth {
			clause = "golden-datadir-equals-fresh"
		}
	}
	if hasOwn {
		ks := sinceKinds(j.since)
		for _, k := range ks {
			j.hit("root-unaffected-by-" + k)
		}
		if len(ks) > 0 {
			clause = "root-unaffected-by-" + ks[0]
		}
		if j.since["reopen"] {
			j.hit("reopen-keeps-root")
			clause = "reopen-keeps-root"
		}
		if j.since["refused-block"] {
			j.hit("refused-block-changes-nothing")
			clause = "refused-block-changes-nothing"
		}
	}
	if kind == "reexec" {
		j.hit("reexec-same-root")
		clause = "reexec-same-root"
	}
	if !hasOwn {
		rec.byInst[j.name] = cur
	}
	if got != rec.first.root {
		ref := rec.first
		if hasOwn && own.root != got {
			ref = own // "before" on the same instance is the sharper witness
		} else if hasOth && oth.root != got {
			ref = oth
		}
		detail := fmt.Sprintf("instance %s, %s returned root %q with the %s; the same history gave root %q on instance %s at call %d (%s)%s",
			j.name, what, got, j.histDesc(), ref.root, ref.inst, ref.call, ref.what, j.modelNote())
		if len(j.since) > 0 && hasOwn {
			detail += fmt.Sprintf("; between the two on this instance: %s", strings.Join(sinceKinds(j.since), ", "))
		}
		finding := ""
		if (cur.finals > 0 || ref.finals > 0) && stripFH(got, cur.physFH, cur.hasFH) == stripFH(ref.root, ref.physFH, ref.hasFH) {
			finding = FindingID
			detail += fmt.Sprintf("; they differ exactly by a %s entry that SetFinal wrote", fhKey)
		}
		j.probs = append(j.probs, problem{clause, detail, finding})
	}
	j.secondOpinion(got)
	j.since = map[string]bool{}
}

// secondOpinion compares a root with the reference model; a disagreement is evidence, not a verdict.
func (j *instJudge) secondOpinion(got string) {
	if j.modelLost {
		j.count("root_observations_without_model_opinion")
		return
	}
	if got == render(j.model) {
		j.hit("model-agrees")
	} else {
		j.count("model_root_differs_not_judged")
	}
}

// refusal judges a refused block offer (first offers only): the documented format explains it, or
// some transaction of the block is refused whenever it is offered, or the refusal is inconsistent.
func (j *instJudge) refusal(b Block, where, errText string) {
	L := j.L
	bk := blockKey(b.Txs)
	if v, ok := L.blocks[bk]; ok {
		j.hit("verdict-consistent")
		if !v.refused {
			j.probs = append(j.probs, problem{"verdict-consistent", fmt.Sprintf("instance %s, %s: the block was refused (%s), the same transaction list was executed at %s", j.name, where, errText, v.where), ""})
		}
	} else {
		L.blocks[bk] = blockSeen{refused: true, where: "instance " + j.name + " " + where, err: errText}
	}
	if tx, must := blockMustRefuse(b); must {
		j.hit("malformed-refused")
		_ = tx
		return
	}
	if len(b.Txs) == 0 {
		return
	}
	// some transaction of the block must be one that this build refuses
	distinct := map[string]bool{}
	var unknown []string
	for _, tx := range b.Txs {
		if distinct[tx] {
			continue
		}
		distinct[tx] = true
		if v, ok := L.book.lookup(tx); ok {
			if v.refused {
				j.hit("verdict-consistent")
				j.hit("refusal-explained-by-a-transaction-always-refused")
				if w, acc := L.okTx[tx]; acc {
					j.probs = append(j.probs, problem{"verdict-consistent", fmt.Sprintf("transaction %q is refused when offered alone (%s) and was executed inside a block at %s", tx, v.err, w), ""})
				}
				return
			}
			continue
		}
		unknown = append(unknown, tx)
	}
	if len(unknown) > 8 {
		j.count("refused_large_block_not_explained_not_judged")
		return
	}
	for _, tx := range unknown {
		v, ok := L.book.ask(tx)
		if !ok {
			j.count("refused_block_probe_unavailable_not_judged")
			return
		}
		if v.refused {
			j.hit("verdict-consistent")
			j.hit("refusal-explained-by-a-transaction-always-refused")
			if w, acc := L.okTx[tx]; acc {
				j.probs = append(j.probs, problem{"verdict-consistent", fmt.Sprintf("transaction %q is refused when offered alone (%s) and was executed inside a block at %s", tx, v.err, w), ""})
			}
			return
		}
	}
	j.hit("verdict-consistent")
	j.probs = append(j.probs, problem{"verdict-consistent", fmt.Sprintf("instance %s, %s: the block was refused (%s) although every one of its transactions is executed when offered alone", j.name, where, errText), ""})
}

// acceptance judges an executed block offer: it must not contain a transaction the documented format
// excludes, nor one that this build refuses elsewhere.
func (j *instJudge) acceptance(b Block, where string, root []byte) {
	L := j.L
	bk := blockKey(b.Txs)
	if v, ok := L.blocks[bk]; ok {
		j.hit("verdict-consistent")
		if v.refused {
			j.probs = append(j.probs, problem{"verdict-consistent", fmt.Sprintf("instance %s, %s: the block was executed, the same transaction list was refused at %s (%s)", j.name, where, v.where, v.err), ""})
		}
	} else {
		L.blocks[bk] = blockSeen{where: "instance " + j.name + " " + where}
	}
	if tx, must := blockMustRefuse(b); must {
		j.hit("malformed-refused")
		j.probs = append(j.probs, problem{"malformed-refused", fmt.Sprintf("instance %s, %s: a block holding %q (not of the form key=value with a key) was executed (root %q)", j.name, where, tx, root), ""})
	}
	for _, tx := range b.Txs {
		if v, ok := L.book.lookup(tx); ok && v.refused {
			j.hit("verdict-consistent")
			j.probs = append(j.probs, problem{"verdict-consistent", fmt.Sprintf("instance %s, %s: transaction %q was executed inside the block, offered alone it is refused (%s)", j.name, where, tx, v.err), ""})
		}
		if len(b.Txs) <= 16 {
			if _, ok := L.okTx[tx]; !ok {
				L.okTx[tx] = "instance " + j.name + " " + where
			}
		}
	}
}

func (j *instJudge) modelVerdict(b Block) (writes [][2]string, refused bool) {
	writes, wellFormed, writesFH := parseBlock(b)
	return writes, !wellFormed || (writesFH && j.fhReserved)
}

func (j *instJudge) modelApply(writes [][2]string) {
	for _, w := range writes {
		j.model[w[0]] = w[1]
		if w[0] == fhKey {
			j.physFH, j.hasFH = w[1], true
		}
	}
}

// judgeInstance replays the calls of one instance and compares every observation with what the
// history has taught so far.
func judgeInstance(name, other string, h History, L *learned, ops []Op, obs []Obs, fhReserved bool, hit hitFn, count countFn) *instJudge {
	j := &instJudge{name: name, other: other, h: h, L: L, hit: hit, count: count, firstRoot: map[int]string{}, since: map[string]bool{}, model: map[string]string{}, fhReserved: fhReserved}
	return j.run(ops, obs)
}

// run replays calls and observations on a judge (which may already carry a past, see judgeGolden).
func (j *instJudge) run(ops []Op, obs []Obs) *instJudge {
	name, h := j.name, j.h
	if len(obs) != len(ops) {
		j.probs = append(j.probs, problem{"harness", fmt.Sprintf("instance %s: %d calls but %d observations", name, len(ops), len(obs)), ""})
		return j
	}
	for i, op := range ops {
		o := obs[i]
		what := fmt.Sprintf("call %d %s", i, op.K)
		switch op.K {
		case "init":
			j.inits++
			j.judgeInit(i, what, o)
			j.since["initchain"] = true
		case "exec", "reexec":
			b := h.Blocks[op.B]
			what = fmt.Sprintf("call %d %s block %d %.200q", i, op.K, op.B, b.Txs)
			first, done := j.firstRoot[op.B]
			if op.K == "reexec" && done {
				var next *Obs
				if i+1 < len(ops) && ops[i+1].K == "observe" && obs[i+1].Err == "" {
					next = &obs[i+1]
				}
				j.judgeReexec(i, what, op, b, o, first, next)
			} else {
				j.judgeExec(i, what, op, b, o)
			}
		case "observe":
			what += " (empty block)"
			if o.Err != "" {
				// the only way to look at the root failed: consistency of the verdict is all that can be asked
				if !j.inited {
					// the statement does not say whether blocks may be executed before initialisation
					j.count("execution_before_first_initchain_refused_not_judged")
				} else {
					j.refusal(Block{}, what, o.Err)
				}
				j.since["refused-block"] = true
				break
			}
			j.acceptance(Block{}, what, o.Root)
			j.observeRoot("observe", i, what, string(o.Root))
		case "setfinal":
			if o.Err == "" {
				j.finals++
				j.physFH, j.hasFH = strconv.FormatUint(op.H, 10), true
				j.since["setfinal"] = true
			}
		case "inject", "gettxs":
			j.mempool++
			j.since["mempool"] = true
		case "reopen":
			j.reopens++
			j.since["reopen"] = true
		}
	}
	return j
}

func (j *instJudge) judgeInit(call int, what string, o Obs) {
	L := j.L
	if j.inited && j.genesisUnknown {
		// the first InitChain of this directory was answered by the build that wrote it (golden.go): a repeated call
		// must succeed; which bytes it returns is not compared with anything this build computes
		j.hit("init-on-golden-datadir")
		if o.Err != "" {
			j.probs = append(j.probs, problem{"init-idempotent", fmt.Sprintf("instance %s, %s: InitChain failed (%s) on a data directory that was initialised before", j.name, what, o.Err), ""})
			return
		}
		j.genesis, j.genesisUnknown = string(o.Root), false
		return
	}
	if j.inited {
		j.hit("init-idempotent")
		if o.Err != "" {
			j.probs = append(j.probs, problem{"init-idempotent", fmt.Sprintf("instance %s, %s: InitChain failed (%s) after an earlier call on this instance had succeeded", j.name, what, o.Err), ""})
		} else if string(o.Root) != j.genesis {
			j.probs = append(j.probs, problem{"init-idempotent", fmt.Sprintf("instance %s, %s: InitChain returned %q, the first call returned %q", j.name, what, o.Root, j.genesis), ""})
		}
		return
	}
	// the first (successful) InitChain of this instance; two instances initialised after the same history agree
	where := fmt.Sprintf("instance %s %s", j.name, what)
	if v, ok := L.initOK[j.key]; ok {
		j.hit("init-instances-agree")
		if v.refused != (o.Err != "") {
			j.probs = append(j.probs, problem{"init-instances-agree", fmt.Sprintf("%s with the %s: InitChain error %q; on the other instance, after the same history, at %s: error %q", where, j.histDesc(), o.Err, v.where, v.err), ""})
		}
	} else {
		L.initOK[j.key] = blockSeen{refused: o.Err != "", where: where, err: o.Err}
	}
	if o.Err != "" {
		j.count("first_initchain_failed")
		if len(j.accepted) == 0 {
			// nothing was ever executed here: an executor that cannot be initialised cannot take part in any clause
			j.probs = append(j.probs, problem{"init-idempotent", fmt.Sprintf("%s: InitChain failed on an instance that has executed nothing: %s", where, o.Err), ""})
		} else {
			j.count("initchain_after_execution_failed_not_judged")
		}
		return
	}
	j.inited, j.genesis = true, string(o.Root)
	j.hit("init-root")
	cur := j.seen(call, what, string(o.Root))
	if prev, ok := L.inits[j.key]; ok {
		if prev.root != cur.root {
			j.probs = append(j.probs, problem{"init-instances-agree", fmt.Sprintf("%s with the %s: first InitChain returned %q; on instance %s, after the same history, it returned %q", where, j.histDesc(), cur.root, prev.inst, prev.root), ""})
		}
	} else {
		L.inits[j.key] = cur
	}
	if !j.modelLost {
		if cur.root == render(j.model) {
			j.hit("model-agrees")
		} else {
			j.count("model_init_root_differs_not_judged")
		}
	}
}

func (j *instJudge) judgeExec(call int, what string, op Op, b Block, o Obs) {
	writes, modelRefuses := j.modelVerdict(b)
	if o.Err != "" {
		_, must := blockMustRefuse(b)
		if !j.inited && !must {
			// the statement does not say whether blocks may be executed before initialisation
			j.count("execution_before_first_initchain_refused_not_judged")
		} else {
			j.refusal(b, what, o.Err)
		}
		if !modelRefuses {
			j.count("model_verdict_differs_not_judged")
		}
		// the history does not grow; the next observed root tells whether the store changed
		j.since["refused-block"] = true
		return
	}
	j.acceptance(b, what, o.Root)
	if modelRefuses {
		j.count("model_verdict_differs_not_judged")
		j.modelLost = true
	}
	j.modelApply(writes)
	j.key = extendKey(j.key, b.Txs)
	j.accepted = append(j.accepted, op.B)
	j.firstRoot[op.B] = string(o.Root)
	j.observeRoot("exec", call, what, string(o.Root))
}

// judgeReexec judges the repeated offer of a block this instance has already executed.
// next is the observation of the empty block that directly follows, if there is one.
func (j *instJudge) judgeReexec(call int, what string, op Op, b Block, o Obs, first string, next *Obs) {
	tip := len(j.accepted) > 0 && j.accepted[len(j.accepted)-1] == op.B
	if !tip {
		// no later block may have touched the same keys: blocks that change nothing in between do not count
		tip = true
		for k := len(j.accepted) - 1; k >= 0 && j.accepted[k] != op.B; k-- {
			if len(j.h.Blocks[j.accepted[k]].Txs) > 0 {
				tip = false
				break
			}
		}
	}
	if o.Err != "" {
		// "already executed" is a harmless answer as long as nothing changed, which the next root shows
		j.count("reexecution_refused_not_judged")
		j.since["re-execution"] = true
		j.since["refused-block"] = true
		return
	}
	if tip {
		j.hit("reexec-equals-first-execution")
		if string(o.Root) != first {
			j.probs = append(j.probs, problem{"reexec-same-root", fmt.Sprintf("instance %s, %s: re-execution returned %q, the first execution returned %q and no transaction was executed in between%s", j.name, what, o.Root, first, j.modelNote()), ""})
			j.since["re-execution"] = true
			return
		}
		j.observeRoot("reexec", call, what, string(o.Root))
		j.since["re-execution"] = true
		return
	}
	// an OLDER block offered again after later blocks
	j.hit("old-block-reexecuted")
	var cur string
	if rec := j.L.roots[j.key]; rec != nil {
		cur = rec.first.root
	}
	got := string(o.Root)
	// the answer "root of the first execution" has two readings: the stored answer was repeated and nothing
	// changed, or the transactions were applied again and the state happens to be the one after that block; the
	// empty block that follows (the generator always adds one) tells which
	untouched := got == cur || (got == first && (next == nil || string(next.Root) == cur))
	// whichever way the build treats the repetition, it must be the same way on both instances: they have executed
	// the same transactions in the same order
	ok := j.key + "|" + blockKey(b.Txs)
	here := fmt.Sprintf("instance %s %s", j.name, what)
	if v, seen := j.L.oldRe[ok]; seen {
		j.hit("old-block-reexecution-same-effect-on-both-instances")
		if v.refused != untouched {
			eff := map[bool]string{true: "left the root unchanged", false: "applied the transactions again"}
			j.probs = append(j.probs, problem{"instances-equal", fmt.Sprintf("%s with the %s: re-executing the older block %s (returned %q); at %s, after the same history, it %s", here, j.histDesc(), eff[untouched], got, v.where, eff[v.refused]), ""})
		}
	} else {
		j.L.oldRe[ok] = blockSeen{refused: untouched, where: here}
	}
	switch {
	case got == cur:
		j.hit("old-block-reexecution-left-root-unchanged")
		j.observeRoot("reexec", call, what, got)
		j.since["re-execution"] = true
	case untouched:
		j.hit("old-block-reexecution-answered-with-its-first-root")
		j.since["re-execution"] = true
	default:
		// the transactions were applied once more on top of the later blocks
		detail := fmt.Sprintf("instance %s, %s: re-executing the older block returned %q; before it the root was %q, the first execution of that block had returned %q: the transactions were applied again on top of later blocks", j.name, what, o.Root, cur, first)
		if judgeOldReexec {
			j.probs = append(j.probs, problem{"reexec-harmless", detail, OldReexecFindingID})
		} else {
			j.count("old_block_reexecution_applied_again_not_judged")
		}
		// from here on the instance is held to "the transactions were executed once more"
		writes, _ := j.modelVerdict(b)
		j.modelApply(writes)
		j.key = extendKey(j.key, b.Txs)
		j.accepted = append(j.accepted, op.B)
		j.firstRoot[op.B] = got
		j.observeRoot("exec", call, what, got)
	}
}

// judgeHistory applies all clauses to one executed history.
func judgeHistory(h History, obsA, obsB []Obs, fhReserved bool, book *verdictBook, hit hitFn, count countFn) []problem {
	L := newLearned(book)
	a := judgeInstance("A", "B", h, L, h.OpsA, obsA, fhReserved, hit, count)
	b := judgeInstance("B", "A", h, L, h.OpsB, obsB, fhReserved, hit, count)
	return append(append([]problem{}, a.probs...), b.probs...)
}

// judgeGolden judges a history whose instance B runs on a copy of the recorded data directory: instance A (fresh)
// executes the recorded blocks and the new ones, instance B only the new ones. B's past (which blocks the directory
// holds, SetFinal and InitChain calls made on it) is taken from the record; the roots recorded there are not compared
// with anything.
func judgeGolden(h History, gold *goldenFile, obsA, obsB []Obs, fhReserved bool, book *verdictBook, hit hitFn, count countFn) []problem {
	L := newLearned(book)
	a := judgeInstance("A", "B", h, L, h.OpsA, obsA, fhReserved, hit, count)
	// replay of the record on a private book of what was learned: only the bookkeeping of the judge is kept
	past := History{Blocks: gold.Blocks}
	b := judgeInstance("B", "A", past, newLearned(book), gold.Ops, gold.Obs, fhReserved, func(string) {}, func(string) {})
	b.h, b.L, b.hit, b.count = h, L, hit, count
	b.probs, b.firstRoot, b.since = nil, map[int]string{}, map[string]bool{}
	b.golden, b.genesisUnknown = true, b.inited
	b.reopens++
	b.run(h.OpsB, obsB)
	return append(append([]problem{}, a.probs...), b.probs...)
}
