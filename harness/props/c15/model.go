package c15

import (
	"fmt"
	"path"
	"sort"
	"strconv"
	"strings"
)

// ---- reference model -------------------------------------------------------------------------
//
// Independent of the code under test: a map from normalised key to value, changed only by
// well-formed blocks. A transaction is "key=value" (split at the first '='); the key names a
// slash-separated path and is normalised the way a path is ("a", "/a", "x/../a" are one key);
// a block is refused as a whole when one of its transactions has no '=', has an empty key, or
// names one of the two reserved genesis keys. The root is the concatenation of "key:value;"
// over the keys in byte order. Nothing else (finalization, mempool, InitChain, restarts) enters.

const fhKey = "/finalizedHeight"

func parseTx(tx string) (key, val string, ok bool) {
	i := strings.IndexByte(tx, '=')
	if i < 0 {
		return "", "", false
	}
	// white space around the key and around the value is not part of them
	key, val = strings.TrimSpace(tx[:i]), strings.TrimSpace(tx[i+1:])
	if key == "" {
		return "", "", false
	}
	key = path.Clean("/" + key)
	if key == "/genesis/initialized" || key == "/genesis/stateroot" {
		return "", "", false
	}
	return key, val, true
}

// parseBlock returns the writes of a block, whether it is well-formed, and whether it writes fhKey.
func parseBlock(b Block) (writes [][2]string, wellFormed, writesFH bool) {
	wellFormed = true
	for _, tx := range b.Txs {
		k, v, ok := parseTx(tx)
		if !ok {
			wellFormed = false
			continue
		}
		if k == fhKey {
			writesFH = true
		}
		writes = append(writes, [2]string{k, v})
	}
	return
}

func render(state map[string]string) string {
	keys := make([]string, 0, len(state))
	for k := range state {
		keys = append(keys, k)
	}
	sort.Strings(keys)
	var sb strings.Builder
	for _, k := range keys {
		sb.WriteString(k)
		sb.WriteByte(':')
		sb.WriteString(state[k])
		sb.WriteByte(';')
	}
	return sb.String()
}

// renderWithFH is the root the predicted defect produces: the model state with the entry
// /finalizedHeight forced to what was physically written last under that key.
func renderWithFH(state map[string]string, fh string) string {
	c := make(map[string]string, len(state)+1)
	for k, v := range state {
		c[k] = v
	}
	c[fhKey] = fh
	return render(c)
}

// ---- judge -----------------------------------------------------------------------------------

type problem struct {
	clause  string
	detail  string
	finding bool // failure with the predicted shape of C15-setfinal-in-root, inside its trigger region
}

type hitFn func(clause string)

// rootSeen is one root returned for a block, with what the judge knew at that moment.
type rootSeen struct {
	root     string
	ok       bool
	physFH   string // value physically under /finalizedHeight as far as the calls tell
	hasFH    bool   // whether anything was written under that key
	finals   int    // successful SetFinal calls so far on this instance
	mempool  int    // InjectTx/GetTxs calls so far
	reopens  int
	inits    int
	expected string
}

type instJudge struct {
	name     string
	state    map[string]string
	inited   bool
	genesis  string
	physFH   string
	hasFH    bool
	finals   int
	mempool  int
	reopens  int
	inits    int
	since    map[string]bool // call kinds since the last root observation
	byBlock  map[int]rootSeen
	final    rootSeen
	lastExec int
	lastRoot string
	lastSet  bool
	cleanRe  bool // nothing but the re-execution itself happened since lastExec
	probs    []problem
}

// checkRoot judges one observed root against the model.
func (j *instJudge) checkRoot(clause, what, got string, hit hitFn) {
	exp := render(j.state)
	hit(clause)
	for k := range j.since {
		hit("root-unaffected-by-" + k)
	}
	j.since = map[string]bool{}
	if got == exp {
		return
	}
	if j.finals > 0 && j.hasFH && got == renderWithFH(j.state, j.physFH) {
		j.probs = append(j.probs, problem{clause, fmt.Sprintf("instance %s, %s: root %q, expected %q: they differ exactly by the entry %s:%s; that SetFinal wrote", j.name, what, got, exp, fhKey, j.physFH), true})
		return
	}
	j.probs = append(j.probs, problem{clause, fmt.Sprintf("instance %s, %s: root %q, expected %q", j.name, what, got, exp), false})
}

func (j *instJudge) seen(got string, ok bool) rootSeen {
	return rootSeen{root: got, ok: ok, physFH: j.physFH, hasFH: j.hasFH, finals: j.finals, mempool: j.mempool, reopens: j.reopens, inits: j.inits, expected: render(j.state)}
}

// judgeInstance replays the calls of one instance on the model and compares every observation.
// fhReserved says how this build treats a transaction that writes /finalizedHeight (refused like
// the genesis keys, or accepted as an ordinary key); it was observed once at start-up.
func judgeInstance(name string, h History, ops []Op, obs []Obs, fhReserved bool, hit hitFn) *instJudge {
	j := &instJudge{name: name, state: map[string]string{}, since: map[string]bool{}, byBlock: map[int]rootSeen{}, lastExec: -1}
	if len(obs) != len(ops) {
		j.probs = append(j.probs, problem{"harness", fmt.Sprintf("instance %s: %d calls but %d observations", name, len(ops), len(obs)), false})
		return j
	}
	for i, op := range ops {
		o := obs[i]
		what := fmt.Sprintf("call %d %s", i, op.K)
		switch op.K {
		case "init":
			j.inits++
			if o.Err != "" {
				j.probs = append(j.probs, problem{"init-idempotent", fmt.Sprintf("instance %s, %s: InitChain failed: %s", name, what, o.Err), false})
				break
			}
			if !j.inited {
				j.inited = true
				j.genesis = string(o.Root)
				// the first call reports the state at genesis time
				j.checkRoot("init-root", what+" (first InitChain)", string(o.Root), hit)
			} else {
				hit("init-idempotent")
				if string(o.Root) != j.genesis {
					j.probs = append(j.probs, problem{"init-idempotent", fmt.Sprintf("instance %s, %s: InitChain returned %q, the first call returned %q", name, what, o.Root, j.genesis), false})
				}
			}
			j.since["initchain"] = true
		case "exec", "reexec":
			b := h.Blocks[op.B]
			what = fmt.Sprintf("call %d %s block %d %q", i, op.K, op.B, b.Txs)
			writes, wellFormed, writesFH := parseBlock(b)
			refused := !wellFormed || (writesFH && fhReserved)
			if refused {
				if !wellFormed {
					hit("malformed-refused")
				} else {
					hit("reserved-finalizedHeight-tx-refused")
				}
				if o.Err == "" {
					cl := "malformed-refused"
					if wellFormed {
						cl = "reserved-key-consistent"
					}
					j.probs = append(j.probs, problem{cl, fmt.Sprintf("instance %s, %s: a block that must be refused was executed (root %q)", name, what, o.Root), false})
				}
				// the model does not change; the next observed root tells whether the store did
				j.since["refused-block"] = true
				j.cleanRe = false
				break
			}
			if o.Err != "" {
				cl := "execute-ok"
				if writesFH {
					cl = "reserved-key-consistent"
				}
				j.probs = append(j.probs, problem{cl, fmt.Sprintf("instance %s, %s: well-formed block refused: %s", name, what, o.Err), false})
				break
			}
			for _, w := range writes {
				j.state[w[0]] = w[1]
				if w[0] == fhKey {
					j.physFH, j.hasFH = w[1], true
					hit("finalizedHeight-tx-accepted-as-ordinary-key")
				}
			}
			if op.K == "reexec" {
				j.since["re-execution"] = true
				j.checkRoot("reexec-same-root", what, string(o.Root), hit)
				if j.cleanRe && j.lastExec == op.B {
					hit("reexec-equals-first-execution")
					if string(o.Root) != j.lastRoot {
						j.probs = append(j.probs, problem{"reexec-same-root", fmt.Sprintf("instance %s, %s: re-execution returned %q, the first execution returned %q, nothing in between", name, what, o.Root, j.lastRoot), false})
					}
				}
			} else {
				j.checkRoot("model-root", what, string(o.Root), hit)
				j.byBlock[op.B] = j.seen(string(o.Root), true)
			}
			j.lastExec, j.lastRoot, j.cleanRe = op.B, string(o.Root), true
		case "observe":
			if o.Err != "" {
				j.probs = append(j.probs, problem{"execute-ok", fmt.Sprintf("instance %s, %s: empty block refused: %s", name, what, o.Err), false})
				break
			}
			clause := "model-root"
			if j.since["refused-block"] {
				clause = "refused-block-changes-nothing"
			} else if j.since["reopen"] {
				clause = "reopen-keeps-root"
			}
			j.checkRoot(clause, what+" (empty block)", string(o.Root), hit)
			j.final = j.seen(string(o.Root), true)
		case "setfinal":
			if o.Err == "" {
				j.finals++
				j.physFH, j.hasFH = strconv.FormatUint(op.H, 10), true
				j.since["setfinal"] = true
				j.cleanRe = false
			}
		case "inject", "gettxs":
			j.mempool++
			j.since["mempool"] = true
		case "reopen":
			j.reopens++
			j.since["reopen"] = true
		}
	}
	return j
}

func stripFH(root, fh string, has bool) string {
	if !has {
		return root
	}
	return strings.Replace(root, fhKey+":"+fh+";", "", 1)
}

// judgeHistory applies all clauses to one executed history.
func judgeHistory(h History, obsA, obsB []Obs, fhReserved bool, hit hitFn) []problem {
	a := judgeInstance("A", h, h.OpsA, obsA, fhReserved, hit)
	b := judgeInstance("B", h, h.OpsB, obsB, fhReserved, hit)
	probs := append(append([]problem{}, a.probs...), b.probs...)
	cmp := func(what string, ra, rb rootSeen) {
		if !ra.ok || !rb.ok {
			return
		}
		hit("instances-equal")
		if ra.finals != rb.finals || ra.physFH != rb.physFH || ra.hasFH != rb.hasFH {
			hit("equal-despite-setfinal-timing")
		}
		if ra.mempool != rb.mempool {
			hit("equal-despite-mempool")
		}
		if ra.reopens != rb.reopens {
			hit("equal-despite-restarts")
		}
		if ra.inits != rb.inits {
			hit("equal-despite-initchain-calls")
		}
		if ra.root == rb.root {
			return
		}
		inTrigger := ra.finals > 0 || rb.finals > 0
		if inTrigger && stripFH(ra.root, ra.physFH, ra.hasFH) == stripFH(rb.root, rb.physFH, rb.hasFH) {
			probs = append(probs, problem{"instances-equal", fmt.Sprintf("%s: the two instances executed the same blocks but returned %q (A, %d SetFinal calls so far) and %q (B, %d SetFinal calls so far): they differ exactly by a %s entry", what, ra.root, ra.finals, rb.root, rb.finals, fhKey), true})
			return
		}
		probs = append(probs, problem{"instances-equal", fmt.Sprintf("%s: the two instances executed the same blocks but returned %q (A) and %q (B)", what, ra.root, rb.root), false})
	}
	for i := range h.Blocks {
		ra, oka := a.byBlock[i]
		rb, okb := b.byBlock[i]
		if oka && okb {
			cmp(fmt.Sprintf("after block %d", i), ra, rb)
		}
	}
	cmp("at the end", a.final, b.final)
	return probs
}
