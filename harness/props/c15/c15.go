// Package c15 decides C15: the reference key-value execution layer returns a state root that
// depends only on the ordered transactions executed so far (see /verif/DESIGN.md §7).
//
// Two real KVExecutor instances (each with its own Badger directory) are fed the same generated
// blocks while everything else - SetFinal timing, mempool traffic, repeated InitChain, restarts,
// re-execution, whether a refused block is offered at all - is chosen independently per instance.
// The deciding oracle is relational (model.go, judge): the root first seen for a canonical history
// (the ordered transactions of all accepted first executions) must be returned whenever that history
// is seen again - on the same instance, on the other one, after SetFinal / InjectTx / GetTxs / a
// repeated InitChain / a reopen, after a refused block, after a re-execution. Any deterministic root
// function passes. An independent reference model of today's executor gives a second opinion that is
// counted, never judged. A second phase (conc.go) drives one instance from several goroutines and
// compares it with a sequentially driven one, in child processes that carry the race detector when
// the binary was built with -race; a third (kill.go) kills a child inside a call on the real store.
// A few histories (golden.go) put instance B on a copy of a data directory recorded from an earlier
// build - the restart of an upgraded node - while the fresh instance A executes the recorded blocks too.
//
// Generator regions (decided at generation time, DESIGN §4):
//
//   - clean:    no SetFinal call, no transaction on /finalizedHeight. Every failure is a VIOLATION.
//   - setfinal: the two instances finalize with different policies (each | lag2 | sparse | late |
//     never | early); no transaction on /finalizedHeight. This is the trigger region of
//     C15-setfinal-in-root: a root (or a pair of roots) that is wrong *exactly* by the entry
//     "/finalizedHeight:<last SetFinal argument>;" on an instance that has called SetFinal is
//     reported through r.Finding; any other difference is a VIOLATION. The oracle itself is the
//     property as stated (root independent of SetFinal), so the region is silent once SetFinal no
//     longer leaks into the root.
//   - fhtx:     blocks containing a transaction whose key normalises to /finalizedHeight
//     ("finalizedHeight", "/finalizedHeight", "x/../finalizedHeight", ...), with or without SetFinal
//     calls. The statement does not say whether that key is a legal application key. The run
//     observes once, on a scratch instance, whether the build refuses such a transaction (as it
//     refuses the two genesis keys) or accepts it, and then holds every history to that choice:
//     refused  => such a block is judged exactly like a malformed one (error, nothing changes);
//     accepted => the key is an ordinary key of the model (its value is what the last transaction
//     wrote). With "accepted", a SetFinal that overwrites the value is the same defect again and is
//     reported as the finding when the root is off exactly by that entry.
package c15

import (
	"context"
	"errors"
	"fmt"
	"os"
	"path/filepath"
	"runtime/pprof"
	"sort"
	"strings"
	"sync"
	"sync/atomic"
	"time"

	kv "github.com/evstack/ev-node/apps/testapp/kv"

	"verifharness/vk"
	"verifharness/world"
)

// Level is the verification level claimed for this property.
const Level = "exploration"

var shapedReported, goldenReported atomic.Int64

// FindingID is the finding whose trigger region is "SetFinal was called before a root was observed".
const FindingID = "C15-setfinal-in-root"

// OldReexecFindingID names the behaviour "an OLDER block offered again after later blocks is applied
// once more on top of them". Whether the statement's "re-executing a block is harmless" covers it is
// undecided (the node only ever re-executes its tip block); judgeOldReexec turns it into a finding.
const OldReexecFindingID = "C15-old-block-reexecution"

const judgeOldReexec = false

var errFreshInit = errors.New("first InitChain")

// newVerdictBook opens the scratch instance on which single transactions are offered alone, once each
// (probe-and-remember): the statement does not say which transactions beyond the documented format
// "key=value" are malformed (reserved names, their path aliases, blank keys), it only makes sense if
// the build gives every transaction string ONE verdict wherever it is offered.
func newVerdictBook(base string) (*verdictBook, func(), error) {
	ex, err := kv.NewKVExecutor(filepath.Join(base, "probe"), "p")
	if err != nil {
		return nil, nil, err
	}
	ctx := context.Background()
	root, _, err := ex.InitChain(ctx, genesisTime, 1, chainID)
	if err != nil {
		_ = closeExec(ex)
		return nil, nil, fmt.Errorf("%w: %v", errFreshInit, err)
	}
	height, prev := uint64(0), root
	book := &verdictBook{known: map[string]txVerdict{}}
	book.probe = func(tx string) (bool, string, bool) {
		r, _, err := ex.ExecuteTxs(ctx, [][]byte{[]byte(tx)}, height+1, blockTime(int(height)), prev)
		if err != nil {
			return true, errStr(err), true
		}
		height, prev = height+1, r
		return false, "", true
	}
	return book, func() { _ = closeExec(ex) }, nil
}

func rootsOf(ops []Op, obs []Obs) []string {
	out := []string{}
	for i, o := range obs {
		if i >= len(ops) {
			break
		}
		k := ops[i].K
		switch k {
		case "exec", "reexec", "observe", "init":
			if o.Err != "" {
				out = append(out, fmt.Sprintf("%d %s -> error: %s", i, opsString(ops[i:i+1]), o.Err))
			} else {
				out = append(out, fmt.Sprintf("%d %s -> %q", i, opsString(ops[i:i+1]), string(o.Root)))
			}
		case "setfinal":
			out = append(out, fmt.Sprintf("%d %s -> err=%q", i, opsString(ops[i:i+1]), o.Err))
		case "gettxs":
			out = append(out, fmt.Sprintf("%d gettxs -> %q", i, o.Txs))
		default:
			out = append(out, fmt.Sprintf("%d %s", i, opsString(ops[i:i+1])))
		}
	}
	return out
}

func runHistory(r *vk.Run, base string, h History, fhReserved, canClose bool, book *verdictBook, gold *goldenFile) {
	dir := filepath.Join(base, fmt.Sprintf("h%d", h.ID))
	if err := os.MkdirAll(dir, 0o755); err != nil {
		r.Inconclusive("mkdir: " + err.Error())
		return
	}
	defer os.RemoveAll(dir)
	ctx := context.Background()
	var obsA, obsB []Obs
	var errA, errB error
	child := h.Child || !canClose
	if h.Golden > 0 {
		// instance B starts on a private copy of the recorded data directory, with the driver state of the record
		if err := gold.unpack(dir); err != nil {
			r.Inconclusive(fmt.Sprintf("history %d: unpacking the recorded data directory: %v", h.ID, err))
			return
		}
		rs := gold.Resume
		rs.First = map[int]FirstExec{} // private to this history (the recorded blocks are never offered again)
		for k, v := range gold.Resume.First {
			rs.First[k] = v
		}
		if child {
			var sa, ra, rb int
			obsA, sa, ra, errA = runInChildren(dir, "a", h.Blocks, h.OpsA)
			obsB, _, rb, errB = runInChildrenFrom(dir, goldenSub, h.Blocks, h.OpsB, rs)
			r.Count("child_process_segments", int64(sa))
			if ra+rb > 0 {
				r.Count("first_open_after_unclean_exit_failed_on_zero_length_wal", int64(ra+rb))
			}
		} else {
			obsA, errA = runInProcess(ctx, dir, "a", h.Blocks, h.OpsA)
			obsB, errB = runInProcessFrom(ctx, dir, goldenSub, h.Blocks, h.OpsB, &rs)
		}
		r.Count("histories_on_recorded_data_directory", 1)
	} else if child {
		var sa, sb, ra, rb int
		obsA, sa, ra, errA = runInChildren(dir, "a", h.Blocks, h.OpsA)
		obsB, sb, rb, errB = runInChildren(dir, "b", h.Blocks, h.OpsB)
		r.Count("child_process_segments", int64(sa+sb))
		if ra+rb > 0 {
			r.Count("first_open_after_unclean_exit_failed_on_zero_length_wal", int64(ra+rb))
		}
		r.Count("histories_with_restart_by_process_exit", 1)
	} else {
		obsA, errA = runInProcess(ctx, dir, "a", h.Blocks, h.OpsA)
		obsB, errB = runInProcess(ctx, dir, "b", h.Blocks, h.OpsB)
	}
	witness := func() any {
		w := map[string]any{"history": h, "finalizedHeight_tx_refused": fhReserved,
			"observed_a": rootsOf(h.OpsA, obsA), "observed_b": rootsOf(h.OpsB, obsB)}
		if h.Golden > 0 {
			w["instance_b"] = fmt.Sprintf("opened on a copy of %s/datadir.tar.gz: the data directory an earlier build left after the calls below (blocks 0-%d of the history)", goldenDir(), h.Golden-1)
			w["recorded_calls"] = rootsOf(gold.Ops, gold.Obs)
		}
		return w
	}
	for _, e := range []error{errA, errB} {
		if e == nil {
			continue
		}
		if e == errWatchdog {
			r.Inconclusive(fmt.Sprintf("history %d: child watchdog", h.ID))
			return
		}
		if environmental(e.Error()) {
			// trouble of the machine or of the harness's own processes (flock contention), not executor behaviour
			r.Inconclusive(fmt.Sprintf("history %d: %v", h.ID, e))
			return
		}
		var cd *childDied
		if errors.As(e, &cd) {
			if cd.crashed() {
				r.Violation("no-crash", fmt.Sprintf("history %d: the process driving an instance crashed: %v", h.ID, e), witness())
			} else {
				r.Inconclusive(fmt.Sprintf("history %d: %v", h.ID, e))
			}
			return
		}
		// the directory cannot be opened again after a restart: no root can be reproduced from it
		r.Violation("reopen", fmt.Sprintf("history %d: %v", h.ID, e), witness())
		return
	}
	var probs []problem
	if h.Golden > 0 {
		probs = judgeGolden(h, gold, obsA, obsB, fhReserved, book, r.Hit, func(n string) { r.Count(n, 1) })
		for i := range probs {
			probs[i].detail += " [instance B runs on a copy of the recorded data directory of an earlier build, which holds blocks " + fmt.Sprintf("0-%d", h.Golden-1) + "; instance A is fresh]"
		}
	} else {
		probs = judgeHistory(h, obsA, obsB, fhReserved, book, r.Hit, func(n string) { r.Count(n, 1) })
	}
	var other, shaped, old []problem
	for _, p := range probs {
		if p.finding == OldReexecFindingID {
			old = append(old, p)
		} else if p.finding == FindingID && h.Region != "clean" {
			shaped = append(shaped, p)
		} else {
			other = append(other, p)
		}
	}
	if len(other) > 0 && h.Golden > 0 {
		// OBSERVED, NOT JUDGED: the statement quantifies over call histories on two instances of the code under test; a
		// data directory left by an EARLIER build is an upgrade, which it does not mention. A build that lays its data
		// out differently (without migrating a test application's old directories) keeps the property, so a difference
		// here is counted in the evidence and reported on stdout as a note, never as a violation.
		goldenReported.Add(1)
		r.Count("histories_on_recorded_data_directory_of_an_earlier_build_that_differ_from_a_fresh_instance", 1)
	} else if len(other) > 0 {
		ds := make([]string, 0, len(other))
		for _, p := range other {
			ds = append(ds, p.detail)
		}
		r.Violation(other[0].clause, strings.Join(ds, " ;; "), witness())
	} else if len(shaped) > 0 {
		r.Count("histories_failing_as_"+FindingID, 1)
		if !r.IsKnown(FindingID) && shapedReported.Add(1) > 3 {
			// unlisted, so each report is a VIOLATION with its own replay file: three are enough
			shaped = nil
		}
	}
	if len(other) == 0 && len(shaped) > 0 {
		// prefer the statement's own clause (two instances, same blocks, different roots) as headline
		for i, p := range shaped {
			if p.clause == "instances-equal" {
				shaped[0], shaped[i] = shaped[i], shaped[0]
				break
			}
		}
		r.Finding(FindingID, shaped[0].clause, fmt.Sprintf("history %d (%d blocks, SetFinal policy %s/%s): %s (%d observations of this shape in the history)", h.ID, len(h.Blocks), h.PolA, h.PolB, shaped[0].detail, len(shaped)), witness())
	}
	if len(old) > 0 {
		r.Finding(OldReexecFindingID, old[0].clause, fmt.Sprintf("history %d: %s (%d observations of this shape in the history)", h.ID, old[0].detail, len(old)), witness())
	}
	nops := map[string]int64{}
	for _, ops := range [][]Op{h.OpsA, h.OpsB} {
		for _, o := range ops {
			nops[o.K]++
		}
	}
	for k, n := range nops {
		r.Count("calls_"+k, n)
	}
	r.Count("blocks", int64(len(h.Blocks)))
	r.Count("histories_region_"+h.Region, 1)
	r.Eval(h.abstract(), h.nontrivial(), h.sample())
}

// Run is the check entry point.
func Run(r *vk.Run) {
	world.Silence()
	if os.Getenv("VERIF_C15_WRITE_GOLDEN") == "1" {
		os.Exit(writeGolden())
	}
	if p := os.Getenv("C15_DEV_HEAPPROF"); p != "" {
		// development aid: heap profile after 12 s
		go func() {
			time.Sleep(70 * time.Second)
			if f, err := os.Create(p); err == nil {
				_ = pprof.WriteHeapProfile(f)
				f.Close()
			}
		}()
	}
	r.Rule = "(1) seeded histories of 5-40 blocks (1-5 'key=value' txs over a 15-key alphabet with path aliases, padding and reserved look-alikes; 18% refused blocks: no '=', empty or blank key, genesis key aliases, always behind state-changing valid txs, some in blocks of 63-1025 txs) executed on two real KVExecutor instances with independently generated call sequences (InitChain placement/repeats, SetFinal policy each|lag2|sparse|late|never|early, InjectTx/GetTxs incl. the block's own txs, reopen in process or by child processes, re-execution of the tip block, re-execution of an older block in 1 history of 6, refused block offered or not, empty-block observations); regions: clean (no SetFinal, no tx on /finalizedHeight), setfinal (different SetFinal timing), fhtx (txs writing /finalizedHeight); plus histories in which instance B is opened on a copy of the data directory an earlier build left behind (golden/c15: InitChain, 6 blocks, SetFinal, clean close) and executes 2-9 new blocks, against a fresh instance A that executes the recorded blocks and the new ones; (2) concurrent cases: one instance executes 8-15 blocks (large refused and large valid ones among them) while other goroutines call SetFinal / InjectTx / GetTxs / InitChain without pause, compared block by block with an instance fed the same blocks alone, in child processes (race detector when built with -race); (3) kill cases: a child process is killed at every write of a call sequence on the real store (before / after the write), a new process reopens, initialises and continues. non-trivial = >=1 refused block, reopen or SetFinal (1); every kind of background call overlapped an execution (2); the cut was reached (3); distinct by region + block kinds + call-kind sequence of both instances, resp. block kinds, resp. cut position"
	r.Assume("the deciding oracle is relational: the root first seen for a canonical history (ordered txs of all accepted first executions; empty blocks and block boundaries do not count) must be seen again whenever that history recurs; the reference model (sorted 'key:value;' over path-normalised keys) is a second opinion: clause model-agrees / counters model_*_not_judged")
	r.Assume("malformed = no '=' or nothing before the first '=' (documented format); every other transaction string is held to ONE verdict: offered alone on a scratch instance once, remembered, and compared with every block verdict")
	r.Assume("restart of this type = new KVExecutor on the same directory; in-process after closing the private Badger handle by reflection (KVExecutor has no Close), and for a sample of histories by successive child processes that exit without closing")
	r.Assume("the recorded data directory stands for 'written by an earlier build': it was produced once by the pinned tree and is opened through NewKVExecutor like any other; the roots in its record are driver input (previous-root argument) and never compared; the value InitChain returns on it is not judged, only that the call succeeds and repeats itself")
	r.Assume("process exit / process kill, not power loss: Badger's unsynced writes live in the page cache")
	base := world.TempDir(vk.Root(), "C15-*")
	defer os.RemoveAll(base)

	n := r.N(300, 10000)
	min := int64(n / 3)
	if phase("hist") {
		r.Require("same-history-same-root", int64(n)*3)
		r.Require("instances-equal", int64(n)*3)
		r.Require("equal-despite-setfinal-timing", min)
		r.Require("equal-despite-mempool", min)
		r.Require("equal-despite-restarts", min/3)
		r.Require("malformed-refused", min)
		r.Require("verdict-consistent", min)
		r.Require("refused-block-changes-nothing", min)
		r.Require("root-unaffected-by-re-execution", min/3)
		r.Require("init-idempotent", int64(n))
		r.Require("reopen-keeps-root", min/3)
		r.Require("root-unaffected-by-setfinal", min)
		r.Require("root-unaffected-by-mempool", min)
		r.Require("golden-datadir-equals-fresh", int64(r.N(24, 400))*3)
	}
	if phase("conc") {
		concurrentPhase(r, base)
		r.Require("concurrent-equals-sequential", int64(r.N(48, 480))*4)
		r.Require("concurrent-case-with-overlap", int64(r.N(48, 480))/2)
	}
	// the sequential phases gain nothing from the race detector and are several times slower with it: when this
	// is the -race build and the plain build of the same harness lies next to it (vcheck builds both), they run there
	if exe := plainSibling(); raceEnabled && exe != "" {
		r.Note("sequential_phases_ran_in", exe)
		for _, res := range r.RunShardsExe(exe, "c15-seq", 1, 1, 3*time.Hour, base) {
			if res.ExitErr != nil {
				tail := res.Tail
				if len(tail) > 800 {
					tail = tail[len(tail)-800:]
				}
				r.Inconclusive(fmt.Sprintf("the process running the sequential phases ended abnormally (%v): %s", res.ExitErr, tail))
			}
		}
		return
	}
	r.Note("sequential_phases_ran_in", "this process")
	sequentialPhases(r, base)
}

func init() { vk.Children["c15-seq"] = childSeq }

// childSeq runs the kill and history phases in a child: args = shard nShards tier base.
func childSeq(args []string) int {
	world.Silence()
	if len(args) < 4 {
		return 2
	}
	r := vk.NewChildRun("C15", args[2], Level, os.Stdout)
	sequentialPhases(r, args[3])
	r.FlushHits()
	return 0
}

// plainSibling returns the path of the harness binary built without -race that vcheck keeps next to the
// -race one ("vh" next to "vh-race"), if it is at least as recent; "" otherwise.
func plainSibling() string {
	self := vk.SelfExe()
	if !strings.HasSuffix(self, "-race") {
		return ""
	}
	plain := strings.TrimSuffix(self, "-race")
	ps, err1 := os.Stat(plain)
	ss, err2 := os.Stat(self)
	if err1 != nil || err2 != nil || ps.IsDir() || ps.ModTime().Before(ss.ModTime()) {
		return ""
	}
	return plain
}

// phase: development knob C15_PHASES=hist,conc,kill restricts the run to some phases (default: all three).
func phase(p string) bool {
	sel := os.Getenv("C15_PHASES")
	return sel == "" || strings.Contains(","+sel+",", ","+p+",")
}

// sequentialPhases runs the kill phase and the two-instance histories.
func sequentialPhases(r *vk.Run, base string) {
	book, closeBook, err := newVerdictBook(base)
	if err != nil {
		if errors.Is(err, errFreshInit) {
			r.Violation("init-idempotent", "InitChain on a fresh KVExecutor failed: "+err.Error(), map[string]any{"dir": base})
		} else {
			r.Inconclusive("cannot open a KVExecutor on a fresh directory: " + err.Error())
		}
		return
	}
	defer closeBook()
	// warm-up of the verdict book with the generator's fixed strings (a cache, not knowledge: every verdict is observed)
	for _, tx := range badTxs {
		if !mustRefuse(tx) {
			book.ask(tx)
		}
	}
	fhReserved := false
	if v, ok := book.ask("finalizedHeight=7"); ok {
		fhReserved = v.refused
	}
	r.Note("finalizedHeight_tx_treatment_observed", map[bool]string{true: "refused as reserved key", false: "accepted as ordinary key"}[fhReserved])
	canClose := true
	if ex, err := kv.NewKVExecutor(base, "closeprobe"); err == nil {
		if closeExec(ex) != nil {
			canClose = false
		}
	}
	r.Note("in_process_reopen", canClose)

	if phase("kill") {
		killPhase(r, base)
	}
	if !phase("hist") {
		return
	}

	g := &gen{rng: r.Rand("histories")}
	n := r.N(300, 10000)
	hs := make([]History, n)
	for i := range hs {
		hs[i] = g.history(i, r.Quick())
	}
	// histories on the recorded data directory of an earlier build (golden.go), from a generator of their own so
	// that the case list above does not depend on them
	gold, err := loadGolden()
	if err != nil {
		r.Inconclusive(err.Error() + " (expected below " + goldenDir() + ")")
	} else {
		gg := &gen{rng: r.Rand("recorded-datadir"), ctr: 1 << 20}
		for i, ng := 0, r.N(24, 400); i < ng; i++ {
			hs = append(hs, gg.goldenHistory(n+i, gold))
		}
	}

	var wg sync.WaitGroup
	ch := make(chan History)
	for w := 0; w < 16; w++ {
		wg.Add(1)
		go func() {
			defer wg.Done()
			for h := range ch {
				r.Guard(map[string]any{"history": h.ID}, func() { runHistory(r, base, h, fhReserved, canClose, book, gold) })
			}
		}()
	}
	for _, h := range hs {
		ch <- h
	}
	close(ch)
	wg.Wait()
	book.mu.Lock()
	r.Note("transactions_probed_alone", book.probes)
	refused := []string{}
	for tx, v := range book.known {
		if v.refused && len(refused) < 40 {
			refused = append(refused, fmt.Sprintf("%q", tx))
		}
	}
	book.mu.Unlock()
	sort.Strings(refused)
	r.Note("transactions_refused_when_offered_alone", refused)
}
