// Package c15 decides C15: the reference key-value execution layer returns a state root that
// depends only on the ordered transactions executed so far (see /verif/DESIGN.md §7).
//
// Two real KVExecutor instances (each with its own Badger directory) are fed the same generated
// blocks while everything else - SetFinal timing, mempool traffic, repeated InitChain, restarts,
// re-execution, whether a refused block is offered at all - is chosen independently per instance.
// An independent reference model (model.go) predicts every returned root.
//
// Generator regions (decided at generation time, DESIGN §4):
//
//   - clean:    no SetFinal call, no transaction on /finalizedHeight. Every failure is a VIOLATION.
//   - setfinal: the two instances finalize with different policies (each | lag2 | sparse | late |
//     never | early); no transaction on /finalizedHeight. This is the trigger region of
//     C15-setfinal-in-root: a root (or a pair of roots) that is wrong *exactly* by the entry
//     "/finalizedHeight:<last SetFinal argument>;" on an instance that has called SetFinal is
//     reported through r.Finding; any other difference is a VIOLATION. The oracle itself is the
//     property as stated (root independent of SetFinal), so the region is silent once SetFinal no
//     longer leaks into the root.
//   - fhtx:     blocks containing a transaction whose key normalises to /finalizedHeight
//     ("finalizedHeight", "/finalizedHeight", "x/../finalizedHeight", ...), with or without SetFinal
//     calls. The statement does not say whether that key is a legal application key. The run
//     observes once, on a scratch instance, whether the build refuses such a transaction (as it
//     refuses the two genesis keys) or accepts it, and then holds every history to that choice:
//     refused  => such a block is judged exactly like a malformed one (error, nothing changes);
//     accepted => the key is an ordinary key of the model (its value is what the last transaction
//     wrote). With "accepted", a SetFinal that overwrites the value is the same defect again and is
//     reported as the finding when the root is off exactly by that entry.
package c15

import (
	"context"
	"fmt"
	"os"
	"path/filepath"
	"strings"
	"sync"
	"sync/atomic"

	kv "github.com/evstack/ev-node/apps/testapp/kv"

	"verifharness/vk"
	"verifharness/world"
)

// Level is the verification level claimed for this property.
const Level = "exploration"

var shapedReported atomic.Int64

// FindingID is the finding whose trigger region is "SetFinal was called before a root was observed".
const FindingID = "C15-setfinal-in-root"

// probeFHReserved observes once how this build treats a transaction that writes the key SetFinal
// uses: refused like the two genesis keys (true) or accepted as an ordinary key (false). The
// property does not say which; it only requires that the choice is made consistently, which is
// what every history of region "fhtx" then checks.
func probeFHReserved(base string) (bool, error) {
	dir := filepath.Join(base, "probe")
	ex, err := kv.NewKVExecutor(dir, "p")
	if err != nil {
		return false, err
	}
	defer func() { _ = closeExec(ex) }()
	ctx := context.Background()
	if _, _, err := ex.InitChain(ctx, genesisTime, 1, chainID); err != nil {
		return false, err
	}
	_, _, err = ex.ExecuteTxs(ctx, [][]byte{[]byte("finalizedHeight=7")}, 1, blockTime(0), nil)
	return err != nil, nil
}

func rootsOf(ops []Op, obs []Obs) []string {
	out := []string{}
	for i, o := range obs {
		if i >= len(ops) {
			break
		}
		k := ops[i].K
		switch k {
		case "exec", "reexec", "observe", "init":
			if o.Err != "" {
				out = append(out, fmt.Sprintf("%d %s -> error: %s", i, opsString(ops[i:i+1]), o.Err))
			} else {
				out = append(out, fmt.Sprintf("%d %s -> %q", i, opsString(ops[i:i+1]), string(o.Root)))
			}
		case "setfinal":
			out = append(out, fmt.Sprintf("%d %s -> err=%q", i, opsString(ops[i:i+1]), o.Err))
		case "gettxs":
			out = append(out, fmt.Sprintf("%d gettxs -> %q", i, o.Txs))
		default:
			out = append(out, fmt.Sprintf("%d %s", i, opsString(ops[i:i+1])))
		}
	}
	return out
}

func runHistory(r *vk.Run, base string, h History, fhReserved, canClose bool) {
	dir := filepath.Join(base, fmt.Sprintf("h%d", h.ID))
	if err := os.MkdirAll(dir, 0o755); err != nil {
		r.Inconclusive("mkdir: " + err.Error())
		return
	}
	defer os.RemoveAll(dir)
	ctx := context.Background()
	var obsA, obsB []Obs
	var errA, errB error
	child := h.Child || !canClose
	if child {
		var sa, sb, ra, rb int
		obsA, sa, ra, errA = runInChildren(dir, "a", h.Blocks, h.OpsA)
		obsB, sb, rb, errB = runInChildren(dir, "b", h.Blocks, h.OpsB)
		r.Count("child_process_segments", int64(sa+sb))
		if ra+rb > 0 {
			r.Count("first_open_after_unclean_exit_failed_on_zero_length_wal", int64(ra+rb))
		}
		r.Count("histories_with_restart_by_process_exit", 1)
	} else {
		obsA, errA = runInProcess(ctx, dir, "a", h.Blocks, h.OpsA)
		obsB, errB = runInProcess(ctx, dir, "b", h.Blocks, h.OpsB)
	}
	witness := func() any {
		return map[string]any{"history": h, "finalizedHeight_tx_refused": fhReserved,
			"observed_a": rootsOf(h.OpsA, obsA), "observed_b": rootsOf(h.OpsB, obsB)}
	}
	for _, e := range []error{errA, errB} {
		if e == nil {
			continue
		}
		if e == errWatchdog {
			r.Inconclusive(fmt.Sprintf("history %d: child watchdog", h.ID))
			return
		}
		if strings.Contains(e.Error(), "Cannot acquire directory lock") {
			// flock contention between processes of the harness itself, not executor behaviour
			r.Inconclusive(fmt.Sprintf("history %d: %v", h.ID, e))
			return
		}
		// a database that cannot be (re)opened or a child that died: the history cannot continue
		r.Violation("reopen", fmt.Sprintf("history %d: %v", h.ID, e), witness())
		return
	}
	probs := judgeHistory(h, obsA, obsB, fhReserved, r.Hit)
	var other, shaped []problem
	for _, p := range probs {
		if p.finding && h.Region != "clean" {
			shaped = append(shaped, p)
		} else {
			other = append(other, p)
		}
	}
	if len(other) > 0 {
		ds := make([]string, 0, len(other))
		for _, p := range other {
			ds = append(ds, p.detail)
		}
		r.Violation(other[0].clause, strings.Join(ds, " ;; "), witness())
	} else if len(shaped) > 0 {
		r.Count("histories_failing_as_"+FindingID, 1)
		if !r.IsKnown(FindingID) && shapedReported.Add(1) > 3 {
			// unlisted, so each report is a VIOLATION with its own replay file: three are enough
			shaped = nil
		}
	}
	if len(other) == 0 && len(shaped) > 0 {
		// prefer the statement's own clause (two instances, same blocks, different roots) as headline
		for i, p := range shaped {
			if p.clause == "instances-equal" {
				shaped[0], shaped[i] = shaped[i], shaped[0]
				break
			}
		}
		r.Finding(FindingID, shaped[0].clause, fmt.Sprintf("history %d (%d blocks, SetFinal policy %s/%s): %s (%d observations of this shape in the history)", h.ID, len(h.Blocks), h.PolA, h.PolB, shaped[0].detail, len(shaped)), witness())
	}
	nops := map[string]int64{}
	for _, ops := range [][]Op{h.OpsA, h.OpsB} {
		for _, o := range ops {
			nops[o.K]++
		}
	}
	for k, n := range nops {
		r.Count("calls_"+k, n)
	}
	r.Count("blocks", int64(len(h.Blocks)))
	r.Count("histories_region_"+h.Region, 1)
	r.Eval(h.abstract(), h.nontrivial(), h.sample())
}

// Run is the check entry point.
func Run(r *vk.Run) {
	world.Silence()
	r.Rule = "seeded histories of 5-40 blocks (1-5 'key=value' txs over a 15-key alphabet with path aliases and reserved look-alikes; 18% refused blocks: no '=', empty key, genesis key, always behind state-changing valid txs) executed on two real KVExecutor instances with independently generated call sequences (InitChain placement/repeats, SetFinal policy each|lag2|sparse|late|never|early, InjectTx/GetTxs, reopen, re-execution, refused block offered or not, empty-block observations); regions: clean (no SetFinal, no tx on /finalizedHeight), setfinal (different SetFinal timing), fhtx (txs writing /finalizedHeight); non-trivial = >=1 refused block, reopen or SetFinal; distinct by region + block kinds + call-kind sequence of both instances"
	r.Assume("roots are compared with an independent model: sorted 'key:value;' concatenation over path-normalised keys, the two genesis keys reserved")
	r.Assume("restart of this type = new KVExecutor on the same directory; in-process after closing the private Badger handle by reflection (KVExecutor has no Close), and for a sample of histories by successive child processes that exit without closing")
	r.Assume("process exit, not power loss: Badger's unsynced writes live in the page cache")
	base := world.TempDir(vk.Root(), "C15-*")
	defer os.RemoveAll(base)

	fhReserved, err := probeFHReserved(base)
	if err != nil {
		r.Violation("startup", "cannot open a fresh KVExecutor: "+err.Error(), map[string]any{"dir": base})
		return
	}
	r.Set("finalizedHeight_tx_treatment_observed", map[bool]string{true: "refused as reserved key", false: "accepted as ordinary key"}[fhReserved])
	canClose := true
	if ex, err := kv.NewKVExecutor(base, "closeprobe"); err == nil {
		if closeExec(ex) != nil {
			canClose = false
		}
	}
	r.Set("in_process_reopen", canClose)

	g := &gen{rng: r.Rand("histories")}
	n := r.N(300, 10000)
	hs := make([]History, n)
	for i := range hs {
		hs[i] = g.history(i, r.Quick())
	}
	min := int64(n / 3)
	r.Require("model-root", int64(n)*3)
	r.Require("instances-equal", int64(n)*3)
	r.Require("equal-despite-setfinal-timing", min)
	r.Require("equal-despite-mempool", min)
	r.Require("equal-despite-restarts", min/3)
	r.Require("malformed-refused", min)
	r.Require("refused-block-changes-nothing", min)
	r.Require("reexec-same-root", min/3)
	r.Require("init-idempotent", int64(n))
	r.Require("reopen-keeps-root", min/3)
	r.Require("root-unaffected-by-setfinal", min)
	r.Require("root-unaffected-by-mempool", min)

	var wg sync.WaitGroup
	ch := make(chan History)
	for w := 0; w < 16; w++ {
		wg.Add(1)
		go func() {
			defer wg.Done()
			for h := range ch {
				runHistory(r, base, h, fhReserved, canClose)
			}
		}()
	}
	for _, h := range hs {
		ch <- h
	}
	close(ch)
	wg.Wait()
}
