//go:build !race

package c15

const raceEnabled = false
