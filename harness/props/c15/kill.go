package c15

import (
	"bufio"
	"context"
	"encoding/json"
	"errors"
	"fmt"
	"os"
	"os/exec"
	"path/filepath"
	"reflect"
	"sync"
	"sync/atomic"
	"syscall"
	"time"
	"unsafe"

	kv "github.com/evstack/ev-node/apps/testapp/kv"
	ds "github.com/ipfs/go-datastore"

	"verifharness/vk"
	"verifharness/world"
)

// Kill phase ("... not on restarts"): a restart may come at any moment, also inside a call. A child
// process performs a call sequence on the real (Badger) store and is killed with SIGKILL at the k-th
// write it hands to the store (directly before or directly after it), for every k. A new process
// opens the directory: InitChain must work (and repeat the first answer if there was one), the root
// must be the one before or the one after the call that was cut, and the rest of the sequence -
// starting with the cut call once more - must lead to the roots of an uncut run.
//
// The cut is placed by wrapping the executor's private datastore field (reached by reflection, like
// closeExec; never read or written through by the harness). If the field cannot be reached the
// phase reports that it was not exercised and judges nothing.

func init() { vk.Children["c15-kill"] = childKill }

type killJob struct {
	Dir    string  `json:"dir"`
	Sub    string  `json:"sub"`
	Blocks []Block `json:"blocks"`
	Steps  []Op    `json:"steps"`
	CutAt  int64   `json:"cut_at"` // 0: no cut
	After  bool    `json:"after"`
}

type killLine struct {
	Hook   *bool  `json:"hook,omitempty"`
	Step   int    `json:"step"`
	Root   []byte `json:"root,omitempty"`
	Err    string `json:"err,omitempty"`
	Writes int64  `json:"writes"`
	Done   bool   `json:"done,omitempty"`
	Resume Resume `json:"resume"`
}

type cutter struct {
	ds.Batching
	n     atomic.Int64
	cutAt int64
	after bool
}

func die() {
	_ = syscall.Kill(os.Getpid(), syscall.SIGKILL)
	select {}
}

func (c *cutter) write(f func() error) error {
	k := c.n.Add(1)
	if k == c.cutAt && !c.after {
		die()
	}
	err := f()
	if k == c.cutAt && c.after {
		die()
	}
	return err
}

func (c *cutter) Put(ctx context.Context, key ds.Key, value []byte) error {
	return c.write(func() error { return c.Batching.Put(ctx, key, value) })
}

func (c *cutter) Delete(ctx context.Context, key ds.Key) error {
	return c.write(func() error { return c.Batching.Delete(ctx, key) })
}

func (c *cutter) Batch(ctx context.Context) (ds.Batch, error) {
	b, err := c.Batching.Batch(ctx)
	if err != nil {
		return nil, err
	}
	return &cutBatch{Batch: b, c: c}, nil
}

type cutBatch struct {
	ds.Batch
	c *cutter
}

func (b *cutBatch) Commit(ctx context.Context) error {
	return b.c.write(func() error { return b.Batch.Commit(ctx) })
}

func installCut(ex *kv.KVExecutor, c *cutter) (ok bool) {
	defer func() {
		if recover() != nil {
			ok = false
		}
	}()
	v := reflect.ValueOf(ex).Elem().FieldByName("db")
	if !v.IsValid() || !v.CanAddr() {
		return false
	}
	v = reflect.NewAt(v.Type(), unsafe.Pointer(v.UnsafeAddr())).Elem()
	inner, isB := v.Interface().(ds.Batching)
	if !isB || inner == nil {
		return false
	}
	c.Batching = inner
	nv := reflect.ValueOf(c)
	if !nv.Type().AssignableTo(v.Type()) {
		return false
	}
	v.Set(nv)
	return true
}

func childKill(args []string) int {
	world.Silence()
	if len(args) != 1 {
		return 2
	}
	b, err := os.ReadFile(args[0])
	if err != nil {
		return 2
	}
	var job killJob
	if json.Unmarshal(b, &job) != nil {
		return 2
	}
	enc := json.NewEncoder(os.Stdout)
	ex, err := kv.NewKVExecutor(job.Dir, job.Sub)
	if err != nil {
		_ = enc.Encode(killLine{Step: -1, Err: "NewKVExecutor: " + err.Error()})
		return 0
	}
	c := &cutter{cutAt: job.CutAt, after: job.After}
	hooked := installCut(ex, c)
	_ = enc.Encode(killLine{Step: -1, Hook: &hooked})
	if !hooked {
		return 0
	}
	rs := Resume{}
	for i := range job.Steps {
		obs, _ := runSegment(context.Background(), ex, job.Blocks, job.Steps[i:i+1], 0, &rs)
		l := killLine{Step: i, Writes: c.n.Load(), Resume: rs}
		if len(obs) == 1 {
			l.Root, l.Err = obs[0].Root, obs[0].Err
		}
		_ = enc.Encode(l)
	}
	_ = enc.Encode(killLine{Step: len(job.Steps), Done: true, Writes: c.n.Load(), Resume: rs})
	return 0
}

func runKillChild(dir string, job killJob, tag string) (lines []killLine, killed bool, err error) {
	jb, _ := json.Marshal(job)
	jf := filepath.Join(dir, "job-"+tag+".json")
	if err := os.WriteFile(jf, jb, 0o644); err != nil {
		return nil, false, err
	}
	ctx, cancel := context.WithTimeout(context.Background(), 120*time.Second)
	defer cancel()
	cmd := exec.CommandContext(ctx, vk.SelfExe(), "child", "c15-kill", jf)
	out, _ := cmd.StdoutPipe()
	forkMu.Lock()
	err = cmd.Start()
	forkMu.Unlock()
	if err != nil {
		return nil, false, err
	}
	sc := bufio.NewScanner(out)
	sc.Buffer(make([]byte, 1<<20), 256<<20)
	for sc.Scan() {
		var l killLine
		if json.Unmarshal(sc.Bytes(), &l) == nil {
			lines = append(lines, l)
		}
	}
	werr := cmd.Wait()
	if ctx.Err() != nil {
		return lines, false, errWatchdog
	}
	if werr != nil {
		if ee, ok := werr.(*exec.ExitError); ok {
			if ws, ok := ee.Sys().(syscall.WaitStatus); ok && ws.Signaled() && ws.Signal() == syscall.SIGKILL {
				return lines, true, nil
			}
		}
		return lines, false, werr
	}
	return lines, false, nil
}

type killScenario struct {
	ID     int     `json:"id"`
	Blocks []Block `json:"-"`
	Steps  []Op    `json:"steps"`
}

func killScenarios(r *vk.Run) []killScenario {
	rng := r.Rand("kill")
	g := &gen{rng: rng}
	n := r.N(6, 40)
	out := make([]killScenario, n)
	for i := range out {
		s := killScenario{ID: i}
		s.Steps = append(s.Steps, Op{K: "init"}, Op{K: "observe"})
		nb := 4 + rng.Intn(4)
		for b := 0; b < nb; b++ {
			var blk Block
			switch p := rng.Intn(10); {
			case p < 2:
				blk = Block{Kind: "ok"}
				for t := 300 + rng.Intn(500); t > 0; t-- {
					blk.Txs = append(blk.Txs, g.okTx())
				}
			case p < 4:
				blk = Block{Kind: "malformed"}
				for t := []int{300, 520, 700}[rng.Intn(3)]; t > 0; t-- {
					blk.Txs = append(blk.Txs, ordinaryKeys[rng.Intn(len(ordinaryKeys))]+"="+g.fresh())
				}
				blk.Txs = append(blk.Txs, badTxs[rng.Intn(len(badTxs))])
			default:
				blk = g.block("clean")
			}
			s.Blocks = append(s.Blocks, blk)
			s.Steps = append(s.Steps, Op{K: "exec", B: b})
			switch rng.Intn(5) {
			case 0:
				s.Steps = append(s.Steps, Op{K: "setfinal", H: uint64(b + 1)})
			case 1:
				s.Steps = append(s.Steps, Op{K: "init"})
			}
		}
		s.Steps = append(s.Steps, Op{K: "observe"})
		out[i] = s
	}
	return out
}

// lastRoot returns the root of the latest successful root-returning step among steps[:end].
func lastRoot(steps []Op, ref []killLine, end int) (string, bool) {
	for i := end - 1; i >= 0; i-- {
		if (steps[i].K == "exec" || steps[i].K == "observe") && ref[i].Err == "" {
			return string(ref[i].Root), true
		}
	}
	return "", false
}

func killPhase(r *vk.Run, base string) {
	kbase := filepath.Join(base, "kill")
	_ = os.MkdirAll(kbase, 0o755)
	type cut struct {
		sc    killScenario
		ref   []killLine
		k     int64
		after bool
	}
	var cuts []cut
	for _, sc := range killScenarios(r) {
		dir := filepath.Join(kbase, fmt.Sprintf("ref%d", sc.ID))
		_ = os.MkdirAll(dir, 0o755)
		lines, _, err := runKillChild(dir, killJob{Dir: dir, Sub: "x", Blocks: sc.Blocks, Steps: sc.Steps}, "ref")
		_ = os.RemoveAll(dir)
		if err != nil || len(lines) == 0 {
			r.Inconclusive(fmt.Sprintf("kill phase: reference run of scenario %d failed: %v", sc.ID, err))
			return
		}
		if lines[0].Hook == nil || !*lines[0].Hook {
			r.Note("kill_phase", "not exercised: the executor's datastore field could not be wrapped ("+lines[0].Err+")")
			r.Count("kill_phase_not_available", 1)
			return
		}
		ref := lines[1:]
		if len(ref) != len(sc.Steps)+1 || !ref[len(ref)-1].Done {
			r.Inconclusive(fmt.Sprintf("kill phase: reference run of scenario %d incomplete (%d of %d steps)", sc.ID, len(ref), len(sc.Steps)))
			return
		}
		w := ref[len(ref)-1].Writes
		r.Count("kill_scenarios", 1)
		r.Count("kill_store_writes_in_uncut_runs", w)
		for k := int64(1); k <= w; k++ {
			cuts = append(cuts, cut{sc, ref, k, false}, cut{sc, ref, k, true})
		}
	}
	r.Note("kill_phase", fmt.Sprintf("%d cuts (every store write of every scenario, before and after)", len(cuts)))
	var wg sync.WaitGroup
	ch := make(chan cut)
	for w := 0; w < 8; w++ {
		wg.Add(1)
		go func() {
			defer wg.Done()
			for c := range ch {
				runCut(r, kbase, c.sc, c.ref, c.k, c.after)
			}
		}()
	}
	for _, c := range cuts {
		ch <- c
	}
	close(ch)
	wg.Wait()
}

func runCut(r *vk.Run, kbase string, sc killScenario, ref []killLine, k int64, after bool) {
	dir, err := os.MkdirTemp(kbase, fmt.Sprintf("s%d-k%d-*", sc.ID, k))
	if err != nil {
		r.Inconclusive("mkdir: " + err.Error())
		return
	}
	defer os.RemoveAll(dir)
	lines, killed, err := runKillChild(dir, killJob{Dir: dir, Sub: "x", Blocks: sc.Blocks, Steps: sc.Steps, CutAt: k, After: after}, "cut")
	if err != nil || len(lines) == 0 {
		r.Inconclusive(fmt.Sprintf("kill phase: scenario %d cut %d: child failed: %v", sc.ID, k, err))
		return
	}
	if !killed {
		// fewer writes than the uncut run made: the build's write pattern is not deterministic; nothing to judge
		r.Count("kill_cut_not_reached", 1)
		return
	}
	done := lines[1:] // completed steps
	s := len(done)    // index of the step that was cut
	if s >= len(sc.Steps) {
		r.Count("kill_cut_not_reached", 1)
		return
	}
	// the completed steps are an uncut prefix: they must have gone like the reference run (same build, same calls)
	rs := Resume{}
	firstInit, hadInit := "", false
	for i, l := range done {
		if (l.Err != "") != (ref[i].Err != "") || string(l.Root) != string(ref[i].Root) {
			r.Violation("same-history-same-root", fmt.Sprintf("kill scenario %d: step %d %s returned %q/%q in one process and %q/%q in another fed the same calls", sc.ID, i, opsString(sc.Steps[i:i+1]), l.Root, l.Err, ref[i].Root, ref[i].Err), map[string]any{"scenario": sc})
			return
		}
		if sc.Steps[i].K == "init" && l.Err == "" && !hadInit {
			firstInit, hadInit = string(l.Root), true
		}
		rs = l.Resume
	}
	cutStep := sc.Steps[s]
	where := fmt.Sprintf("kill scenario %d, process killed %s store write %d, inside step %d %s", sc.ID, map[bool]string{false: "before", true: "after"}[after], k, s, opsString(sc.Steps[s:s+1]))
	if cutStep.K == "exec" {
		where += fmt.Sprintf(" (%s block of %d txs)", sc.Blocks[cutStep.B].Kind, len(sc.Blocks[cutStep.B].Txs))
	}
	// recovery in a new process: InitChain and a look at the root; then, in another process, the rest of the
	// sequence starting with the cut call once more
	var ops []Op
	var obs []Obs
	witness := func() any {
		return map[string]any{"scenario": sc, "cut_write": k, "after_the_write": after, "cut_step": s, "recovery_calls": opsString(ops), "recovery_observed": rootsOf(ops, obs),
			"uncut_run": func() []string {
				o := make([]Obs, len(sc.Steps))
				for i := range sc.Steps {
					o[i] = Obs{Root: ref[i].Root, Err: ref[i].Err}
				}
				return rootsOf(sc.Steps, o)
			}()}
	}
	run := func(more []Op, from Resume) ([]Obs, Resume, bool) {
		o, out, retries, err := runInChildrenFrom(dir, "x", sc.Blocks, more, from)
		ops = append(ops, more...)
		obs = append(obs, o...)
		if retries > 0 {
			r.Count("first_open_after_unclean_exit_failed_on_zero_length_wal", int64(retries))
		}
		var cd *childDied
		switch {
		case err == nil:
		case err == errWatchdog || environmental(err.Error()):
			r.Inconclusive(fmt.Sprintf("%s: %v", where, err))
			return nil, out, false
		case errors.As(err, &cd):
			if cd.crashed() {
				r.Violation("no-crash", fmt.Sprintf("%s: the next process crashed: %v", where, err), witness())
			} else {
				r.Inconclusive(fmt.Sprintf("%s: %v", where, err))
			}
			return nil, out, false
		default:
			r.Violation("reopen", fmt.Sprintf("%s: the directory could not be used again: %v", where, err), witness())
			return nil, out, false
		}
		return o, out, true
	}
	cutHeight := rs.Height + 1 // the height the killed process offered (if the cut call was a block)
	o1, rs1, ok := run([]Op{{K: "init"}, {K: "observe"}}, rs)
	if !ok {
		return
	}
	r.Eval(fmt.Sprintf("kill|%d|%d|%v", sc.ID, k, after), true, nil)
	// InitChain after the kill
	r.Hit("kill-then-initchain")
	refInit := string(ref[0].Root) // step 0 is the first InitChain of the uncut run, on the empty history
	switch {
	case o1[0].Err != "":
		r.Violation("init-idempotent", fmt.Sprintf("%s: InitChain in the next process failed: %s", where, o1[0].Err), witness())
		return
	case hadInit && string(o1[0].Root) != firstInit:
		r.Violation("init-idempotent", fmt.Sprintf("%s: InitChain in the next process returned %q, the first call had returned %q", where, o1[0].Root, firstInit), witness())
		return
	case !hadInit && string(o1[0].Root) != refInit:
		r.Violation("init-idempotent", fmt.Sprintf("%s (the first InitChain itself was cut): InitChain in the next process returned %q, an uncut first InitChain returns %q", where, o1[0].Root, refInit), witness())
		return
	}
	look := o1[1]
	if look.Err != "" && (cutStep.K == "exec" || cutStep.K == "observe") {
		// the empty block was offered at the height of the cut block; a build that took that block may say so: look
		// from the next height
		r.Count("look_after_kill_refused_at_the_cut_height_retried_above", 1)
		rs1.Height++
		o2, rs2, ok := run([]Op{{K: "observe"}}, rs1)
		if !ok {
			return
		}
		look, rs1 = o2[0], rs2
	}
	if look.Err != "" {
		r.Violation("reopen", fmt.Sprintf("%s: the empty block in the next process failed: %s", where, look.Err), witness())
		return
	}
	// the root is the one before or the one after the cut step
	before, hasBefore := lastRoot(sc.Steps, ref, s)
	afterRoot, _ := lastRoot(sc.Steps, ref, s+1)
	got := string(look.Root)
	applied := false
	if hasBefore {
		r.Hit("kill-root-before-or-after")
		switch got {
		case before:
		case afterRoot:
			applied = true
			r.Hit("kill-left-the-cut-call-applied")
		default:
			r.Violation("kill-root-before-or-after", fmt.Sprintf("%s: the next process sees root %q, which is neither the root before the cut call (%q) nor the root after it (%q)", where, got, before, afterRoot), witness())
			return
		}
	}
	// the rest of the sequence, starting with the cut call once more, ends where the uncut run ends
	rest := append([]Op{}, sc.Steps[s:]...)
	if applied && cutStep.K == "exec" {
		// the very same block again: same height, time and previous root as the killed process offered
		rest[0].K = "reexec"
		if rs1.First == nil {
			rs1.First = map[int]FirstExec{}
		}
		t := rs.LastMs + 1
		if bt := blockTime(cutStep.B).UnixMilli(); bt > t {
			t = bt
		}
		rs1.First[cutStep.B] = FirstExec{Height: cutHeight, TimeMs: t, PrevRoot: rs.PrevRoot}
	}
	base := len(ops)
	o3, _, ok := run(rest, rs1)
	if !ok {
		return
	}
	for i := range rest {
		st := s + i
		if rest[i].K == "init" {
			r.Hit("init-idempotent")
			if o3[i].Err != "" || string(o3[i].Root) != string(o1[0].Root) {
				r.Violation("init-idempotent", fmt.Sprintf("%s: a later InitChain returned %q/%q, the first one of that process %q", where, o3[i].Root, o3[i].Err, o1[0].Root), witness())
				return
			}
			continue
		}
		if rest[i].K == "setfinal" {
			continue
		}
		if i == 0 && applied && o3[i].Err != "" && ref[st].Err == "" {
			// the cut call had been applied: refusing its repetition is a harmless answer
			r.Count("repetition_of_applied_cut_call_refused_not_judged", 1)
			continue
		}
		r.Hit("kill-then-continue-equals-uncut")
		if (o3[i].Err != "") != (ref[st].Err != "") || (ref[st].Err == "" && string(o3[i].Root) != string(ref[st].Root)) {
			r.Violation("kill-then-continue-equals-uncut", fmt.Sprintf("%s: continuing in the next process, step %d %s returned %q/%q; the uncut run returned %q/%q", where, st, opsString(ops[base+i:base+i+1]), o3[i].Root, o3[i].Err, ref[st].Root, ref[st].Err), witness())
			return
		}
	}
}
