package c15

import (
	"context"
	"errors"
	"fmt"
	"math/rand"
	"os"
	"os/exec"
	"path/filepath"
	"runtime"
	"strings"
	"sync"
	"sync/atomic"
	"time"

	kv "github.com/evstack/ev-node/apps/testapp/kv"

	"verifharness/vk"
	"verifharness/world"
)

// Concurrent phase (quantifier: "all interleavings of execute, finalize, mempool injection,
// initialization ... calls"). In the test application InjectTx (HTTP handler), GetTxs (reaper),
// ExecuteTxs (block production / sync), SetFinal (DA includer) and InitChain run on different
// goroutines against ONE KVExecutor. Here one instance executes a block sequence on one goroutine
// while others call InjectTx / GetTxs / SetFinal / InitChain as fast as they can; a second instance
// is fed the same blocks by a single goroutine with nothing else going on. Verdicts and roots must be
// the same block by block, and every InitChain must return the first one's root.
//
// The phase runs in child processes: when the binary carries the race detector (-race), a data race
// inside the executor ends the child with exit code 66, which the parent reports as a violation of
// "race-free" (a data race makes the result depend on the interleaving by definition of the
// language's memory model); without -race only differing results are seen.

func init() { vk.Children["c15-conc"] = childConc }

func raceEnabledNote() string {
	if raceEnabled {
		return "race detector ON"
	}
	return "race detector OFF (this binary was not built with -race): the concurrent phase only sees differing results, not data races"
}

// ConcCase is one concurrent scenario.
type ConcCase struct {
	ID         int     `json:"id"`
	Seed       int64   `json:"seed"`
	SecondInit bool    `json:"initchain_concurrently"`
	Blocks     []Block `json:"-"`
}

func concCases(r *vk.Run) []ConcCase {
	rng := r.Rand("concurrent")
	g := &gen{rng: rng}
	n := r.N(48, 480)
	out := make([]ConcCase, n)
	for i := range out {
		c := ConcCase{ID: i, Seed: rng.Int63(), SecondInit: i%3 != 2}
		nb := 8 + rng.Intn(8)
		for k := 0; k < nb; k++ {
			switch p := rng.Intn(100); {
			case p < 30:
				// a large refused block: the malformed transaction comes late, so the staging of the block is a
				// long window for the other goroutines
				b := Block{Kind: "malformed"}
				m := []int{300, 511, 700, 1023, 1500}[rng.Intn(5)]
				for t := 0; t < m; t++ {
					b.Txs = append(b.Txs, ordinaryKeys[rng.Intn(len(ordinaryKeys))]+"="+g.fresh())
				}
				b.Txs = append(b.Txs, badTxs[rng.Intn(len(badTxs))])
				c.Blocks = append(c.Blocks, b)
			case p < 50:
				b := Block{Kind: "ok"}
				m := 200 + rng.Intn(900)
				for t := 0; t < m; t++ {
					b.Txs = append(b.Txs, g.okTx())
				}
				c.Blocks = append(c.Blocks, b)
			default:
				c.Blocks = append(c.Blocks, g.block("clean"))
			}
		}
		out[i] = c
	}
	return out
}

func (c ConcCase) kinds() string {
	var sb strings.Builder
	for _, b := range c.Blocks {
		sb.WriteByte(b.Kind[0])
		if len(b.Txs) > 100 {
			sb.WriteByte('L')
		}
	}
	return sb.String()
}

type blockRes struct {
	Root string `json:"root"`
	Err  string `json:"err,omitempty"`
}

// driveBlocks executes the blocks one after the other (new height and later time stamp for every
// accepted block) and ends with an empty block. after is called after every call.
func driveBlocks(ctx context.Context, ex *kv.KVExecutor, genesis []byte, blocks []Block, before func(i int), after func(height uint64)) (res []blockRes, final blockRes) {
	height, prev := uint64(0), genesis
	for i, b := range blocks {
		txs := make([][]byte, len(b.Txs))
		for k, t := range b.Txs {
			txs[k] = []byte(t)
		}
		if before != nil {
			before(i)
		}
		root, _, err := ex.ExecuteTxs(ctx, txs, height+1, blockTime(i), prev)
		if err == nil {
			height, prev = height+1, root
		}
		if after != nil {
			after(height)
		}
		res = append(res, blockRes{Root: string(root), Err: errStr(err)})
	}
	if before != nil {
		before(len(blocks))
	}
	root, _, err := ex.ExecuteTxs(ctx, nil, height+1, blockTime(len(blocks)), prev)
	if after != nil {
		after(height)
	}
	return res, blockRes{Root: string(root), Err: errStr(err)}
}

func runConc(r *vk.Run, base string, c ConcCase) {
	dir, err := os.MkdirTemp(base, fmt.Sprintf("conc%d-*", c.ID))
	if err != nil {
		r.Inconclusive("mkdir: " + err.Error())
		return
	}
	defer os.RemoveAll(dir)
	ctx := context.Background()
	seq, err1 := kv.NewKVExecutor(dir, "seq")
	con, err2 := kv.NewKVExecutor(dir, "con")
	if err1 != nil || err2 != nil {
		r.Inconclusive(fmt.Sprintf("concurrent case %d: cannot open executors: %v %v", c.ID, err1, err2))
		return
	}
	defer func() { _ = closeExec(seq); _ = closeExec(con) }()

	sInit, _, errS := seq.InitChain(ctx, genesisTime, 1, chainID)
	cInit, _, errC := con.InitChain(ctx, genesisTime, 1, chainID)
	if errS != nil || errC != nil {
		r.Violation("init-idempotent", fmt.Sprintf("concurrent case %d: InitChain on a fresh executor failed: %v / %v", c.ID, errS, errC), map[string]any{"case": c})
		return
	}
	sRes, sFinal := driveBlocks(ctx, seq, sInit, c.Blocks, nil, nil)

	// everything the background goroutines may put into the mempool: the transactions of the blocks themselves (the
	// proposer's mempool held them), state-changing strangers, malformed ones
	rng := rand.New(rand.NewSource(c.Seed))
	var pool []string
	for _, b := range c.Blocks {
		for k := 0; k < len(b.Txs) && k < 6; k++ {
			pool = append(pool, b.Txs[rng.Intn(len(b.Txs))])
		}
	}
	for k := 0; k < 20; k++ {
		pool = append(pool, fmt.Sprintf("%s=stranger%d", ordinaryKeys[rng.Intn(len(ordinaryKeys))], k))
	}
	pool = append(pool, badTxs...)

	var stop atomic.Bool
	var execSeq atomic.Int64 // odd while an ExecuteTxs call is in flight
	var executed atomic.Uint64
	var injected, reaped atomic.Int64
	type bgStat struct{ calls, overlapping int64 }
	stats := map[string]*bgStat{"setfinal": {}, "inject": {}, "gettxs": {}, "initchain": {}}
	var initProblems []string
	var initMu sync.Mutex
	var wg sync.WaitGroup
	bg := func(name string, seed int64, f func(rng *rand.Rand)) {
		wg.Add(1)
		st := stats[name]
		go func() {
			defer wg.Done()
			rng := rand.New(rand.NewSource(seed))
			for !stop.Load() {
				s0 := execSeq.Load()
				f(rng)
				s1 := execSeq.Load()
				st.calls++
				if s0%2 == 1 || s1%2 == 1 || s0 != s1 {
					st.overlapping++
				}
				switch rng.Intn(4) {
				case 0:
					time.Sleep(time.Duration(rng.Intn(150)) * time.Microsecond)
				default:
					runtime.Gosched()
				}
			}
		}()
	}
	bg("setfinal", c.Seed+1, func(rng *rand.Rand) {
		h := executed.Load()
		_ = con.SetFinal(ctx, 1+uint64(rng.Int63n(int64(h)+1)))
	})
	bg("inject", c.Seed+2, func(rng *rand.Rand) {
		if injected.Load()-reaped.Load() > 4000 {
			return // stay below the mempool's capacity: a full mempool only drops
		}
		con.InjectTx([]byte(pool[rng.Intn(len(pool))]))
		injected.Add(1)
	})
	bg("gettxs", c.Seed+3, func(rng *rand.Rand) {
		txs, _ := con.GetTxs(ctx)
		reaped.Add(int64(len(txs)))
	})
	if c.SecondInit {
		bg("initchain", c.Seed+4, func(rng *rand.Rand) {
			root, _, err := con.InitChain(ctx, genesisTime, 1, chainID)
			if err != nil || string(root) != string(cInit) {
				initMu.Lock()
				if len(initProblems) < 3 {
					initProblems = append(initProblems, fmt.Sprintf("InitChain returned %q / error %v, the first call returned %q", root, err, cInit))
				}
				initMu.Unlock()
			}
		})
	}
	prng := rand.New(rand.NewSource(c.Seed + 5))
	cRes, cFinal := driveBlocks(ctx, con, cInit, c.Blocks,
		func(int) {
			if prng.Intn(3) == 0 {
				time.Sleep(time.Duration(prng.Intn(300)) * time.Microsecond)
			}
			execSeq.Add(1)
		},
		func(h uint64) {
			execSeq.Add(1)
			executed.Store(h)
		})
	stop.Store(true)
	wg.Wait()
	// once more with everything quiet
	endRoot, _, endErr := con.ExecuteTxs(ctx, nil, executed.Load()+2, blockTime(len(c.Blocks)+1), []byte(cFinal.Root))

	witness := func() any {
		bl := make([]string, len(c.Blocks))
		for i, b := range c.Blocks {
			if len(b.Txs) > 12 {
				bl[i] = fmt.Sprintf("%s %d txs %q ... %q", b.Kind, len(b.Txs), b.Txs[:3], b.Txs[len(b.Txs)-3:])
			} else {
				bl[i] = fmt.Sprintf("%s%q", b.Kind, b.Txs)
			}
		}
		return map[string]any{"case": c, "blocks": bl, "sequential": sRes, "concurrent": cRes, "sequential_final": sFinal, "concurrent_final": cFinal,
			"background_calls": map[string]int64{"setfinal": stats["setfinal"].calls, "inject": stats["inject"].calls, "gettxs": stats["gettxs"].calls, "initchain": stats["initchain"].calls}}
	}
	short := func(s string) string {
		if len(s) > 160 {
			return s[:80] + "..." + s[len(s)-80:]
		}
		return s
	}
	var diffs []string
	for i := range c.Blocks {
		r.Hit("concurrent-equals-sequential")
		s, k := sRes[i], cRes[i]
		if (s.Err != "") != (k.Err != "") {
			diffs = append(diffs, fmt.Sprintf("block %d (%s, %d txs): sequential instance error %q, concurrently driven instance error %q", i, c.Blocks[i].Kind, len(c.Blocks[i].Txs), s.Err, k.Err))
		} else if s.Err == "" && s.Root != k.Root {
			diffs = append(diffs, fmt.Sprintf("block %d (%s, %d txs): sequential instance root %q, concurrently driven instance root %q", i, c.Blocks[i].Kind, len(c.Blocks[i].Txs), short(s.Root), short(k.Root)))
		}
		if s.Err != "" {
			r.Hit("refused-block-under-concurrency")
		}
	}
	r.Hit("concurrent-equals-sequential")
	if sFinal.Err != cFinal.Err || sFinal.Root != cFinal.Root {
		diffs = append(diffs, fmt.Sprintf("final empty block: sequential %q/%q, concurrent %q/%q", short(sFinal.Root), sFinal.Err, short(cFinal.Root), cFinal.Err))
	}
	if endErr != nil || string(endRoot) != sFinal.Root {
		diffs = append(diffs, fmt.Sprintf("empty block after all goroutines stopped: %q/%v, sequential instance %q", short(string(endRoot)), endErr, short(sFinal.Root)))
	}
	if string(sInit) != string(cInit) {
		diffs = append(diffs, fmt.Sprintf("first InitChain: %q vs %q", sInit, cInit))
	}
	if len(diffs) > 0 {
		if len(diffs) > 4 {
			diffs = append(diffs[:4], fmt.Sprintf("... %d more", len(diffs)-4))
		}
		r.Violation("concurrent-equals-sequential", fmt.Sprintf("concurrent case %d: an instance executing the blocks while other goroutines call SetFinal / InjectTx / GetTxs / InitChain differs from an instance fed the same blocks alone: %s", c.ID, strings.Join(diffs, " ;; ")), witness())
	}
	if c.SecondInit {
		r.HitN("init-idempotent-under-concurrency", stats["initchain"].calls)
		if len(initProblems) > 0 {
			r.Violation("init-idempotent", fmt.Sprintf("concurrent case %d: %s", c.ID, strings.Join(initProblems, " ;; ")), witness())
		}
	}
	nontrivial := true
	for name, st := range stats {
		r.Count("concurrent_"+name+"_calls", st.calls)
		r.Count("concurrent_"+name+"_calls_overlapping_an_execution", st.overlapping)
		if name != "initchain" && st.overlapping == 0 {
			nontrivial = false
		}
	}
	r.Count("concurrent_cases", 1)
	r.Count("concurrent_blocks", int64(len(c.Blocks)))
	if nontrivial {
		r.Hit("concurrent-case-with-overlap")
	}
	r.Eval(fmt.Sprintf("conc|%s|%v", c.kinds(), c.SecondInit), nontrivial, map[string]any{"concurrent_case": c.ID, "block_kinds": c.kinds(), "initchain_concurrently": c.SecondInit,
		"background_calls_overlapping_an_execution": map[string]int64{"setfinal": stats["setfinal"].overlapping, "inject": stats["inject"].overlapping, "gettxs": stats["gettxs"].overlapping, "initchain": stats["initchain"].overlapping}})
}

// childConc runs one shard of the concurrent phase: args = shard nShards tier base.
func childConc(args []string) int {
	world.Silence()
	if len(args) < 4 {
		return 2
	}
	var shard, n int
	fmt.Sscanf(args[0], "%d", &shard)
	fmt.Sscanf(args[1], "%d", &n)
	r := vk.NewChildRun("C15", args[2], Level, os.Stdout)
	full := vk.NewRunNoCleanup("C15", args[2], Level)
	for i, c := range concCases(full) {
		if i%n != shard {
			continue
		}
		r.Journal(map[string]any{"concurrent_case": c.ID, "seed": c.Seed, "block_kinds": c.kinds(), "initchain_concurrently": c.SecondInit})
		r.Guard(c, func() { runConc(r, args[3], c) })
		r.FlushHits()
	}
	return 0
}

// concurrentPhase runs the shards and turns dead children into verdicts.
func concurrentPhase(r *vk.Run, base string) {
	r.Assume(raceEnabledNote())
	r.Set("race_detector", raceEnabledNote())
	logDir := filepath.Join(base, "race-logs")
	_ = os.MkdirAll(logDir, 0o755)
	cbase := filepath.Join(base, "conc")
	_ = os.MkdirAll(cbase, 0o755)
	old, had := os.LookupEnv("GORACE")
	os.Setenv("GORACE", "halt_on_error=1 exitcode=66 log_path="+filepath.Join(logDir, "race"))
	shards := r.N(4, 8)
	results := r.RunShards("c15-conc", shards, shards, 40*time.Minute, cbase)
	if had {
		os.Setenv("GORACE", old)
	} else {
		os.Unsetenv("GORACE")
	}
	races := 0
	for _, res := range results {
		if res.ExitErr == nil {
			continue
		}
		files, _ := filepath.Glob(filepath.Join(logDir, "race.*"))
		var report string
		for _, f := range files {
			b, _ := os.ReadFile(f)
			if strings.Contains(string(b), "DATA RACE") {
				report += string(b)
			}
		}
		if len(report) > 12000 {
			report = report[:12000]
		}
		code := -1
		var ee *exec.ExitError
		if errors.As(res.ExitErr, &ee) {
			code = ee.ExitCode()
		}
		w := map[string]any{"last_case_started": res.LastCase, "race_report": report, "output_tail": res.Tail}
		switch {
		case strings.Contains(report, "DATA RACE") || strings.Contains(res.Tail, "DATA RACE") || code == 66:
			races++
			r.Violation("race-free", fmt.Sprintf("the race detector reported a data race while one KVExecutor was driven from several goroutines (child %d, %v)", res.Shard, res.ExitErr), w)
		case strings.Contains(res.Tail, "panic:") || strings.Contains(res.Tail, "fatal error:"):
			r.Violation("no-crash", fmt.Sprintf("a child driving one KVExecutor from several goroutines died (child %d, %v)", res.Shard, res.ExitErr), w)
		default:
			r.Inconclusive(fmt.Sprintf("concurrent phase: child %d ended abnormally (%v)", res.Shard, res.ExitErr))
		}
	}
	r.Set("race_reports", races)
}
