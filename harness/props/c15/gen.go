package c15

import (
	"fmt"
	"math/rand"
	"strings"
)

// Block is one generated block: an ordered list of raw transactions.
//
// Kind is only a generator tag (it selects the generator region and is part of the canonical
// form of the case); the oracle decides validity of a block with its own parser (model.go).
type Block struct {
	Kind string   `json:"kind"` // ok | empty | malformed | fhtx
	Txs  []string `json:"txs"`
}

// Op is one call made on one executor instance.
type Op struct {
	K  string `json:"k"`            // init | exec | reexec | observe | setfinal | inject | gettxs | reopen
	B  int    `json:"b,omitempty"`  // block index (exec, reexec)
	H  uint64 `json:"h,omitempty"`  // SetFinal argument
	Tx string `json:"tx,omitempty"` // InjectTx argument
}

// History is one generated case: the blocks and, for each of the two instances, the complete
// call sequence (same blocks in the same order, everything else chosen independently).
type History struct {
	ID     int     `json:"id"`
	Region string  `json:"region"` // clean | setfinal | fhtx
	Child  bool    `json:"reopen_by_child_process"`
	PolA   string  `json:"setfinal_policy_a"`
	PolB   string  `json:"setfinal_policy_b"`
	Blocks []Block `json:"blocks"`
	// Golden > 0: the first Golden blocks are the recorded ones (golden.go); instance A is fresh and executes all
	// blocks, instance B starts on a copy of the recorded data directory and executes the others
	Golden int `json:"recorded_blocks,omitempty"`
	// Old lists re-executions of an OLDER block after later blocks; both instances perform them at the
	// same place of the block sequence (everything else stays independent)
	Old  []OldRe `json:"old_block_reexecutions,omitempty"`
	OpsA []Op    `json:"ops_a"`
	OpsB []Op    `json:"ops_b"`
}

// OldRe says: after block After has been offered, offer block Block (< After) once more.
type OldRe struct {
	After int `json:"after"`
	Block int `json:"block"`
}

// ordinary keys: small alphabet with aliases under path normalisation ("a", "/a", "x/../a" are the
// same datastore key), a parent of the reserved genesis keys, and look-alikes of reserved names.
var ordinaryKeys = []string{
	"a", "/a", "b", "a/../b", "x/../a", "c", "c/d", "/c/d/", "e",
	"genesis", "Genesis/initialized", "finalizedheight", "finalizedHeightX", "//b", "a/./b/..",
}

// keys that normalise to the datastore key SetFinal uses; only generated in region "fhtx".
var fhKeys = []string{"finalizedHeight", "/finalizedHeight", "x/../finalizedHeight", "finalizedHeight/", "//finalizedHeight"}

// transactions today's executor refuses: no '=', empty key (the documented format excludes these), blank key,
// reserved genesis key under several spellings (left to the implementation, which is held to one verdict each).
var badTxs = []string{
	"novalue", "", "=v", "=", "genesis/initialized=1", "/genesis/stateroot=x", "a/../genesis/initialized=true", "genesis/stateroot/=r",
	" =v", "\t=",
}

type gen struct {
	rng *rand.Rand
	ctr int
}

func (g *gen) value() string {
	g.ctr++
	switch g.rng.Intn(12) {
	case 0:
		return ""
	case 1:
		return fmt.Sprintf("x=%d", g.ctr)
	case 2:
		return fmt.Sprintf("%d", 1+g.rng.Intn(6)) // looks like a finalized height
	case 3:
		return fmt.Sprintf("v%d", g.rng.Intn(3)) // repeats
	default:
		return fmt.Sprintf("v%d", g.ctr)
	}
}

// fresh returns a value that never occurred before (so applying it always changes the state).
func (g *gen) fresh() string {
	g.ctr++
	return fmt.Sprintf("w%d", g.ctr)
}

func (g *gen) okTx() string {
	k, v := ordinaryKeys[g.rng.Intn(len(ordinaryKeys))], g.value()
	// one transaction in eight carries white space around key or value (the trailing newline of a posted body, a
	// blank after '='): every path that decodes a transaction must treat it alike
	switch g.rng.Intn(32) {
	case 0:
		v += "\n"
	case 1:
		v = " " + v + " "
	case 2:
		k = " " + k
		v = "\t" + v
	case 3:
		k += " "
		v += "\r\n"
	}
	return k + "=" + v
}

func (g *gen) block(region string) Block {
	p := g.rng.Intn(100)
	switch {
	case p < 8:
		return Block{Kind: "empty", Txs: []string{}}
	case p < 26:
		// a refused block: valid state-changing txs before (and maybe after) the bad one, so that a
		// partial application would be visible in the next root
		b := Block{Kind: "malformed"}
		n := 1 + g.rng.Intn(3)
		if g.rng.Intn(6) == 0 {
			// a large block whose malformed transaction comes late (any internal chunking of the write batch
			// would have applied the earlier chunks already): sizes around powers of two and beyond
			n = []int{63, 64, 127, 128, 255, 256, 257, 300, 511, 512, 513, 700, 1023, 1025, 2047, 2048, 2049, 3000, 4097, 5000, 10001}[g.rng.Intn(21)]
		}
		for i := 0; i < n; i++ {
			b.Txs = append(b.Txs, ordinaryKeys[g.rng.Intn(len(ordinaryKeys))]+"="+g.fresh())
		}
		b.Txs = append(b.Txs, badTxs[g.rng.Intn(len(badTxs))])
		for i := g.rng.Intn(2); i > 0; i-- {
			b.Txs = append(b.Txs, g.okTx())
		}
		return b
	case p < 46 && region == "fhtx":
		b := Block{Kind: "fhtx"}
		n := 1 + g.rng.Intn(2)
		for i := 0; i < n; i++ {
			b.Txs = append(b.Txs, ordinaryKeys[g.rng.Intn(len(ordinaryKeys))]+"="+g.fresh())
		}
		b.Txs = append(b.Txs, fhKeys[g.rng.Intn(len(fhKeys))]+"="+g.value())
		if g.rng.Intn(2) == 0 {
			b.Txs = append(b.Txs, g.okTx())
		}
		return b
	default:
		b := Block{Kind: "ok"}
		n := 1 + g.rng.Intn(5)
		if g.rng.Intn(25) == 0 {
			n = 200 + g.rng.Intn(900) // a large well-formed block
		}
		for i := 0; i < n; i++ {
			b.Txs = append(b.Txs, g.okTx())
		}
		return b
	}
}

var policies = []string{"each", "lag2", "sparse", "late", "never", "early"}

// ops builds the call sequence of one instance.
func (g *gen) ops(h *History, policy string) []Op { return g.opsFrom(h, policy, 0) }

// opsFrom builds the call sequence of an instance that starts with blocks [0, from) already executed.
func (g *gen) opsFrom(h *History, policy string, from int) []Op {
	rng := g.rng
	var ops []Op
	n := len(h.Blocks)
	// where the first InitChain happens: normally before anything else
	initAt := from
	if rng.Intn(8) == 0 {
		initAt = from + rng.Intn(n-from+1)
	}
	reopenP := 3
	if h.Child {
		reopenP = 9
	}
	executed := uint64(from) // exec ops issued so far (used only to pick plausible SetFinal heights)
	lateAt := n/2 + rng.Intn(n-n/2)
	if lateAt < from {
		lateAt = from
	}
	nextBlock := from
	aux := func(max int) {
		for k := rng.Intn(max + 1); k > 0; k-- {
			switch p := rng.Intn(100); {
			case p < 30:
				// mempool content that would change the state if it leaked into execution
				tx := g.okTx()
				if rng.Intn(5) == 0 {
					tx = badTxs[rng.Intn(len(badTxs))]
				}
				if rng.Intn(3) == 0 && nextBlock < n && len(h.Blocks[nextBlock].Txs) > 0 {
					// this instance is the one whose mempool the transaction came from (the proposer): the very bytes of a
					// transaction of the block it is about to execute pass through its mempool first
					bt := h.Blocks[nextBlock].Txs
					tx = bt[rng.Intn(len(bt))]
				}
				ops = append(ops, Op{K: "inject", Tx: tx})
			case p < 50:
				ops = append(ops, Op{K: "gettxs"})
			case p < 65:
				ops = append(ops, Op{K: "init"})
			case p < 65+reopenP:
				ops = append(ops, Op{K: "reopen"})
			case p < 85:
				ops = append(ops, Op{K: "observe"})
			}
		}
	}
	final := func(i int, afterExec bool) {
		if h.Region == "clean" || policy == "never" {
			return
		}
		hh := executed
		if hh == 0 {
			hh = 1
		}
		switch policy {
		case "each":
			if afterExec {
				ops = append(ops, Op{K: "setfinal", H: hh})
			}
		case "lag2":
			if afterExec && executed > 2 {
				ops = append(ops, Op{K: "setfinal", H: executed - 2})
			}
		case "sparse":
			if rng.Intn(4) == 0 {
				ops = append(ops, Op{K: "setfinal", H: hh})
			}
		case "late":
			if i == lateAt && afterExec {
				ops = append(ops, Op{K: "setfinal", H: hh})
			}
		case "early":
			// finalizes ahead of execution, including before InitChain and with the refused height 0
			if !afterExec && rng.Intn(3) == 0 {
				ops = append(ops, Op{K: "setfinal", H: uint64(rng.Intn(3)) * (executed + 1)})
			}
		}
	}
	for i, b := range h.Blocks {
		if i < from {
			continue
		}
		nextBlock = i
		if i == initAt {
			ops = append(ops, Op{K: "init"})
			if rng.Intn(3) == 0 {
				ops = append(ops, Op{K: "init"})
			}
		}
		final(i, false)
		aux(2)
		if b.Kind == "malformed" && rng.Intn(3) == 0 {
			continue // this instance never sees the refused block at all
		}
		ops = append(ops, Op{K: "exec", B: i})
		executed++
		switch b.Kind {
		case "malformed", "fhtx":
			// look at the state right after the (possibly refused) block
			if b.Kind == "malformed" || rng.Intn(2) == 0 {
				ops = append(ops, Op{K: "observe"})
			}
		default:
			final(i, true)
			if rng.Intn(6) == 0 {
				aux(2)
				ops = append(ops, Op{K: "reexec", B: i})
			}
		}
		if b.Kind == "fhtx" {
			final(i, true)
		}
		for _, o := range h.Old {
			if o.After == i {
				if rng.Intn(2) == 0 {
					aux(1)
				}
				// always followed by a look at the root: it tells what the re-execution did
				ops = append(ops, Op{K: "reexec", B: o.Block}, Op{K: "observe"})
			}
		}
	}
	if initAt == n {
		ops = append(ops, Op{K: "init"})
	}
	aux(2)
	if rng.Intn(3) == 0 {
		ops = append(ops, Op{K: "reopen"})
	}
	ops = append(ops, Op{K: "init"}, Op{K: "observe"})
	return ops
}

func (g *gen) history(id int, quick bool) History {
	rng := g.rng
	h := History{ID: id}
	switch p := rng.Intn(100); {
	case p < 35:
		h.Region = "clean"
	case p < 80:
		h.Region = "setfinal"
	default:
		h.Region = "fhtx"
	}
	h.Child = rng.Intn(25) == 0
	n := 5 + rng.Intn(36)
	if h.Child && n > 12 {
		n = 5 + rng.Intn(8)
	}
	for i := 0; i < n; i++ {
		h.Blocks = append(h.Blocks, g.block(h.Region))
	}
	if rng.Intn(6) == 0 {
		// an older block is offered again after later blocks (one or two places)
		for k := 1 + rng.Intn(2); k > 0; k-- {
			after := 1 + rng.Intn(n-1)
			var cand []int
			for j := 0; j < after; j++ {
				if h.Blocks[j].Kind == "ok" && len(h.Blocks[j].Txs) <= 8 {
					cand = append(cand, j)
				}
			}
			if len(cand) > 0 && h.Blocks[after].Kind != "malformed" {
				h.Old = append(h.Old, OldRe{After: after, Block: cand[rng.Intn(len(cand))]})
			}
		}
	}
	h.PolA, h.PolB = "never", "never"
	if h.Region != "clean" {
		// different finalization timing on the two instances; in region fhtx one history in three
		// finalizes nothing at all (the key is then only ever written by transactions)
		if h.Region == "setfinal" || rng.Intn(3) != 0 {
			a := rng.Intn(len(policies))
			b := (a + 1 + rng.Intn(len(policies)-1)) % len(policies)
			h.PolA, h.PolB = policies[a], policies[b]
		}
	}
	h.OpsA = g.ops(&h, h.PolA)
	h.OpsB = g.ops(&h, h.PolB)
	return h
}

// goldenHistory builds a case around the recorded data directory: the recorded blocks followed by 2-9 new ones.
func (g *gen) goldenHistory(id int, gold *goldenFile) History {
	rng := g.rng
	h := History{ID: id, Region: "setfinal", Golden: len(gold.Blocks)}
	h.Child = rng.Intn(6) == 0
	h.Blocks = append(h.Blocks, gold.Blocks...)
	for n := 2 + rng.Intn(8); n > 0; n-- {
		h.Blocks = append(h.Blocks, g.block(h.Region))
	}
	a := rng.Intn(len(policies))
	b := (a + 1 + rng.Intn(len(policies)-1)) % len(policies)
	h.PolA, h.PolB = policies[a], policies[b]
	h.OpsA = g.ops(&h, h.PolA)
	h.OpsB = g.opsFrom(&h, h.PolB, h.Golden)
	// the first look at the directory: the root before anything new is executed (one case in three starts
	// without a call of InitChain, as a node whose stored height is past genesis does)
	head := []Op{{K: "init"}, {K: "observe"}}
	if rng.Intn(3) == 0 {
		head = head[1:]
	}
	h.OpsB = append(head, h.OpsB...)
	return h
}

// abstract is the canonical form used for distinct counting: region, block kinds, and the
// operation-kind sequence of both instances.
func (h History) abstract() string {
	var sb strings.Builder
	sb.WriteString(h.Region)
	if h.Child {
		sb.WriteString("/child")
	}
	if h.Golden > 0 {
		fmt.Fprintf(&sb, "/recorded%d", h.Golden)
	}
	for _, o := range h.Old {
		fmt.Fprintf(&sb, "/old%d-%d", o.After, o.Block)
	}
	sb.WriteString("|")
	for _, b := range h.Blocks {
		sb.WriteByte(b.Kind[0])
	}
	for _, ops := range [][]Op{h.OpsA, h.OpsB} {
		sb.WriteString("|")
		for _, o := range ops {
			switch o.K {
			case "setfinal":
				if o.H == 0 {
					sb.WriteString("F0")
				} else {
					sb.WriteString("F")
				}
			case "reexec":
				sb.WriteString("X")
			case "reopen":
				sb.WriteString("R")
			default:
				sb.WriteByte(o.K[0])
			}
		}
	}
	return sb.String()
}

func (h History) nontrivial() bool {
	for _, b := range h.Blocks {
		if b.Kind == "malformed" || b.Kind == "fhtx" {
			return true
		}
	}
	for _, ops := range [][]Op{h.OpsA, h.OpsB} {
		for _, o := range ops {
			if o.K == "reopen" || o.K == "setfinal" {
				return true
			}
		}
	}
	return false
}

func opsString(ops []Op) string {
	parts := make([]string, 0, len(ops))
	for _, o := range ops {
		switch o.K {
		case "exec", "reexec":
			parts = append(parts, fmt.Sprintf("%s(%d)", o.K, o.B))
		case "setfinal":
			parts = append(parts, fmt.Sprintf("setfinal(%d)", o.H))
		case "inject":
			parts = append(parts, fmt.Sprintf("inject(%q)", o.Tx))
		default:
			parts = append(parts, o.K)
		}
	}
	return strings.Join(parts, " ")
}

func (h History) sample() any {
	bl := make([]string, 0, len(h.Blocks))
	for _, b := range h.Blocks {
		bl = append(bl, fmt.Sprintf("%s%q", b.Kind, b.Txs))
	}
	return map[string]any{
		"id": h.ID, "region": h.Region, "reopen_by_child_process": h.Child,
		"setfinal_policy": h.PolA + "/" + h.PolB, "old_block_reexecutions": h.Old,
		"blocks": bl, "calls_a": opsString(h.OpsA), "calls_b": opsString(h.OpsB),
		"recorded_blocks_already_in_the_directory_of_b": h.Golden,
	}
}
