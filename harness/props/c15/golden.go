package c15

// A data directory written by an earlier build ("... not on restarts, or on which node executes them": the node
// that restarts may have been upgraded in between). /verif/golden/c15/datadir.tar.gz is the directory a KVExecutor
// of the pinned tree left behind after the calls listed in /verif/golden/c15/history.json (InitChain, a few blocks,
// SetFinal, a clean close); it was written once with VERIF_C15_WRITE_GOLDEN=1 and is never regenerated to make a
// check pass. A golden history (gen.go, goldenHistory) unpacks a copy, opens it with the tree under test as
// instance B and feeds it new blocks, while the fresh instance A executes the recorded blocks and the same new
// ones: the relational judge then requires what it requires of any two instances that executed the same
// transactions. Nothing of today's layout is named here: neither key names nor root bytes (the roots in the record
// are driver input - the previous root argument of the next block - and bookkeeping of the judge, never compared).

import (
	"archive/tar"
	"bytes"
	"compress/gzip"
	"context"
	"encoding/json"
	"errors"
	"fmt"
	"io"
	"io/fs"
	"os"
	"path/filepath"
	"sort"
	"strings"

	"verifharness/vk"
)

// goldenSub is the dbpath argument the recorded directory was written with (top directory inside the archive).
const goldenSub = "g"

type goldenFile struct {
	Note   string  `json:"note"`
	Blocks []Block `json:"blocks"`
	Ops    []Op    `json:"calls"`
	Obs    []Obs   `json:"returned"`
	Resume Resume  `json:"driver_state_at_the_end"`

	archive []byte
}

func goldenDir() string { return filepath.Join(vk.Root(), "golden", "c15") }

// goldenCalls is the fixed history behind the recorded directory: well-formed blocks over the generator's key
// alphabet, an empty and a refused block, mempool traffic, two SetFinal calls and a repeated InitChain.
func goldenCalls() ([]Block, []Op) {
	blocks := []Block{
		{Kind: "ok", Txs: []string{"a=g1", "c/d=g2"}},
		{Kind: "ok", Txs: []string{"b=g3", "genesis=g4"}},
		{Kind: "empty", Txs: []string{}},
		{Kind: "malformed", Txs: []string{"e=g5", "novalue"}},
		{Kind: "ok", Txs: []string{"/a=g6", "Genesis/initialized=g7", "finalizedheight=2"}},
		{Kind: "ok", Txs: []string{"e=g8", "x/../b=g9"}},
	}
	ops := []Op{
		{K: "init"}, {K: "exec", B: 0}, {K: "inject", Tx: "zz=1"}, {K: "exec", B: 1}, {K: "setfinal", H: 1},
		{K: "exec", B: 2}, {K: "exec", B: 3}, {K: "observe"}, {K: "exec", B: 4}, {K: "gettxs"},
		{K: "setfinal", H: 3}, {K: "exec", B: 5}, {K: "init"}, {K: "observe"},
	}
	return blocks, ops
}

// writeGolden records the directory and the history (VERIF_C15_WRITE_GOLDEN=1).
func writeGolden() int {
	base, err := os.MkdirTemp("", "c15-golden-*")
	if err != nil {
		fmt.Println("golden:", err)
		return 1
	}
	defer os.RemoveAll(base)
	blocks, ops := goldenCalls()
	gf := goldenFile{Note: "C15 recorded data directory: datadir.tar.gz is what a KVExecutor of the pinned tree (NewKVExecutor(<dir>, \"" + goldenSub + "\")) left on disk after these calls and a clean close; written once with VERIF_C15_WRITE_GOLDEN=1, do not regenerate to make a check pass", Blocks: blocks, Ops: ops}
	rs := &Resume{}
	gf.Obs, err = runInProcessFrom(context.Background(), base, goldenSub, blocks, ops, rs)
	if err != nil {
		fmt.Println("golden:", err)
		return 1
	}
	gf.Resume = *rs
	for i, o := range gf.Obs {
		refusedBlock := ops[i].K == "exec" && blocks[ops[i].B].Kind == "malformed"
		if (o.Err != "") != refusedBlock {
			fmt.Printf("golden: call %d %s: unexpected outcome %q; nothing written\n", i, opsString(ops[i:i+1]), o.Err)
			return 1
		}
	}
	var buf bytes.Buffer
	if err := packDir(&buf, base, goldenSub); err != nil {
		fmt.Println("golden:", err)
		return 1
	}
	if err := os.MkdirAll(goldenDir(), 0o755); err != nil {
		fmt.Println("golden:", err)
		return 1
	}
	b, _ := json.MarshalIndent(gf, "", " ")
	if err := os.WriteFile(filepath.Join(goldenDir(), "history.json"), append(b, '\n'), 0o644); err != nil {
		fmt.Println("golden:", err)
		return 1
	}
	if err := os.WriteFile(filepath.Join(goldenDir(), "datadir.tar.gz"), buf.Bytes(), 0o644); err != nil {
		fmt.Println("golden:", err)
		return 1
	}
	fmt.Printf("golden: wrote %s (%d bytes of archive, %d calls)\n", goldenDir(), buf.Len(), len(ops))
	return 0
}

// packDir writes base/sub as a gzipped tar with paths relative to base.
func packDir(w io.Writer, base, sub string) error {
	var files []string
	err := filepath.WalkDir(filepath.Join(base, sub), func(p string, d fs.DirEntry, err error) error {
		if err != nil {
			return err
		}
		if d.Type().IsRegular() {
			files = append(files, p)
		}
		return nil
	})
	if err != nil {
		return err
	}
	sort.Strings(files)
	zw := gzip.NewWriter(w)
	tw := tar.NewWriter(zw)
	for _, p := range files {
		rel, _ := filepath.Rel(base, p)
		b, err := os.ReadFile(p)
		if err != nil {
			return err
		}
		if err := tw.WriteHeader(&tar.Header{Name: filepath.ToSlash(rel), Mode: 0o644, Size: int64(len(b)), Typeflag: tar.TypeReg}); err != nil {
			return err
		}
		if _, err := tw.Write(b); err != nil {
			return err
		}
	}
	if err := tw.Close(); err != nil {
		return err
	}
	return zw.Close()
}

var errNoGolden = errors.New("recorded data directory not available")

// loadGolden reads the record and the archive.
func loadGolden() (*goldenFile, error) {
	b, err := os.ReadFile(filepath.Join(goldenDir(), "history.json"))
	if err != nil {
		return nil, fmt.Errorf("%w: %v", errNoGolden, err)
	}
	gf := &goldenFile{}
	if err := json.Unmarshal(b, gf); err != nil {
		return nil, fmt.Errorf("%w: history.json: %v", errNoGolden, err)
	}
	if gf.archive, err = os.ReadFile(filepath.Join(goldenDir(), "datadir.tar.gz")); err != nil {
		return nil, fmt.Errorf("%w: %v", errNoGolden, err)
	}
	if len(gf.Ops) != len(gf.Obs) || len(gf.Blocks) == 0 {
		return nil, fmt.Errorf("%w: history.json is incomplete", errNoGolden)
	}
	return gf, nil
}

// unpack writes a private copy of the recorded directory below dir (as dir/<goldenSub>/...).
func (gf *goldenFile) unpack(dir string) error {
	zr, err := gzip.NewReader(bytes.NewReader(gf.archive))
	if err != nil {
		return err
	}
	tr := tar.NewReader(zr)
	for {
		hd, err := tr.Next()
		if err == io.EOF {
			return nil
		}
		if err != nil {
			return err
		}
		name := filepath.FromSlash(hd.Name)
		if hd.Typeflag != tar.TypeReg || filepath.IsAbs(name) || strings.Contains(name, "..") {
			continue
		}
		p := filepath.Join(dir, name)
		if err := os.MkdirAll(filepath.Dir(p), 0o755); err != nil {
			return err
		}
		b, err := io.ReadAll(tr)
		if err != nil {
			return err
		}
		if err := os.WriteFile(p, b, 0o644); err != nil {
			return err
		}
	}
}
