// Package c01 decides C01: the sequencer node only ever commits a valid, hash-linked, signed chain.
package c01

import (
	"bytes"
	"context"
	"fmt"
	"math/rand"
	"os"
	"strings"
	"sync"
	"time"

	"verifharness/monitors"
	"verifharness/vk"
	"verifharness/world"
)

// Step is one scripted production step.
type Step struct {
	Kind  world.SeqKind `json:"kind"`
	NTx   int           `json:"ntx"`
	TxGen string        `json:"txgen"` // alpha | random | empty | big
	Ts    string        `json:"ts"`    // inc | eq | dec
	Exec  string        `json:"exec"`  // ok | err1 | err2 | cancel | ctx | slow
	// SeqErr is the identity of the error of an "error" step: plain (an opaque value) | wraps-deadline | wraps-canceled |
	// deadline | canceled (context.DeadlineExceeded / context.Canceled, wrapped or bare) | io-timeout (wraps
	// os.ErrDeadlineExceeded). The node's own context is alive in every case: the sequencing layer bounded a call of its own.
	SeqErr string `json:"seq_err,omitempty"`
}

// seqErrKinds are the identities a transient sequencing-layer error may carry.
var seqErrKinds = []string{"plain", "wraps-deadline", "wraps-canceled", "deadline", "canceled", "io-timeout"}

// seqErrOf builds the error of that identity (nil: the double's opaque default).
func seqErrOf(kind string) error {
	switch kind {
	case "wraps-deadline":
		return fmt.Errorf("verif: sequencer backend: %w", context.DeadlineExceeded)
	case "wraps-canceled":
		return fmt.Errorf("verif: sequencer backend: %w", context.Canceled)
	case "deadline":
		return context.DeadlineExceeded
	case "canceled":
		return context.Canceled
	case "io-timeout":
		return fmt.Errorf("verif: sequencer backend: read: %w", os.ErrDeadlineExceeded)
	}
	return nil
}

// Script is one generated case.
type Script struct {
	ID      int    `json:"id"`
	Initial uint64 `json:"initial_height"`
	Lazy    bool   `json:"lazy"`
	Steps   []Step `json:"steps"`
	TxSeed  int64  `json:"tx_seed"`
	// Roots is what the execution layer returns as state root, per executed height (cyclic: height modulo the length):
	// hash (a digest of the previous root and the transactions) | nil | empty | same (the previous root again: nothing
	// changed) | short (one byte) | long (128 bytes) | zeros. Absent: hash everywhere.
	Roots []string `json:"exec_roots,omitempty"`
	// BlockTimeMs, if not zero, is the configured block interval (the steps are driven by the harness, not by that timer);
	// such a script has steps with exec "slow": the block executed next takes SlowExecMs - several block intervals - to
	// execute, every time it is executed, and the execution layer honours its context like a remote client.
	BlockTimeMs int `json:"block_time_ms,omitempty"`
	SlowExecMs  int `json:"slow_exec_ms,omitempty"`
}

// rootKinds are the state roots an execution layer may return besides a fresh digest: the interface promises no length.
var rootKinds = []string{"nil", "empty", "same", "short", "long", "zeros"}

// rootFn is the (deterministic) root function of the script's execution layer.
func (s Script) rootFn() func(uint64, []byte, [][]byte) []byte {
	if len(s.Roots) == 0 {
		return nil
	}
	return func(h uint64, prev []byte, txs [][]byte) []byte {
		d := world.RootAfter(prev, txs)
		switch s.Roots[int(h%uint64(len(s.Roots)))] {
		case "nil":
			return nil
		case "empty":
			return []byte{}
		case "same":
			return append([]byte{}, prev...)
		case "short":
			return d[:1]
		case "long":
			return bytes.Repeat(d, 4)
		case "zeros":
			return make([]byte, 32)
		}
		return d
	}
}

func (s Script) abstract() string {
	var sb strings.Builder
	fmt.Fprintf(&sb, "i%d l%v:", s.Initial, s.Lazy)
	for _, st := range s.Steps {
		fmt.Fprintf(&sb, "%s%s/%s/%s,", st.Kind, errTag(st), st.Ts, st.Exec)
	}
	if len(s.Roots) > 0 {
		fmt.Fprintf(&sb, " roots=%s", strings.Join(s.Roots, ","))
	}
	return sb.String()
}

func errTag(st Step) string {
	if st.Kind == world.SeqError && st.SeqErr != "" && st.SeqErr != "plain" {
		return "(" + st.SeqErr + ")"
	}
	return ""
}

func gen(rng *rand.Rand, id int, quick bool) Script {
	inits := []uint64{1, 1, 2, 7, 1000}
	s := Script{ID: id, Initial: inits[rng.Intn(len(inits))], Lazy: rng.Intn(3) == 0, TxSeed: rng.Int63()}
	n := 10 + rng.Intn(30)
	if !quick {
		n = 10 + rng.Intn(51)
	}
	// bias profiles so that rare combinations appear often
	hostile := rng.Intn(4) // 0: mostly nominal, 3: very hostile
	for i := 0; i < n; i++ {
		st := Step{Kind: world.SeqTxs, Ts: "inc", Exec: "ok", TxGen: "alpha"}
		p := rng.Intn(100)
		switch {
		case p < 40-hostile*5:
			st.Kind = world.SeqTxs
		case p < 65:
			st.Kind = world.SeqEmpty
		case p < 75:
			st.Kind = world.SeqNilResp
		case p < 85:
			st.Kind = world.SeqNilBatch
		case p < 92:
			st.Kind = world.SeqError
		default:
			st.Kind = world.SeqTxs
		}
		st.NTx = 1 + rng.Intn(5)
		if rng.Intn(40) == 0 {
			// a large batch: around the round numbers a size- or count-limited copy would stop at
			st.NTx = []int{100, 255, 256, 257, 300, 1000, 1025}[rng.Intn(7)]
		}
		switch rng.Intn(10) {
		case 0:
			st.TxGen = "random"
		case 1:
			st.TxGen = "empty"
		case 2:
			if rng.Intn(3) == 0 {
				st.TxGen = "big"
			}
		}
		t := rng.Intn(100)
		switch {
		case t < 60-hostile*10:
			st.Ts = "inc"
		case t < 80-hostile*5:
			st.Ts = "eq"
		default:
			st.Ts = "dec"
		}
		e := rng.Intn(100)
		switch {
		case e < 80-hostile*8:
			st.Exec = "ok"
		case e < 88:
			st.Exec = "err1"
		case e < 93:
			st.Exec = "err2"
		case e < 97:
			st.Exec = "cancel"
		default:
			st.Exec = "ctx"
		}
		s.Steps = append(s.Steps, st)
	}
	// one script in three runs against an execution layer whose roots are not all fresh digests (drawn from a stream of
	// its own, so that the steps above are the same with and without it)
	if rr := rand.New(rand.NewSource(s.TxSeed ^ 0x726f6f74)); rr.Intn(3) == 0 {
		s.Roots = make([]string, 2+rr.Intn(8))
		for i := range s.Roots {
			s.Roots[i] = "hash"
			if rr.Intn(2) == 0 {
				s.Roots[i] = rootKinds[rr.Intn(len(rootKinds))]
				if rr.Intn(2) == 0 {
					s.Roots[i] = []string{"nil", "empty"}[rr.Intn(2)]
				}
			}
		}
	}
	// the identity of every sequencing error, and in one script of eight one or two blocks whose execution outlasts the
	// block interval (again from a stream of its own)
	xr := rand.New(rand.NewSource(s.TxSeed ^ 0x736c6f77))
	for i := range s.Steps {
		if s.Steps[i].Kind == world.SeqError {
			s.Steps[i].SeqErr = seqErrKinds[xr.Intn(len(seqErrKinds))]
		}
	}
	if xr.Intn(8) == 0 {
		var cand []int
		for i, st := range s.Steps {
			if (st.Kind == world.SeqTxs || st.Kind == world.SeqEmpty) && st.Exec == "ok" {
				cand = append(cand, i)
			}
		}
		if len(cand) > 0 {
			s.BlockTimeMs, s.SlowExecMs = 5, 25
			for k := 0; k < 1+xr.Intn(2); k++ {
				s.Steps[cand[xr.Intn(len(cand))]].Exec = "slow"
			}
		}
	}
	return s
}

func mkTxs(rng *rand.Rand, st Step) [][]byte {
	txs := make([][]byte, st.NTx)
	for i := range txs {
		switch st.TxGen {
		case "random":
			b := make([]byte, 1+rng.Intn(200))
			rng.Read(b)
			txs[i] = b
		case "empty":
			if i == 0 {
				txs[i] = []byte{}
			} else {
				txs[i] = []byte{byte('a' + rng.Intn(3))}
			}
		case "big":
			if st.NTx > 8 && i > 2 {
				txs[i] = []byte{byte(i), byte(i >> 8)}
				continue
			}
			b := make([]byte, []int{64 * 1024, 256*1024 + 1, 1<<20 + 7}[(i+st.NTx)%3])
			rng.Read(b)
			txs[i] = b
		default:
			l := 1 + rng.Intn(3)
			b := make([]byte, l)
			for j := range b {
				b[j] = byte('a' + rng.Intn(3))
			}
			txs[i] = b
		}
	}
	return txs
}

type result struct {
	committed   int
	nonNominal  int
	transitions map[string]bool
}

// RunScript executes one script against the real Manager and judges it.
func RunScript(r *vk.Run, s Script) {
	ctx := context.Background()
	txr := rand.New(rand.NewSource(s.TxSeed))
	im := world.NewImage()
	dsp := world.NewMemDS(im)
	exec := world.NewExecDouble()
	exec.RootFn = s.rootFn()
	seq := world.NewSeqDouble()
	da := world.NewDADouble()
	keys := world.NewKeys("proposer")
	opts := world.NodeOpts{Aggregator: true, InitialHeight: s.Initial, Lazy: s.Lazy}
	var slowMu sync.Mutex
	slowArmed, slowHeights := false, map[uint64]bool{}
	if s.BlockTimeMs > 0 {
		opts.BlockTime = time.Duration(s.BlockTimeMs) * time.Millisecond
		exec.SlowExec = func(h uint64) time.Duration {
			slowMu.Lock()
			defer slowMu.Unlock()
			if slowArmed {
				slowArmed, slowHeights[h] = false, true
			}
			if slowHeights[h] {
				return time.Duration(s.SlowExecMs) * time.Millisecond
			}
			return 0
		}
	}
	n, err := world.NewNode(ctx, opts, keys, dsp, exec, seq, da, nil)
	if err != nil {
		r.Violation("startup", fmt.Sprintf("NewManager failed on an empty store: %v", err), s)
		return
	}
	genesisNano := uint64(world.GenesisTime.UnixNano())
	lastT := world.GenesisTime // time of the newest block that is committed or pending
	var released []world.SeqResp
	firstHash := map[uint64][]byte{}
	nonNominal := 0
	prevKind := "start"
	var viol []string
	witness := func() any {
		return map[string]any{"script": s, "write_log_tail": tail(world.FormatLog(dsp.Log()), 30)}
	}
	heightOf := func() uint64 { h, _ := n.Store.Height(ctx); return h }
	step := func(sctx context.Context) {
		before := heightOf()
		_ = n.M.VerifPublishBlock(sctx)
		after := heightOf()
		r.Hit("height-step")
		if after != before && after != before+1 {
			viol = append(viol, fmt.Sprintf("height moved from %d to %d in one step", before, after))
		}
		if after == before+1 {
			hdr, _, err := n.Store.GetBlockData(ctx, after)
			if err != nil {
				viol = append(viol, fmt.Sprintf("height %d committed but block unreadable: %v", after, err))
			} else {
				firstHash[after] = hdr.Hash()
			}
			if st, err := n.Store.GetState(ctx); err != nil || st.LastBlockHeight != after {
				viol = append(viol, fmt.Sprintf("after committing %d the stored state has height %d (err=%v)", after, st.LastBlockHeight, err))
			}
		}
	}
	for _, st := range s.Steps {
		var ts time.Time
		switch st.Ts {
		case "inc":
			ts = lastT.Add(delta(txr))
		case "eq":
			ts = lastT
		default:
			ts = lastT.Add(-delta(txr))
		}
		resp := world.SeqResp{Kind: st.Kind, Time: ts, Err: seqErrOf(st.SeqErr)}
		if st.Kind == world.SeqError {
			r.Count("sequencing_error:"+map[bool]string{true: "plain", false: st.SeqErr}[st.SeqErr == ""], 1)
		}
		if st.Kind == world.SeqTxs {
			resp.Txs = mkTxs(txr, st)
		}
		id := seq.Push(resp)
		if st.Kind == world.SeqTxs || st.Kind == world.SeqEmpty {
			resp.ID = id
			released = append(released, resp)
			if !ts.Before(lastT) {
				lastT = ts
			}
		}
		if st.Kind != world.SeqTxs || st.Ts != "inc" || st.Exec != "ok" {
			nonNominal++
		}
		key := prevKind + ">" + st.Kind.String()
		r.Count("transition:"+key, 1)
		prevKind = st.Kind.String()
		sctx := ctx
		switch st.Exec {
		case "err1":
			exec.Script(world.ExecErr)
		case "err2":
			exec.Script(world.ExecErr, world.ExecErr)
		case "cancel":
			exec.Script(world.ExecCtxCancelled)
		case "ctx":
			c, cancel := context.WithCancel(ctx)
			cancel()
			sctx = c
		case "slow":
			slowMu.Lock()
			slowArmed = true
			slowMu.Unlock()
		}
		step(sctx)
	}
	if _, done := exec.SlowExecCounts(); done > 0 {
		r.Hit("execution-outlasts-block-interval")
	}
	// --- no-stall: drain what is queued, then three well-formed responses must be committed
	exec.ClearScript()
	for i := 0; i < len(s.Steps)+4 && seq.Pending() > 0; i++ {
		step(ctx)
	}
	// one more clean step commits a block that may still be pending
	step(ctx)
	base := heightOf()
	for i := 0; i < 3; i++ {
		lastT = lastT.Add(time.Second)
		resp := world.SeqResp{Kind: world.SeqTxs, Time: lastT, Txs: [][]byte{[]byte(fmt.Sprintf("good-%d-%d", s.ID, i))}}
		resp.ID = seq.Push(resp)
		released = append(released, resp)
	}
	for i := 0; i < 3; i++ {
		step(ctx)
	}
	r.Hit("no-stall")
	if got := heightOf(); got < base+2 {
		id := "C01-ts-empty"
		detail := fmt.Sprintf("after the hostile script three well-formed batches and three clean steps raised the height only from %d to %d", base, got)
		if s.BlockTimeMs > 0 {
			ab, done := exec.SlowExecCounts()
			detail += fmt.Sprintf("; the script has blocks whose execution takes %d ms at a block interval of %d ms, on an execution layer that honours its context: %d such execution(s) were cut short by the context the node passed, %d ran to their end", s.SlowExecMs, s.BlockTimeMs, ab, done)
		}
		// the known shape of C01-ts-empty: an empty batch with a decreasing timestamp was early-saved
		if hasEmptyDec(s) && r.IsKnown(id) {
			r.Finding(id, "no-stall", detail, witness())
		} else {
			r.Violation("no-stall", detail, witness())
		}
		return
	}
	// --- W1 on the final chain
	ex := monitors.ChainExpect{
		ChainID: n.Genesis.ChainID, InitialHeight: s.Initial, Pub: keys.Pub, Addr: keys.Addr, GenesisNano: genesisNano,
		Responses: released,
		AllowSkip: func(rp world.SeqResp, prevNano uint64) bool {
			// a batch stamped before its predecessor can only be dropped
			return uint64(rp.Time.UnixNano()) < prevNano
		},
		CheckExecLog: true, Execs: exec.Execs(), RootFn: s.rootFn(),
	}
	blocks, probs := monitors.CheckChain(ctx, n.Store, ex, r.Hit)
	for _, p := range probs {
		viol = append(viol, p.String())
	}
	for i, b := range blocks {
		// (what the app-hash clause judged: the header after a block whose execution returned no root at all / the
		// unchanged root carries exactly that)
		if i > 0 && len(blocks[i-1].Root) == 0 {
			r.Hit("app-hash-after-empty-root")
		} else if i > 1 && len(blocks[i-2].Root) == 0 {
			r.Hit("app-hash-after-root-following-empty-root")
		}
		if fh, ok := firstHash[b.Height]; ok {
			r.Hit("immutable")
			if !bytes.Equal(fh, b.HeaderHash) {
				viol = append(viol, fmt.Sprintf("header at committed height %d changed afterwards", b.Height))
			}
		}
	}
	// chain-height writes: never skipping, never down
	for _, p := range monitors.CheckHeightWritesAcross([][]world.WriteRec{dsp.Log()}, r.Hit) {
		viol = append(viol, p.String())
	}
	for _, p := range monitors.CheckBroadcasts(blocks, s.Initial, n.HB.Items(), n.DB.Items(), r.Hit) {
		viol = append(viol, p.String())
	}
	// the same validation a full node applies: a shadow full node must accept the chain
	if msg := Shadow(ctx, n, blocks, r, s.rootFn()); msg != "" {
		viol = append(viol, msg)
	}
	if len(viol) > 0 {
		r.Violation(firstClause(viol[0]), strings.Join(viol, " ;; "), witness())
	}
	committed := len(blocks)
	r.Count("blocks_committed", int64(committed))
	r.Eval(s.abstract(), committed >= 2 && nonNominal >= 1, sampleOf(s, committed))
}

func firstClause(s string) string {
	if i := strings.IndexAny(s, "@: "); i > 0 {
		return s[:i]
	}
	return "chain"
}

func hasEmptyDec(s Script) bool {
	for _, st := range s.Steps {
		if (st.Kind == world.SeqEmpty) && st.Ts == "dec" {
			return true
		}
	}
	return false
}

func sampleOf(s Script, committed int) any {
	steps := make([]string, 0, len(s.Steps))
	for _, st := range s.Steps {
		steps = append(steps, fmt.Sprintf("%s%s/%s/%s", st.Kind, errTag(st), st.Ts, st.Exec))
	}
	return map[string]any{"initial_height": s.Initial, "lazy": s.Lazy, "steps": steps, "blocks_committed": committed, "exec_roots": s.Roots, "block_time_ms": s.BlockTimeMs, "slow_exec_ms": s.SlowExecMs}
}

func tail(s []string, n int) []string {
	if len(s) > n {
		return s[len(s)-n:]
	}
	return s
}

// Shadow feeds the committed chain, in order, to a real non-aggregator Manager and requires it
// to apply every block ("passes the same validation a full node applies").
func Shadow(ctx context.Context, agg *world.Node, blocks []monitors.Block, r *vk.Run, rootFn func(uint64, []byte, [][]byte) []byte) string {
	if len(blocks) == 0 {
		return ""
	}
	im := world.NewImage()
	fexec := world.NewExecDouble()
	fexec.RootFn = rootFn // the full node runs the same (deterministic) execution layer
	opts := world.NodeOpts{Aggregator: false, InitialHeight: agg.Opts.InitialHeight, DABlockTime: time.Hour, BlockTime: time.Hour}
	var fn *world.Node
	var l *world.Loops
	start := func() string {
		var err error
		fn, err = world.NewNode(ctx, opts, agg.Keys, world.NewMemDS(im), fexec, world.NewSeqDouble(), world.NewDADouble(), nil)
		if err != nil {
			return "shadow full node failed to start: " + err.Error()
		}
		l = world.StartLoops(ctx, fn, "sync")
		return ""
	}
	if msg := start(); msg != "" {
		return msg
	}
	defer func() { l.Stop() }()
	// A full node drops data whose commitment it has already seen (recorded as known finding
	// C02-repeated-txlist). To keep this check independent of that finding the shadow node is
	// restarted (fresh in-memory caches, same store) before a non-empty tx list repeats.
	seen := map[string]bool{}
	for _, b := range blocks {
		hdr, data, err := agg.Store.GetBlockData(ctx, b.Height)
		if err != nil {
			return "shadow: " + err.Error()
		}
		if len(b.Txs) > 0 {
			k := string(monitors.Commitment(b.Txs))
			if seen[k] {
				if err := l.SyncBarrier(); err != nil && err != world.ErrWatchdog {
					return "shadow full node rejected the chain: " + err.Error()
				}
				l.Stop()
				if msg := start(); msg != "" {
					return msg
				}
				seen = map[string]bool{}
				r.Count("shadow_restarts", 1)
			}
			seen[k] = true
		}
		l.SendHeader(hdr, 0)
		l.SendData(data, 0)
	}
	if err := l.SyncBarrier(); err != nil {
		if err == world.ErrWatchdog {
			r.Inconclusive("shadow full node barrier watchdog")
			return ""
		}
		return "shadow full node rejected the chain: " + err.Error()
	}
	r.Hit("shadow-full-node")
	fh, _ := fn.Store.Height(ctx)
	ah := blocks[len(blocks)-1].Height
	if fh != ah {
		return fmt.Sprintf("shadow full node stopped at height %d, sequencer chain is at %d", fh, ah)
	}
	for _, b := range blocks {
		hdr, _, err := fn.Store.GetBlockData(ctx, b.Height)
		if err != nil || !bytes.Equal(hdr.Hash(), b.HeaderHash) {
			return fmt.Sprintf("shadow full node block %d differs (err=%v)", b.Height, err)
		}
	}
	return ""
}

// Level is the verification level claimed for this property.
const Level = "exploration"

// Run is the check entry point.
func Run(r *vk.Run) {
	world.Silence()
	r.Rule = "seeded scripts of 10-60 production steps on the real aggregator Manager (per step: response kind txs|empty|nilresp|nilbatch|error x timestamp inc|eq|dec x execution ok|err1|err2|cancel|ctx|slow (the block takes 5 block intervals to execute, on an execution layer that honours its context; one script of eight); a sequencing error is opaque or carries the identity of context.DeadlineExceeded / context.Canceled (wrapped or bare) or of an i/o timeout; initial height 1|2|7|1000; lazy flag; in one script of three the execution layer's state roots follow a per-height pattern of hash|nil|empty|same-as-before|1 byte|128 bytes|zeros); non-trivial = >=2 blocks committed and >=1 non-nominal step; distinct by abstract script (kind/ts/exec per step + configuration); plus the real AggregationLoop (block time 2 ms, normal and lazy) against 1-3 consecutive execution failures, 1-3 consecutive transient sequencing errors of each identity, and 1-3 consecutive blocks whose execution takes 20 block intervals"
	r.Assume("datastore is the in-memory MemDS double (atomic Batch.Commit, durable Put)")
	r.Assume("execution, sequencing and DA layers are doubles obeying the documented contracts")
	r.Assume("default signature payload / validator hash providers only")
	rng := r.Rand("scripts")
	n := r.N(2000, 60000)
	scripts := make([]Script, n)
	for i := range scripts {
		scripts[i] = gen(rng, i, r.Quick())
	}
	r.Require("no-stall", int64(n/2))
	r.Require("hash-link", 100)
	r.Require("shadow-full-node", int64(n/2))
	r.Require("app-hash-after-empty-root", int64(n/20))
	r.Require("app-hash-after-root-following-empty-root", int64(n/20))
	var wg sync.WaitGroup
	ch := make(chan Script)
	for w := 0; w < 12; w++ {
		wg.Add(1)
		go func() {
			defer wg.Done()
			for s := range ch {
				r.Guard(s, func() { RunScript(r, s) })
			}
		}()
	}
	for _, s := range scripts {
		ch <- s
	}
	close(ch)
	wg.Wait()
	// the node's own production loop against a failing execution layer (loop.go)
	lrng := r.Rand("loop")
	var lwg sync.WaitGroup
	lch := make(chan LoopCase)
	for w := 0; w < 8; w++ {
		lwg.Add(1)
		go func() {
			defer lwg.Done()
			for c := range lch {
				r.Guard(c, func() { runLoopCase(r, c) })
			}
		}()
	}
	id := 0
	for i := 0; i < r.N(24, 400); i++ {
		lch <- LoopCase{ID: id, Lazy: i%2 == 1, Layer: "execution", ErrKind: []string{"plain", "wraps-context-canceled"}[(i/2)%2], AtBlock: 2 + lrng.Intn(6), Times: 1 + lrng.Intn(3)}
		id++
	}
	// ... against transient sequencing-layer errors of every identity, and against blocks whose execution outlasts the
	// block interval (streams of their own: the cases above stay what they were)
	srng := r.Rand("loop-sequencing")
	for i := 0; i < r.N(2, 20)*2*len(seqErrKinds); i++ {
		lch <- LoopCase{ID: id, Lazy: i%2 == 1, Layer: "sequencing", ErrKind: seqErrKinds[(i/2)%len(seqErrKinds)], AtBlock: 2 + srng.Intn(6), Times: 1 + srng.Intn(3)}
		id++
	}
	xrng := r.Rand("loop-slow-execution")
	for i := 0; i < r.N(8, 60); i++ {
		lch <- LoopCase{ID: id, Lazy: i%2 == 1, Layer: "execution-slow", AtBlock: 1 + xrng.Intn(6), Times: 1 + (i/2)%3}
		id++
	}
	close(lch)
	lwg.Wait()
	r.Require("loop-meets-execution-failure", 12)
	r.Require("loop-meets-sequencing-error", int64(len(seqErrKinds)*2))
	r.Require("loop-meets-slow-execution", 4)
	r.Require("execution-outlasts-block-interval", int64(n/40))
}

// delta draws a time step: whole seconds, or below a second down to one nanosecond (a comparison at a coarser
// granularity than the header's nanoseconds would call such a step "equal").
func delta(rng *rand.Rand) time.Duration {
	switch rng.Intn(4) {
	case 0:
		return time.Duration(1+rng.Intn(999)) * time.Millisecond
	case 1:
		return []time.Duration{1, 999, time.Microsecond, 999_999_999}[rng.Intn(4)]
	}
	return time.Duration(1+rng.Intn(5)) * time.Second
}
