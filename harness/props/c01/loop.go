package c01

import (
	"context"
	"fmt"
	"time"

	"verifharness/vk"
	"verifharness/world"
)

// LoopCase: the node's own production loop meets a failing execution layer, a failing sequencing layer or a block whose
// execution outlasts the block interval.
type LoopCase struct {
	ID    int    `json:"id"`
	Lazy  bool   `json:"lazy"`
	Layer string `json:"layer"` // execution | sequencing | execution-slow
	// ErrKind: execution: plain | wraps-context-canceled; sequencing: one of seqErrKinds; execution-slow: unused
	ErrKind string `json:"error_kind,omitempty"`
	AtBlock int    `json:"at_block"`
	Times   int    `json:"consecutive"`
}

func (c LoopCase) key() string {
	return fmt.Sprintf("loop lazy=%v %s %s at%d x%d", c.Lazy, c.Layer, c.ErrKind, c.AtBlock, c.Times)
}

const (
	loopBlockTime = 2 * time.Millisecond
	// loopSlowExec is how long the execution of a slow block takes: 20 block intervals
	loopSlowExec = 40 * time.Millisecond
)

// runLoopCase runs the real AggregationLoop (block time 2 ms; lazy mode with notifications arriving all the time) on an
// aggregator while the node's context is alive, against one of three things.
//
// execution: the execution layer fails a few times - with a plain error, or with an error that wraps context.Canceled
// (what a remote execution client returns when ITS call was cancelled on the other side). What the node does about an
// execution failure is its own choice - report the error and stop the loop (the node shuts down and is restarted), or
// carry on - but it must not do neither: a loop that has returned without reporting anything, or that is still there and
// never produces again although the execution layer has long recovered, leaves the node "permanently unable to produce
// blocks once the responses are well-formed again".
//
// sequencing: the sequencing layer answers a few requests with a transient error - an opaque one, or one that carries
// the identity of context.DeadlineExceeded / context.Canceled / an i/o timeout (a sequencer client with a per-request
// timeout, a sequencer that bounds its own DA or database call and wraps the result). "Transient errors" of the
// sequencing layer are named by the property's quantifier: they are over with the next request, so the running node has
// to produce again once the answers are well-formed again. A loop that ended on such an error - reported or not - has
// made it fatal: a node whose production loop has ended never produces again (node/full.go shuts the whole node down
// on the first reported error).
//
// execution-slow: nothing fails at all; executing one to three consecutive blocks merely takes 20 block intervals each
// (every time they are executed), on an execution layer that honours its context like a remote client does. Every
// response is well-formed, so the chain has to get past those blocks.
func runLoopCase(r *vk.Run, c LoopCase) {
	bg := context.Background()
	ctx, cancel := context.WithCancel(bg)
	defer cancel()
	seq := world.NewSeqDouble()
	genesis := time.Now().Add(-time.Hour)
	t := genesis
	seq.Auto = func(n int) *world.SeqResp {
		t = t.Add(time.Second)
		return &world.SeqResp{Kind: world.SeqTxs, Time: t, Txs: [][]byte{[]byte(fmt.Sprintf("c01loop-%d-%d", c.ID, n))}}
	}
	exec := world.NewExecDouble()
	if c.Layer == "execution-slow" {
		exec.SlowExec = func(h uint64) time.Duration {
			if h > uint64(c.AtBlock) && h <= uint64(c.AtBlock+c.Times) {
				return loopSlowExec
			}
			return 0
		}
	}
	n, err := world.NewNode(ctx, world.NodeOpts{Aggregator: true, Lazy: c.Lazy, BlockTime: loopBlockTime, LazyInterval: time.Hour, GenesisTime: genesis},
		world.NewKeys("proposer"), world.NewMemDS(world.NewImage()), exec, seq, world.NewDADouble(), nil)
	if err != nil {
		r.Violation("startup", err.Error(), c)
		return
	}
	started := time.Now()
	loops := world.StartLoops(ctx, n, "aggregation")
	defer func() { _ = loops.Stop() }()
	height := func() uint64 { h, _ := n.Store.Height(bg); return h }
	stopNotify := make(chan struct{})
	defer close(stopNotify)
	if c.Lazy {
		go func() {
			for {
				select {
				case <-stopNotify:
					return
				default:
					n.M.NotifyNewTransactions()
					time.Sleep(time.Millisecond)
				}
			}
		}()
	}
	waitFor := func(d time.Duration, cond func() bool) bool {
		deadline := time.Now().Add(d)
		for time.Now().Before(deadline) {
			if cond() {
				return true
			}
			time.Sleep(500 * time.Microsecond)
		}
		return cond()
	}
	if !waitFor(15*time.Second, func() bool { return height() >= uint64(c.AtBlock) }) {
		r.Inconclusive(fmt.Sprintf("loop case %d: the chain did not reach block %d", c.ID, c.AtBlock))
		return
	}
	// the reference of this run: how long this loop took, on this machine and under this load, to produce its first
	// blocks; the waits below are 10 s plus a large multiple of it
	ref := time.Since(started)
	patience := 10*time.Second + 200*ref
	reported := false
	var reportedErr error
	pollReport := func() bool {
		if !reported {
			select {
			case e := <-loops.ErrCh:
				reported, reportedErr = true, e
			default:
			}
		}
		return reported
	}
	switch c.Layer {
	case "sequencing":
		for i := 0; i < c.Times; i++ {
			seq.Push(world.SeqResp{Kind: world.SeqError, Err: seqErrOf(c.ErrKind)})
		}
		if !waitFor(15*time.Second, func() bool { return seq.Pending() == 0 || loops.Exited("aggregation") }) {
			r.Inconclusive(fmt.Sprintf("loop case %d: the scripted sequencing errors were not consumed", c.ID))
			return
		}
		hFail := height()
		r.Hit("loop-meets-sequencing-error")
		r.Count("loop_sequencing_error:"+c.ErrKind, 1)
		goesOn := waitFor(patience, func() bool {
			return pollReport() || loops.Exited("aggregation") || (seq.Pending() == 0 && height() >= hFail+3)
		})
		what := fmt.Sprintf("the sequencing layer answered %d request(s) with a transient error (%s) while the node's context was alive and answers normally since", c.Times, c.ErrKind)
		switch {
		case pollReport():
			r.Violation("no-stall", fmt.Sprintf("%s; the production loop (lazy=%v) took the error for fatal, reported %q and ended at height %d: the node produces no block any more", what, c.Lazy, reportedErr, height()), c)
		case loops.Exited("aggregation"):
			r.Violation("no-stall", fmt.Sprintf("%s; the production loop (lazy=%v) returned without reporting an error at height %d: the node keeps running and will never produce a block again", what, c.Lazy, height()), c)
		case goesOn:
			r.Count("loop_carries_on_after_sequencing_error", 1)
		default:
			// the loop is still there; it is stuck only if it keeps being served well-formed batches without committing
			served := 0
			for _, call := range seq.Calls() {
				if call.Resp != nil && call.Resp.Kind == world.SeqTxs {
					served++
				}
			}
			if served >= int(hFail)+8 {
				r.Violation("no-stall", fmt.Sprintf("%s; %s later the production loop (lazy=%v) has been handed %d well-formed batches and the chain is still at height %d (%d when the errors were over)", what, patience, c.Lazy, served, height(), hFail), c)
			} else {
				r.Inconclusive(fmt.Sprintf("loop case %d: no progress within %s after the sequencing errors, and too few requests to tell", c.ID, patience))
			}
		}
	case "execution-slow":
		last := uint64(c.AtBlock + c.Times)
		goesOn := waitFor(patience+time.Duration(c.Times)*loopSlowExec, func() bool {
			return pollReport() || loops.Exited("aggregation") || height() >= last+2
		})
		aborted, completed := exec.SlowExecCounts()
		if aborted+completed > 0 {
			r.Hit("loop-meets-slow-execution")
		}
		what := fmt.Sprintf("executing block(s) %d..%d takes %s each (block interval %s) on an execution layer that honours its context; no call of either layer failed on its own", c.AtBlock+1, last, loopSlowExec, loopBlockTime)
		counts := fmt.Sprintf("%d execution(s) of a slow block were cut short by the node's context, %d ran to their end", aborted, completed)
		switch {
		case pollReport():
			r.Violation("no-stall", fmt.Sprintf("%s; the production loop (lazy=%v) reported %q and ended at height %d (%s): the block is saved as pending and costs the same on every later attempt", what, c.Lazy, reportedErr, height(), counts), c)
		case loops.Exited("aggregation"):
			r.Violation("no-stall", fmt.Sprintf("%s; the production loop (lazy=%v) returned without reporting an error at height %d (%s)", what, c.Lazy, height(), counts), c)
		case goesOn:
			r.Count("loop_carries_on_after_slow_execution", 1)
		case aborted >= 3 && completed == 0:
			r.Violation("no-stall", fmt.Sprintf("%s; the chain is still at height %d: %s", what, height(), counts), c)
		default:
			r.Inconclusive(fmt.Sprintf("loop case %d: the chain did not get past the slow blocks within the watchdog (%s)", c.ID, counts))
		}
	default:
		out := world.ExecErr
		if c.ErrKind == "wraps-context-canceled" {
			out = world.ExecCtxCancelled
		}
		for i := 0; i < c.Times; i++ {
			exec.Script(out)
		}
		// the failures are consumed (the loop met them) ...
		if !waitFor(15*time.Second, func() bool { return exec.ScriptLen() == 0 || loops.Exited("aggregation") }) {
			r.Inconclusive(fmt.Sprintf("loop case %d: the scripted execution failures were not consumed", c.ID))
			return
		}
		hFail := height()
		r.Hit("loop-meets-execution-failure")
		// ... and afterwards: reported, or producing again
		alive := waitFor(patience, func() bool {
			return pollReport() || (exec.ScriptLen() == 0 && height() >= hFail+3)
		})
		switch {
		case reported:
			r.Count("loop_reports_execution_failure_and_stops", 1)
		case alive:
			r.Count("loop_carries_on_after_execution_failure", 1)
		case loops.Exited("aggregation"):
			r.Violation("no-stall", fmt.Sprintf("the execution layer failed %d time(s) (%s) while the node's context was alive; the production loop (lazy=%v) returned without reporting an error: the node keeps running and will never produce a block again", c.Times, c.ErrKind, c.Lazy), c)
		default:
			r.Violation("no-stall", fmt.Sprintf("the execution layer failed %d time(s) (%s) while the node's context was alive and has long recovered; %s later (the first %d blocks of this run took %s%s) the production loop (lazy=%v) has neither reported an error nor produced another block (height %d)", c.Times, c.ErrKind, patience, c.AtBlock, ref, map[bool]string{true: ", notifications arriving every millisecond", false: ""}[c.Lazy], c.Lazy, height()), c)
		}
	}
	r.Eval(c.key(), true, c)
}
