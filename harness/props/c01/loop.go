package c01

import (
	"context"
	"fmt"
	"time"

	"verifharness/vk"
	"verifharness/world"
)

// LoopCase: the node's own production loop meets a failing execution layer.
type LoopCase struct {
	ID      int    `json:"id"`
	Lazy    bool   `json:"lazy"`
	ErrKind string `json:"execution_error"` // plain | wraps-context-canceled
	AtBlock int    `json:"at_block"`
	Times   int    `json:"consecutive_failures"`
}

func (c LoopCase) key() string {
	return fmt.Sprintf("loop lazy=%v %s at%d x%d", c.Lazy, c.ErrKind, c.AtBlock, c.Times)
}

// runLoopCase runs the real AggregationLoop (block time 2 ms; lazy mode with notifications arriving all the time) on an
// aggregator whose execution layer fails a few times while the node's context is alive - with a plain error, or with
// an error that wraps context.Canceled (what a remote execution client returns when ITS call was cancelled on the other
// side). What the node does about an execution failure is its own choice - report the error and stop the loop (the node
// shuts down and is restarted), or carry on - but it must not do neither: a loop that has returned without reporting
// anything, or that is still there and never produces again although the execution layer has long recovered, leaves
// the node "permanently unable to produce blocks once the responses are well-formed again".
func runLoopCase(r *vk.Run, c LoopCase) {
	bg := context.Background()
	ctx, cancel := context.WithCancel(bg)
	defer cancel()
	seq := world.NewSeqDouble()
	genesis := time.Now().Add(-time.Hour)
	t := genesis
	seq.Auto = func(n int) *world.SeqResp {
		t = t.Add(time.Second)
		return &world.SeqResp{Kind: world.SeqTxs, Time: t, Txs: [][]byte{[]byte(fmt.Sprintf("c01loop-%d-%d", c.ID, n))}}
	}
	exec := world.NewExecDouble()
	n, err := world.NewNode(ctx, world.NodeOpts{Aggregator: true, Lazy: c.Lazy, BlockTime: 2 * time.Millisecond, LazyInterval: time.Hour, GenesisTime: genesis},
		world.NewKeys("proposer"), world.NewMemDS(world.NewImage()), exec, seq, world.NewDADouble(), nil)
	if err != nil {
		r.Violation("startup", err.Error(), c)
		return
	}
	loops := world.StartLoops(ctx, n, "aggregation")
	defer func() { _ = loops.Stop() }()
	height := func() uint64 { h, _ := n.Store.Height(bg); return h }
	stopNotify := make(chan struct{})
	defer close(stopNotify)
	if c.Lazy {
		go func() {
			for {
				select {
				case <-stopNotify:
					return
				default:
					n.M.NotifyNewTransactions()
					time.Sleep(time.Millisecond)
				}
			}
		}()
	}
	waitFor := func(d time.Duration, cond func() bool) bool {
		deadline := time.Now().Add(d)
		for time.Now().Before(deadline) {
			if cond() {
				return true
			}
			time.Sleep(500 * time.Microsecond)
		}
		return cond()
	}
	if !waitFor(15*time.Second, func() bool { return height() >= uint64(c.AtBlock) }) {
		r.Inconclusive(fmt.Sprintf("loop case %d: the chain did not reach block %d", c.ID, c.AtBlock))
		return
	}
	out := world.ExecErr
	if c.ErrKind == "wraps-context-canceled" {
		out = world.ExecCtxCancelled
	}
	for i := 0; i < c.Times; i++ {
		exec.Script(out)
	}
	// the failures are consumed (the loop met them) ...
	if !waitFor(15*time.Second, func() bool { return exec.ScriptLen() == 0 || loops.Exited("aggregation") }) {
		r.Inconclusive(fmt.Sprintf("loop case %d: the scripted execution failures were not consumed", c.ID))
		return
	}
	hFail := height()
	r.Hit("loop-meets-execution-failure")
	// ... and afterwards: reported, or producing again
	reported := false
	var reportedErr error
	alive := waitFor(10*time.Second, func() bool {
		select {
		case e := <-loops.ErrCh:
			reported, reportedErr = true, e
		default:
		}
		return reported || (exec.ScriptLen() == 0 && height() >= hFail+3)
	})
	switch {
	case reported:
		r.Count("loop_reports_execution_failure_and_stops", 1)
		_ = reportedErr
	case alive:
		r.Count("loop_carries_on_after_execution_failure", 1)
	case loops.Exited("aggregation"):
		r.Violation("no-stall", fmt.Sprintf("the execution layer failed %d time(s) (%s) while the node's context was alive; the production loop (lazy=%v) returned without reporting an error: the node keeps running and will never produce a block again", c.Times, c.ErrKind, c.Lazy), c)
	default:
		r.Violation("no-stall", fmt.Sprintf("the execution layer failed %d time(s) (%s) while the node's context was alive and has long recovered; 10 s later (5000 block intervals%s) the production loop (lazy=%v) has neither reported an error nor produced another block (height %d)", c.Times, c.ErrKind, map[bool]string{true: ", notifications arriving every millisecond", false: ""}[c.Lazy], c.Lazy, height()), c)
	}
	r.Eval(c.key(), true, c)
}
