// Package c14 decides C14: the block store behaves like a height-indexed map, atomically and
// durably (see /verif/DESIGN.md §7).
//
// Generated operation sequences are run on the real store over (a) the in-memory datastore
// double, whose write log shows what one SaveBlockData makes durable and which can be crashed
// after any number of durable writes, and (b) real Badger on disk with close + reopen; a child
// process writing to Badger is killed at seeded instants (kill.go). Every read is compared with a
// reference model that keeps one map per kind of record (model.go).
package c14

import (
	"context"
	"errors"
	"fmt"
	"os"
	"path/filepath"
	"sort"
	"strings"
	"sync"
	"syscall"
	"time"

	ds "github.com/ipfs/go-datastore"

	"github.com/evstack/ev-node/pkg/store"

	"verifharness/vk"
	"verifharness/world"
)

// Level is the verification level claimed for this property.
const Level = "exploration"

func materialisePool(specs []BlockSpec) (*Mat, error) {
	mt := &Mat{Pool: make([]*Blk, len(specs))}
	for i, sp := range specs {
		b, err := materialise(sp)
		if err != nil {
			return nil, err
		}
		mt.Pool[i] = b
	}
	return mt, nil
}

// universe returns every height and metadata key a sequence mentions, plus one never used.
func universe(s Sequence) ([]uint64, []string) {
	hs := map[uint64]bool{424242: true}
	ks := map[string]bool{"d": true, "l": true, "last-submitted-header-height": true, "last-submitted-data-height": true, "rhb/424242/h": true}
	for _, sp := range s.Pool {
		hs[sp.Height] = true
	}
	for _, o := range s.Ops {
		switch o.K {
		case "getblock", "getheader", "getsig":
			hs[o.H] = true
		case "setmeta", "getmeta":
			ks[o.Key] = true
		}
	}
	heights := make([]uint64, 0, len(hs))
	for h := range hs {
		heights = append(heights, h)
	}
	sort.Slice(heights, func(i, j int) bool { return heights[i] < heights[j] })
	keys := make([]string, 0, len(ks))
	for k := range ks {
		keys = append(keys, k)
	}
	sort.Strings(keys)
	return heights, keys
}

// doWrite performs a write operation on the store.
func doWrite(ctx context.Context, st store.Store, op Op, mt *Mat, cb *callerBufs) error {
	switch op.K {
	case "save_new", "save_same", "save_diff":
		sig := append(mt.Pool[op.Dat].Sig[:0:0], mt.Pool[op.Dat].Sig...)
		hdr, data := cloneSignedHeader(mt.Pool[op.Blk].Header), cloneData(mt.Pool[op.Dat].Data)
		err := st.SaveBlockData(ctx, hdr, data, &sig)
		// the caller goes on using its objects (alias.go)
		scribbleSignedHeader(hdr)
		scribbleData(data)
		scribbleSignature(&sig)
		return err
	case "setheight":
		return st.SetHeight(ctx, op.H)
	case "state":
		// state and metadata values come out of buffers the caller reuses and overwrites (alias.go)
		err := st.UpdateState(ctx, cb.stateValue(mt.state(op)))
		cb.scribble("")
		return err
	case "setmeta":
		err := st.SetMetadata(ctx, op.Key, cb.metaValue(op.Key, mt.metaVal(op)))
		cb.scribble(op.Key)
		return err
	}
	return nil
}

func isSave(k string) bool { return k == "save_new" || k == "save_same" || k == "save_diff" }

// isEnvErr recognises trouble of the environment (file descriptors, memory, disk, a lock held by
// someone else) by error identity, not by message text.
func isEnvErr(err error) bool {
	for _, e := range []error{syscall.EMFILE, syscall.ENFILE, syscall.ENOMEM, syscall.ENOSPC, syscall.EDQUOT, syscall.EAGAIN, syscall.EIO, syscall.EINTR, syscall.EBUSY, syscall.EACCES, syscall.EPERM, syscall.EROFS} {
		if errors.Is(err, e) {
			return true
		}
	}
	return false
}

type seqResult struct {
	probs  []string
	writes int
}

func describeOp(op Op) string {
	switch op.K {
	case "save_new", "save_same", "save_diff":
		return fmt.Sprintf("%s at height %d (header of pool block %d, data and signature of %d)", op.K, op.H, op.Blk, op.Dat)
	case "setheight":
		return fmt.Sprintf("SetHeight(%d)", op.H)
	case "setmeta":
		return fmt.Sprintf("SetMetadata(%q, %d bytes)", op.Key, len(op.Val)+op.Big)
	case "state":
		return "UpdateState"
	}
	return op.K
}

// runMem runs the sequence on the in-memory datastore. crashAfter < 0: no crash; every read is
// checked and the write shape is recorded. crashAfter = k: the first k durable writes succeed, the
// process dies at the next one; reads are skipped; the frozen image is then opened by a fresh
// store and compared with the model after exactly the completed operations, and - all-or-nothing
// allows "all" - with that model plus the operation the crash cut; only a state that is neither is
// a violation.
//
// A write that returns an error although the datastore is healthy is tolerated iff its input is one
// a store may legitimately refuse (Model.mayRefuse); the model is then not advanced and everything
// must read as before the call.
func runMem(r *vk.Run, s Sequence, mt *Mat, heights []uint64, keys []string, crashAfter int) seqResult {
	ctx := context.Background()
	im := world.NewImage()
	dsp := world.NewMemDS(im)
	if crashAfter >= 0 {
		dsp.CrashAfter(crashAfter)
	}
	st := store.New(dsp)
	m := newModel()
	res := seqResult{}
	cb := newCallerBufs() // the caller's buffers outlive a reopen
	if crashAfter < 0 {
		defer func() { r.Count("setmeta_same_length_other_contents_from_the_reused_buffer", cb.reused) }()
	}
	ck := &checker{ctx: ctx, st: st, m: m, hit: r.Hit, count: r.Count}
	if crashAfter >= 0 {
		ck.hit = func(string) {}
		ck.count = func(string, int64) {}
	}
	// in every other sequence nothing is read right after a reopen: the first call on the new
	// instance is then whatever the sequence does next (e.g. a SetHeight below the recorded height)
	quietReopen := s.ID%2 == 1
	var cut *Op
	for i, op := range s.Ops {
		ck.where = fmt.Sprintf("op %d %s: ", i, op.K)
		if op.K == "reopen" {
			// a new process over the same durable image
			dsp = world.NewMemDS(im)
			if crashAfter >= 0 {
				dsp.CrashAfter(crashAfter - res.writes)
			}
			st = store.New(dsp)
			ck.st = st
			if crashAfter < 0 {
				r.Hit("reopen-preserves-everything")
				if quietReopen {
					continue
				}
				ck.where = fmt.Sprintf("after reopen at op %d: ", i)
				n := len(ck.probs)
				ck.all(heights, mt, keys)
				if len(ck.probs) > n {
					break
				}
			}
			continue
		}
		if !writeKinds[op.K] {
			if crashAfter < 0 {
				ck.read(op, mt)
			}
			continue
		}
		before := dsp.Writes()
		err := doWrite(ctx, st, op, mt, cb)
		did := dsp.Writes() - before
		res.writes += did
		if err != nil {
			if crashAfter >= 0 && dsp.Crashed() {
				o := op
				cut = &o
				break
			}
			if !m.mayRefuse(op, mt) {
				ck.fail("write-ok", "%s failed on a healthy datastore: %v", describeOp(op), err)
				break
			}
			// refused: the model is not advanced; nothing may have changed
			if crashAfter < 0 {
				r.Count("refused_writes_tolerated", 1)
				ck.where = fmt.Sprintf("after op %d, %s, was refused (%v): ", i, describeOp(op), err)
				n := len(ck.probs)
				ck.all(heights, mt, keys)
				r.Hit("refused-write-changes-nothing")
				if len(ck.probs) > n {
					break
				}
			}
			continue
		}
		m.apply(op, mt)
		if crashAfter < 0 && isSave(op.K) {
			// what one SaveBlockData makes durable is recorded, not judged: how the records are written is the store's
			// business; whether a crash between the writes can be seen is decided by the crash enumeration below
			r.Hit("save-write-shape-observed")
			log := dsp.Log()
			if did == 1 && log[len(log)-1].Op == "batch" {
				r.Count("saves_made_durable_by_one_batch", 1)
			} else {
				r.Count("saves_made_durable_by_several_writes", 1)
			}
		}
	}
	if crashAfter < 0 {
		ck.where = "at the end: "
		ck.all(heights, mt, keys)
		res.probs = ck.probs
		return res
	}
	// crash case: a fresh store over the frozen image
	res.probs = ck.probs
	if len(res.probs) > 0 {
		return res
	}
	judge := func(m *Model, what string) []string {
		st2 := store.New(world.NewMemDS(im))
		ck2 := &checker{ctx: ctx, st: st2, m: m, hit: func(string) {}, count: func(string, int64) {}}
		ck2.where = what
		ck2.all(heights, mt, keys)
		return ck2.probs
	}
	r.Hit("crash-state-equals-completed-ops")
	if cut == nil {
		res.probs = judge(m, fmt.Sprintf("crash after durable write %d (no operation cut); after restart: ", crashAfter))
		return res
	}
	if isSave(cut.K) {
		r.Hit("crash-save-all-or-nothing")
		if _, occupied := m.Hdr[cut.H]; occupied {
			r.Hit("crash-overwrite-all-or-nothing")
		}
	}
	without := judge(m, "")
	if len(without) == 0 {
		r.Count("crash_cut_operation_left_nothing", 1)
		return res
	}
	m2 := m.clone()
	m2.apply(*cut, mt)
	with := judge(m2, "")
	if len(with) == 0 {
		r.Count("crash_cut_operation_fully_applied", 1)
		return res
	}
	head := fmt.Sprintf("crash after durable write %d inside %s; after restart the store shows neither the state without that operation nor the state with all of it. ", crashAfter, describeOp(*cut))
	res.probs = []string{clauseOf(without[0]) + ": " + head + "Against 'not applied': " + strings.Join(trim(without, 3), " ;; ") + " || against 'fully applied': " + strings.Join(trim(with, 3), " ;; ")}
	return res
}

// forkMu keeps a Badger close apart from a concurrent fork+exec (kill.go): between fork and exec
// the child shares the open file description carrying Badger's directory flock, so a close in
// that window leaves the lock held and the next open of the directory fails.
var forkMu sync.RWMutex

func closeDS(d ds.Batching) error {
	forkMu.RLock()
	defer forkMu.RUnlock()
	return d.Close()
}

// envTrouble probes the environment after a failed open, without looking at the error text: is the
// directory lock held by someone else, can a file still be created there, is the process short of
// file descriptors?
func envTrouble(dir string) string {
	dbDir := filepath.Join(dir, "db", "c14")
	if f, err := os.Open(dbDir); err == nil {
		if err := syscall.Flock(int(f.Fd()), syscall.LOCK_EX|syscall.LOCK_NB); err != nil {
			_ = f.Close()
			return "the directory lock is held by another process"
		}
		_ = syscall.Flock(int(f.Fd()), syscall.LOCK_UN)
		_ = f.Close()
	} else if !os.IsNotExist(err) {
		return "the database directory cannot be opened: " + err.Error()
	}
	if err := os.MkdirAll(dir, 0o755); err != nil {
		return "cannot create a directory: " + err.Error()
	}
	probe := filepath.Join(dir, ".probe")
	if err := os.WriteFile(probe, []byte("x"), 0o644); err != nil {
		return "cannot create a file next to the database: " + err.Error()
	}
	_ = os.Remove(probe)
	var lim syscall.Rlimit
	if err := syscall.Getrlimit(syscall.RLIMIT_NOFILE, &lim); err == nil {
		if ents, err := os.ReadDir("/proc/self/fd"); err == nil && uint64(len(ents))+64 > lim.Cur {
			return fmt.Sprintf("%d of %d file descriptors in use", len(ents), lim.Cur)
		}
	}
	return ""
}

// openBadger opens the store's default on-disk datastore. Environment trouble (recognised by error
// identity or by probing the environment, never by message text) is retried a few times; what
// remains is returned with env = true (inconclusive).
func openBadger(dir string) (kvs ds.Batching, env bool, err error) {
	for try := 0; ; try++ {
		kvs, err = store.NewDefaultKVStore(dir, "db", "c14")
		if err == nil {
			return kvs, false, nil
		}
		why := ""
		if !isEnvErr(err) {
			if why = envTrouble(dir); why == "" {
				return nil, false, err
			}
		}
		if try == 3 {
			if why != "" {
				err = fmt.Errorf("%w (environment: %s)", err, why)
			}
			return nil, true, err
		}
		time.Sleep(300 * time.Millisecond)
	}
}

// runBadger runs the sequence on real Badger on disk; reopen = Close + NewDefaultKVStore. The
// second result is set when the environment, not the store, got in the way.
func runBadger(r *vk.Run, base string, s Sequence, mt *Mat, heights []uint64, keys []string) (probs []string, inconclusive string) {
	ctx := context.Background()
	dir := filepath.Join(base, fmt.Sprintf("s%d", s.ID))
	defer os.RemoveAll(dir)
	kvs, env, err := openBadger(dir)
	if err != nil {
		if env {
			return nil, "badger open: " + err.Error()
		}
		return []string{"badger-open: a new database does not open: " + err.Error()}, ""
	}
	st := store.New(kvs)
	m := newModel()
	cb := newCallerBufs()
	ck := &checker{ctx: ctx, st: st, m: m, hit: func(c string) { r.Hit("badger:" + c) }, count: r.Count}
	reopen := func(where string, check bool) bool {
		if err := closeDS(kvs); err != nil {
			kvs = nil
			if isEnvErr(err) {
				inconclusive = where + "Close: " + err.Error()
			} else {
				ck.fail("badger-reopen", "%sClose: %v", where, err)
			}
			return false
		}
		kvs, env, err = openBadger(dir)
		if err != nil {
			kvs = nil
			if env {
				inconclusive = where + "reopen: " + err.Error()
			} else {
				ck.fail("badger-reopen", "%sthe database does not open again: %v", where, err)
			}
			return false
		}
		st = store.New(kvs)
		ck.st = st
		r.Hit("badger:close-reopen-preserves-everything")
		if !check {
			return true
		}
		ck.where = where
		n := len(ck.probs)
		ck.all(heights, mt, keys)
		return len(ck.probs) == n
	}
	quietReopen := s.ID%8 == 4 // s.Badger means ID%4 == 0
	ok := true
	for i, op := range s.Ops {
		ck.where = fmt.Sprintf("badger op %d %s: ", i, op.K)
		if op.K == "reopen" {
			if ok = reopen(fmt.Sprintf("badger, after close+reopen at op %d: ", i), !quietReopen); !ok {
				break
			}
			continue
		}
		if !writeKinds[op.K] {
			ck.read(op, mt)
			continue
		}
		if err := doWrite(ctx, st, op, mt, cb); err != nil {
			if isEnvErr(err) {
				inconclusive = fmt.Sprintf("badger op %d %s: %v", i, op.K, err)
				ok = false
				break
			}
			if !m.mayRefuse(op, mt) {
				ck.fail("write-ok", "%s failed: %v", describeOp(op), err)
				ok = false
				break
			}
			r.Count("refused_writes_tolerated", 1)
			ck.where = fmt.Sprintf("badger, after op %d, %s, was refused (%v): ", i, describeOp(op), err)
			n := len(ck.probs)
			ck.all(heights, mt, keys)
			r.Hit("badger:refused-write-changes-nothing")
			if len(ck.probs) > n {
				ok = false
				break
			}
			continue
		}
		m.apply(op, mt)
	}
	if ok && kvs != nil {
		ck.where = "badger, at the end: "
		ck.all(heights, mt, keys)
		reopen("badger, after final close+reopen: ", true)
	}
	if kvs != nil {
		_ = closeDS(kvs)
	}
	return ck.probs, inconclusive
}

func clauseOf(p string) string {
	if i := strings.Index(p, ":"); i > 0 {
		return p[:i]
	}
	return "store"
}

func runSequence(r *vk.Run, base string, s Sequence) {
	mt, err := materialisePool(s.Pool)
	if err != nil {
		r.Inconclusive(fmt.Sprintf("sequence %d: cannot build blocks: %v", s.ID, err))
		return
	}
	heights, keys := universe(s)
	witness := func(extra map[string]any) any {
		w := map[string]any{"sequence": s}
		for k, v := range extra {
			w[k] = v
		}
		return w
	}
	res := runMem(r, s, mt, heights, keys, -1)
	crashFreeOK := len(res.probs) == 0 // the crash enumeration is only meaningful if the crash-free run was all right
	if len(res.probs) > 0 {
		r.Violation(clauseOf(res.probs[0]), fmt.Sprintf("sequence %d (in-memory datastore): %s", s.ID, strings.Join(trim(res.probs, 6), " ;; ")), witness(map[string]any{"datastore": "memds"}))
	}
	if s.Crash && crashFreeOK {
		// crash enumeration: die at every durable write of the sequence
		for k := 0; k < res.writes; k++ {
			cr := runMem(r, s, mt, heights, keys, k)
			r.Count("crash_points", 1)
			if len(cr.probs) > 0 {
				r.Violation("crash-"+clauseOf(cr.probs[0]), fmt.Sprintf("sequence %d: %s", s.ID, strings.Join(trim(cr.probs, 6), " ;; ")), witness(map[string]any{"datastore": "memds", "crash_after_writes": k}))
				break
			}
		}
	}
	if crashFreeOK && (!r.Quick() || s.ID%2 == 0) {
		// the same history once more (quick: every second sequence) with every write started inside a read of the record it replaces (overlap.go)
		if probs := runOverlap(r, s, mt, heights, keys); len(probs) > 0 {
			r.Violation("overlap-"+clauseOf(probs[0]), fmt.Sprintf("sequence %d (in-memory datastore, reads overlapping writes): %s", s.ID, strings.Join(trim(probs, 6), " ;; ")), witness(map[string]any{"datastore": "memds", "mode": "every write is started on another goroutine right after the first or second datastore access of a read of the same record, and runs to completion before that read carries on"}))
		}
	}
	r.Count("durable_writes", int64(res.writes))
	if s.Badger {
		probs, inconc := runBadger(r, base, s, mt, heights, keys)
		if len(probs) > 0 {
			r.Violation("badger-"+clauseOf(probs[0]), fmt.Sprintf("sequence %d (Badger on disk): %s", s.ID, strings.Join(trim(probs, 6), " ;; ")), witness(map[string]any{"datastore": "badger"}))
		} else if inconc != "" {
			r.Inconclusive(fmt.Sprintf("sequence %d: %s", s.ID, inconc))
		}
		r.Count("sequences_on_badger", 1)
	}
	for _, o := range s.Ops {
		r.Count("ops_"+o.K, 1)
		if o.Big > 0 {
			r.Count("ops_"+o.K+"_large_value", 1)
		}
	}
	r.Eval(s.abstract(), s.nontrivial(), s.sample())
}

func trim(s []string, n int) []string {
	if len(s) > n {
		return append(append([]string{}, s[:n]...), fmt.Sprintf("… and %d more", len(s)-n))
	}
	return s
}

// Run is the check entry point.
func Run(r *vk.Run) {
	world.Silence()
	r.Rule = "seeded sequences of 30-200 store operations (save at a fresh height / same header again with same or other data+signature / another header at an occupied height; blocks that commit to their data, plus irregular ones a store may refuse: height 0, no metadata, foreign signature, unrelated DataHash; SetHeight lower|equal|higher; UpdateState; SetMetadata over the node's keys d, l, last-submitted-*-height, rhb/<h>/h|d; state and metadata values up to 200 B and of 60 KiB..3 MiB; every read on present and missing targets incl. hashes of overwritten headers; reopen, in every other sequence with nothing read before the next operation) over 4-14 heights from small runs and boundary values; each sequence runs on the in-memory datastore, with a crash at every one of its durable writes (quick: for every third sequence; the state after the crash must equal the model without or with the whole cut operation), once more (quick: every second sequence) with every write started inside a read of the record it replaces (the write runs to completion between the read's datastore access and its return; everything read afterwards is judged), one in four also on Badger on disk with close+reopen; 24 | 200 SIGKILLs of a child writing to Badger (all-or-nothing per height; everything acknowledged before the kill reads back); non-trivial = >=1 overwrite or reopen; distinct by operation-kind sequence"
	r.Assume("in-memory runs: Batch.Commit of the datastore double is atomic and Put is durable (checked against real Badger only by close+reopen and process kill)")
	r.Assume("process kill, not power loss: writes that returned before a SIGKILL are required to be readable afterwards (measured on the unchanged tree: 300 of 300 kills), nothing is claimed about unsynced writes and a power cut")
	r.Assume("a write that returns an error is tolerated only for inputs a store may validate (SetHeight that does not raise the height, irregular blocks, state without chain id) and only if nothing changed")
	r.Assume("header/data encodings are those of the types package (their fidelity is C12's subject); headers are signed with the harness's key and verified with the harness's copy of the public key")
	base := world.TempDir(vk.Root(), "C14-*")
	defer os.RemoveAll(base)

	rng := r.Rand("sequences")
	n := r.N(500, 20000)
	seqs := make([]Sequence, n)
	for i := range seqs {
		seqs[i] = genSequence(rng, i, i%4 == 0)
		// quick: every third sequence gets the crash enumeration (all of its write indices); thorough: all
		seqs[i].Crash = !r.Quick() || i%3 == 0
	}
	r.Require("read-block", int64(n)*10)
	r.Require("read-by-hash", int64(n)*10)
	r.Require("read-by-hash-overwritten", int64(n)*5)
	r.Require("read-large-value", int64(n)/4)
	r.Require("read-signature", int64(n)*10)
	r.Require("read-state", int64(n))
	r.Require("read-metadata", int64(n)*5)
	r.Require("read-missing", int64(n)*10)
	r.Require("height-only-grows", int64(n))
	r.Require("save-write-shape-observed", int64(n)*5)
	r.Require("reopen-preserves-everything", int64(n))
	r.Require("crash-state-equals-completed-ops", int64(n)*3)
	r.Require("crash-save-all-or-nothing", int64(n))
	r.Require("crash-overwrite-all-or-nothing", int64(n)/2)
	r.Require("badger:close-reopen-preserves-everything", int64(n)/4)
	r.Require("badger:read-block", int64(n))

	var wg sync.WaitGroup
	ch := make(chan Sequence)
	for w := 0; w < 16; w++ {
		wg.Add(1)
		go func() {
			defer wg.Done()
			for s := range ch {
				s := s
				r.Guard(map[string]any{"sequence": s}, func() { runSequence(r, base, s) })
			}
		}()
	}
	for _, s := range seqs {
		ch <- s
	}
	close(ch)
	wg.Wait()
	if !storesSerialise.Load() {
		r.Require("read-overlapping-a-write", int64(n)*3)
	}

	runKills(r, base)
}
