// Package c14 decides C14: the block store behaves like a height-indexed map, atomically and
// durably (see /verif/DESIGN.md §7).
//
// Generated operation sequences are run on the real store over (a) the in-memory datastore
// double, whose write log shows what one SaveBlockData makes durable and which can be crashed
// after any number of durable writes, and (b) real Badger on disk with close + reopen; a child
// process writing to Badger is killed at seeded instants (kill.go). Every read is compared with a
// reference model that keeps one map per kind of record (model.go).
package c14

import (
	"context"
	"fmt"
	"os"
	"path/filepath"
	"sort"
	"strings"
	"sync"

	ds "github.com/ipfs/go-datastore"

	"github.com/evstack/ev-node/pkg/store"

	"verifharness/vk"
	"verifharness/world"
)

// Level is the verification level claimed for this property.
const Level = "exploration"

func materialisePool(specs []BlockSpec) ([]*Blk, error) {
	pool := make([]*Blk, len(specs))
	for i, sp := range specs {
		b, err := materialise(sp)
		if err != nil {
			return nil, err
		}
		pool[i] = b
	}
	return pool, nil
}

// universe returns every height and metadata key a sequence mentions, plus one never used.
func universe(s Sequence) ([]uint64, []string) {
	hs := map[uint64]bool{424242: true}
	ks := map[string]bool{"d": true, "l": true, "last-submitted-header-height": true, "last-submitted-data-height": true, "rhb/424242/h": true}
	for _, sp := range s.Pool {
		hs[sp.Height] = true
	}
	for _, o := range s.Ops {
		switch o.K {
		case "getblock", "getheader", "getsig":
			hs[o.H] = true
		case "setmeta", "getmeta":
			ks[o.Key] = true
		}
	}
	heights := make([]uint64, 0, len(hs))
	for h := range hs {
		heights = append(heights, h)
	}
	sort.Slice(heights, func(i, j int) bool { return heights[i] < heights[j] })
	keys := make([]string, 0, len(ks))
	for k := range ks {
		keys = append(keys, k)
	}
	sort.Strings(keys)
	return heights, keys
}

// doWrite performs a write operation on the store.
func doWrite(ctx context.Context, st store.Store, op Op, pool []*Blk) error {
	switch op.K {
	case "save_new", "save_same", "save_diff":
		sig := append(pool[op.Dat].Sig[:0:0], pool[op.Dat].Sig...)
		return st.SaveBlockData(ctx, pool[op.Blk].Header, pool[op.Dat].Data, &sig)
	case "setheight":
		return st.SetHeight(ctx, op.H)
	case "state":
		return st.UpdateState(ctx, mkState(op.St))
	case "setmeta":
		return st.SetMetadata(ctx, op.Key, op.Val)
	}
	return nil
}

func isSave(k string) bool { return k == "save_new" || k == "save_same" || k == "save_diff" }

type seqResult struct {
	probs  []string
	writes int
}

// runMem runs the sequence on the in-memory datastore. crashAfter < 0: no crash; every read is
// checked and the write log is inspected. crashAfter = k: the first k durable writes succeed, the
// process dies at the next one; reads are skipped; the frozen image is then opened by a fresh
// store and compared with the model after exactly the completed operations.
func runMem(r *vk.Run, s Sequence, pool []*Blk, heights []uint64, keys []string, crashAfter int) seqResult {
	ctx := context.Background()
	im := world.NewImage()
	dsp := world.NewMemDS(im)
	if crashAfter >= 0 {
		dsp.CrashAfter(crashAfter)
	}
	st := store.New(dsp)
	m := newModel()
	res := seqResult{}
	ck := &checker{ctx: ctx, st: st, m: m, hit: r.Hit, count: r.Count}
	if crashAfter >= 0 {
		ck.hit = func(string) {}
	}
	var cut *Op
	for i, op := range s.Ops {
		ck.where = fmt.Sprintf("op %d %s: ", i, op.K)
		if op.K == "reopen" {
			// a new process over the same durable image
			w := dsp.Writes()
			dsp = world.NewMemDS(im)
			if crashAfter >= 0 {
				dsp.CrashAfter(crashAfter - res.writes)
			}
			_ = w
			st = store.New(dsp)
			ck.st = st
			if crashAfter < 0 {
				ck.where = fmt.Sprintf("after reopen at op %d: ", i)
				n := len(ck.probs)
				ck.all(heights, pool, keys)
				r.Hit("reopen-preserves-everything")
				if len(ck.probs) > n {
					break
				}
			}
			continue
		}
		if !writeKinds[op.K] {
			if crashAfter < 0 {
				ck.read(op, pool)
			}
			continue
		}
		before := dsp.Writes()
		err := doWrite(ctx, st, op, pool)
		did := dsp.Writes() - before
		res.writes += did
		if err != nil {
			if crashAfter >= 0 && dsp.Crashed() {
				o := op
				cut = &o
				break
			}
			ck.fail("write-ok", "%s failed on a healthy datastore: %v", op.K, err)
			break
		}
		m.apply(op, pool)
		if crashAfter < 0 && isSave(op.K) {
			// what one SaveBlockData makes durable is recorded, not judged: how the records are written is the store's
			// business; whether a crash between the writes can be seen is decided by the crash enumeration below
			r.Hit("save-write-shape-observed")
			log := dsp.Log()
			if did == 1 && log[len(log)-1].Op == "batch" {
				r.Count("saves_made_durable_by_one_batch", 1)
			} else {
				r.Count("saves_made_durable_by_several_writes", 1)
			}
		}
	}
	if crashAfter < 0 {
		ck.where = "at the end: "
		ck.all(heights, pool, keys)
		res.probs = ck.probs
		return res
	}
	// crash case: a fresh store over the frozen image
	st2 := store.New(world.NewMemDS(im))
	ck2 := &checker{ctx: ctx, st: st2, m: m, hit: func(string) {}, count: func(string, int64) {}}
	cutS := "none (the sequence completed)"
	if cut != nil {
		cutS = fmt.Sprintf("%s at height %d", cut.K, cut.H)
	}
	ck2.where = fmt.Sprintf("crash after durable write %d, operation cut: %s; after restart: ", crashAfter, cutS)
	ck2.all(heights, pool, keys)
	r.Hit("crash-state-equals-completed-ops")
	if cut != nil && isSave(cut.K) {
		r.Hit("crash-save-all-or-nothing")
		if _, occupied := m.Hdr[cut.H]; occupied {
			r.Hit("crash-overwrite-all-or-nothing")
		}
	}
	res.probs = append(ck.probs, ck2.probs...)
	return res
}

// forkMu keeps a Badger close apart from a concurrent fork+exec (kill.go): between fork and exec
// the child shares the open file description carrying Badger's directory flock, so a close in
// that window leaves the lock held and the next open of the directory fails.
var forkMu sync.RWMutex

func closeDS(d ds.Batching) error {
	forkMu.RLock()
	defer forkMu.RUnlock()
	return d.Close()
}

// runBadger runs the sequence on real Badger on disk; reopen = Close + NewDefaultKVStore.
func runBadger(r *vk.Run, base string, s Sequence, pool []*Blk, heights []uint64, keys []string) []string {
	ctx := context.Background()
	dir := filepath.Join(base, fmt.Sprintf("s%d", s.ID))
	defer os.RemoveAll(dir)
	kvs, err := store.NewDefaultKVStore(dir, "db", "c14")
	if err != nil {
		return []string{"badger-open: " + err.Error()}
	}
	st := store.New(kvs)
	m := newModel()
	ck := &checker{ctx: ctx, st: st, m: m, hit: func(c string) { r.Hit("badger:" + c) }, count: r.Count}
	reopen := func(where string) bool {
		if err := closeDS(kvs); err != nil {
			ck.fail("badger-reopen", "%sClose: %v", where, err)
			return false
		}
		kvs, err = store.NewDefaultKVStore(dir, "db", "c14")
		if err != nil {
			ck.fail("badger-reopen", "%sreopen: %v", where, err)
			return false
		}
		st = store.New(kvs)
		ck.st = st
		ck.where = where
		n := len(ck.probs)
		ck.all(heights, pool, keys)
		r.Hit("badger:close-reopen-preserves-everything")
		return len(ck.probs) == n
	}
	ok := true
	for i, op := range s.Ops {
		ck.where = fmt.Sprintf("badger op %d %s: ", i, op.K)
		if op.K == "reopen" {
			if ok = reopen(fmt.Sprintf("badger, after close+reopen at op %d: ", i)); !ok {
				break
			}
			continue
		}
		if !writeKinds[op.K] {
			ck.read(op, pool)
			continue
		}
		if err := doWrite(ctx, st, op, pool); err != nil {
			ck.fail("write-ok", "%s failed: %v", op.K, err)
			ok = false
			break
		}
		m.apply(op, pool)
	}
	if ok && kvs != nil {
		ck.where = "badger, at the end: "
		ck.all(heights, pool, keys)
		reopen("badger, after final close+reopen: ")
	}
	if kvs != nil {
		_ = closeDS(kvs)
	}
	return ck.probs
}

func clauseOf(p string) string {
	if i := strings.Index(p, ":"); i > 0 {
		return p[:i]
	}
	return "store"
}

func runSequence(r *vk.Run, base string, s Sequence) {
	pool, err := materialisePool(s.Pool)
	if err != nil {
		r.Inconclusive(fmt.Sprintf("sequence %d: cannot build blocks: %v", s.ID, err))
		return
	}
	heights, keys := universe(s)
	witness := func(extra map[string]any) any {
		w := map[string]any{"sequence": s}
		for k, v := range extra {
			w[k] = v
		}
		return w
	}
	res := runMem(r, s, pool, heights, keys, -1)
	onlyWriteShape := len(res.probs) == 0 // the crash enumeration is only meaningful if the crash-free run was all right
	if len(res.probs) > 0 {
		r.Violation(clauseOf(res.probs[0]), fmt.Sprintf("sequence %d (in-memory datastore): %s", s.ID, strings.Join(trim(res.probs, 6), " ;; ")), witness(map[string]any{"datastore": "memds"}))
	}
	if s.Crash && onlyWriteShape {
		// crash enumeration: die at every durable write of the sequence
		for k := 0; k < res.writes; k++ {
			cr := runMem(r, s, pool, heights, keys, k)
			r.Count("crash_points", 1)
			if len(cr.probs) > 0 {
				r.Violation("crash-"+clauseOf(cr.probs[0]), fmt.Sprintf("sequence %d: %s", s.ID, strings.Join(trim(cr.probs, 6), " ;; ")), witness(map[string]any{"datastore": "memds", "crash_after_writes": k}))
				break
			}
		}
	}
	r.Count("durable_writes", int64(res.writes))
	if s.Badger {
		if probs := runBadger(r, base, s, pool, heights, keys); len(probs) > 0 {
			if strings.Contains(probs[0], "Cannot acquire directory lock") {
				r.Inconclusive(fmt.Sprintf("sequence %d: %s", s.ID, probs[0]))
			} else {
				r.Violation("badger-"+clauseOf(probs[0]), fmt.Sprintf("sequence %d (Badger on disk): %s", s.ID, strings.Join(trim(probs, 6), " ;; ")), witness(map[string]any{"datastore": "badger"}))
			}
		}
		r.Count("sequences_on_badger", 1)
	}
	for _, o := range s.Ops {
		r.Count("ops_"+o.K, 1)
	}
	r.Eval(s.abstract(), s.nontrivial(), s.sample())
}

func trim(s []string, n int) []string {
	if len(s) > n {
		return append(append([]string{}, s[:n]...), fmt.Sprintf("… and %d more", len(s)-n))
	}
	return s
}

// Run is the check entry point.
func Run(r *vk.Run) {
	world.Silence()
	r.Rule = "seeded sequences of 30-200 store operations (save at a fresh height / same header again with same or other data+signature / another header at an occupied height; SetHeight lower|equal|higher; UpdateState; SetMetadata over the node's keys d, l, last-submitted-*-height, rhb/<h>/h|d; every read on present and missing targets incl. hashes of overwritten headers; reopen) over 4-14 heights from small runs and boundary values; each sequence runs on the in-memory datastore, with a crash at every one of its durable writes (quick: for every third sequence), one in four also on Badger on disk with close+reopen; non-trivial = >=1 overwrite or reopen; distinct by operation-kind sequence"
	r.Assume("in-memory runs: Batch.Commit of the datastore double is atomic and Put is durable (checked against real Badger only by close+reopen and process kill)")
	r.Assume("process kill, not power loss")
	r.Assume("header/data encodings are those of the types package (their fidelity is C12's subject); headers are signed with the harness's key and verified with the harness's copy of the public key")
	base := world.TempDir(vk.Root(), "C14-*")
	defer os.RemoveAll(base)

	rng := r.Rand("sequences")
	n := r.N(500, 20000)
	seqs := make([]Sequence, n)
	for i := range seqs {
		seqs[i] = genSequence(rng, i, i%4 == 0)
		// quick: every third sequence gets the crash enumeration (all of its write indices); thorough: all
		seqs[i].Crash = !r.Quick() || i%3 == 0
	}
	r.Require("read-block", int64(n)*10)
	r.Require("read-by-hash", int64(n)*10)
	r.Require("read-signature", int64(n)*10)
	r.Require("read-state", int64(n))
	r.Require("read-metadata", int64(n)*5)
	r.Require("read-missing", int64(n)*10)
	r.Require("height-running-max", int64(n))
	r.Require("save-write-shape-observed", int64(n)*5)
	r.Require("reopen-preserves-everything", int64(n))
	r.Require("crash-state-equals-completed-ops", int64(n)*3)
	r.Require("crash-save-all-or-nothing", int64(n))
	r.Require("crash-overwrite-all-or-nothing", int64(n)/2)
	r.Require("badger:close-reopen-preserves-everything", int64(n)/4)
	r.Require("badger:read-block", int64(n))

	var wg sync.WaitGroup
	ch := make(chan Sequence)
	for w := 0; w < 16; w++ {
		wg.Add(1)
		go func() {
			defer wg.Done()
			for s := range ch {
				runSequence(r, base, s)
			}
		}()
	}
	for _, s := range seqs {
		ch <- s
	}
	close(ch)
	wg.Wait()

	runKills(r, base)
}
