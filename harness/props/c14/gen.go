package c14

import (
	"fmt"
	"math"
	"math/rand"
	"strings"
	"time"

	"github.com/evstack/ev-node/types"

	"verifharness/world"
)

// BlockSpec describes one block of a sequence's pool; the block itself (a really signed header,
// data, the signature handed to SaveBlockData) is derived from it deterministically.
type BlockSpec struct {
	Height  uint64 `json:"height"`
	Salt    int64  `json:"salt"`
	NTx     int    `json:"ntx"`
	Big     int    `json:"big_tx_bytes,omitempty"` // one additional transaction of this size (payload size classes around 64 KiB .. 3 MiB)
	NilMeta bool   `json:"nil_metadata,omitempty"`
	SigMode int    `json:"sig_mode"` // 0: the header's own signature, 1: another 64-byte signature, 2: empty
	// BadDataHash: the header's DataHash is random instead of the commitment of the data saved with it
	BadDataHash bool `json:"bad_data_hash,omitempty"`
}

// regular reports whether a block built from the spec is one no store could reasonably refuse:
// positive height, data with metadata that matches the header, DataHash = commitment of the data,
// the header's own signature handed to SaveBlockData.
func (sp BlockSpec) regular() bool {
	return sp.Height > 0 && !sp.NilMeta && sp.SigMode == 0 && !sp.BadDataHash
}

// Op is one store call.
type Op struct {
	K   string `json:"k"`
	H   uint64 `json:"h,omitempty"`   // height argument
	Blk int    `json:"blk,omitempty"` // pool index (save ops; by-hash reads: whose hash; -1: a hash never saved)
	Key string `json:"key,omitempty"` // metadata key
	Val []byte `json:"val,omitempty"` // metadata value (small values)
	St  int64  `json:"st,omitempty"`  // state salt; salt of a large metadata value
	Big int    `json:"big,omitempty"` // setmeta: the value is Big pseudo-random bytes derived from St; state: AppHash of that size
	Dat int    `json:"dat,omitempty"` // save_same: pool index whose data / signature is stored with the same header
}

// Sequence is one generated case.
type Sequence struct {
	ID     int         `json:"id"`
	Badger bool        `json:"also_on_badger"`
	Crash  bool        `json:"crash_enumeration"`
	Pool   []BlockSpec `json:"pool"`
	Ops    []Op        `json:"ops"`
}

var heightClasses = []uint64{0, 1, 2, 3, 4, 5, 6, 7, 8, 9, 10, 11, 12, 99, 100, 101, 1000, 1 << 32, 1<<63 - 1, 1 << 63, math.MaxUint64 - 1, math.MaxUint64}

// hostileHeights: each is the lower of a pair (t, t+1) worth storing side by side.
var hostileHeights = []uint64{0x2d, 0x2e, 0x2f, 0x2e2d, 0x2e2e, 0x2e2f, 0x2f2d, 0x2f2e, 0x2f2f, 0x12f2e, 0x22f2e, 0x2e2e2e2e, 0x2f2f2f2e, 0x2f2e2f2e,
	0x2f << 56, 0x2e<<56 | 0x2f<<48, 0x2f<<8 | 0xff, 0x09, 0x5b, 0xff, 0xffff, 0x2f2e << 32, 0x2f00, 0x2e00}

// metaKeys returns the metadata keys the node uses, instantiated over the heights of the sequence.
func metaKeys(heights []uint64) []string {
	keys := []string{"d", "l", "last-submitted-header-height", "last-submitted-data-height"}
	for _, h := range heights {
		keys = append(keys, fmt.Sprintf("rhb/%d/h", h), fmt.Sprintf("rhb/%d/d", h))
	}
	return keys
}

// bigValueSizes are the size classes of large state / metadata values (and of large block payloads).
var bigValueSizes = []int{60 << 10, 70 << 10, 256<<10 - 200, 256<<10 + 1, 300 << 10, 1 << 20, 1<<20 + 4096, 3 << 20}

var writeKinds = map[string]bool{"save_new": true, "save_same": true, "save_diff": true, "setheight": true, "state": true, "setmeta": true}

func genSequence(rng *rand.Rand, id int, badger bool) Sequence {
	s := Sequence{ID: id, Badger: badger}
	// heights of this sequence: a run of small ones plus a few from the far classes
	var heights []uint64
	base := []uint64{1, 1, 1, 0, 5, 100, 1 << 32}[rng.Intn(7)]
	nh := 4 + rng.Intn(8)
	if rng.Intn(4) == 0 {
		// neighbouring heights whose fixed-width or textual encodings contain bytes that mean something to a key
		// syntax ('/' 0x2f, '.' 0x2e, 0x00, '\n', '\\'): a key built from such a height must still be its own key
		t := hostileHeights[rng.Intn(len(hostileHeights))]
		base = t - uint64(rng.Intn(3))
	}
	for i := 0; i < nh; i++ {
		heights = append(heights, base+uint64(i))
	}
	for i := rng.Intn(3); i > 0; i-- {
		heights = append(heights, heightClasses[rng.Intn(len(heightClasses))])
	}
	mkeys := metaKeys(heights)
	// generator-side shadow: which heights hold which pool block
	at := map[uint64]int{}
	var saved []int // pool indices ever saved
	var savedHeights []uint64
	curHeight := uint64(0)
	hasState, hasMeta := false, map[string]bool{}
	newSpec := func(h uint64) int {
		sp := BlockSpec{Height: h, Salt: rng.Int63(), NTx: []int{0, 0, 1, 2, 3, 5}[rng.Intn(6)], NilMeta: rng.Intn(10) == 0, SigMode: []int{0, 0, 0, 0, 0, 0, 1, 1, 2}[rng.Intn(9)], BadDataHash: rng.Intn(8) == 0}
		if rng.Intn(25) == 0 {
			// a large payload: any size-dependent write path (separate puts, chunking, value-log thresholds) is on it
			sp.Big = bigValueSizes[rng.Intn(len(bigValueSizes))]
		}
		s.Pool = append(s.Pool, sp)
		return len(s.Pool) - 1
	}
	pickHeight := func() uint64 { return heights[rng.Intn(len(heights))] }
	n := 30 + rng.Intn(171)
	for len(s.Ops) < n {
		p := rng.Intn(100)
		switch {
		case p < 14: // save at a height that holds nothing yet (falls back to any height)
			h := pickHeight()
			for try := 0; try < 4; try++ {
				if _, ok := at[h]; !ok {
					break
				}
				h = pickHeight()
			}
			k := "save_new"
			if _, ok := at[h]; ok {
				k = "save_diff"
			}
			b := newSpec(h)
			s.Ops = append(s.Ops, Op{K: k, H: h, Blk: b, Dat: b})
			at[h] = b
			saved = append(saved, b)
			savedHeights = append(savedHeights, h)
		case p < 20 && len(savedHeights) > 0: // the same header again; data / signature the same or not
			h := savedHeights[rng.Intn(len(savedHeights))]
			b := at[h]
			d := b
			if rng.Intn(2) == 0 {
				d = newSpec(h)
			}
			s.Ops = append(s.Ops, Op{K: "save_same", H: h, Blk: b, Dat: d})
		case p < 28 && len(savedHeights) > 0: // another header at an occupied height
			h := savedHeights[rng.Intn(len(savedHeights))]
			b := newSpec(h)
			s.Ops = append(s.Ops, Op{K: "save_diff", H: h, Blk: b, Dat: b})
			at[h] = b
			saved = append(saved, b)
		case p < 36: // SetHeight: lower, equal, higher
			var h uint64
			switch q := rng.Intn(10); {
			case q < 4 && curHeight > 0:
				h = uint64(rng.Int63n(int64(min64(curHeight, math.MaxInt64))))
			case q < 5:
				h = curHeight
			case q < 8 && curHeight < math.MaxUint64:
				h = curHeight + 1 + uint64(rng.Intn(3))
				if h < curHeight {
					h = math.MaxUint64
				}
			default:
				h = pickHeight()
			}
			s.Ops = append(s.Ops, Op{K: "setheight", H: h})
			if h > curHeight {
				curHeight = h
			}
		case p < 42:
			op := Op{K: "state", St: rng.Int63()}
			if rng.Intn(12) == 0 {
				op.Big = bigValueSizes[rng.Intn(len(bigValueSizes))]
			}
			s.Ops = append(s.Ops, op)
			hasState = true
		case p < 52:
			key := mkeys[rng.Intn(len(mkeys))]
			op := Op{K: "setmeta", Key: key}
			if rng.Intn(16) == 0 {
				// the node keeps whole batch-data lists under "l": values of the size classes of block data
				op.St, op.Big = rng.Int63(), bigValueSizes[rng.Intn(len(bigValueSizes))]
			} else {
				op.Val = make([]byte, []int{0, 1, 8, 8, 8, 33, 200}[rng.Intn(7)])
				rng.Read(op.Val)
			}
			s.Ops = append(s.Ops, op)
			hasMeta[key] = true
		case p < 60:
			s.Ops = append(s.Ops, Op{K: "getblock", H: pickHeight()})
		case p < 66:
			s.Ops = append(s.Ops, Op{K: "getheader", H: pickHeight()})
		case p < 72:
			s.Ops = append(s.Ops, Op{K: "getsig", H: pickHeight()})
		case p < 80:
			b := -1
			if len(saved) > 0 && rng.Intn(5) > 0 {
				b = saved[rng.Intn(len(saved))] // includes hashes of headers overwritten since
			} else if len(s.Pool) > 0 && rng.Intn(2) == 0 {
				b = rng.Intn(len(s.Pool)) // may be a data-only spec that was never saved as a header
			}
			s.Ops = append(s.Ops, Op{K: []string{"getbyhash", "getsigbyhash"}[rng.Intn(2)], Blk: b})
		case p < 84:
			s.Ops = append(s.Ops, Op{K: "getstate"})
		case p < 91:
			s.Ops = append(s.Ops, Op{K: "getmeta", Key: mkeys[rng.Intn(len(mkeys))]})
		case p < 96:
			s.Ops = append(s.Ops, Op{K: "height"})
		default:
			s.Ops = append(s.Ops, Op{K: "reopen"})
		}
	}
	_ = hasState
	return s
}

func min64(a uint64, b uint64) uint64 {
	if a < b {
		return a
	}
	return b
}

func (s Sequence) abstract() string {
	var sb strings.Builder
	if s.Badger {
		sb.WriteString("B:")
	}
	for _, o := range s.Ops {
		sb.WriteString(o.K)
		sb.WriteByte(',')
	}
	return sb.String()
}

func (s Sequence) nontrivial() bool {
	for _, o := range s.Ops {
		if o.K == "save_same" || o.K == "save_diff" || o.K == "reopen" {
			return true
		}
	}
	return false
}

func (s Sequence) sample() any {
	ops := make([]string, 0, len(s.Ops))
	for _, o := range s.Ops {
		switch o.K {
		case "save_new", "save_same", "save_diff":
			ops = append(ops, fmt.Sprintf("%s(h=%d,blk=%d,dat=%d)", o.K, o.H, o.Blk, o.Dat))
		case "setheight", "getblock", "getheader", "getsig":
			ops = append(ops, fmt.Sprintf("%s(%d)", o.K, o.H))
		case "setmeta":
			ops = append(ops, fmt.Sprintf("setmeta(%s,%dB)", o.Key, len(o.Val)+o.Big))
		case "getmeta":
			ops = append(ops, fmt.Sprintf("getmeta(%s)", o.Key))
		case "getbyhash", "getsigbyhash":
			ops = append(ops, fmt.Sprintf("%s(blk=%d)", o.K, o.Blk))
		default:
			ops = append(ops, o.K)
		}
	}
	return map[string]any{"id": s.ID, "also_on_badger": s.Badger, "pool_blocks": len(s.Pool), "ops": ops}
}

// ---- materialisation --------------------------------------------------------------------------

// Blk is a materialised pool block.
type Blk struct {
	Header *types.SignedHeader
	Data   *types.Data
	Sig    types.Signature
	HdrBin []byte
	DatBin []byte
	Hash   []byte
	Spec   BlockSpec
}

// Mat holds what a sequence's operations refer to: the materialised pool blocks and the large
// metadata / state values (built once per sequence, the crash enumeration replays it many times).
type Mat struct {
	Pool []*Blk
	big  map[[2]int64][]byte
}

func (mt *Mat) bigBytes(salt int64, n int) []byte {
	k := [2]int64{salt, int64(n)}
	if v, ok := mt.big[k]; ok {
		return v
	}
	if mt.big == nil {
		mt.big = map[[2]int64][]byte{}
	}
	v := rbytes(rand.New(rand.NewSource(salt^0x5eed)), n)
	mt.big[k] = v
	return v
}

// metaVal is the value a setmeta operation writes.
func (mt *Mat) metaVal(op Op) []byte {
	if op.Big > 0 {
		return mt.bigBytes(op.St, op.Big)
	}
	return op.Val
}

// state is the state a state operation writes.
func (mt *Mat) state(op Op) types.State {
	st := mkState(op.St)
	if op.Big > 0 {
		st.AppHash = mt.bigBytes(op.St, op.Big)
	}
	return st
}

const chainID = "c14-chain"

var proposer = world.NewKeys("c14-proposer")

func rbytes(rng *rand.Rand, n int) []byte {
	b := make([]byte, n)
	rng.Read(b)
	return b
}

// materialise builds the block of a spec: a header signed with the harness's proposer key over
// data it commits to (unless the spec says otherwise).
func materialise(sp BlockSpec) (*Blk, error) {
	rng := rand.New(rand.NewSource(sp.Salt))
	signer, err := types.NewSigner(proposer.Pub)
	if err != nil {
		return nil, err
	}
	h := types.Header{
		BaseHeader:      types.BaseHeader{Height: sp.Height, Time: uint64(1_700_000_000_000_000_000 + rng.Int63n(1_000_000_000_000)), ChainID: chainID},
		Version:         types.Version{Block: 11, App: uint64(rng.Intn(3))},
		LastHeaderHash:  rbytes(rng, 32),
		LastCommitHash:  rbytes(rng, 32),
		DataHash:        rbytes(rng, 32),
		ConsensusHash:   rbytes(rng, 32),
		AppHash:         rbytes(rng, 32),
		LastResultsHash: rbytes(rng, 32),
		ValidatorHash:   signer.Address,
		ProposerAddress: signer.Address,
	}
	d := &types.Data{}
	if !sp.NilMeta {
		d.Metadata = &types.Metadata{ChainID: chainID, Height: sp.Height, Time: h.BaseHeader.Time, LastDataHash: rbytes(rng, 32)}
	}
	for i := 0; i < sp.NTx; i++ {
		d.Txs = append(d.Txs, rbytes(rng, []int{0, 1, 7, 40, 300}[rng.Intn(5)]))
	}
	if sp.Big > 0 {
		d.Txs = append(d.Txs, rbytes(rng, sp.Big))
	}
	if !sp.BadDataHash {
		// what the node puts there (block/manager.go: header.DataHash = blockData.DACommitment())
		h.DataHash = (&types.Data{Txs: d.Txs}).DACommitment()
	}
	payload, err := h.MarshalBinary()
	if err != nil {
		return nil, err
	}
	sig, err := proposer.Signer.Sign(payload)
	if err != nil {
		return nil, err
	}
	sh := &types.SignedHeader{Header: h, Signature: sig, Signer: signer}
	b := &Blk{Header: sh, Data: d, Spec: sp}
	switch sp.SigMode {
	case 0:
		b.Sig = append(types.Signature{}, sig...)
	case 1:
		b.Sig = rbytes(rng, 64)
	default:
		b.Sig = types.Signature{}
	}
	if b.HdrBin, err = sh.MarshalBinary(); err != nil {
		return nil, err
	}
	if b.DatBin, err = d.MarshalBinary(); err != nil {
		return nil, err
	}
	// the hash under which the block is looked up is the one the header type itself reports
	b.Hash = append([]byte{}, sh.Hash()...)
	return b, nil
}

func mkState(salt int64) types.State {
	rng := rand.New(rand.NewSource(salt))
	st := types.State{
		Version:         types.Version{Block: uint64(rng.Intn(20)), App: uint64(rng.Intn(5))},
		ChainID:         []string{chainID, chainID, "", "other-chain"}[rng.Intn(4)],
		InitialHeight:   uint64(rng.Intn(5)),
		LastBlockHeight: heightClasses[rng.Intn(len(heightClasses))],
		LastBlockTime:   time.Unix(1_700_000_000+rng.Int63n(1_000_000), rng.Int63n(1_000_000_000)).UTC(),
		DAHeight:        uint64(rng.Int63()),
	}
	if rng.Intn(4) > 0 {
		st.LastResultsHash = rbytes(rng, 32)
	}
	if rng.Intn(6) > 0 {
		st.AppHash = rbytes(rng, []int{1, 8, 32, 32, 64}[rng.Intn(5)])
	}
	return st
}
