package c14

import (
	"bytes"
	"context"
	"encoding/hex"
	"fmt"

	"github.com/evstack/ev-node/pkg/store"
	"github.com/evstack/ev-node/types"
)

// Model is the reference: one map per kind of record, nothing shared between kinds.
type Model struct {
	Hdr    map[uint64][]byte // header bytes by height
	Dat    map[uint64][]byte // data bytes by height
	Sig    map[uint64][]byte // signature by height
	Idx    map[string]uint64 // header hash (hex) -> height, last write per hash
	State  *types.State
	Meta   map[string][]byte
	Height uint64 // running maximum of SetHeight arguments
}

func newModel() *Model {
	return &Model{Hdr: map[uint64][]byte{}, Dat: map[uint64][]byte{}, Sig: map[uint64][]byte{}, Idx: map[string]uint64{}, Meta: map[string][]byte{}}
}

func (m *Model) clone() *Model {
	c := newModel()
	for k, v := range m.Hdr {
		c.Hdr[k] = v
	}
	for k, v := range m.Dat {
		c.Dat[k] = v
	}
	for k, v := range m.Sig {
		c.Sig[k] = v
	}
	for k, v := range m.Idx {
		c.Idx[k] = v
	}
	for k, v := range m.Meta {
		c.Meta[k] = v
	}
	if m.State != nil {
		st := *m.State
		c.State = &st
	}
	c.Height = m.Height
	return c
}

// apply performs a write operation on the model.
func (m *Model) apply(op Op, pool []*Blk) {
	switch op.K {
	case "save_new", "save_same", "save_diff":
		hb, db := pool[op.Blk], pool[op.Dat]
		m.Hdr[op.H] = hb.HdrBin
		m.Dat[op.H] = db.DatBin
		m.Sig[op.H] = db.Sig
		m.Idx[hex.EncodeToString(hb.Hash)] = op.H
	case "setheight":
		if op.H > m.Height {
			m.Height = op.H
		}
	case "state":
		st := mkState(op.St)
		m.State = &st
	case "setmeta":
		m.Meta[op.Key] = op.Val
	}
}

func stateEqual(a, b types.State) bool {
	return a.Version == b.Version && a.ChainID == b.ChainID && a.InitialHeight == b.InitialHeight &&
		a.LastBlockHeight == b.LastBlockHeight && a.LastBlockTime.Equal(b.LastBlockTime) && a.DAHeight == b.DAHeight &&
		bytes.Equal(a.LastResultsHash, b.LastResultsHash) && bytes.Equal(a.AppHash, b.AppHash)
}

type checker struct {
	ctx   context.Context
	st    store.Store
	m     *Model
	hit   func(string)
	count func(string, int64)
	probs []string
	where string
	// noVerify skips the ed25519 verification of returned headers (bulk comparisons: the returned
	// header already equals, byte for byte, one the harness signed)
	noVerify bool
}

func (c *checker) fail(clause, format string, a ...any) {
	c.probs = append(c.probs, clause+": "+c.where+fmt.Sprintf(format, a...))
}

func short(b []byte) string {
	if len(b) > 10 {
		return hex.EncodeToString(b[:10]) + "…"
	}
	return hex.EncodeToString(b)
}

// blockAt checks a (header, data) pair returned for height h against the model.
func (c *checker) blockAt(call string, h uint64, hdr *types.SignedHeader, data *types.Data, err error, wantData bool) {
	want, ok := c.m.Hdr[h]
	if !ok {
		c.hit("read-missing")
		if err == nil {
			c.fail("read-missing", "%s: nothing was saved at height %d but the call succeeded", call, h)
		}
		return
	}
	c.hit("read-block")
	if err != nil {
		c.fail("read-block", "%s: block saved at height %d is not retrievable: %v", call, h, err)
		return
	}
	if hdr == nil || (wantData && data == nil) {
		c.fail("read-block", "%s: no error but a nil result", call)
		return
	}
	got, merr := hdr.MarshalBinary()
	if merr != nil || !bytes.Equal(got, want) {
		c.fail("read-block", "%s: header at height %d differs from the last one saved there (got height %d hash %s)", call, h, hdr.Height(), short(hdr.Hash()))
		return
	}
	// the stored header still verifies under the harness's copy of the proposer key
	if payload, perr := hdr.Header.MarshalBinary(); perr == nil && !c.noVerify {
		if okSig, _ := proposer.Pub.Verify(payload, hdr.Signature); !okSig {
			c.fail("read-block", "%s: header at height %d no longer verifies under the proposer key", call, h)
		} else {
			c.hit("header-signature-verifies")
		}
	}
	if wantData {
		gd, derr := data.MarshalBinary()
		if derr != nil || !bytes.Equal(gd, c.m.Dat[h]) {
			c.fail("read-block", "%s: data at height %d differs from the last data saved there", call, h)
		}
	}
}

func (c *checker) sigAt(call string, h uint64, sig *types.Signature, err error) {
	want, ok := c.m.Sig[h]
	if !ok {
		c.hit("read-missing")
		if err == nil {
			c.fail("read-missing", "%s: no block saved at height %d but a signature came back", call, h)
		}
		return
	}
	c.hit("read-signature")
	if err != nil {
		c.fail("read-signature", "%s: signature of height %d not retrievable: %v", call, h, err)
		return
	}
	if sig == nil {
		c.fail("read-signature", "%s: no error but a nil result", call)
		return
	}
	if !bytes.Equal(*sig, want) {
		c.fail("read-signature", "%s: signature at height %d is %s, saved %s", call, h, short(*sig), short(want))
	}
}

// read performs one read operation and compares it with the model.
func (c *checker) read(op Op, pool []*Blk) {
	switch op.K {
	case "getblock":
		hdr, data, err := c.st.GetBlockData(c.ctx, op.H)
		c.blockAt(fmt.Sprintf("GetBlockData(%d)", op.H), op.H, hdr, data, err, true)
	case "getheader":
		hdr, err := c.st.GetHeader(c.ctx, op.H)
		c.blockAt(fmt.Sprintf("GetHeader(%d)", op.H), op.H, hdr, nil, err, false)
	case "getsig":
		sig, err := c.st.GetSignature(c.ctx, op.H)
		c.sigAt(fmt.Sprintf("GetSignature(%d)", op.H), op.H, sig, err)
	case "getbyhash", "getsigbyhash":
		hash := bytes.Repeat([]byte{0xEE}, 32)
		if op.Blk >= 0 {
			hash = pool[op.Blk].Hash
		}
		c.byHash(op.K, hash)
	case "getstate":
		st, err := c.st.GetState(c.ctx)
		if c.m.State == nil {
			c.hit("read-missing")
			if err == nil {
				c.fail("read-missing", "GetState: no state was ever written but the call succeeded")
			}
			return
		}
		c.hit("read-state")
		if err != nil {
			c.fail("read-state", "GetState: %v", err)
		} else if !stateEqual(st, *c.m.State) {
			c.fail("read-state", "GetState returned %+v, last written %+v", st, *c.m.State)
		}
	case "getmeta":
		c.meta(op.Key)
	case "height":
		c.height()
	}
}

func (c *checker) byHash(kind string, hash []byte) {
	h, ok := c.m.Idx[hex.EncodeToString(hash)]
	if kind == "getbyhash" {
		hdr, data, err := c.st.GetBlockByHash(c.ctx, hash)
		call := fmt.Sprintf("GetBlockByHash(%s)", short(hash))
		if !ok {
			c.hit("read-missing")
			if err == nil {
				c.fail("read-missing", "%s: no block with this hash was ever saved but the call succeeded", call)
			}
			return
		}
		c.hit("read-by-hash")
		// judged per index key: the block now stored at the height this hash was last indexed to
		c.blockAt(call, h, hdr, data, err, true)
		if err == nil && !bytes.Equal(hdr.Hash(), hash) {
			c.count("stale_index_observations", 1)
		}
		return
	}
	sig, err := c.st.GetSignatureByHash(c.ctx, hash)
	call := fmt.Sprintf("GetSignatureByHash(%s)", short(hash))
	if !ok {
		c.hit("read-missing")
		if err == nil {
			c.fail("read-missing", "%s: no block with this hash was ever saved but the call succeeded", call)
		}
		return
	}
	c.hit("read-by-hash")
	c.sigAt(call, h, sig, err)
}

func (c *checker) meta(key string) {
	v, err := c.st.GetMetadata(c.ctx, key)
	want, ok := c.m.Meta[key]
	if !ok {
		c.hit("read-missing")
		if err == nil {
			c.fail("read-missing", "GetMetadata(%q): never set but the call returned %s", key, short(v))
		}
		return
	}
	c.hit("read-metadata")
	if err != nil {
		c.fail("read-metadata", "GetMetadata(%q): %v", key, err)
	} else if !bytes.Equal(v, want) {
		c.fail("read-metadata", "GetMetadata(%q) = %s, last written %s", key, short(v), short(want))
	}
}

func (c *checker) height() {
	h, err := c.st.Height(c.ctx)
	c.hit("height-running-max")
	if err != nil {
		c.fail("height-running-max", "Height: %v", err)
	} else if h != c.m.Height {
		c.fail("height-running-max", "Height() = %d, the largest height ever set is %d", h, c.m.Height)
	}
}

// all compares the complete observable state with the model: every height and hash of the
// sequence (present or not), the state, every metadata key of the sequence, and the height.
func (c *checker) all(heights []uint64, pool []*Blk, keys []string) {
	nv := c.noVerify
	c.noVerify = true
	defer func() { c.noVerify = nv }()
	for _, h := range heights {
		hdr, data, err := c.st.GetBlockData(c.ctx, h)
		c.blockAt(fmt.Sprintf("GetBlockData(%d)", h), h, hdr, data, err, true)
		hd, err := c.st.GetHeader(c.ctx, h)
		c.blockAt(fmt.Sprintf("GetHeader(%d)", h), h, hd, nil, err, false)
		sig, err := c.st.GetSignature(c.ctx, h)
		c.sigAt(fmt.Sprintf("GetSignature(%d)", h), h, sig, err)
	}
	for _, b := range pool {
		c.byHash("getbyhash", b.Hash)
		c.byHash("getsigbyhash", b.Hash)
	}
	c.read(Op{K: "getstate"}, pool)
	for _, k := range keys {
		c.meta(k)
	}
	c.height()
}
