package c14

import (
	"bytes"
	"context"
	"encoding/hex"
	"fmt"

	"github.com/evstack/ev-node/pkg/store"
	"github.com/evstack/ev-node/types"
)

// Model is the reference: one map per kind of record, nothing shared between kinds.
type Model struct {
	Hdr    map[uint64][]byte // header bytes by height
	Dat    map[uint64][]byte // data bytes by height
	Sig    map[uint64][]byte // signature by height
	HashAt map[uint64]string // hash (hex) of the header now stored at the height
	Idx    map[string]uint64 // header hash (hex) -> the height it was saved at
	State  *types.State
	Meta   map[string][]byte
	// the recorded height "only grows": it is at least the largest SetHeight argument, and at most
	// the largest height ever named by SetHeight or by a saved block
	MaxSet   uint64
	MaxSaved uint64
}

func newModel() *Model {
	return &Model{Hdr: map[uint64][]byte{}, Dat: map[uint64][]byte{}, Sig: map[uint64][]byte{}, HashAt: map[uint64]string{}, Idx: map[string]uint64{}, Meta: map[string][]byte{}}
}

func (m *Model) clone() *Model {
	c := newModel()
	for k, v := range m.Hdr {
		c.Hdr[k] = v
	}
	for k, v := range m.Dat {
		c.Dat[k] = v
	}
	for k, v := range m.Sig {
		c.Sig[k] = v
	}
	for k, v := range m.HashAt {
		c.HashAt[k] = v
	}
	for k, v := range m.Idx {
		c.Idx[k] = v
	}
	for k, v := range m.Meta {
		c.Meta[k] = v
	}
	if m.State != nil {
		st := *m.State
		c.State = &st
	}
	c.MaxSet, c.MaxSaved = m.MaxSet, m.MaxSaved
	return c
}

// heightCeil is the largest value Height() may report.
func (m *Model) heightCeil() uint64 {
	if m.MaxSaved > m.MaxSet {
		return m.MaxSaved
	}
	return m.MaxSet
}

// apply performs a write operation on the model.
func (m *Model) apply(op Op, mt *Mat) {
	switch op.K {
	case "save_new", "save_same", "save_diff":
		hb, db := mt.Pool[op.Blk], mt.Pool[op.Dat]
		m.Hdr[op.H] = hb.HdrBin
		m.Dat[op.H] = db.DatBin
		m.Sig[op.H] = db.Sig
		hx := hex.EncodeToString(hb.Hash)
		m.HashAt[op.H] = hx
		m.Idx[hx] = op.H
		if op.H > m.MaxSaved {
			m.MaxSaved = op.H
		}
	case "setheight":
		if op.H > m.MaxSet {
			m.MaxSet = op.H
		}
	case "state":
		st := mt.state(op)
		m.State = &st
	case "setmeta":
		m.Meta[op.Key] = mt.metaVal(op)
	}
}

// mayRefuse reports whether a store may answer the write with an error without breaking the
// statement: inputs a store may legitimately validate. A refused call must leave everything as it
// was (the caller checks that against the model, which is not advanced).
func (m *Model) mayRefuse(op Op, mt *Mat) bool {
	switch op.K {
	case "save_new", "save_same", "save_diff":
		return op.Blk != op.Dat || !mt.Pool[op.Blk].Spec.regular()
	case "setheight":
		return op.H <= m.heightCeil() // does not make the height grow
	case "state":
		return mt.state(op).ChainID == ""
	}
	return false
}

func stateEqual(a, b types.State) bool {
	return a.Version == b.Version && a.ChainID == b.ChainID && a.InitialHeight == b.InitialHeight &&
		a.LastBlockHeight == b.LastBlockHeight && a.LastBlockTime.Equal(b.LastBlockTime) && a.DAHeight == b.DAHeight &&
		bytes.Equal(a.LastResultsHash, b.LastResultsHash) && bytes.Equal(a.AppHash, b.AppHash)
}

type checker struct {
	ctx   context.Context
	st    store.Store
	m     *Model
	hit   func(string)
	count func(string, int64)
	probs []string
	where string
	// noVerify skips the ed25519 verification of returned headers (bulk comparisons: the returned
	// header already equals, byte for byte, one the harness signed)
	noVerify bool
	// the largest Height() this checker has seen so far (over all store instances of the history)
	seenHeight uint64
}

func (c *checker) fail(clause, format string, a ...any) {
	c.probs = append(c.probs, clause+": "+c.where+fmt.Sprintf(format, a...))
}

func short(b []byte) string {
	if len(b) > 10 {
		return hex.EncodeToString(b[:10]) + "…"
	}
	return hex.EncodeToString(b)
}

// blockIs compares a returned (header, data) pair with the records the model holds at height h.
// It returns "" if they are those records.
func (c *checker) blockIs(h uint64, hdr *types.SignedHeader, data *types.Data, wantData bool) string {
	if hdr == nil || (wantData && data == nil) {
		return "no error but a nil result"
	}
	got, merr := hdr.MarshalBinary()
	if merr != nil || !bytes.Equal(got, c.m.Hdr[h]) {
		return fmt.Sprintf("header differs from the last one saved at height %d (got height %d hash %s)", h, hdr.Height(), short(hdr.Hash()))
	}
	if wantData {
		gd, derr := data.MarshalBinary()
		if derr != nil || !bytes.Equal(gd, c.m.Dat[h]) {
			return fmt.Sprintf("header is the one saved last at height %d but the data is not the data of that save", h)
		}
	}
	return ""
}

// blockAt checks a (header, data) pair returned for height h against the model.
func (c *checker) blockAt(call string, h uint64, hdr *types.SignedHeader, data *types.Data, err error, wantData bool) {
	defer func() { scribbleSignedHeader(hdr); scribbleData(data) }() // once judged (alias.go)
	if _, ok := c.m.Hdr[h]; !ok {
		c.hit("read-missing")
		if err == nil {
			c.fail("read-missing", "%s: nothing was saved at height %d but the call succeeded", call, h)
		}
		return
	}
	c.hit("read-block")
	if err != nil {
		c.fail("read-block", "%s: block saved at height %d is not retrievable: %v", call, h, err)
		return
	}
	if p := c.blockIs(h, hdr, data, wantData); p != "" {
		c.fail("read-block", "%s: %s", call, p)
		return
	}
	// the stored header still verifies under the harness's copy of the proposer key
	if payload, perr := hdr.Header.MarshalBinary(); perr == nil && !c.noVerify {
		if okSig, _ := proposer.Pub.Verify(payload, hdr.Signature); !okSig {
			c.fail("read-block", "%s: header at height %d no longer verifies under the proposer key", call, h)
		} else {
			c.hit("header-signature-verifies")
		}
	}
}

func (c *checker) sigAt(call string, h uint64, sig *types.Signature, err error) {
	defer scribbleSignature(sig)
	want, ok := c.m.Sig[h]
	if !ok {
		c.hit("read-missing")
		if err == nil {
			c.fail("read-missing", "%s: no block saved at height %d but a signature came back", call, h)
		}
		return
	}
	c.hit("read-signature")
	if err != nil {
		c.fail("read-signature", "%s: signature of height %d not retrievable: %v", call, h, err)
		return
	}
	if sig == nil {
		c.fail("read-signature", "%s: no error but a nil result", call)
		return
	}
	if !bytes.Equal(*sig, want) {
		c.fail("read-signature", "%s: signature at height %d is %s, saved %s", call, h, short(*sig), short(want))
	}
}

// read performs one read operation and compares it with the model.
func (c *checker) read(op Op, mt *Mat) {
	switch op.K {
	case "getblock":
		hdr, data, err := c.st.GetBlockData(c.ctx, op.H)
		c.blockAt(fmt.Sprintf("GetBlockData(%d)", op.H), op.H, hdr, data, err, true)
	case "getheader":
		hdr, err := c.st.GetHeader(c.ctx, op.H)
		c.blockAt(fmt.Sprintf("GetHeader(%d)", op.H), op.H, hdr, nil, err, false)
	case "getsig":
		sig, err := c.st.GetSignature(c.ctx, op.H)
		c.sigAt(fmt.Sprintf("GetSignature(%d)", op.H), op.H, sig, err)
	case "getbyhash", "getsigbyhash":
		hash := bytes.Repeat([]byte{0xEE}, 32)
		if op.Blk >= 0 {
			hash = mt.Pool[op.Blk].Hash
		}
		c.byHash(op.K, hash)
	case "getstate":
		st, err := c.st.GetState(c.ctx)
		if c.m.State == nil {
			c.hit("read-missing")
			if err == nil {
				c.fail("read-missing", "GetState: no state was ever written but the call succeeded")
			}
			return
		}
		c.hit("read-state")
		if len(c.m.State.AppHash) >= 60<<10 {
			c.hit("read-large-value")
		}
		if err != nil {
			c.fail("read-state", "GetState: %v", err)
		} else if !stateEqual(st, *c.m.State) {
			c.fail("read-state", "GetState returned a state other than the last one written (chain id %q/%q, last block height %d/%d, app hash %s/%s)",
				st.ChainID, c.m.State.ChainID, st.LastBlockHeight, c.m.State.LastBlockHeight, short(st.AppHash), short(c.m.State.AppHash))
		}
	case "getmeta":
		c.meta(op.Key)
	case "height":
		c.height()
	}
}

// byHash judges a lookup by header hash.
//
//   - a hash never saved: an error;
//   - the hash of the header that is the current one at the height it was saved at: exactly that
//     save's records;
//   - the hash of a header that was saved and has since been overwritten at its height by another
//     header: its records are gone, so either an error or, as a whole, the block now stored at that
//     height (what an index that is not cleaned on overwrite yields; counted in the evidence) -
//     never records of some other height and never records of two different saves.
func (c *checker) byHash(kind string, hash []byte) {
	hx := hex.EncodeToString(hash)
	h, ok := c.m.Idx[hx]
	current := ok && c.m.HashAt[h] == hx
	if kind == "getbyhash" {
		hdr, data, err := c.st.GetBlockByHash(c.ctx, hash)
		call := fmt.Sprintf("GetBlockByHash(%s)", short(hash))
		switch {
		case !ok:
			c.hit("read-missing")
			if err == nil {
				c.fail("read-missing", "%s: no block with this hash was ever saved but the call succeeded", call)
			}
		case current:
			c.hit("read-by-hash")
			c.blockAt(call, h, hdr, data, err, true)
		default:
			c.hit("read-by-hash-overwritten")
			if err != nil {
				c.count("overwritten_hash_lookup_fails", 1)
				return
			}
			p := c.blockIs(h, hdr, data, true)
			scribbleSignedHeader(hdr)
			scribbleData(data)
			if p != "" {
				c.fail("read-by-hash", "%s: the header with this hash was saved at height %d and overwritten there since; the lookup returned neither an error nor the block now at that height: %s", call, h, p)
				return
			}
			c.count("stale_index_observations", 1)
		}
		return
	}
	sig, err := c.st.GetSignatureByHash(c.ctx, hash)
	call := fmt.Sprintf("GetSignatureByHash(%s)", short(hash))
	switch {
	case !ok:
		c.hit("read-missing")
		if err == nil {
			c.fail("read-missing", "%s: no block with this hash was ever saved but the call succeeded", call)
		}
	case current:
		c.hit("read-by-hash")
		c.sigAt(call, h, sig, err)
	default:
		c.hit("read-by-hash-overwritten")
		if err != nil {
			c.count("overwritten_hash_lookup_fails", 1)
			return
		}
		same := sig != nil && bytes.Equal(*sig, c.m.Sig[h])
		scribbleSignature(sig)
		if !same {
			c.fail("read-by-hash", "%s: the header with this hash was saved at height %d and overwritten there since; the lookup returned neither an error nor the signature now at that height", call, h)
			return
		}
		c.count("stale_index_observations", 1)
	}
}

func (c *checker) meta(key string) {
	v, err := c.st.GetMetadata(c.ctx, key)
	want, ok := c.m.Meta[key]
	if !ok {
		c.hit("read-missing")
		if err == nil {
			c.fail("read-missing", "GetMetadata(%q): never set but the call returned %s", key, short(v))
		}
		return
	}
	c.hit("read-metadata")
	if len(want) >= 60<<10 {
		c.hit("read-large-value")
	}
	if err != nil {
		c.fail("read-metadata", "GetMetadata(%q): %v", key, err)
	} else if !bytes.Equal(v, want) {
		c.fail("read-metadata", "GetMetadata(%q) = %s (%d bytes), last written %s (%d bytes)", key, short(v), len(v), short(want), len(want))
	}
}

// height: the recorded height only grows - never below the largest SetHeight argument, never below
// what an earlier Height() call reported, and never above every height the history has named.
func (c *checker) height() {
	h, err := c.st.Height(c.ctx)
	c.hit("height-only-grows")
	switch {
	case err != nil:
		c.fail("height-only-grows", "Height: %v", err)
	case h < c.m.MaxSet:
		c.fail("height-only-grows", "Height() = %d, below the largest height ever set (%d)", h, c.m.MaxSet)
	case h < c.seenHeight:
		c.fail("height-only-grows", "Height() = %d after an earlier call returned %d", h, c.seenHeight)
	case h > c.m.heightCeil():
		c.fail("height-only-grows", "Height() = %d, above every height ever set (max %d) or saved (max %d)", h, c.m.MaxSet, c.m.MaxSaved)
	default:
		if h != c.m.MaxSet {
			c.count("height_above_largest_set_height", 1)
		}
		c.seenHeight = h
	}
}

// all compares the complete observable state with the model: every height and hash of the
// sequence (present or not), the state, every metadata key of the sequence, and the height.
func (c *checker) all(heights []uint64, mt *Mat, keys []string) {
	nv := c.noVerify
	c.noVerify = true
	defer func() { c.noVerify = nv }()
	for _, h := range heights {
		hdr, data, err := c.st.GetBlockData(c.ctx, h)
		c.blockAt(fmt.Sprintf("GetBlockData(%d)", h), h, hdr, data, err, true)
		hd, err := c.st.GetHeader(c.ctx, h)
		c.blockAt(fmt.Sprintf("GetHeader(%d)", h), h, hd, nil, err, false)
		sig, err := c.st.GetSignature(c.ctx, h)
		c.sigAt(fmt.Sprintf("GetSignature(%d)", h), h, sig, err)
	}
	for _, b := range mt.Pool {
		c.byHash("getbyhash", b.Hash)
		c.byHash("getsigbyhash", b.Hash)
	}
	c.read(Op{K: "getstate"}, mt)
	for _, k := range keys {
		c.meta(k)
	}
	c.height()
}
