package c14

import (
	"bufio"
	"bytes"
	"context"
	"encoding/hex"
	"fmt"
	"math/rand"
	"os"
	"os/exec"
	"path/filepath"
	"strconv"
	"strings"
	"sync"
	"syscall"
	"time"

	"github.com/evstack/ev-node/pkg/store"

	"verifharness/vk"
	"verifharness/world"
)

// Process-kill part: a child process writes to real Badger and is SIGKILLed at a seeded instant;
// the parent reopens the directory and requires (a) per height all four records of one and the
// same save, or none, and (b) that everything the child was told had been written (operations that
// returned before the kill) reads back: blocks, state, metadata, height - the operation in flight
// may be there or not, as a whole. The child names every operation in a journal before doing it
// ("B i") and after it returned ("E i", or "F i <error>" when the store refused it); the operations
// are a function of (seed, round, i), so the parent can rebuild every block the child may have
// written.

const killHeights = 16

var killKeys = []string{"d", "l", "last-submitted-header-height", "rhb/3/h"}

func init() { vk.Children["c14-writer"] = killChild }

func killOp(seed int64, round, i int) (Op, BlockSpec) {
	rng := rand.New(rand.NewSource(seed*1_000_003 + int64(round)*7_919 + int64(i)*104_729 + 1))
	switch p := rng.Intn(100); {
	case p < 78:
		h := uint64(1 + rng.Intn(killHeights))
		sp := BlockSpec{Height: h, Salt: rng.Int63(), NTx: rng.Intn(4)}
		if rng.Intn(12) == 0 {
			sp.Big = []int{70 << 10, 256<<10 + 1, 300 << 10, 1<<20 + 4096}[rng.Intn(4)]
		}
		return Op{K: "save_diff", H: h}, sp
	case p < 86:
		if rng.Intn(4) == 0 {
			// below the recorded height: must not take it down, also as the first call after an open
			return Op{K: "setheight", H: uint64(1 + rng.Intn(5))}, BlockSpec{}
		}
		return Op{K: "setheight", H: uint64(round*1_000_000 + i + 20)}, BlockSpec{}
	case p < 93:
		op := Op{K: "state", St: rng.Int63()}
		for mkState(op.St).ChainID == "" {
			op.St = rng.Int63()
		}
		if rng.Intn(6) == 0 {
			op.Big = []int{70 << 10, 300 << 10, 1<<20 + 4096}[rng.Intn(3)]
		}
		return op, BlockSpec{}
	default:
		op := Op{K: "setmeta", Key: killKeys[rng.Intn(len(killKeys))]}
		if rng.Intn(6) == 0 {
			op.St, op.Big = rng.Int63(), []int{70 << 10, 300 << 10, 1<<20 + 4096}[rng.Intn(3)]
		} else {
			op.Val = make([]byte, 8)
			rng.Read(op.Val)
		}
		return op, BlockSpec{}
	}
}

func killChild(args []string) int {
	world.Silence()
	if len(args) != 4 {
		return 2
	}
	dir, journal := args[0], args[1]
	seed, _ := strconv.ParseInt(args[2], 10, 64)
	round, _ := strconv.Atoi(args[3])
	jf, err := os.OpenFile(journal, os.O_CREATE|os.O_WRONLY|os.O_APPEND, 0o644)
	if err != nil {
		return 2
	}
	oneLine := func(err error) string { return strings.ReplaceAll(err.Error(), "\n", " | ") }
	kvs, err := store.NewDefaultKVStore(dir, "db", "c14")
	if err != nil {
		if isEnvErr(err) || envTrouble(dir) != "" {
			fmt.Fprintf(jf, "X env open %s (%s)\n", oneLine(err), envTrouble(dir))
		} else {
			fmt.Fprintf(jf, "X open %s\n", oneLine(err))
		}
		return 3
	}
	st := store.New(kvs)
	ctx := context.Background()
	// a journal line that cannot be written (disk full, ...) ends the child: the database must never get ahead of the journal
	jw := func(line string) {
		if _, err := jf.WriteString(line); err != nil {
			os.Exit(4)
		}
	}
	jw("R\n")
	// blocks are built ahead by another goroutine so that this one spends its time inside store calls
	type prepared struct {
		op  Op
		mt  *Mat
		err error
	}
	ahead := make(chan prepared, 1024)
	go func() {
		for i := 0; i < 500_000; i++ {
			op, sp := killOp(seed, round, i)
			p := prepared{op: op, mt: &Mat{}}
			switch {
			case isSave(op.K):
				b, err := materialise(sp)
				p.mt.Pool, p.err = []*Blk{b}, err
			case op.K == "state":
				_ = p.mt.state(op) // large values are built here, not on the writing goroutine
			case op.K == "setmeta":
				_ = p.mt.metaVal(op)
			}
			ahead <- p
		}
		close(ahead)
	}()
	i := 0
	cb := newCallerBufs()
	for p := range ahead {
		if p.err != nil {
			fmt.Fprintf(jf, "X materialise %v\n", p.err)
			return 3
		}
		jw("B " + strconv.Itoa(i) + "\n") // named before it is done
		if err := doWrite(ctx, st, p.op, p.mt, cb); err != nil {
			if isEnvErr(err) {
				fmt.Fprintf(jf, "X env %d %s\n", i, oneLine(err))
				return 3
			}
			// refused: said so, and carried on (the parent decides whether this input may be refused)
			jw(fmt.Sprintf("F %d %s\n", i, oneLine(err)))
		} else {
			jw("E " + strconv.Itoa(i) + "\n")
		}
		i++
	}
	select {} // wait for the kill
}

type journalState struct {
	ready    bool
	done     int // operations 0..done-1 returned
	inflight int // -1: none
	fault    string
	refused  map[int]string // operations that returned an error (and the process went on)
}

func readJournal(path string) journalState {
	js := journalState{inflight: -1, refused: map[int]string{}}
	f, err := os.Open(path)
	if err != nil {
		return js
	}
	defer f.Close()
	sc := bufio.NewScanner(f)
	sc.Buffer(make([]byte, 0, 64<<10), 4<<20)
	for sc.Scan() {
		line := sc.Text()
		switch {
		case line == "R":
			js.ready = true
		case strings.HasPrefix(line, "B "):
			if n, err := strconv.Atoi(line[2:]); err == nil {
				js.inflight = n
			}
		case strings.HasPrefix(line, "E "):
			if n, err := strconv.Atoi(line[2:]); err == nil {
				js.done = n + 1
				js.inflight = -1
			}
		case strings.HasPrefix(line, "F "):
			f := strings.SplitN(line[2:], " ", 2)
			if n, err := strconv.Atoi(f[0]); err == nil {
				js.done = n + 1
				js.inflight = -1
				js.refused[n] = line
			}
		case strings.HasPrefix(line, "X "):
			js.fault = line
		}
	}
	return js
}

type killDir struct {
	id       int
	dir      string
	seed     int64
	model    *Model
	attempts map[uint64]map[string]*Blk // height -> header hash -> block
	dead     bool                       // the model lost track of the directory (a violation or an inconclusive round): no further rounds
}

func (kd *killDir) note(op Op, b *Blk) {
	if kd.attempts[op.H] == nil {
		kd.attempts[op.H] = map[string]*Blk{}
	}
	kd.attempts[op.H][string(b.Hash)] = b
}

// killRound runs one child on the directory, kills it, reopens and checks.
func killRound(r *vk.Run, kd *killDir, round int, early bool, delay time.Duration) {
	journal := filepath.Join(kd.dir, fmt.Sprintf("journal-%d.txt", round))
	cmd := exec.Command(vk.SelfExe(), "child", "c14-writer", kd.dir, journal, strconv.FormatInt(kd.seed, 10), strconv.Itoa(round))
	forkMu.Lock()
	err := cmd.Start()
	forkMu.Unlock()
	if err != nil {
		r.Inconclusive("kill: cannot start child: " + err.Error())
		kd.dead = true
		return
	}
	if !early {
		// wait until the child has opened the database (watchdog: inconclusive)
		dl := time.Now().Add(60 * time.Second)
		for js := readJournal(journal); !js.ready && js.fault == ""; js = readJournal(journal) {
			if time.Now().After(dl) {
				_ = cmd.Process.Kill()
				_ = cmd.Wait()
				r.Inconclusive(fmt.Sprintf("kill dir %d round %d: child never became ready", kd.id, round))
				kd.dead = true
				return
			}
			time.Sleep(2 * time.Millisecond)
		}
	}
	time.Sleep(delay)
	_ = cmd.Process.Signal(syscall.SIGKILL)
	_ = cmd.Wait()
	if ps := cmd.ProcessState; ps != nil && ps.Exited() && ps.ExitCode() == 4 {
		r.Inconclusive(fmt.Sprintf("kill dir %d round %d: the child could not write its journal", kd.id, round))
		kd.dead = true
		return
	}
	r.Count("kills", 1)
	js := readJournal(journal)
	witness := func(extra map[string]any) map[string]any {
		w := map[string]any{"seed": kd.seed, "dir": kd.id, "round": round, "ops_returned": js.done, "op_in_flight": js.inflight, "refused": js.refused, "fault": js.fault, "kill_delay_ms": delay.Milliseconds(), "killed_before_ready": early}
		for k, v := range extra {
			w[k] = v
		}
		return w
	}
	if js.fault != "" {
		kd.dead = true
		if strings.HasPrefix(js.fault, "X env ") || strings.HasPrefix(js.fault, "X materialise") {
			r.Inconclusive(fmt.Sprintf("kill dir %d round %d: %s", kd.id, round, js.fault))
			return
		}
		r.Violation("kill-reopen", fmt.Sprintf("kill dir %d round %d: a database that survived %d kills (and was opened, read and closed by the checker since) does not open in the next process: %s", kd.id, round, round, js.fault), witness(nil))
		return
	}
	r.Count("kill_ops_completed", int64(js.done))
	if js.inflight >= 0 {
		r.Count("kills_with_operation_in_flight", 1)
	}
	if !js.ready {
		r.Count("kills_before_database_open_finished", 1)
	}
	// bring the model to "all operations that returned", remember every block ever attempted
	var inflightOp *Op
	var inflightMt *Mat
	last := js.done
	if js.inflight >= 0 {
		last = js.inflight + 1
	}
	for i := 0; i < last; i++ {
		op, sp := killOp(kd.seed, round, i)
		mt := &Mat{}
		if isSave(op.K) {
			b, err := materialise(sp)
			if err != nil {
				r.Inconclusive("kill: materialise: " + err.Error())
				kd.dead = true
				return
			}
			mt.Pool = []*Blk{b}
			kd.note(op, b)
		}
		switch {
		case i >= js.done:
			o := op
			inflightOp, inflightMt = &o, mt
		case js.refused[i] != "":
			if !kd.model.mayRefuse(op, mt) {
				kd.dead = true
				r.Violation("kill-write-ok", fmt.Sprintf("kill dir %d round %d: %s failed on a healthy database: %s", kd.id, round, describeOp(op), js.refused[i]), witness(nil))
				return
			}
			r.Count("refused_writes_tolerated", 1)
		default:
			kd.model.apply(op, mt)
			r.Count("kill_acknowledged_"+op.K, 1)
		}
	}
	// reopen in the parent
	kvs, env, err := openBadger(kd.dir)
	if err != nil && !env {
		// Badger v4.5.1 removes a flushed write-ahead file by truncate(0) + remove; a kill between the
		// two leaves a zero-length NNNNN.mem on which the next Open fails once (it re-extends the file,
		// the following Open succeeds; the contents had been flushed). Whatever the reason: one more
		// attempt is made, the first failure is counted, and what the database then holds is judged as
		// after any other kill.
		r.Count("kill_first_open_failed", 1)
		kvs, env, err = openBadger(kd.dir)
	}
	if err != nil {
		kd.dead = true
		if env {
			r.Inconclusive(fmt.Sprintf("kill dir %d round %d: open after the kill: %v", kd.id, round, err))
			return
		}
		r.Violation("kill-reopen", fmt.Sprintf("kill dir %d round %d: database does not open after the kill: %v", kd.id, round, err), witness(nil))
		return
	}
	defer func() { _ = closeDS(kvs) }()
	st := store.New(kvs)
	ctx := context.Background()
	var inflightBlk *Blk
	if inflightOp != nil && isSave(inflightOp.K) {
		inflightBlk = inflightMt.Pool[0]
	}

	// (a) all-or-nothing per height
	var probs []string
	for h := uint64(1); h <= killHeights; h++ {
		hdr, errH := st.GetHeader(ctx, h)
		h1, data, errD := st.GetBlockData(ctx, h)
		sig, errS := st.GetSignature(ctx, h)
		if errH != nil && errD != nil && errS != nil {
			if len(kd.attempts[h]) > 0 {
				r.Hit("kill-none-of-four")
			}
			continue
		}
		r.Hit("kill-all-four-consistent")
		if errH != nil || errD != nil || errS != nil {
			probs = append(probs, fmt.Sprintf("height %d is torn: header err=%v, data err=%v, signature err=%v", h, errH, errD, errS))
			continue
		}
		if hdr == nil || h1 == nil || data == nil || sig == nil {
			probs = append(probs, fmt.Sprintf("height %d: a read returned no error and a nil result", h))
			continue
		}
		hb, _ := hdr.MarshalBinary()
		x := kd.attempts[h][string(hdr.Hash())]
		if x == nil || !bytes.Equal(x.HdrBin, hb) {
			// Is it an operation of this round that the journal does not show? (The child names an operation in the
			// journal before it performs it; a header of a LATER operation at this height means the journal the parent
			// read is behind the database - bookkeeping trouble of the harness, not a verdict on the store.)
			ahead := -1
			for i := last; i < last+400 && ahead < 0; i++ {
				if op, sp := killOp(kd.seed, round, i); isSave(op.K) && op.H == h {
					if b, err := materialise(sp); err == nil && bytes.Equal(b.HdrBin, hb) {
						ahead = i
					}
				}
			}
			if ahead >= 0 {
				r.Inconclusive(fmt.Sprintf("kill dir %d round %d: height %d holds the header of operation %d, but the journal read after the kill ends at operation %d: the harness's journal is behind the database", kd.id, round, h, ahead, last-1))
				kd.dead = true
				return
			}
			probs = append(probs, fmt.Sprintf("height %d holds a header (hash %s) that no operation of the journal wrote there", h, short(hdr.Hash())))
			continue
		}
		db, _ := data.MarshalBinary()
		if !bytes.Equal(db, x.DatBin) || !bytes.Equal(*sig, x.Sig) {
			probs = append(probs, fmt.Sprintf("height %d mixes records of different saves: header of save %s, data match=%v, signature match=%v", h, short(x.Hash), bytes.Equal(db, x.DatBin), bytes.Equal(*sig, x.Sig)))
			continue
		}
		h2, d2, errI := st.GetBlockByHash(ctx, x.Hash)
		s2, errI2 := st.GetSignatureByHash(ctx, x.Hash)
		if errI != nil || errI2 != nil {
			probs = append(probs, fmt.Sprintf("height %d: header, data and signature of save %s are there but it cannot be looked up by hash (%v / %v)", h, short(x.Hash), errI, errI2))
			continue
		}
		if h2 == nil || d2 == nil || s2 == nil {
			probs = append(probs, fmt.Sprintf("height %d: a lookup by hash returned no error and a nil result", h))
			continue
		}
		hb2, _ := h2.MarshalBinary()
		db2, _ := d2.MarshalBinary()
		if !bytes.Equal(hb2, hb) || !bytes.Equal(db2, db) || !bytes.Equal(*s2, *sig) {
			probs = append(probs, fmt.Sprintf("height %d: lookup by hash %s returns other records than lookup by height", h, short(x.Hash)))
			continue
		}
		if inflightBlk != nil && inflightOp.H == h && bytes.Equal(inflightBlk.HdrBin, hb) {
			r.Count("kill_inflight_save_fully_present", 1)
		}
	}
	if inflightOp != nil && isSave(inflightOp.K) {
		r.Hit("kill-during-save")
		if _, had := kd.model.Hdr[inflightOp.H]; had {
			r.Hit("kill-during-overwrite")
		}
	}
	if len(probs) > 0 {
		kd.dead = true
		w := witness(nil)
		if inflightOp != nil {
			w["operation_in_flight"] = *inflightOp
			if inflightBlk != nil {
				w["in_flight_header_hash"] = hex.EncodeToString(inflightBlk.Hash)
			}
		}
		r.Violation("kill-all-or-nothing", fmt.Sprintf("kill dir %d round %d (seed %d, %d ops returned): %s", kd.id, round, kd.seed, js.done, strings.Join(trim(probs, 5), " ;; ")), w)
		return
	}

	// (b) what was acknowledged before the kill is there: the whole observable state equals the model
	// after the operations that returned, or that model plus the operation in flight
	heights := []uint64{424242}
	for h := uint64(1); h <= killHeights; h++ {
		heights = append(heights, h)
	}
	keys := append([]string{"never-set"}, killKeys...)
	look := &Mat{} // whose hashes are looked up: every block now current, the one in flight, some overwritten ones
	for h := uint64(1); h <= killHeights; h++ {
		n := 0
		for _, b := range kd.attempts[h] {
			cur := bytes.Equal(kd.model.Hdr[h], b.HdrBin) || b == inflightBlk
			if cur || n < 6 {
				look.Pool = append(look.Pool, b)
				if !cur {
					n++
				}
			}
		}
	}
	judge := func(m *Model) []string {
		ck := &checker{ctx: ctx, st: st, m: m, hit: func(string) {}, count: func(string, int64) {}}
		ck.all(heights, look, keys)
		return ck.probs
	}
	without := judge(kd.model)
	var with []string
	verdict := "equals-acknowledged"
	if len(without) > 0 {
		verdict = "neither"
		if inflightOp != nil {
			m2 := kd.model.clone()
			m2.apply(*inflightOp, inflightMt)
			if with = judge(m2); len(with) == 0 {
				kd.model = m2
				verdict = "equals-acknowledged-plus-in-flight"
			}
		}
	}
	r.Count("kill_state_"+verdict, 1)
	if js.done > 0 || round > 0 {
		r.Hit("kill-acknowledged-writes-survive")
	}
	if verdict == "neither" {
		kd.dead = true
		d := fmt.Sprintf("kill dir %d round %d (seed %d): %d operations had returned before the kill", kd.id, round, kd.seed, js.done)
		if inflightOp != nil {
			d += fmt.Sprintf(", %s was in flight", describeOp(*inflightOp))
		}
		d += "; after reopening, the store shows neither what the returned operations wrote nor that plus the operation in flight. Against 'returned operations': " + strings.Join(trim(without, 4), " ;; ")
		if inflightOp != nil {
			d += " || against 'plus the operation in flight': " + strings.Join(trim(with, 4), " ;; ")
		}
		r.Violation("kill-acknowledged-durable", d, witness(nil))
	}
}

// runKills is the process-kill phase: quick 24 kills, thorough 200.
func runKills(r *vk.Run, base string) {
	dirs, rounds := r.N(6, 40), r.N(4, 5)
	if v, err := strconv.Atoi(os.Getenv("VERIF_C14_KILL_DIRS")); err == nil && v > 0 {
		dirs = v // development knob: more kills without the rest of the thorough tier
	}
	rng := r.Rand("kills")
	type plan struct {
		seed   int64
		early  []bool
		delays []time.Duration
	}
	plans := make([]plan, dirs)
	for i := range plans {
		p := plan{seed: rng.Int63n(1 << 40)}
		for k := 0; k < rounds; k++ {
			early := k > 0 && rng.Intn(6) == 0 // only on an existing database: creation of a new one is Badger's business
			d := time.Duration(rng.Intn(200_000)) * time.Microsecond
			if early {
				d = time.Duration(rng.Intn(80_000)) * time.Microsecond
			}
			p.early, p.delays = append(p.early, early), append(p.delays, d)
		}
		plans[i] = p
	}
	r.Require("kill-all-four-consistent", int64(dirs*rounds))
	r.Require("kill-acknowledged-writes-survive", int64(dirs*rounds/2))
	r.Require("kill-during-save", int64(r.N(1, dirs*rounds/10)))
	var wg sync.WaitGroup
	sem := make(chan struct{}, 8)
	for i, p := range plans {
		wg.Add(1)
		sem <- struct{}{}
		go func(i int, p plan) {
			defer wg.Done()
			defer func() { <-sem }()
			kd := &killDir{id: i, dir: filepath.Join(base, fmt.Sprintf("kill%d", i)), seed: p.seed, model: newModel(), attempts: map[uint64]map[string]*Blk{}}
			_ = os.MkdirAll(kd.dir, 0o755)
			defer os.RemoveAll(kd.dir)
			for k := 0; k < rounds && !kd.dead; k++ {
				if r.Violations() > 0 {
					return
				}
				k := k
				r.Guard(map[string]any{"kill_dir": i, "seed": p.seed, "round": k}, func() { killRound(r, kd, k, p.early[k], p.delays[k]) })
			}
		}(i, p)
	}
	wg.Wait()
}
