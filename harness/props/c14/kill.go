package c14

import (
	"bufio"
	"bytes"
	"context"
	"encoding/hex"
	"fmt"
	"math/rand"
	"os"
	"os/exec"
	"path/filepath"
	"strconv"
	"strings"
	"sync"
	"syscall"
	"time"

	"github.com/evstack/ev-node/pkg/store"

	"verifharness/vk"
	"verifharness/world"
)

// Process-kill part: a child process writes to real Badger and is SIGKILLed at a seeded instant;
// the parent reopens the directory and requires, per height, all four records of one and the same
// save, or none. The child names every operation in a journal before doing it ("B i") and after
// it returned ("E i"); the operations are a function of (seed, round, i), so the parent can
// rebuild every block the child may have written.

const killHeights = 16

func init() { vk.Children["c14-writer"] = killChild }

func killOp(seed int64, round, i int) (Op, BlockSpec) {
	rng := rand.New(rand.NewSource(seed*1_000_003 + int64(round)*7_919 + int64(i)*104_729 + 1))
	switch p := rng.Intn(100); {
	case p < 82:
		h := uint64(1 + rng.Intn(killHeights))
		sp := BlockSpec{Height: h, Salt: rng.Int63(), NTx: rng.Intn(4), SigMode: rng.Intn(2)}
		if rng.Intn(12) == 0 {
			sp.Big = []int{70 << 10, 256<<10 + 1, 300 << 10, 1<<20 + 4096}[rng.Intn(4)]
		}
		return Op{K: "save_diff", H: h}, sp
	case p < 88:
		return Op{K: "setheight", H: uint64(round*1_000_000 + i)}, BlockSpec{}
	case p < 94:
		return Op{K: "state", St: rng.Int63()}, BlockSpec{}
	default:
		v := make([]byte, 8)
		rng.Read(v)
		return Op{K: "setmeta", Key: []string{"d", "l", "last-submitted-header-height", "rhb/3/h"}[rng.Intn(4)], Val: v}, BlockSpec{}
	}
}

func killChild(args []string) int {
	world.Silence()
	if len(args) != 4 {
		return 2
	}
	dir, journal := args[0], args[1]
	seed, _ := strconv.ParseInt(args[2], 10, 64)
	round, _ := strconv.Atoi(args[3])
	jf, err := os.OpenFile(journal, os.O_CREATE|os.O_WRONLY|os.O_APPEND, 0o644)
	if err != nil {
		return 2
	}
	kvs, err := store.NewDefaultKVStore(dir, "db", "c14")
	if err != nil {
		fmt.Fprintf(jf, "X open %v\n", err)
		return 3
	}
	st := store.New(kvs)
	ctx := context.Background()
	_, _ = jf.WriteString("R\n")
	// blocks are built ahead by another goroutine so that this one spends its time inside store calls
	type prepared struct {
		op   Op
		pool []*Blk
		err  error
	}
	ahead := make(chan prepared, 1024)
	go func() {
		for i := 0; i < 500_000; i++ {
			op, sp := killOp(seed, round, i)
			p := prepared{op: op}
			if isSave(op.K) {
				b, err := materialise(sp)
				p.pool, p.err = []*Blk{b}, err
			}
			ahead <- p
		}
		close(ahead)
	}()
	i := 0
	for p := range ahead {
		if p.err != nil {
			fmt.Fprintf(jf, "X materialise %v\n", p.err)
			return 3
		}
		_, _ = jf.WriteString("B " + strconv.Itoa(i) + "\n") // named before it is done
		if err := doWrite(ctx, st, p.op, p.pool); err != nil {
			fmt.Fprintf(jf, "X %d %v\n", i, err)
			return 3
		}
		_, _ = jf.WriteString("E " + strconv.Itoa(i) + "\n")
		i++
	}
	select {} // wait for the kill
}

type journalState struct {
	ready    bool
	done     int // operations 0..done-1 returned
	inflight int // -1: none
	fault    string
}

func readJournal(path string) journalState {
	js := journalState{inflight: -1}
	f, err := os.Open(path)
	if err != nil {
		return js
	}
	defer f.Close()
	sc := bufio.NewScanner(f)
	for sc.Scan() {
		line := sc.Text()
		switch {
		case line == "R":
			js.ready = true
		case strings.HasPrefix(line, "B "):
			if n, err := strconv.Atoi(line[2:]); err == nil {
				js.inflight = n
			}
		case strings.HasPrefix(line, "E "):
			if n, err := strconv.Atoi(line[2:]); err == nil {
				js.done = n + 1
				js.inflight = -1
			}
		case strings.HasPrefix(line, "X "):
			js.fault = line
		}
	}
	return js
}

type killDir struct {
	id       int
	dir      string
	seed     int64
	model    *Model
	attempts map[uint64]map[string]*Blk // height -> header-bytes hash -> block
}

func (kd *killDir) note(op Op, b *Blk) {
	if kd.attempts[op.H] == nil {
		kd.attempts[op.H] = map[string]*Blk{}
	}
	kd.attempts[op.H][string(b.Hash)] = b
}

// killRound runs one child on the directory, kills it, reopens and checks.
func killRound(r *vk.Run, kd *killDir, round int, early bool, delay time.Duration) {
	journal := filepath.Join(kd.dir, fmt.Sprintf("journal-%d.txt", round))
	cmd := exec.Command(vk.SelfExe(), "child", "c14-writer", kd.dir, journal, strconv.FormatInt(kd.seed, 10), strconv.Itoa(round))
	forkMu.Lock()
	err := cmd.Start()
	forkMu.Unlock()
	if err != nil {
		r.Inconclusive("kill: cannot start child: " + err.Error())
		return
	}
	if !early {
		// wait until the child has opened the database (watchdog: inconclusive)
		dl := time.Now().Add(60 * time.Second)
		for !readJournal(journal).ready {
			if time.Now().After(dl) {
				_ = cmd.Process.Kill()
				_ = cmd.Wait()
				r.Inconclusive(fmt.Sprintf("kill dir %d round %d: child never became ready", kd.id, round))
				return
			}
			time.Sleep(2 * time.Millisecond)
		}
	}
	time.Sleep(delay)
	_ = cmd.Process.Signal(syscall.SIGKILL)
	_ = cmd.Wait()
	r.Count("kills", 1)
	js := readJournal(journal)
	if js.fault != "" {
		if strings.Contains(js.fault, "Cannot acquire directory lock") {
			r.Inconclusive(fmt.Sprintf("kill dir %d round %d: %s", kd.id, round, js.fault))
			return
		}
		r.Violation("kill-reopen", fmt.Sprintf("kill dir %d round %d: the writer failed on a database that survived %d kills: %s", kd.id, round, round, js.fault),
			map[string]any{"seed": kd.seed, "round": round, "journal": js})
		return
	}
	r.Count("kill_ops_completed", int64(js.done))
	if js.inflight >= 0 {
		r.Count("kills_with_operation_in_flight", 1)
	}
	if !js.ready {
		r.Count("kills_before_database_open_finished", 1)
	}
	// bring the model to "all operations that returned", remember every block ever attempted
	var inflightOp *Op
	var inflightBlk *Blk
	last := js.done
	if js.inflight >= 0 {
		last = js.inflight + 1
	}
	for i := 0; i < last; i++ {
		op, sp := killOp(kd.seed, round, i)
		var pool []*Blk
		if isSave(op.K) {
			b, err := materialise(sp)
			if err != nil {
				r.Inconclusive("kill: materialise: " + err.Error())
				return
			}
			pool = []*Blk{b}
			kd.note(op, b)
		}
		if i < js.done {
			kd.model.apply(op, pool)
		} else {
			o := op
			inflightOp = &o
			if pool != nil {
				inflightBlk = pool[0]
			}
		}
	}
	// reopen in the parent
	kvs, err := store.NewDefaultKVStore(kd.dir, "db", "c14")
	if err != nil && strings.Contains(err.Error(), "while opening fid") && strings.Contains(err.Error(), "Create a new file") {
		// Badger v4.5.1 removes a flushed write-ahead file by truncate(0) + remove; a kill between the
		// two leaves a zero-length NNNNN.mem on which the next Open fails once (it re-extends the file,
		// the following Open succeeds; the contents had been flushed). Counted, retried once; the
		// records are then judged as after any other kill.
		r.Count("kill_first_open_failed_on_zero_length_wal", 1)
		kvs, err = store.NewDefaultKVStore(kd.dir, "db", "c14")
	}
	if err != nil {
		r.Violation("kill-reopen", fmt.Sprintf("kill dir %d round %d: database does not open after the kill: %v", kd.id, round, err),
			map[string]any{"seed": kd.seed, "round": round, "journal": js})
		return
	}
	defer func() { _ = closeDS(kvs) }()
	st := store.New(kvs)
	ctx := context.Background()
	var probs []string
	matches := true
	for h := uint64(1); h <= killHeights; h++ {
		hdr, errH := st.GetHeader(ctx, h)
		_, data, errD := st.GetBlockData(ctx, h)
		sig, errS := st.GetSignature(ctx, h)
		_, modelHas := kd.model.Hdr[h]
		if errH != nil && errD != nil && errS != nil {
			if len(kd.attempts[h]) > 0 {
				r.Hit("kill-none-of-four")
			}
			if modelHas {
				r.Count("kill_acknowledged_save_missing", 1)
				matches = false
			}
			continue
		}
		r.Hit("kill-all-four-consistent")
		if errH != nil || errD != nil || errS != nil {
			probs = append(probs, fmt.Sprintf("height %d is torn: header err=%v, data err=%v, signature err=%v", h, errH, errD, errS))
			continue
		}
		hb, _ := hdr.MarshalBinary()
		x := kd.attempts[h][string(hdr.Hash())]
		if x == nil || !bytes.Equal(x.HdrBin, hb) {
			probs = append(probs, fmt.Sprintf("height %d holds a header (hash %s) that no operation of the journal wrote there", h, short(hdr.Hash())))
			continue
		}
		db, _ := data.MarshalBinary()
		if !bytes.Equal(db, x.DatBin) || !bytes.Equal(*sig, x.Sig) {
			probs = append(probs, fmt.Sprintf("height %d mixes records of different saves: header of save %s, data match=%v, signature match=%v", h, short(x.Hash), bytes.Equal(db, x.DatBin), bytes.Equal(*sig, x.Sig)))
			continue
		}
		h2, d2, errI := st.GetBlockByHash(ctx, x.Hash)
		s2, errI2 := st.GetSignatureByHash(ctx, x.Hash)
		if errI != nil || errI2 != nil {
			probs = append(probs, fmt.Sprintf("height %d: header, data and signature of save %s are there but its index record is not (by-hash lookups: %v / %v)", h, short(x.Hash), errI, errI2))
			continue
		}
		hb2, _ := h2.MarshalBinary()
		db2, _ := d2.MarshalBinary()
		if !bytes.Equal(hb2, hb) || !bytes.Equal(db2, db) || !bytes.Equal(*s2, *sig) {
			probs = append(probs, fmt.Sprintf("height %d: lookup by hash %s returns other records than lookup by height", h, short(x.Hash)))
			continue
		}
		// evidence only: is it the block the journal says is the latest?
		isLatest := modelHas && bytes.Equal(kd.model.Hdr[h], hb)
		isInflight := inflightOp != nil && inflightBlk != nil && inflightOp.H == h && bytes.Equal(inflightBlk.HdrBin, hb)
		switch {
		case isInflight:
			r.Count("kill_inflight_save_fully_present", 1)
		case isLatest:
		default:
			r.Count("kill_height_holds_older_save", 1)
			matches = false
		}
	}
	if inflightOp != nil && isSave(inflightOp.K) {
		r.Hit("kill-during-save")
		if _, had := kd.model.Hdr[inflightOp.H]; had {
			r.Hit("kill-during-overwrite")
		}
	}
	if hh, err := st.Height(ctx); err != nil {
		probs = append(probs, "Height() fails after the kill: "+err.Error())
	} else if hh != kd.model.Height && !(inflightOp != nil && inflightOp.K == "setheight" && hh == inflightOp.H) {
		matches = false
	}
	if matches {
		r.Count("kill_rounds_state_equals_journal", 1)
	}
	// if the operation in flight did land, the model must follow for the next round
	if inflightOp != nil {
		landed := false
		switch {
		case isSave(inflightOp.K):
			if hdr, err := st.GetHeader(ctx, inflightOp.H); err == nil {
				hb, _ := hdr.MarshalBinary()
				landed = bytes.Equal(hb, inflightBlk.HdrBin)
			}
			if landed {
				kd.model.apply(*inflightOp, []*Blk{inflightBlk})
			}
		case inflightOp.K == "setheight":
			if hh, err := st.Height(ctx); err == nil && hh == inflightOp.H {
				kd.model.apply(*inflightOp, nil)
			}
		}
	}
	if len(probs) > 0 {
		w := map[string]any{"seed": kd.seed, "round": round, "journal": js, "kill_delay_ms": delay.Milliseconds(), "killed_before_ready": early}
		if inflightOp != nil {
			w["operation_in_flight"] = *inflightOp
			if inflightBlk != nil {
				w["in_flight_header_hash"] = hex.EncodeToString(inflightBlk.Hash)
			}
		}
		r.Violation("kill-all-or-nothing", fmt.Sprintf("kill dir %d round %d (seed %d, %d ops returned): %s", kd.id, round, kd.seed, js.done, strings.Join(trim(probs, 5), " ;; ")), w)
	}
}

// runKills is the process-kill phase: quick 12 kills, thorough 200.
func runKills(r *vk.Run, base string) {
	dirs, rounds := r.N(3, 40), r.N(4, 5)
	rng := r.Rand("kills")
	type plan struct {
		seed   int64
		early  []bool
		delays []time.Duration
	}
	plans := make([]plan, dirs)
	for i := range plans {
		p := plan{seed: rng.Int63n(1 << 40)}
		for k := 0; k < rounds; k++ {
			early := k > 0 && rng.Intn(6) == 0 // only on an existing database: creation of a new one is Badger's business
			d := time.Duration(rng.Intn(200_000)) * time.Microsecond
			if early {
				d = time.Duration(rng.Intn(80_000)) * time.Microsecond
			}
			p.early, p.delays = append(p.early, early), append(p.delays, d)
		}
		plans[i] = p
	}
	if !r.Quick() {
		r.Require("kill-all-four-consistent", int64(dirs*rounds))
		r.Require("kill-during-save", int64(dirs*rounds/10))
	}
	var wg sync.WaitGroup
	sem := make(chan struct{}, 8)
	for i, p := range plans {
		wg.Add(1)
		sem <- struct{}{}
		go func(i int, p plan) {
			defer wg.Done()
			defer func() { <-sem }()
			kd := &killDir{id: i, dir: filepath.Join(base, fmt.Sprintf("kill%d", i)), seed: p.seed, model: newModel(), attempts: map[uint64]map[string]*Blk{}}
			_ = os.MkdirAll(kd.dir, 0o755)
			defer os.RemoveAll(kd.dir)
			for k := 0; k < rounds; k++ {
				if r.Violations() > 0 {
					return
				}
				killRound(r, kd, k, p.early[k], p.delays[k])
			}
		}(i, p)
	}
	wg.Wait()
}
