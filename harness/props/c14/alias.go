package c14

// What the store returns, and what it was given, are values: the caller may go on using (and changing) the objects it
// passed to a save - the node signs a header it has already saved once - and the objects a read returned, and neither
// may change what a later read returns. Every save therefore hands the store private copies and overwrites them right
// after the call; every object a read returned is overwritten once it has been judged.

import (
	"bytes"

	"github.com/evstack/ev-node/types"
)

func cloneSignedHeader(h *types.SignedHeader) *types.SignedHeader {
	if h == nil {
		return nil
	}
	c := *h
	c.LastHeaderHash = bytes.Clone(h.LastHeaderHash)
	c.LastCommitHash = bytes.Clone(h.LastCommitHash)
	c.DataHash = bytes.Clone(h.DataHash)
	c.ConsensusHash = bytes.Clone(h.ConsensusHash)
	c.AppHash = bytes.Clone(h.AppHash)
	c.LastResultsHash = bytes.Clone(h.LastResultsHash)
	c.ValidatorHash = bytes.Clone(h.ValidatorHash)
	c.ProposerAddress = bytes.Clone(h.ProposerAddress)
	c.Signature = bytes.Clone(h.Signature)
	c.Signer.Address = bytes.Clone(h.Signer.Address)
	return &c
}

func cloneData(d *types.Data) *types.Data {
	if d == nil {
		return nil
	}
	c := &types.Data{}
	if d.Metadata != nil {
		m := *d.Metadata
		m.LastDataHash = bytes.Clone(d.Metadata.LastDataHash)
		c.Metadata = &m
	}
	if d.Txs != nil {
		c.Txs = make(types.Txs, len(d.Txs))
		for i, tx := range d.Txs {
			c.Txs[i] = bytes.Clone(tx)
		}
	}
	return c
}

func flip(b []byte) {
	for i := range b {
		b[i] ^= 0xA5
	}
}

func scribbleSignedHeader(h *types.SignedHeader) {
	if h == nil {
		return
	}
	for _, b := range [][]byte{h.LastHeaderHash, h.LastCommitHash, h.DataHash, h.ConsensusHash, h.AppHash, h.LastResultsHash, h.ValidatorHash, h.ProposerAddress, h.Signature, h.Signer.Address} {
		flip(b)
	}
	// (height and chain id stay: a store that keeps the object would most likely look it up by them)
	h.BaseHeader.Time++
	h.Version.App++
}

func scribbleData(d *types.Data) {
	if d == nil {
		return
	}
	for _, tx := range d.Txs {
		flip(tx)
	}
	if len(d.Txs) > 0 {
		d.Txs[0] = []byte("overwritten-by-the-caller")
	}
	if d.Metadata != nil {
		flip(d.Metadata.LastDataHash)
		d.Metadata.Time++
	}
}

func scribbleSignature(s *types.Signature) {
	if s != nil {
		flip(*s)
	}
}
