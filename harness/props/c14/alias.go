package c14

// What the store returns, and what it was given, are values: the caller may go on using (and changing) the objects it
// passed to a save - the node signs a header it has already saved once - and the objects a read returned, and neither
// may change what a later read returns. Every save therefore hands the store private copies and overwrites them right
// after the call; every object a read returned is overwritten once it has been judged.
//
// Metadata and state values come out of buffers the caller keeps (callerBufs): "var buf [8]byte; PutUint64(buf[:], h);
// SetMetadata(key, buf[:])" in a loop is how a height is usually written. Successive values of one key therefore share
// a backing array whose contents the caller changes between the calls - and scribbles on right after each call - and
// a store that remembers the slice it was given instead of its contents compares the next value with itself.

import (
	"bytes"

	"github.com/evstack/ev-node/types"
)

func cloneSignedHeader(h *types.SignedHeader) *types.SignedHeader {
	if h == nil {
		return nil
	}
	c := *h
	c.LastHeaderHash = bytes.Clone(h.LastHeaderHash)
	c.LastCommitHash = bytes.Clone(h.LastCommitHash)
	c.DataHash = bytes.Clone(h.DataHash)
	c.ConsensusHash = bytes.Clone(h.ConsensusHash)
	c.AppHash = bytes.Clone(h.AppHash)
	c.LastResultsHash = bytes.Clone(h.LastResultsHash)
	c.ValidatorHash = bytes.Clone(h.ValidatorHash)
	c.ProposerAddress = bytes.Clone(h.ProposerAddress)
	c.Signature = bytes.Clone(h.Signature)
	c.Signer.Address = bytes.Clone(h.Signer.Address)
	return &c
}

func cloneData(d *types.Data) *types.Data {
	if d == nil {
		return nil
	}
	c := &types.Data{}
	if d.Metadata != nil {
		m := *d.Metadata
		m.LastDataHash = bytes.Clone(d.Metadata.LastDataHash)
		c.Metadata = &m
	}
	if d.Txs != nil {
		c.Txs = make(types.Txs, len(d.Txs))
		for i, tx := range d.Txs {
			c.Txs[i] = bytes.Clone(tx)
		}
	}
	return c
}

func flip(b []byte) {
	for i := range b {
		b[i] ^= 0xA5
	}
}

func scribbleSignedHeader(h *types.SignedHeader) {
	if h == nil {
		return
	}
	for _, b := range [][]byte{h.LastHeaderHash, h.LastCommitHash, h.DataHash, h.ConsensusHash, h.AppHash, h.LastResultsHash, h.ValidatorHash, h.ProposerAddress, h.Signature, h.Signer.Address} {
		flip(b)
	}
	// (height and chain id stay: a store that keeps the object would most likely look it up by them)
	h.BaseHeader.Time++
	h.Version.App++
}

func scribbleData(d *types.Data) {
	if d == nil {
		return
	}
	for _, tx := range d.Txs {
		flip(tx)
	}
	if len(d.Txs) > 0 {
		d.Txs[0] = []byte("overwritten-by-the-caller")
	}
	if d.Metadata != nil {
		flip(d.Metadata.LastDataHash)
		d.Metadata.Time++
	}
}

func scribbleSignature(s *types.Signature) {
	if s != nil {
		flip(*s)
	}
}

// callerBufs are the buffers one caller (one run of a sequence, across reopens) encodes metadata and state values
// into: one per metadata key, one per byte-string field of the state. Values above maxReusedValue are handed over as
// they are (they are built once per sequence and shared by its replays).
type callerBufs struct {
	meta            map[string][]byte
	appHash, lastRH []byte
	// reused counts the SetMetadata calls whose value had the length of, and other contents than, the previous one of the key
	reused int64
	last   map[string][]byte
}

const maxReusedValue = 4096

func newCallerBufs() *callerBufs {
	return &callerBufs{meta: map[string][]byte{}, last: map[string][]byte{}}
}

// into copies v into the buffer *buf (grown like append grows a slice: a new, larger array when it does not fit) and
// returns the window holding it. nil stays nil.
func into(buf *[]byte, v []byte) []byte {
	if v == nil {
		return nil
	}
	if cap(*buf) < len(v) {
		*buf = make([]byte, 2*len(v)+8)
	}
	out := (*buf)[:len(v)]
	copy(out, v)
	return out
}

// metaValue returns the value of a setmeta operation the way a caller with one buffer per key would hand it over.
func (c *callerBufs) metaValue(key string, v []byte) []byte {
	if c == nil || len(v) > maxReusedValue {
		return v
	}
	if prev, ok := c.last[key]; ok && len(prev) == len(v) && !bytes.Equal(prev, v) {
		c.reused++
	}
	c.last[key] = v
	b := c.meta[key]
	out := into(&b, v)
	c.meta[key] = b
	return out
}

// stateValue does the same for the byte-string fields of a state.
func (c *callerBufs) stateValue(st types.State) types.State {
	if c == nil {
		return st
	}
	if len(st.AppHash) <= maxReusedValue {
		st.AppHash = into(&c.appHash, st.AppHash)
	}
	if len(st.LastResultsHash) <= maxReusedValue {
		st.LastResultsHash = into(&c.lastRH, st.LastResultsHash)
	}
	return st
}

// scribble overwrites what the caller's buffers hold (after a call returned).
func (c *callerBufs) scribble(key string) {
	if c == nil {
		return
	}
	if key != "" {
		flip(c.meta[key][:cap(c.meta[key])])
		return
	}
	flip(c.appHash[:cap(c.appHash)])
	flip(c.lastRH[:cap(c.lastRH)])
}
