package c14

// A read that overlaps a write. The node reads and writes the store from several goroutines (block production, the
// sync loop, the pending trackers, the RPC server), so the operations of a history need not come one after the other.
// What the statement promises about such a history is what it promises about the sequential one it is equivalent to:
// once both calls have returned, every read returns what the write stored. A store that keeps anything in memory
// between its datastore accesses (a cache filled by readers, an index, a mirror of the height) has to get exactly this
// right, and no sequential history shows whether it does.
//
// The overlap is made, not waited for: the datastore handed to the store is wrapped, and when the read under way has
// just got a value out of it - before the store sees the value - the write runs to completion on another goroutine.
// The read then carries on with what it fetched before the write. Its own result is not judged (before or after the
// write: both are right); everything read after it is. Every write of a sequence gets such a read of the record it is
// about to replace: GetHeader / GetBlockData / GetSignature / GetBlockByHash for a save, GetState, GetMetadata, Height.
//
// A store that serialises its calls (a lock held across the datastore access) keeps the write waiting; the probe then
// lets the read finish first, which is just another legal history, and stops trying (counted).

import (
	"context"
	"fmt"
	"sync"
	"sync/atomic"
	"time"

	ds "github.com/ipfs/go-datastore"

	"github.com/evstack/ev-node/pkg/store"

	"verifharness/vk"
	"verifharness/world"
)

// hookDS calls an armed function once, right after a Get/Has/GetSize of the wrapped datastore returned and before
// the caller sees the result.
type hookDS struct {
	ds.Batching
	mu    sync.Mutex
	skip  int
	armed func()
}

func (d *hookDS) arm(skip int, f func()) {
	d.mu.Lock()
	d.skip, d.armed = skip, f
	d.mu.Unlock()
}

// disarm reports whether the function was still waiting to be called.
func (d *hookDS) disarm() bool {
	d.mu.Lock()
	defer d.mu.Unlock()
	was := d.armed != nil
	d.armed = nil
	return was
}

func (d *hookDS) fire() {
	d.mu.Lock()
	f := d.armed
	if f != nil {
		if d.skip > 0 {
			d.skip--
			f = nil
		} else {
			d.armed = nil
		}
	}
	d.mu.Unlock()
	if f != nil {
		f()
	}
}

func (d *hookDS) Get(ctx context.Context, key ds.Key) ([]byte, error) {
	v, err := d.Batching.Get(ctx, key)
	d.fire()
	return v, err
}

func (d *hookDS) Has(ctx context.Context, key ds.Key) (bool, error) {
	v, err := d.Batching.Has(ctx, key)
	d.fire()
	return v, err
}

func (d *hookDS) GetSize(ctx context.Context, key ds.Key) (int, error) {
	v, err := d.Batching.GetSize(ctx, key)
	d.fire()
	return v, err
}

// storesSerialise is set once a write started inside a read did not finish while the read was held up: the store
// does not let the two overlap, and holding every read up for the grace period would only cost time.
var storesSerialise atomic.Bool

// readFor returns the read of the record the write is about to replace; n varies the kind of read.
func readFor(op Op, m *Model, mt *Mat, n int) Op {
	switch op.K {
	case "save_new", "save_same", "save_diff":
		switch n % 4 {
		case 0:
			return Op{K: "getheader", H: op.H}
		case 1:
			return Op{K: "getblock", H: op.H}
		case 2:
			return Op{K: "getsig", H: op.H}
		}
		if hx, ok := m.HashAt[op.H]; ok {
			for i, b := range mt.Pool {
				if fmt.Sprintf("%x", b.Hash) == hx {
					return Op{K: "getbyhash", Blk: i}
				}
			}
		}
		return Op{K: "getheader", H: op.H}
	case "state":
		return Op{K: "getstate"}
	case "setmeta":
		return Op{K: "getmeta", Key: op.Key}
	}
	return Op{K: "height"}
}

// rawRead performs a read and drops the result.
func rawRead(ctx context.Context, st store.Store, op Op, mt *Mat) {
	switch op.K {
	case "getblock":
		_, _, _ = st.GetBlockData(ctx, op.H)
	case "getheader":
		_, _ = st.GetHeader(ctx, op.H)
	case "getsig":
		_, _ = st.GetSignature(ctx, op.H)
	case "getbyhash":
		_, _, _ = st.GetBlockByHash(ctx, mt.Pool[op.Blk].Hash)
	case "getstate":
		_, _ = st.GetState(ctx)
	case "getmeta":
		_, _ = st.GetMetadata(ctx, op.Key)
	case "height":
		_, _ = st.Height(ctx)
	}
}

// runOverlap runs the sequence on the in-memory datastore with every write started inside a read of the record it
// replaces, and judges every later read against the model.
func runOverlap(r *vk.Run, s Sequence, mt *Mat, heights []uint64, keys []string) []string {
	ctx := context.Background()
	im := world.NewImage()
	hd := &hookDS{Batching: world.NewMemDS(im)}
	st := store.New(hd)
	m := newModel()
	cb := newCallerBufs()
	// (returned headers are compared byte for byte with headers the harness signed: no need to verify them again)
	ck := &checker{ctx: ctx, st: st, m: m, hit: func(string) {}, count: func(string, int64) {}, noVerify: true}
	nw := s.ID // varies the kind of read and the datastore access the write is started behind
	for i, op := range s.Ops {
		if op.K == "reopen" {
			hd = &hookDS{Batching: world.NewMemDS(im)}
			st = store.New(hd)
			ck.st = st
			continue
		}
		ck.where = fmt.Sprintf("op %d %s: ", i, op.K)
		if !writeKinds[op.K] {
			ck.read(op, mt)
			continue
		}
		nw++
		rd := readFor(op, m, mt, nw)
		var werr error
		done := make(chan struct{})
		started := false
		write := func() {
			defer close(done)
			werr = doWrite(ctx, st, op, mt, cb)
		}
		if storesSerialise.Load() {
			rawRead(ctx, st, rd, mt)
		} else {
			hd.arm((nw/4)%2, func() {
				started = true
				go write()
				select {
				case <-done:
				case <-time.After(2 * time.Second):
					if !storesSerialise.Swap(true) {
						r.Count("overlap_store_serialises_reads_and_writes", 1)
					}
				}
			})
			rawRead(ctx, st, rd, mt)
			hd.disarm()
		}
		if started {
			<-done
			r.Count("overlap_write_ran_inside_"+rd.K, 1)
		} else {
			// the read made fewer datastore accesses than that (or none: served from memory): one after the other
			write()
			r.Count("overlap_read_finished_before_the_write_could_start", 1)
		}
		if werr != nil {
			if !m.mayRefuse(op, mt) {
				ck.fail("write-ok", "%s (started inside %s) failed on a healthy datastore: %v", describeOp(op), rd.K, werr)
				break
			}
		} else {
			m.apply(op, mt)
		}
		// what the write stored (or, refused, left alone) is what every read returns from now on
		ck.where = fmt.Sprintf("after op %d, %s, ran to completion while a %s of the same record was between its datastore access and its return: ", i, describeOp(op), rd.K)
		n := len(ck.probs)
		ck.read(rd, mt)
		if isSave(op.K) {
			ck.read(Op{K: "getheader", H: op.H}, mt)
			ck.read(Op{K: "getblock", H: op.H}, mt)
			ck.read(Op{K: "getsig", H: op.H}, mt)
			ck.read(Op{K: "getbyhash", Blk: op.Blk}, mt)
		}
		if len(ck.probs) > n {
			break
		}
		if started {
			r.Hit("read-overlapping-a-write")
		}
	}
	if len(ck.probs) == 0 {
		ck.where = "at the end of the history with overlapping reads: "
		ck.all(heights, mt, keys)
	}
	return ck.probs
}
