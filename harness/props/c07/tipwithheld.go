package c07

// The tip is incomplete for good: its header is known (it came over P2P, early), its data never arrives and is not on
// the DA layer. Everything below the tip is on the DA layer, so the node must report tip-1 - by its own wake-ups.
// The block below the tip is seen on the DA layer BEFORE it is applied (its execution is held while the inclusion
// check runs and finds the chain too low), so the pass that applies it is the only thing left that can wake the check,
// and that pass ends where the tip's data is missing - not where a header is missing, as passes at a complete tip do.

import (
	"context"
	"fmt"
	"os"
	"sync/atomic"
	"time"

	"verifharness/vk"
	"verifharness/world"
)

func runFullTipWithheld(r *vk.Run, keys world.Keys, id int) {
	ctx := context.Background()
	n := 3 + id%3
	spec := world.ChainSpec{Initial: []uint64{1, 3}[id%2]}
	for b := 0; b < n; b++ {
		if b < n-2 && (b+id)%3 == 0 {
			spec.Blocks = append(spec.Blocks, nil)
		} else {
			spec.Blocks = append(spec.Blocks, [][]byte{[]byte(fmt.Sprintf("c07tw-%d-%d", id, b))})
		}
	}
	p, err := world.ProduceChain(ctx, spec, keys)
	if err != nil {
		r.Inconclusive("the aggregator producing the reference chain failed (not this property's business): " + err.Error())
		return
	}
	root := world.TempDir(vk.Root(), "C07-tw-*")
	defer os.RemoveAll(root)
	f, err := world.NewFNPrepared(ctx, p, root, func(f *world.FN) {})
	if err != nil {
		r.Violation("startup", err.Error(), map[string]any{"tip_withheld_case": id})
		return
	}
	defer func() { f.L.Stop() }()
	wit := map[string]any{"tip_withheld_case": id, "blocks": n, "initial_height": spec.Initial}
	tip := len(p.Heights) - 1
	fail := func(step string, err error) {
		if err == world.ErrWatchdog {
			r.Inconclusive("watchdog (tip-withheld case) at: " + step)
			return
		}
		r.Violation("eventually-included", fmt.Sprintf("tip-withheld case: %s failed: %v", step, err), wit)
	}
	if err := f.Do(world.Action{Kind: "ch-h", I: tip}); err != nil {
		fail("delivering the tip's header", err)
		return
	}
	items := func(i int) []world.Item {
		it := []world.Item{{I: i}}
		if len(p.Txs[i]) > 0 {
			it = append(it, world.Item{D: true, I: i})
		}
		return it
	}
	for i := 0; i < tip-1; i++ {
		if err := f.Do(world.Action{Kind: "da", DA: items(i)}); err != nil {
			fail(fmt.Sprintf("DA delivery of block %d", p.Heights[i]), err)
			return
		}
	}
	getD := func() uint64 { return f.N.M.GetDAIncludedHeight() }
	// (the double's hold applies to every call of the execution layer: inclusion of the blocks so far has to be over)
	if below := p.Heights[tip-1] - 1; !waitD(getD, below) {
		r.Inconclusive(fmt.Sprintf("tip-withheld case: the blocks up to %d did not become DA-included before the scenario proper (judged by the ordinary cases)", below))
		return
	}
	// block tip-1: seen on the DA layer while its execution is held (the hold is a gate in front of the execution call)
	var hold atomic.Bool
	entered, release := make(chan struct{}, 1), make(chan struct{})
	released := false
	free := func() {
		if !released {
			released = true
			close(release)
		}
	}
	defer free()
	prevDelay := f.Exec.Delay
	f.Exec.Delay = func(kind string) {
		if kind == "exec" && hold.CompareAndSwap(true, false) {
			entered <- struct{}{}
			<-release
		}
		if prevDelay != nil {
			prevDelay(kind)
		}
	}
	hold.Store(true)
	dh := f.DA.Height() + 1
	f.DA.Place(dh, p.HeaderBlob[tip-1], p.DataBlob[tip-1])
	f.DA.SetHeight(dh)
	if err := f.L.RetrieveUntilIdle(f.DA, dh+1); err != nil {
		fail("scanning the DA height of the block below the tip", err)
		return
	}
	select {
	case <-entered:
	case <-time.After(20 * time.Second):
		r.Inconclusive("tip-withheld case: the execution of the block below the tip never started")
		return
	}
	// the inclusion check runs now (the DA sighting asked for it): the chain is still one block short
	if err := f.L.SignalBarrier("daIncluder", "daIncluder"); err != nil {
		fail("inclusion pass before the block is applied", err)
		return
	}
	free()
	if err := f.L.SyncBarrier(); err != nil {
		fail("applying the block below the tip", err)
		return
	}
	want := p.Heights[tip-1]
	if h, _ := f.N.Store.Height(ctx); h != want {
		r.Inconclusive(fmt.Sprintf("tip-withheld case: chain height %d, expected %d (not this scenario's business)", h, want))
		return
	}
	r.Hit("self-wakeup-below-an-incomplete-tip")
	// generous: the inclusion loop only has to be scheduled once; on a machine under heavy load that can take a while, and
	// a late pass is not a missing wake-up
	reached := waitD(getD, want)
	for i := 0; i < 5 && !reached; i++ {
		reached = waitD(getD, want)
	}
	if reached {
		r.Eval(fmt.Sprintf("tip-withheld %d", id), true, wit)
		return
	}
	for i := 0; i < 3; i++ {
		if err := f.Do(world.Action{Kind: "include"}); err != nil {
			fail("external inclusion tick", err)
			return
		}
	}
	if getD() == want {
		r.Violation("eventually-included", fmt.Sprintf("header and data of every block up to %d are on the DA layer and were seen there, block %d has been applied (the tip %d stays incomplete: its header is known, its data never came), yet the DA-included height reached %d only after the inclusion check was woken from outside: the pass that applied the block did not wake it", want, want, p.Tip(), want), wit)
	} else {
		r.Violation("eventually-included", fmt.Sprintf("header and data of every block up to %d are on the DA layer and were seen there, block %d has been applied, three inclusion passes ran, but the DA-included height is %d", want, want, getD()), wit)
	}
}

// runFullApplyWindow holds a full node in the middle of applying a block - at the first instant at which the block can
// be read from the store while the chain height is still the one below (whatever writes the store makes, in whatever
// order; a store in which that instant never exists is fine and counted) - and lets the inclusion check run there. Both
// parts of the block are on the DA layer and were seen, so the only thing between the check and a DA-included height
// above the chain height is the check's own comparison with the chain height.
func runFullApplyWindow(r *vk.Run, keys world.Keys, id int) {
	ctx := context.Background()
	n := 3 + id%3
	spec := world.ChainSpec{Initial: []uint64{1, 4}[id%2]}
	for b := 0; b < n; b++ {
		if (b+id)%4 == 1 {
			spec.Blocks = append(spec.Blocks, nil)
		} else {
			spec.Blocks = append(spec.Blocks, [][]byte{[]byte(fmt.Sprintf("c07aw-%d-%d", id, b))})
		}
	}
	p, err := world.ProduceChain(ctx, spec, keys)
	if err != nil {
		r.Inconclusive("the aggregator producing the reference chain failed (not this property's business): " + err.Error())
		return
	}
	root := world.TempDir(vk.Root(), "C07-aw-*")
	defer os.RemoveAll(root)
	f, err := world.NewFNPrepared(ctx, p, root, func(f *world.FN) {})
	if err != nil {
		r.Violation("startup", err.Error(), map[string]any{"apply_window_case": id})
		return
	}
	defer func() { f.L.Stop() }()
	wit := map[string]any{"apply_window_case": id, "blocks": n, "initial_height": spec.Initial}
	items := func(i int) []world.Item {
		it := []world.Item{{I: i}}
		if len(p.Txs[i]) > 0 {
			it = append(it, world.Item{D: true, I: i})
		}
		return it
	}
	k := len(p.Heights) - 1 // the block applied under observation
	for i := 0; i < k; i++ {
		if err := f.Do(world.Action{Kind: "da", DA: items(i)}); err != nil {
			if err == world.ErrWatchdog {
				r.Inconclusive("watchdog (apply-window case)")
			} else {
				r.Violation("eventually-included", fmt.Sprintf("apply-window case: DA delivery of block %d failed: %v", p.Heights[i], err), wit)
			}
			return
		}
	}
	getD := func() uint64 { return f.N.M.GetDAIncludedHeight() }
	target := p.Heights[k]
	if !waitD(getD, target-1) {
		r.Inconclusive("apply-window case: the blocks below the observed one did not become DA-included (judged by the ordinary cases)")
		return
	}
	var armed atomic.Bool
	entered, release := make(chan struct{}, 1), make(chan struct{})
	released := false
	free := func() {
		if !released {
			released = true
			close(release)
		}
	}
	defer free()
	var finalInWindow atomic.Uint64
	inWindow := atomic.Bool{}
	prevFinal := f.Exec.OnFinal
	f.Exec.OnFinal = func(h uint64) {
		if inWindow.Load() && h >= target {
			finalInWindow.Store(h)
		}
		if prevFinal != nil {
			prevFinal(h)
		}
	}
	chain(f.N.DS, func(world.WriteRec) {
		if !armed.Load() {
			return
		}
		h, _ := f.N.Store.Height(ctx)
		if h != target-1 {
			return
		}
		if _, _, err := f.N.Store.GetBlockData(ctx, target); err != nil {
			return
		}
		if armed.CompareAndSwap(true, false) {
			entered <- struct{}{}
			<-release
		}
	})
	armed.Store(true)
	dh := f.DA.Height() + 1
	blobs := [][]byte{p.HeaderBlob[k]}
	if p.DataBlob[k] != nil {
		blobs = append(blobs, p.DataBlob[k])
	}
	f.DA.Place(dh, blobs...)
	f.DA.SetHeight(dh)
	if err := f.L.RetrieveUntilIdle(f.DA, dh+1); err != nil {
		r.Inconclusive("apply-window case: scanning the DA height of the observed block: " + err.Error())
		return
	}
	select {
	case <-entered:
	case <-time.After(10 * time.Second):
		armed.Store(false)
		// the block never was readable below its own height: the store writes make no such window
		r.Count("apply_window_never_open", 1)
		free()
		_ = f.L.SyncBarrier()
		return
	}
	inWindow.Store(true)
	r.Hit("inclusion-check-inside-the-application-of-a-block")
	err = f.L.SignalBarrier("daIncluder", "daIncluder")
	d, hNow := getD(), uint64(0)
	hNow, _ = f.N.Store.Height(ctx)
	fin := finalInWindow.Load()
	inWindow.Store(false)
	free()
	if err != nil {
		if err == world.ErrWatchdog {
			r.Inconclusive("watchdog (apply-window case, inclusion pass)")
			return
		}
		r.Violation("below-chain-height", fmt.Sprintf("apply-window case: the inclusion pass inside the application of block %d failed: %v", target, err), wit)
		return
	}
	if d > hNow || fin != 0 {
		r.Violation("below-chain-height", fmt.Sprintf("while block %d was being applied (readable from the store, chain height still %d) the inclusion check ran: the DA-included height became %d (chain height %d), SetFinal was called for height %d: the DA-included height exceeds the chain height and a block is finalized before it is committed", target, target-1, d, hNow, fin), wit)
		return
	}
	if err := f.L.SyncBarrier(); err != nil {
		r.Inconclusive("apply-window case: " + err.Error())
		return
	}
	r.Eval(fmt.Sprintf("apply-window %d", id), true, wit)
}
