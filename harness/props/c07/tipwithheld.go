package c07

// The tip is incomplete for good: its header is known (it came over P2P, early), its data never arrives and is not on
// the DA layer. Everything below the tip is on the DA layer, so the node must report tip-1 - by its own wake-ups.
// The block below the tip is seen on the DA layer BEFORE it is applied (its execution is held while the inclusion
// check runs and finds the chain too low), so the pass that applies it is the only thing left that can wake the check,
// and that pass ends where the tip's data is missing - not where a header is missing, as passes at a complete tip do.

import (
	"context"
	"fmt"
	"os"
	"sync/atomic"
	"time"

	"verifharness/vk"
	"verifharness/world"
)

func runFullTipWithheld(r *vk.Run, keys world.Keys, id int) {
	ctx := context.Background()
	n := 3 + id%3
	spec := world.ChainSpec{Initial: []uint64{1, 3}[id%2]}
	for b := 0; b < n; b++ {
		if b < n-2 && (b+id)%3 == 0 {
			spec.Blocks = append(spec.Blocks, nil)
		} else {
			spec.Blocks = append(spec.Blocks, [][]byte{[]byte(fmt.Sprintf("c07tw-%d-%d", id, b))})
		}
	}
	p, err := world.ProduceChain(ctx, spec, keys)
	if err != nil {
		r.Inconclusive("the aggregator producing the reference chain failed (not this property's business): " + err.Error())
		return
	}
	root := world.TempDir(vk.Root(), "C07-tw-*")
	defer os.RemoveAll(root)
	f, err := world.NewFNPrepared(ctx, p, root, func(f *world.FN) {})
	if err != nil {
		r.Violation("startup", err.Error(), map[string]any{"tip_withheld_case": id})
		return
	}
	defer func() { f.L.Stop() }()
	wit := map[string]any{"tip_withheld_case": id, "blocks": n, "initial_height": spec.Initial}
	tip := len(p.Heights) - 1
	fail := func(step string, err error) {
		if err == world.ErrWatchdog {
			r.Inconclusive("watchdog (tip-withheld case) at: " + step)
			return
		}
		r.Violation("eventually-included", fmt.Sprintf("tip-withheld case: %s failed: %v", step, err), wit)
	}
	if err := f.Do(world.Action{Kind: "ch-h", I: tip}); err != nil {
		fail("delivering the tip's header", err)
		return
	}
	items := func(i int) []world.Item {
		it := []world.Item{{I: i}}
		if len(p.Txs[i]) > 0 {
			it = append(it, world.Item{D: true, I: i})
		}
		return it
	}
	for i := 0; i < tip-1; i++ {
		if err := f.Do(world.Action{Kind: "da", DA: items(i)}); err != nil {
			fail(fmt.Sprintf("DA delivery of block %d", p.Heights[i]), err)
			return
		}
	}
	getD := func() uint64 { return f.N.M.GetDAIncludedHeight() }
	// (the double's hold applies to every call of the execution layer: inclusion of the blocks so far has to be over)
	if below := p.Heights[tip-1] - 1; !waitD(getD, below) {
		r.Inconclusive(fmt.Sprintf("tip-withheld case: the blocks up to %d did not become DA-included before the scenario proper (judged by the ordinary cases)", below))
		return
	}
	// block tip-1: seen on the DA layer while its execution is held (the hold is a gate in front of the execution call)
	var hold atomic.Bool
	entered, release := make(chan struct{}, 1), make(chan struct{})
	released := false
	free := func() {
		if !released {
			released = true
			close(release)
		}
	}
	defer free()
	prevDelay := f.Exec.Delay
	f.Exec.Delay = func(kind string) {
		if kind == "exec" && hold.CompareAndSwap(true, false) {
			entered <- struct{}{}
			<-release
		}
		if prevDelay != nil {
			prevDelay(kind)
		}
	}
	hold.Store(true)
	dh := f.DA.Height() + 1
	f.DA.Place(dh, p.HeaderBlob[tip-1], p.DataBlob[tip-1])
	f.DA.SetHeight(dh)
	if err := f.L.RetrieveUntilIdle(f.DA, dh+1); err != nil {
		fail("scanning the DA height of the block below the tip", err)
		return
	}
	select {
	case <-entered:
	case <-time.After(20 * time.Second):
		r.Inconclusive("tip-withheld case: the execution of the block below the tip never started")
		return
	}
	// the inclusion check runs now (the DA sighting asked for it): the chain is still one block short
	if err := f.L.SignalBarrier("daIncluder", "daIncluder"); err != nil {
		fail("inclusion pass before the block is applied", err)
		return
	}
	free()
	if err := f.L.SyncBarrier(); err != nil {
		fail("applying the block below the tip", err)
		return
	}
	want := p.Heights[tip-1]
	if h, _ := f.N.Store.Height(ctx); h != want {
		r.Inconclusive(fmt.Sprintf("tip-withheld case: chain height %d, expected %d (not this scenario's business)", h, want))
		return
	}
	r.Hit("self-wakeup-below-an-incomplete-tip")
	// generous: the inclusion loop only has to be scheduled once; on a machine under heavy load that can take a while, and
	// a late pass is not a missing wake-up
	reached := waitD(getD, want)
	for i := 0; i < 5 && !reached; i++ {
		reached = waitD(getD, want)
	}
	if reached {
		r.Eval(fmt.Sprintf("tip-withheld %d", id), true, wit)
		return
	}
	for i := 0; i < 3; i++ {
		if err := f.Do(world.Action{Kind: "include"}); err != nil {
			fail("external inclusion tick", err)
			return
		}
	}
	if getD() == want {
		r.Violation("eventually-included", fmt.Sprintf("header and data of every block up to %d are on the DA layer and were seen there, block %d has been applied (the tip %d stays incomplete: its header is known, its data never came), yet the DA-included height reached %d only after the inclusion check was woken from outside: the pass that applied the block did not wake it", want, want, p.Tip(), want), wit)
	} else {
		r.Violation("eventually-included", fmt.Sprintf("header and data of every block up to %d are on the DA layer and were seen there, block %d has been applied, three inclusion passes ran, but the DA-included height is %d", want, want, getD()), wit)
	}
}
