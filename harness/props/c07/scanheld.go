package c07

// The DA scan is held INSIDE the signature check of the tip's header (the chain signs over a payload of its own, so the
// node calls the harness's payload provider inside every signature check) while the very same block reaches the node
// over P2P (or the hand-off channels) and is applied. The pass of the inclusion check that the application asks for
// finds the header not yet marked as seen on the DA layer; the only thing left that can wake the check afterwards is
// the scan itself, when it finally records the sighting. Both orders a step-driven harness produces on its own (blob
// seen first, then block applied; block applied first, then blob seen) are covered by the ordinary cases: this is the
// third one, in which the two overlap. The tip stays the tip (an idle chain), so nothing else heals a missing wake-up.

import (
	"context"
	"fmt"
	"os"
	"sync/atomic"
	"time"

	"github.com/evstack/ev-node/types"

	"verifharness/vk"
	"verifharness/world"
)

func runFullScanHeld(r *vk.Run, keys world.Keys, id int) {
	ctx := context.Background()
	n := 3 + id%3
	spec := world.ChainSpec{Initial: []uint64{1, 6}[id%2], CustomPayload: true}
	tipEmpty := id%4 == 3
	for b := 0; b < n; b++ {
		if (b == n-1 && tipEmpty) || (b < n-1 && (b+id)%3 == 1) {
			spec.Blocks = append(spec.Blocks, nil)
		} else {
			spec.Blocks = append(spec.Blocks, [][]byte{[]byte(fmt.Sprintf("c07sh-%d-%d", id, b))})
		}
	}
	p, err := world.ProduceChain(ctx, spec, keys)
	if err != nil {
		r.Inconclusive("the aggregator producing the reference chain failed (not this property's business): " + err.Error())
		return
	}
	root := world.TempDir(vk.Root(), "C07-sh-*")
	defer os.RemoveAll(root)
	k := len(p.Heights) - 1
	target := p.Heights[k]
	var armed atomic.Bool
	entered, release := make(chan struct{}, 1), make(chan struct{})
	released := false
	free := func() {
		if !released {
			released = true
			close(release)
		}
	}
	defer free()
	f, err := world.NewFNPrepared(ctx, p, root, func(f *world.FN) {
		f.PayloadHook = func(h *types.Header) {
			if h.Height() == target && armed.CompareAndSwap(true, false) {
				entered <- struct{}{}
				<-release
			}
		}
	})
	if err != nil {
		r.Violation("startup", err.Error(), map[string]any{"scan_held_case": id})
		return
	}
	defer func() { free(); f.L.Stop() }()
	via := []string{"p2p", "channel"}[(id/2)%2]
	dataFirst := id%3 == 0
	wit := map[string]any{"scan_held_case": id, "blocks": n, "initial_height": spec.Initial, "tip_empty": tipEmpty, "block_arrives_via": via, "data_blob_before_header_blob": dataFirst}
	fail := func(step string, err error) {
		if err == world.ErrWatchdog {
			r.Inconclusive("watchdog (scan-held case) at: " + step)
			return
		}
		r.Violation("eventually-included", fmt.Sprintf("scan-held case: %s failed: %v", step, err), wit)
	}
	items := func(i int) []world.Item {
		it := []world.Item{{I: i}}
		if len(p.Txs[i]) > 0 {
			it = append(it, world.Item{D: true, I: i})
		}
		return it
	}
	for i := 0; i < k; i++ {
		if err := f.Do(world.Action{Kind: "da", DA: items(i)}); err != nil {
			fail(fmt.Sprintf("DA delivery of block %d", p.Heights[i]), err)
			return
		}
	}
	getD := func() uint64 { return f.N.M.GetDAIncludedHeight() }
	if !waitD(getD, target-1) {
		r.Inconclusive(fmt.Sprintf("scan-held case: the blocks up to %d did not become DA-included before the scenario proper (judged by the ordinary cases)", target-1))
		return
	}
	// the tip's blobs reach the DA layer; the scan starts on them and is held inside the signature check of the header
	blobs := [][]byte{p.HeaderBlob[k]}
	if p.DataBlob[k] != nil {
		if dataFirst {
			blobs = [][]byte{p.DataBlob[k], p.HeaderBlob[k]}
		} else {
			blobs = append(blobs, p.DataBlob[k])
		}
	}
	dh := f.DA.Height() + 1
	f.DA.Place(dh, blobs...)
	f.DA.SetHeight(dh)
	armed.Store(true)
	scanDone := make(chan error, 1)
	go func() { scanDone <- f.L.RetrieveUntilIdle(f.DA, dh+1) }()
	select {
	case <-entered:
	case err := <-scanDone:
		armed.Store(false)
		// the scan went through the DA height without a signature check on the tip's header: nothing to overlap with
		r.Count("scan_held_never_entered", 1)
		if err != nil && err != world.ErrWatchdog {
			fail("scanning the DA height of the tip", err)
		}
		return
	case <-time.After(20 * time.Second):
		armed.Store(false)
		r.Inconclusive("scan-held case: the scan never reached the signature check of the tip's header")
		return
	}
	// the same block arrives by the other road and is applied while the scan is held
	if via == "p2p" {
		if err := f.Do(world.Action{Kind: "p2p-h", I: k}); err != nil {
			fail("P2P delivery of the headers", err)
			return
		}
		if err := f.Do(world.Action{Kind: "p2p-d", I: k}); err != nil {
			fail("P2P delivery of the data", err)
			return
		}
	} else {
		if err := f.Do(world.Action{Kind: "ch-h", I: k}); err != nil {
			fail("delivering the tip's header", err)
			return
		}
		if len(p.Txs[k]) > 0 {
			if err := f.Do(world.Action{Kind: "ch-d", I: k}); err != nil {
				fail("delivering the tip's data", err)
				return
			}
		}
	}
	if h, _ := f.N.Store.Height(ctx); h != target {
		r.Inconclusive(fmt.Sprintf("scan-held case: chain height %d after the tip arrived, expected %d (not this scenario's business)", h, target))
		return
	}
	// the inclusion check the application asked for has run to its end (extra ticks cannot hide anything here: the
	// sighting is not recorded yet)
	if err := f.L.SignalBarrier("daIncluder", "daIncluder"); err != nil {
		fail("inclusion pass while the scan is held", err)
		return
	}
	if d := getD(); d >= target {
		// a node that takes the sighting before the signature check completes, or the P2P arrival as enough: not this
		// scenario's business (soundness is judged against the DA double by the ordinary cases - the blobs ARE there)
		r.Count("scan_held_included_before_release", 1)
		r.Eval(fmt.Sprintf("scan-held %d", id), true, wit)
		return
	}
	r.Hit("sighting-recorded-after-the-block-was-applied-meanwhile")
	free()
	select {
	case err := <-scanDone:
		if err != nil {
			fail("finishing the scan of the tip's DA height", err)
			return
		}
	case <-time.After(world.Watchdog + 5*time.Second):
		r.Inconclusive("scan-held case: the scan did not finish after the release")
		return
	}
	reached := waitD(getD, target)
	for i := 0; i < 5 && !reached; i++ {
		reached = waitD(getD, target)
	}
	if reached {
		r.Eval(fmt.Sprintf("scan-held %d", id), true, wit)
		return
	}
	for i := 0; i < 3; i++ {
		if err := f.Do(world.Action{Kind: "include"}); err != nil {
			fail("external inclusion tick", err)
			return
		}
	}
	if getD() == target {
		r.Violation("eventually-included", fmt.Sprintf("block %d (the tip) was applied (it arrived via %s) while the DA scan was inside the signature check of its header blob; the scan then recorded header and data as seen on the DA layer, so both parts of every block up to %d are on the DA layer and known to be - yet the DA-included height reached %d only after the inclusion check was woken from outside: neither the application (too early: the sighting was not recorded) nor the scan (after recording it) woke the check", target, via, target, target), wit)
	} else {
		r.Violation("eventually-included", fmt.Sprintf("block %d (the tip) was applied (it arrived via %s) while the DA scan was inside the signature check of its header blob; the scan finished, three inclusion passes ran, but the DA-included height is %d", target, via, getD()), wit)
	}
}

// runFullStateAheadWindow holds a full node in the middle of applying the tip - right before the first durable write it
// makes at an instant at which the persisted state already names the block while the chain height is still the one below
// (whatever writes the store makes, in whatever order; a node in which that instant never exists is fine and counted) - and
// lets the inclusion check run to its end there: it must find the chain too low. Both parts of the block are on the DA layer
// and were seen before the application began, so after the release the only thing that can bring the DA-included height to
// the tip is a wake-up the node sends once the new height is visible.
func runFullStateAheadWindow(r *vk.Run, keys world.Keys, id int) {
	ctx := context.Background()
	n := 3 + id%3
	spec := world.ChainSpec{Initial: []uint64{1, 4}[id%2]}
	for b := 0; b < n; b++ {
		if (b+id)%4 == 2 {
			spec.Blocks = append(spec.Blocks, nil)
		} else {
			spec.Blocks = append(spec.Blocks, [][]byte{[]byte(fmt.Sprintf("c07sa-%d-%d", id, b))})
		}
	}
	p, err := world.ProduceChain(ctx, spec, keys)
	if err != nil {
		r.Inconclusive("the aggregator producing the reference chain failed (not this property's business): " + err.Error())
		return
	}
	root := world.TempDir(vk.Root(), "C07-sa-*")
	defer os.RemoveAll(root)
	f, err := world.NewFNPrepared(ctx, p, root, func(f *world.FN) {})
	if err != nil {
		r.Violation("startup", err.Error(), map[string]any{"state_ahead_case": id})
		return
	}
	defer func() { f.L.Stop() }()
	wit := map[string]any{"state_ahead_case": id, "blocks": n, "initial_height": spec.Initial}
	items := func(i int) []world.Item {
		it := []world.Item{{I: i}}
		if len(p.Txs[i]) > 0 {
			it = append(it, world.Item{D: true, I: i})
		}
		return it
	}
	k := len(p.Heights) - 1
	for i := 0; i < k; i++ {
		if err := f.Do(world.Action{Kind: "da", DA: items(i)}); err != nil {
			if err == world.ErrWatchdog {
				r.Inconclusive("watchdog (state-ahead case)")
			} else {
				r.Violation("eventually-included", fmt.Sprintf("state-ahead case: DA delivery of block %d failed: %v", p.Heights[i], err), wit)
			}
			return
		}
	}
	getD := func() uint64 { return f.N.M.GetDAIncludedHeight() }
	target := p.Heights[k]
	if !waitD(getD, target-1) {
		r.Inconclusive("state-ahead case: the blocks below the observed one did not become DA-included (judged by the ordinary cases)")
		return
	}
	var armed atomic.Bool
	entered, release := make(chan struct{}, 1), make(chan struct{})
	released := false
	free := func() {
		if !released {
			released = true
			close(release)
		}
	}
	defer free()
	f.N.DS.BeforeWrite = func([]string) {
		if !armed.Load() {
			return
		}
		if h, _ := f.N.Store.Height(ctx); h != target-1 {
			return
		}
		st, err := f.N.Store.GetState(ctx)
		if err != nil || st.LastBlockHeight != target {
			return
		}
		if armed.CompareAndSwap(true, false) {
			entered <- struct{}{}
			<-release
		}
	}
	armed.Store(true)
	dh := f.DA.Height() + 1
	blobs := [][]byte{p.HeaderBlob[k]}
	if p.DataBlob[k] != nil {
		blobs = append(blobs, p.DataBlob[k])
	}
	f.DA.Place(dh, blobs...)
	f.DA.SetHeight(dh)
	if err := f.L.RetrieveUntilIdle(f.DA, dh+1); err != nil {
		armed.Store(false)
		r.Inconclusive("state-ahead case: scanning the DA height of the observed block: " + err.Error())
		return
	}
	select {
	case <-entered:
	case <-time.After(5 * time.Second):
		armed.Store(false)
		// no write is made while the state is ahead of the chain height: this node has no such instant
		r.Count("state_ahead_window_never_open", 1)
		free()
		_ = f.L.SyncBarrier()
		return
	}
	r.Hit("inclusion-check-between-state-write-and-height-write")
	err = f.L.SignalBarrier("daIncluder", "daIncluder")
	d := getD()
	hNow, _ := f.N.Store.Height(ctx)
	free()
	if err != nil {
		if err == world.ErrWatchdog {
			r.Inconclusive("watchdog (state-ahead case, inclusion pass)")
			return
		}
		r.Violation("below-chain-height", fmt.Sprintf("state-ahead case: the inclusion pass inside the application of block %d failed: %v", target, err), wit)
		return
	}
	if d > hNow {
		r.Violation("below-chain-height", fmt.Sprintf("while block %d was being applied (state written, chain height still %d) the inclusion check ran: the DA-included height became %d (chain height %d)", target, target-1, d, hNow), wit)
		return
	}
	if err := f.L.SyncBarrier(); err != nil {
		r.Inconclusive("state-ahead case: " + err.Error())
		return
	}
	if h, _ := f.N.Store.Height(ctx); h != target {
		r.Inconclusive(fmt.Sprintf("state-ahead case: chain height %d after the release, expected %d (not this scenario's business)", h, target))
		return
	}
	reached := waitD(getD, target)
	for i := 0; i < 5 && !reached; i++ {
		reached = waitD(getD, target)
	}
	if reached {
		r.Eval(fmt.Sprintf("state-ahead %d", id), true, wit)
		return
	}
	for i := 0; i < 3; i++ {
		if err := f.Do(world.Action{Kind: "include"}); err != nil {
			r.Inconclusive("state-ahead case: external inclusion tick: " + err.Error())
			return
		}
	}
	if getD() == target {
		r.Violation("eventually-included", fmt.Sprintf("header and data of block %d (the tip) were seen on the DA layer before the block was applied; an inclusion check ran to its end while the application stood between its state write and its height write (chain height %d: too low); after the application finished the DA-included height reached %d only when the check was woken from outside: the node's own wake-up came before the new height was visible, none after", target, target-1, target), wit)
	} else {
		r.Violation("eventually-included", fmt.Sprintf("header and data of every block up to %d are on the DA layer and were seen there, block %d has been applied, three inclusion passes ran, but the DA-included height is %d", target, target, getD()), wit)
	}
}
