// Package c07 decides C07: the DA-included (final) height is sound, monotone, durable and eventually reached.
package c07

import (
	"context"
	"encoding/binary"
	"fmt"
	"math/rand"
	"os"
	"strings"
	"sync"
	"sync/atomic"
	"time"

	"github.com/evstack/ev-node/pkg/store"

	"verifharness/vk"
	"verifharness/world"
)

// Level is the verification level claimed for this property.
const Level = "exploration"

// Case is one generated schedule.
type Case struct {
	ID      int      `json:"id"`
	Node    string   `json:"node"` // aggregator | fullnode
	Initial uint64   `json:"initial_height"`
	Repeat  bool     `json:"repeated_tx_lists"`
	Actions []string `json:"actions"`
	// DBPath: the node's configured db_path; "" = the default. The property quantifies over clean restarts of any node, so
	// also of one whose database (and whatever it keeps next to it) does not live under the default directory.
	DBPath string `json:"db_path,omitempty"`
}

func (c Case) key() string {
	k := fmt.Sprintf("%s i%d r%v %s", c.Node, c.Initial, c.Repeat, strings.Join(c.Actions, " "))
	if c.DBPath != "" {
		k += " db_path=" + c.DBPath
	}
	return k
}

// dbPathFor spreads non-default db_path settings over the generated cases (two in five) without touching the random
// stream the schedules are drawn from.
func dbPathFor(id int) string {
	switch id % 5 {
	case 1:
		return "custom-db"
	case 3:
		return "a/b"
	}
	return ""
}

func (c Case) cleanRestartHit(r *vk.Run) {
	r.Hit("clean-restart")
	if c.DBPath != "" {
		r.Hit("clean-restart-with-custom-db-path")
	}
}

const keyD = "/m/d"

func readU64(im *world.Image, key string) (uint64, bool) {
	raw, ok := im.Get(key)
	if !ok || len(raw) != 8 {
		return 0, false
	}
	return binary.LittleEndian.Uint64(raw), true
}

// daIndex scans the DA double: which block heights have a header / data blob, and at which DA heights.
type daIndex struct {
	hdr, data map[uint64][]uint64 // block height -> DA heights holding a genuine blob for it
}

func indexDA(da *world.DADouble, upTo uint64) daIndex {
	ix := daIndex{map[uint64][]uint64{}, map[uint64][]uint64{}}
	for dh, blobs := range da.AllBlobs() {
		if upTo > 0 && dh > upTo {
			continue
		}
		for _, b := range blobs {
			if h, isData, ok := world.DecodeBlobHeight(b); ok {
				if isData {
					ix.data[h] = append(ix.data[h], dh)
				} else {
					ix.hdr[h] = append(ix.hdr[h], dh)
				}
			}
		}
	}
	return ix
}

func contains(xs []uint64, x uint64) bool {
	for _, v := range xs {
		if v == x {
			return true
		}
	}
	return false
}

// obs is the shared monitor state of one node across its processes.
type obs struct {
	r             *vk.Run
	lastPersisted uint64 // largest DA-included height seen in a persist write
	// starting: a Manager is being constructed right now (it may record the height it starts from: not a new inclusion)
	starting      atomic.Bool
	viol          []string
	mu            sync.Mutex
	lastD         uint64 // highest DA-included height ever observed (also across restarts)
	finals        []uint64
	getD          func() uint64
	im            *world.Image
	crashes       int
	finalsAtCrash map[int]bool // index into finals at which a crash happened (a repeat is allowed right after)
}

func (o *obs) bad(f string, a ...any) {
	o.mu.Lock()
	if len(o.viol) < 8 {
		o.viol = append(o.viol, fmt.Sprintf(f, a...))
	}
	o.mu.Unlock()
}

// recordedDA reads the DA height the node recorded for a part of block h, through the store's own metadata API and the
// repository's key constant. ok=false: nothing readable is recorded.
func recordedDA(ctx context.Context, st store.Store, h uint64, part string) (uint64, bool) {
	raw, err := st.GetMetadata(ctx, fmt.Sprintf("%s/%d/%s", store.RollkitHeightToDAHeightKey, h, part))
	if err != nil || len(raw) != 8 {
		return 0, false
	}
	return binary.LittleEndian.Uint64(raw), true
}

// recorded judges what the node recorded for DA-included block h (d = reported DA-included height): a recorded height
// must be one at which the blob really is. A missing record says nothing by itself, but a block without a record below
// one that has a record lost it.
func (o *obs) recorded(ctx context.Context, st store.Store, h, d uint64, hasData bool, ix daIndex) {
	o.r.Hit("recorded-da-heights")
	hh, ok1 := recordedDA(ctx, st, h, "h")
	dd, ok2 := recordedDA(ctx, st, h, "d")
	if ok1 && !contains(ix.hdr[h], hh) {
		o.bad("recorded header DA height %d of block %d holds no header blob of that block (blobs are at %v)", hh, h, ix.hdr[h])
	}
	if ok2 && hasData && !contains(ix.data[h], dd) {
		o.bad("recorded data DA height %d of block %d holds no data blob of that block (blobs are at %v)", dd, h, ix.data[h])
	}
	if !ok1 || (hasData && !ok2) {
		o.r.Count("da_included_blocks_without_recorded_da_height", 1)
		for g := h + 1; g <= d; g++ {
			if _, ok := recordedDA(ctx, st, g, "h"); ok {
				o.bad("block %d is DA-included but its DA heights are not recorded, although those of block %d are", h, g)
				return
			}
		}
	}
}

// onFinal runs at the start of every SetFinal(h): the height must be the next one, must not be persisted or reported yet.
func (o *obs) onFinal(h uint64) {
	o.r.Hit("finalize-before-report")
	d := o.getD()
	if h != d+1 {
		o.bad("SetFinal(%d) while the reported DA-included height is %d (must finalize exactly the next height)", h, d)
	}
	if p, ok := readU64(o.im, keyD); ok && p >= h {
		o.bad("SetFinal(%d) called after the DA-included height %d was already persisted", h, p)
	}
	o.mu.Lock()
	n := len(o.finals)
	if n > 0 {
		last := o.finals[n-1]
		switch {
		case h == last+1:
		case h == last && o.finalsAtCrash[n]:
			// the process died between SetFinal and the persist step: finalizing again is the only option
		default:
			o.viol = append(o.viol, fmt.Sprintf("SetFinal sequence not consecutive: %d after %v", h, o.finals))
		}
	}
	o.finals = append(o.finals, h)
	o.mu.Unlock()
}

// onWrite runs after every durable write of the node.
func (o *obs) onWrite(rec world.WriteRec) {
	for i, k := range rec.Keys {
		if k != keyD {
			continue
		}
		var b [8]byte
		fmt.Sscanf(rec.Vals[i], "%02x%02x%02x%02x%02x%02x%02x%02x", &b[0], &b[1], &b[2], &b[3], &b[4], &b[5], &b[6], &b[7])
		v := binary.LittleEndian.Uint64(b[:])
		o.mu.Lock()
		if o.starting.Load() {
			// a node that is starting records where it starts from: it must not be below what was durable before
			if v < o.lastPersisted {
				o.viol = append(o.viol, fmt.Sprintf("at start-up the persisted DA-included height was overwritten with %d; %d was durable before: it went down", v, o.lastPersisted))
			} else {
				o.lastPersisted = v
			}
			o.mu.Unlock()
			continue
		}
		if v <= o.lastPersisted {
			o.mu.Unlock()
			continue // re-writing a value that is durable already changes nothing
		}
		o.lastPersisted = v
		fin := len(o.finals) > 0 && o.finals[len(o.finals)-1] == v
		o.mu.Unlock()
		o.r.Hit("persist-after-finalize")
		if !fin {
			o.bad("DA-included height %d persisted without a preceding SetFinal(%d)", v, v)
		}
		if d := o.getD(); d >= v {
			o.bad("DA-included height %d was reported before it was persisted", v)
		}
	}
}

// observe samples the reported height: monotone, one step at a time is checked through the persist log.
func (o *obs) observe(chainHeight uint64) uint64 {
	d := o.getD()
	o.r.Hit("monotone")
	if d < o.lastD {
		o.bad("DA-included height went down: %d after %d", d, o.lastD)
	}
	o.lastD = d
	o.r.Hit("below-chain-height")
	if d > chainHeight {
		o.bad("DA-included height %d exceeds the chain height %d", d, chainHeight)
	}
	return d
}

// ---------------------------------------------------------------- aggregator

type agg struct {
	c          Case
	ctx        context.Context
	im         *world.Image
	exec       *world.ExecDouble
	seq        *world.SeqDouble
	da         *world.DADouble
	keys       world.Keys
	n          *world.Node
	l          *world.Loops
	o          *obs
	root       string
	t          time.Time
	k          int
	logs       [][]world.WriteRec
	gapAtCrash bool // a crash happened while accepted heights were not yet included
	held       bool // action S stopped the inclusion loop; the next X/Y action starts it again
	curM       atomic.Pointer[world.Node]
}

func (a *agg) start() error {
	dsp := world.NewMemDS(a.im)
	dsp.OnWrite = a.o.onWrite
	a.o.starting.Store(true)
	n, err := world.NewNode(a.ctx, world.NodeOpts{Aggregator: true, InitialHeight: a.c.Initial, RootDir: a.root, DBPath: a.c.DBPath}, a.keys, dsp, a.exec, a.seq, a.da, nil)
	a.o.starting.Store(false)
	if err != nil {
		return err
	}
	a.n = n
	a.curM.Store(n)
	a.held = false
	// what a node reports the moment it is constructed (before any of its loops runs) is what it took over from the
	// previous process: it must not be below anything reported before (reported <= persisted at every instant)
	a.o.r.Hit("monotone-at-start")
	if d := n.M.GetDAIncludedHeight(); d < a.o.lastD {
		a.o.bad("DA-included height went down across a restart: %d had been reported, the restarted node starts from %d", a.o.lastD, d)
	}
	a.l = world.StartLoops(a.ctx, n, "daIncluder")
	return nil
}

// resume starts the inclusion loop again after action S.
func (a *agg) resume() {
	if a.held {
		a.held = false
		a.l = world.StartLoops(a.ctx, a.n, "daIncluder")
	}
}

func (a *agg) height() uint64 { h, _ := a.n.Store.Height(a.ctx); return h }

func (a *agg) soundness(d uint64) {
	ix := indexDA(a.da, 0)
	for h := a.c.Initial; h <= d; h++ {
		a.o.r.Hit("sound")
		if len(ix.hdr[h]) == 0 {
			a.o.bad("DA-included height is %d but the DA layer never accepted the header of block %d", d, h)
			return
		}
		_, data, err := a.n.Store.GetBlockData(a.ctx, h)
		if err != nil {
			a.o.bad("DA-included height %d but block %d is not in the store", d, h)
			return
		}
		if len(data.Txs) > 0 && len(ix.data[h]) == 0 {
			a.o.bad("DA-included height is %d but the DA layer never accepted the data of non-empty block %d", d, h)
			return
		}
		// recorded DA heights
		a.o.recorded(a.ctx, a.n.Store, h, d, len(data.Txs) > 0, ix)
	}
}

func (a *agg) do(act string) error {
	switch {
	case act == "P" || act == "Pe":
		a.t = a.t.Add(time.Second)
		a.k++
		if act == "Pe" {
			a.seq.Push(world.SeqResp{Kind: world.SeqEmpty, Time: a.t})
		} else {
			tx := fmt.Sprintf("c07-%d-%d", a.c.ID, a.k)
			if a.c.Repeat {
				tx = fmt.Sprintf("rep-%d", a.k%2)
			}
			a.seq.Push(world.SeqResp{Kind: world.SeqTxs, Time: a.t, Txs: [][]byte{[]byte(tx)}})
		}
		return a.n.M.VerifPublishBlock(a.ctx)
	case strings.HasPrefix(act, "H"), strings.HasPrefix(act, "D"):
		if o := act[1:]; o != "" {
			kinds := map[string]world.SubmitOutcome{"p": {Kind: "prefix", Prefix: 1}, "x": {Kind: "error"}, "l": {Kind: "acklost"}, "t": {Kind: "timeout"}}
			a.da.ScriptSubmit(kinds[o])
			if o != "p" {
				// the retry inside the submission helper would succeed at once; keep failing for this iteration
				for i := 0; i < 40; i++ {
					a.da.ScriptSubmit(kinds[o])
				}
			}
		}
		if act[0] == 'H' {
			_ = a.n.M.VerifSubmitHeadersOnce(a.ctx)
		} else {
			_ = a.n.M.VerifSubmitDataOnce(a.ctx)
		}
		a.da.ClearSubmitScript()
		return nil
	case act == "I":
		return a.l.SignalBarrier("daIncluder", "daIncluder")
	case act == "S":
		// the inclusion loop is held back: what the following H/D actions get accepted stays unlooked-at until the X/Y
		// action after them has armed its fault and lets the loop run again. (Without this the loop, woken by the
		// submission itself, has usually finished the pass before the fault is armed.)
		if err := a.l.Stop(); err != nil {
			return err
		}
		a.held = true
		return nil
	case strings.HasPrefix(act, "X"):
		// the process dies inside an inclusion pass, after k more durable writes
		k := 0
		fmt.Sscanf(act[1:], "%d", &k)
		a.n.DS.CrashAfter(k)
		a.resume()
		_ = a.l.SignalBarrier("daIncluder", "daIncluder") // the loop may die on the failing write
		if a.n.DS.Crashed() {
			a.o.r.Hit("crash-inside-inclusion-pass")
		}
		a.n.DS.CrashNow()
		return a.do("C")
	case strings.HasPrefix(act, "W"):
		// a block is committed INSIDE an inclusion pass: the pass is held right before its k-th durable write (everything it
		// wrote and read so far stands), the aggregator produces a block, the pass goes on. Both sequential orders are what
		// the generated interleavings do; this is the overlap of the two loops of an aggregator.
		k := 1
		fmt.Sscanf(act[1:], "%d", &k)
		var armed atomic.Bool
		var cnt atomic.Int64
		entered, release := make(chan struct{}, 1), make(chan struct{})
		dsp := a.n.DS
		dsp.BeforeWrite = func([]string) {
			if armed.Load() && cnt.Add(1) == int64(k) && armed.CompareAndSwap(true, false) {
				entered <- struct{}{}
				<-release
			}
		}
		armed.Store(true)
		a.resume()
		a.n.M.VerifSignal("daIncluder")
		var perr error
		select {
		case <-entered:
			perr = a.do("P")
			a.o.r.Hit("block-committed-inside-an-inclusion-pass")
		case <-time.After(2 * time.Second):
			// the pass makes fewer than k durable writes
			armed.Store(false)
			a.o.r.Count("inclusion_pass_shorter_than_hold_point", 1)
		}
		close(release)
		err := a.l.SignalBarrier("daIncluder", "daIncluder")
		dsp.BeforeWrite = nil
		if perr != nil {
			return fmt.Errorf("a block produced while an inclusion pass stood before its durable write #%d failed: %w", k, perr)
		}
		return err
	case strings.HasPrefix(act, "Y"):
		// the k-th durable write of an inclusion pass fails and the process survives it; the loop reports the error (the
		// node would shut down), the node is stopped cleanly and started again
		k := 1
		fmt.Sscanf(act[1:], "%d", &k)
		a.n.DS.FailWriteAt(k)
		a.resume()
		_ = a.l.SignalBarrier("daIncluder", "daIncluder")
		a.n.DS.FailWriteAt(0)
		a.o.r.Hit("write-failure-inside-inclusion-pass")
		a.o.mu.Lock()
		a.o.finalsAtCrash[len(a.o.finals)] = true // a finalize whose persist step failed is repeated
		a.o.mu.Unlock()
		return a.do("R")
	case act == "Q":
		// the stop request wins the race against the inclusion check: the loops are stopped, the submissions that were
		// under way are still acknowledged (marks set, nobody left to look at them), the caches are saved, the node restarts
		if err := a.l.Stop(); err != nil {
			return err
		}
		_ = a.n.M.VerifSubmitHeadersOnce(a.ctx)
		_ = a.n.M.VerifSubmitDataOnce(a.ctx)
		a.o.r.Hit("stop-between-acceptance-and-inclusion")
		a.c.cleanRestartHit(a.o.r)
		a.o.observe(a.height())
		a.logs = append(a.logs, a.n.DS.Log())
		if err := a.n.M.SaveCache(); err != nil {
			return fmt.Errorf("SaveCache: %w", err)
		}
		return a.start()
	case act == "R", act == "C":
		if err := a.l.Stop(); err != nil {
			return err
		}
		a.logs = append(a.logs, a.n.DS.Log())
		if act == "R" {
			a.c.cleanRestartHit(a.o.r)
			a.o.observe(a.height()) // the last thing this process reported (see start)
			if err := a.n.M.SaveCache(); err != nil {
				return fmt.Errorf("SaveCache: %w", err)
			}
		} else {
			// crash: whatever was accepted but not yet included loses its in-memory marks
			lh, ld, _, _ := a.n.M.VerifWatermarks()
			d := a.n.M.GetDAIncludedHeight()
			if lh > d || ld > d {
				a.gapAtCrash = true
			}
			// wherever the node keeps its cache snapshots: nothing else lives under its root directory (the database is in memory)
			world.WipeDir(a.root)
			a.o.mu.Lock()
			a.o.finalsAtCrash[len(a.o.finals)] = true
			a.o.mu.Unlock()
		}
		return a.start()
	}
	return fmt.Errorf("unknown action %q", act)
}

func runAgg(r *vk.Run, c Case) {
	ctx := context.Background()
	a := &agg{c: c, ctx: ctx, im: world.NewImage(), exec: world.NewExecDouble(), seq: world.NewSeqDouble(), da: world.NewDADouble(),
		keys: world.NewKeys("proposer"), t: world.GenesisTime, root: world.TempDir(vk.Root(), "C07-*")}
	defer os.RemoveAll(a.root)
	a.o = &obs{r: r, im: a.im, finalsAtCrash: map[int]bool{}}
	a.o.getD = func() uint64 { return a.curM.Load().M.GetDAIncludedHeight() }
	a.exec.OnFinal = a.o.onFinal
	wit := func() any {
		var calls []string
		for _, dc := range a.da.Calls() {
			if dc.Kind == "submit" {
				calls = append(calls, fmt.Sprintf("%d submit daheight=%d blobs=%d stored=%d acked=%d %s", dc.Seq, dc.Height, len(dc.Blobs), dc.Stored, dc.Acked, dc.Outcome))
			}
		}
		return map[string]any{"case": c, "setfinal_log": a.o.finals, "da_submit_calls": calls}
	}
	if err := a.start(); err != nil {
		r.Violation("startup", err.Error(), wit())
		return
	}
	defer func() { a.l.Stop() }()
	_ = a.n.M.VerifPublishBlock(ctx) // genesis block
	actors := map[string]bool{}
	var dMoved uint64
	d0 := a.o.observe(a.height())
	for i, act := range c.Actions {
		if err := a.do(act); err != nil {
			if err == world.ErrWatchdog {
				r.Inconclusive("watchdog")
				return
			}
			a.o.bad("action %d (%s) failed: %v", i, act, err)
			break
		}
		if act != "S" {
			actors[act[:1]] = true
		}
		d := a.o.observe(a.height())
		a.soundness(d)
		dMoved = d - d0
		if len(a.o.viol) > 0 {
			break
		}
	}
	// bounded liveness: faults stop; three rounds of (submit headers, submit data, inclusion pass)
	if len(a.o.viol) == 0 {
		for i := 0; i < 3; i++ {
			for _, act := range []string{"H", "D"} {
				if err := a.do(act); err != nil {
					if err == world.ErrWatchdog {
						r.Inconclusive("watchdog")
						return
					}
					a.o.bad("final round action %s failed: %v", act, err)
				}
			}
		}
		// the node's own wake-ups of the inclusion check must suffice: no external tick here
		selfWoken := false
		if !a.gapAtCrash {
			selfWoken = waitD(func() uint64 { return a.o.getD() }, a.height())
		}
		if !selfWoken && !a.gapAtCrash {
			for i := 0; i < 3; i++ {
				_ = a.do("I")
			}
			if a.o.getD() == a.height() {
				a.o.bad("the DA-included height reached %d only after the inclusion check was woken from outside: nothing in the node wakes it once everything is accepted", a.height())
			}
		}
		r.Hit("self-wakeup")
		d := a.o.observe(a.height())
		a.soundness(d)
		dMoved = d - d0
		r.Hit("eventually-included")
		if tip := a.height(); d != tip && len(a.o.viol) == 0 {
			detail := fmt.Sprintf("every block up to %d is on the DA layer and three inclusion rounds ran, but the DA-included height is %d", tip, d)
			if a.gapAtCrash {
				r.Finding("C07-marks-lost-on-crash", "eventually-included", detail+" (the aggregator crashed while accepted blocks were not yet included; their in-memory marks are gone and it never scans DA)", wit())
			} else {
				a.o.bad("%s", detail)
			}
		}
	}
	if len(a.o.viol) > 0 {
		detail := strings.Join(a.o.viol, " ;; ")
		if c.Repeat && r.IsKnown("C07-commitment-keyed-marks") && (strings.Contains(detail, "never accepted the data") || strings.Contains(detail, "recorded data DA height")) {
			r.Finding("C07-commitment-keyed-marks", "sound", detail, wit())
		} else {
			r.Violation(firstWord(a.o.viol[0]), detail, wit())
		}
	}
	r.Count("setfinal_calls", int64(len(a.o.finals)))
	r.Eval(c.key(), dMoved >= 2 && len(actors) >= 3, c)
}

func firstWord(s string) string {
	switch {
	case strings.Contains(s, "SetFinal"):
		return "finalize-order"
	case strings.Contains(s, "went down"):
		return "monotone"
	case strings.Contains(s, "never accepted"), strings.Contains(s, "not been observed"):
		return "sound"
	case strings.Contains(s, "recorded"):
		return "recorded-da-heights"
	case strings.Contains(s, "but the DA-included height is"):
		return "eventually-included"
	}
	return "da-inclusion"
}

func genAgg(rng *rand.Rand, id int, repeat bool, allowCrash bool) Case {
	c := Case{ID: id, Node: "aggregator", Initial: []uint64{1, 1, 3}[rng.Intn(3)], Repeat: repeat}
	n := 12 + rng.Intn(30)
	for i := 0; i < n; i++ {
		switch p := rng.Intn(100); {
		case p < 25:
			c.Actions = append(c.Actions, "P")
		case p < 37:
			c.Actions = append(c.Actions, "Pe")
		case p < 55:
			c.Actions = append(c.Actions, "H"+[]string{"", "", "", "p", "x", "l", "t"}[rng.Intn(7)])
		case p < 73:
			c.Actions = append(c.Actions, "D"+[]string{"", "", "", "p", "x", "l", "t"}[rng.Intn(7)])
		case p < 92:
			c.Actions = append(c.Actions, "I")
		case p < 95:
			c.Actions = append(c.Actions, "R")
		case p < 97:
			c.Actions = append(c.Actions, "Q")
		default:
			if allowCrash && rng.Intn(3) > 0 {
				c.Actions = append(c.Actions, fmt.Sprintf("X%d", rng.Intn(9)))
			} else if allowCrash {
				c.Actions = append(c.Actions, "C")
			} else {
				c.Actions = append(c.Actions, "R")
			}
		}
	}
	return c
}

// ---------------------------------------------------------------- full node

func runFull(r *vk.Run, p *world.Produced, c Case, acts []world.Action) {
	ctx := context.Background()
	root := world.TempDir(vk.Root(), "C07-*")
	defer os.RemoveAll(root)
	f, err := world.NewFNPrepared(ctx, p, root, func(f *world.FN) { f.DBPath = c.DBPath })
	if err != nil {
		r.Violation("startup", err.Error(), c)
		return
	}
	defer func() { f.L.Stop() }()
	o := &obs{r: r, im: f.Im, finalsAtCrash: map[int]bool{}}
	var cur atomic.Pointer[world.Node]
	cur.Store(f.N)
	// "reported" is what the node running right now reports. A restart action replaces f.N before it starts the new
	// node's loops, and those may finalize at once (the inclusion check runs when its loop starts): the hook at SetFinal
	// must then not look at the node that was stopped (cur is switched only when the action has returned).
	o.getD = func() uint64 { return f.N.M.GetDAIncludedHeight() }
	f.Exec.OnFinal = o.onFinal
	chain(f.N.DS, o.onWrite)
	wit := func() any { return map[string]any{"case": c, "setfinal_log": o.finals} }
	sound := func(d uint64) {
		// observed on DA = at a DA height the scan has passed in the current or an earlier process; the
		// double's current height bounds everything that can have been scanned
		ix := indexDA(f.DA, f.DA.Height())
		for h := p.Spec.Initial; h <= d; h++ {
			r.Hit("sound")
			if len(ix.hdr[h]) == 0 {
				o.bad("DA-included height is %d but the header of block %d has not been observed on the DA layer", d, h)
				return
			}
			if len(p.Txs[p.Idx(h)]) > 0 && len(ix.data[h]) == 0 {
				o.bad("DA-included height is %d but the data of non-empty block %d has not been observed on the DA layer", d, h)
				return
			}
			o.recorded(ctx, cur.Load().Store, h, d, len(p.Txs[p.Idx(h)]) > 0, ix)
		}
	}
	chainH := func() uint64 { h, _ := f.N.Store.Height(ctx); return h }
	actors := map[string]bool{}
	d0 := o.observe(chainH())
	var dMoved uint64
	step := func(a world.Action) bool {
		if a.Kind == "crash-restart" {
			o.mu.Lock()
			o.finalsAtCrash[len(o.finals)] = true
			o.mu.Unlock()
		}
		if err := f.Do(a); err != nil {
			if err == world.ErrWatchdog {
				r.Inconclusive("watchdog")
				return false
			}
			o.bad("action %s failed: %v", a, err)
			return false
		}
		if a.Kind == "restart" || a.NoBarrier {
			c.cleanRestartHit(r)
		}
		if a.Kind == "restart" || a.Kind == "crash-restart" || a.NoBarrier {
			cur.Store(f.N)
			chain(f.N.DS, o.onWrite)
		}
		actors[a.Kind] = true
		d := o.observe(chainH())
		sound(d)
		dMoved = d - d0
		return len(o.viol) == 0
	}
	ok := true
	for _, a := range acts {
		if !step(a) {
			ok = false
			break
		}
	}
	if ok {
		// everything is on DA (the schedule placed every blob): a complete scan and three inclusion passes
		if !step(world.Action{Kind: "scan"}) {
			ok = false
		}
	}
	if ok {
		// the node's own wake-ups of the inclusion check must suffice: no external tick here
		r.Hit("self-wakeup")
		if !waitD(o.getD, p.Tip()) {
			r.Hit("self-wakeup-missing")
			for i := 0; i < 3 && ok; i++ {
				ok = step(world.Action{Kind: "include"})
			}
			if ok && o.getD() == p.Tip() {
				o.bad("the DA-included height reached the tip %d only after the inclusion check was woken from outside: after the last block was applied nothing in the node wakes it", p.Tip())
			}
		}
	}
	if ok {
		r.Hit("eventually-included")
		if d := o.getD(); d != p.Tip() {
			o.bad("all blobs up to %d are on the DA layer and were scanned, three inclusion passes ran, but the DA-included height is %d (chain height %d)", p.Tip(), d, chainH())
		}
	}
	if len(o.viol) > 0 {
		r.Violation(firstWord(o.viol[0]), strings.Join(o.viol, " ;; "), wit())
	}
	r.Count("setfinal_calls", int64(len(o.finals)))
	r.Eval(c.key(), dMoved >= 2 && len(actors) >= 2, c)
}

func genFull(rng *rand.Rand, p *world.Produced, id int) (Case, []world.Action) {
	var items []world.Item
	for i := range p.Heights {
		items = append(items, world.Item{I: i})
		if len(p.Txs[i]) > 0 {
			items = append(items, world.Item{D: true, I: i})
		}
	}
	// one case in three: both blobs of the last block arrive alone at the end and the node is stopped cleanly right
	// when that block has been applied (before the inclusion check ran), then restarted on an idle chain: only the
	// rescan after the restart can wake the inclusion check
	var last []world.Item
	if rng.Intn(3) == 0 {
		k := len(items) - 1
		if items[k].D {
			k--
		}
		last = append(last, items[k:]...)
		items = items[:k]
	}
	rng.Shuffle(len(items), func(a, b int) { items[a], items[b] = items[b], items[a] })
	// mostly near-ordered placement so that inclusion progresses while blobs still arrive
	if rng.Intn(3) > 0 {
		for i := 1; i < len(items); i++ {
			for j := i; j > 0 && items[j].I+2 < items[j-1].I; j-- {
				items[j], items[j-1] = items[j-1], items[j]
			}
		}
	}
	var acts []world.Action
	// one case in three: the node first receives a prefix of the chain over P2P and applies it - none of it is on the DA
	// layer yet, so none of it may count as DA-included until the scan has seen the blobs
	if rng.Intn(3) == 0 {
		upTo := rng.Intn(len(p.Heights))
		acts = append(acts, world.Action{Kind: "p2p-h", I: upTo}, world.Action{Kind: "p2p-d", I: upTo})
		if rng.Intn(2) == 0 {
			acts = append(acts, world.Action{Kind: "include"})
		}
	}
	for len(items) > 0 {
		k := 1 + rng.Intn(4)
		if k > len(items) {
			k = len(items)
		}
		acts = append(acts, world.Action{Kind: "da", DA: items[:k]})
		items = items[k:]
		switch p := rng.Intn(20); {
		case p < 8:
			acts = append(acts, world.Action{Kind: "include"})
		case p < 10:
			acts = append(acts, world.Action{Kind: "restart"})
		case p < 12:
			acts = append(acts, world.Action{Kind: "crash-restart"})
		case p < 13:
			acts = append(acts, world.Action{Kind: "da"}) // empty DA height
		}
	}
	if last != nil {
		acts = append(acts, world.Action{Kind: "da", NoBarrier: true, StopAtExec: 1, DA: last})
	}
	c := Case{ID: id, Node: "fullnode", Initial: p.Spec.Initial}
	for _, a := range acts {
		c.Actions = append(c.Actions, a.String())
	}
	return c, acts
}

// Run is the check entry point.
func Run(r *vk.Run) {
	world.Silence()
	// The whole check runs with TMPDIR on another file system than the nodes' home directories when the machine has
	// one (the layout of every machine with a tmpfs /tmp): where the node stages the files it saves at a clean stop is
	// its business, but what it saves must be there after the restart on such a layout too.
	if other := world.DirOnOtherFS(vk.Root()); other != "" {
		old, had := os.LookupEnv("TMPDIR")
		os.Setenv("TMPDIR", other)
		defer func() {
			if had {
				os.Setenv("TMPDIR", old)
			} else {
				os.Unsetenv("TMPDIR")
			}
			os.RemoveAll(other)
		}()
		r.Set("tmpdir_on_other_file_system_than_node_homes", other)
	} else {
		r.Count("tmpdir_on_other_file_system_not_exercised", 1)
	}
	r.Rule = "seeded interleavings on (a) a real aggregator: {produce non-empty/empty, one header-submission iteration, one data-submission iteration (each with outcome accept | prefix | error | ack lost | timed out), inclusion pass of the real DAIncluderLoop, clean restart (SaveCache), crash restart; in the crafted fault cases the inclusion loop is held (S) while three blocks are accepted, so that the whole pass that includes them runs with the fault armed}; (b) a real full node fed through DA only: blobs of a proposer chain placed into DA heights in generated groupings and orders, scans by the real RetrieveLoop, inclusion passes, clean and crash restarts. Monitors at the SetFinal call and at the persist write give the order finalize -> persist -> report; soundness is judged against the contents of the DA double; bounded liveness = three clean rounds after faults stop. non-trivial = DA-included height advanced >= 2 and >= 3 (aggregator) / >= 2 (full node) kinds of actors interleaved; distinct by action list. Two generated cases in five (and a copy of every crafted clean-stop case) run with a db_path other than the default (custom-db, a/b); where the node keeps its cache snapshots is the node's business: the harness only calls SaveCache and, for a crash, empties the node's root directory (the database itself is in memory). Separate trigger regions: aggregator crash with accepted-but-not-included blocks (C07-marks-lost-on-crash), repeated tx lists (C07-commitment-keyed-marks)"
	r.Assume("DA double: accepted = stored by the double; a full node's 'observed' = blob present at a DA height not above the double's current height")
	r.Assume("SetFinal never fails in these runs (its failure terminates the inclusion loop by design)")
	rng := r.Rand("cases")
	type job struct {
		c    Case
		p    *world.Produced
		acts []world.Action
	}
	var jobs []job
	id := 0
	// two generated cases in five run with a db_path other than the default (the crafted clean-stop cases below with both)
	addJob := func(j job) {
		j.c.DBPath = dbPathFor(j.c.ID)
		jobs = append(jobs, j)
	}
	nAgg := r.N(250, 6000)
	for i := 0; i < nAgg; i++ {
		addJob(job{c: genAgg(rng, id, false, false)})
		id++
	}
	// trigger regions
	for i := 0; i < r.N(120, 1200); i++ {
		addJob(job{c: genAgg(rng, id, false, true)})
		id++
	}
	// crafted: three accepted blocks wait for inclusion and the process dies after the k-th durable write of the pass
	// that includes them (record header DA height, record data DA height, [finalize], persist the new height - per block)
	for _, shape := range [][]string{{"P", "P", "P"}, {"P", "Pe", "P"}, {"Pe", "P", "Pe"}, {"Pe", "Pe", "Pe"}} {
		for _, initial := range []uint64{1, 3} {
			for k := 0; k <= 13; k++ { // genesis block + three blocks: up to twelve writes in the pass
				c := Case{ID: id, Node: "aggregator", Initial: initial}
				c.Actions = append(append([]string{}, shape...), "S", "H", "D", fmt.Sprintf("X%d", k), "P", "H", "D", "I", "R", "I")
				addJob(job{c: c})
				id++
				if k >= 1 && k <= 12 {
					c2 := Case{ID: id, Node: "aggregator", Initial: initial}
					c2.Actions = append(append([]string{}, shape...), "S", "H", "D", fmt.Sprintf("Y%d", k), "I", "P", "H", "D", "I")
					addJob(job{c: c2})
					id++
				}
			}
		}
	}
	// crafted: a block is committed inside the inclusion pass that includes accepted blocks, before its k-th durable write;
	// production has to go on afterwards
	for _, shape := range [][]string{{"P", "P"}, {"P", "Pe", "P"}, {"Pe", "P"}} {
		for _, initial := range []uint64{1, 3} {
			for k := 1; k <= r.N(6, 10); k++ {
				c := Case{ID: id, Node: "aggregator", Initial: initial}
				c.Actions = append(append([]string{}, shape...), "S", "H", "D", fmt.Sprintf("W%d", k), "P", "H", "D", "I", "P", "Pe", "H", "D", "I")
				addJob(job{c: c})
				id++
			}
		}
	}
	// crafted: blocks are accepted while the stop is already under way, the node restarts with their marks in its
	// caches and nothing more to submit
	for _, shape := range [][]string{{"P"}, {"P", "P", "Pe"}, {"Pe", "Pe"}, {"P", "H", "D", "I", "P", "Pe"}} {
		for _, initial := range []uint64{1, 3} {
			c := Case{ID: id, Node: "aggregator", Initial: initial}
			c.Actions = append(append([]string{}, shape...), "Q")
			jobs = append(jobs, job{c: c})
			id++
			c.ID, c.DBPath = id, []string{"custom-db", "a/b"}[id%2]
			jobs = append(jobs, job{c: c})
			id++
		}
	}
	for i := 0; i < r.N(30, 300); i++ {
		addJob(job{c: genAgg(rng, id, true, false)})
		id++
	}
	ctx := context.Background()
	keys := world.NewKeys("proposer")
	for ci := 0; ci < r.N(8, 60); ci++ {
		n := 5 + rng.Intn(8)
		spec := world.ChainSpec{Initial: []uint64{1, 1, 4}[ci%3]}
		for b := 0; b < n; b++ {
			if rng.Intn(3) == 0 {
				spec.Blocks = append(spec.Blocks, nil)
			} else {
				spec.Blocks = append(spec.Blocks, [][]byte{[]byte(fmt.Sprintf("c07f-%d-%d", ci, b))})
			}
		}
		p, err := world.ProduceChain(ctx, spec, keys)
		if err != nil {
			r.Inconclusive("the aggregator producing the reference chain failed (not this property's business): " + err.Error())
			return
		}
		for k := 0; k < r.N(15, 60); k++ {
			c, acts := genFull(rng, p, id)
			id++
			addJob(job{c: c, p: p, acts: acts})
		}
	}
	r.Require("eventually-included", int64(len(jobs)/2))
	r.Require("finalize-before-report", 200)
	r.Require("clean-restart-with-custom-db-path", 40)
	var wg sync.WaitGroup
	ch := make(chan job)
	for w := 0; w < 14; w++ {
		wg.Add(1)
		go func() {
			defer wg.Done()
			for j := range ch {
				if j.p != nil {
					r.Guard(j.c, func() { runFull(r, j.p, j.c, j.acts) })
				} else {
					r.Guard(j.c, func() { runAgg(r, j.c) })
				}
			}
		}()
	}
	for _, j := range jobs {
		ch <- j
	}
	close(ch)
	wg.Wait()
	for i := 0; i < r.N(6, 24); i++ {
		i := i
		r.Guard(map[string]any{"tip_withheld_case": i}, func() { runFullTipWithheld(r, keys, i) })
	}
	for i := 0; i < r.N(6, 24); i++ {
		i := i
		r.Guard(map[string]any{"apply_window_case": i}, func() { runFullApplyWindow(r, keys, i) })
	}
	for i := 0; i < r.N(12, 48); i++ {
		i := i
		r.Guard(map[string]any{"scan_held_case": i}, func() { runFullScanHeld(r, keys, i) })
	}
	for i := 0; i < r.N(6, 24); i++ {
		i := i
		r.Guard(map[string]any{"state_ahead_case": i}, func() { runFullStateAheadWindow(r, keys, i) })
	}
}

// waitD waits (generously) until the reported DA-included height equals want. It returns false if that does not
// happen - which load alone cannot cause: a pending wake-up is consumed within microseconds.
func waitD(get func() uint64, want uint64) bool {
	if waitDOnce(get, want) {
		return true
	}
	// a pass that is merely late (a machine under heavy load) is not a missing wake-up: the first few cases of a run
	// that look like one get three times the patience; a tree on which the wake-up really is missing fails them all the
	// same, and the cases after them keep the run short
	if slowWaits.Add(1) > 6 {
		return false
	}
	return waitDOnce(get, want) || waitDOnce(get, want)
}

var slowWaits atomic.Int64

func waitDOnce(get func() uint64, want uint64) bool {
	deadline := time.Now().Add(3 * time.Second)
	for time.Now().Before(deadline) {
		if get() == want {
			return true
		}
		time.Sleep(200 * time.Microsecond)
	}
	return get() == want
}

// chain adds a write observer without replacing the one the driver installed (its stop-at-application trigger).
func chain(ds *world.MemDS, f func(world.WriteRec)) {
	prev := ds.OnWrite
	ds.OnWrite = func(rec world.WriteRec) {
		f(rec)
		if prev != nil {
			prev(rec)
		}
	}
}
