package c19

// Child-process side of C19: executes operations of the real key-file code of /repo and
// reports what it observed. It judges nothing. Every operation runs under recover; a fatal
// error that recover cannot catch kills the child and is attributed by the parent to the case
// that was in flight (see pool.go).

import (
	"bufio"
	"bytes"
	"encoding/json"
	"fmt"
	"os"
	"path/filepath"
	"runtime"
	"runtime/debug"
	"strings"

	"github.com/libp2p/go-libp2p/core/crypto"

	"github.com/evstack/ev-node/pkg/signer"
	"github.com/evstack/ev-node/pkg/signer/file"
	"github.com/evstack/ev-node/pkg/signer/noop"
	"github.com/evstack/ev-node/types"

	"verifharness/vk"
)

func init() { vk.Children["c19"] = childMain }

// wireCase is what the parent sends for one case.
type wireCase struct {
	ID   int    `json:"id"`
	Op   string `json:"op"`             // load | export | chain
	File []byte `json:"file,omitempty"` // content of signer.json to operate on (chain: empty = create a new key)
	Has  bool   `json:"has"`            // File is meaningful (it may be a zero-length file)
	Pass int    `json:"pass"`           // index into the passphrase table
	Pas2 int    `json:"pass2"`          // chain: passphrase of the import
	Msg  []byte `json:"msg"`            // message to sign
	// Prior: chain: what already exists at the import destination (ImportPrivateKey is documented to overwrite):
	// 0 nothing, 1 the source key file pretty-printed (valid and longer than what the import writes), 2 the source key
	// file followed by 64 stray bytes, 3 a two-byte file, 4 an exact copy of the source key file
	Prior int `json:"prior,omitempty"`
	// Link: chain: the key file is reached through a symbolic link when it is loaded and exported (the created / legacy
	// file before load + export, the imported file before load2 + export2): 0 regular file, 1 link to an absolute path
	// outside the signer directory, 2 relative link (../<dir>/<file>), 3 the two-link chain of a Kubernetes secret volume
	// (<file> -> ..data/<file>, ..data -> ..<timestamp>/)
	Link int `json:"key_file_symlink,omitempty"`
	// Cap: chain: capacity of the byte slices handed to the code under test (exported key, passphrases, message) when
	// larger than their length; 0 = exact-size copies. A key read back from a backup file with os.ReadFile arrives in a
	// 512-byte buffer.
	Cap int `json:"buffer_capacity,omitempty"`
}

type wireMsg struct {
	Passes [][]byte  `json:"passes,omitempty"`
	Case   *wireCase `json:"case,omitempty"`
}

// stepObs is what one call into the code under test did.
type stepObs struct {
	Step    string `json:"step"`
	Called  bool   `json:"called"`
	OK      bool   `json:"ok"` // returned without error
	Err     string `json:"err,omitempty"`
	Panic   string `json:"panic,omitempty"`
	Stack   string `json:"stack,omitempty"`
	NilSig  bool   `json:"nil_signer,omitempty"` // nil signer with nil error
	Pub     []byte `json:"pub,omitempty"`        // GetPublic().Raw()
	PubErr  string `json:"pub_err,omitempty"`
	Addr    []byte `json:"addr,omitempty"` // signer.GetAddress()
	AddrErr string `json:"addr_err,omitempty"`
	KeyAddr []byte `json:"key_addr,omitempty"` // types.KeyAddress(pub)
	NSAddr  []byte `json:"ns_addr,omitempty"`  // types.NewSigner(pub).Address
	Sig     []byte `json:"sig,omitempty"`      // Sign(msg)
	SignErr string `json:"sign_err,omitempty"`
	Priv    []byte `json:"priv,omitempty"` // ExportPrivateKey result
	File    []byte `json:"file,omitempty"` // key file after create / import
	Mode    uint32 `json:"mode,omitempty"` // permission bits of the key file
	// FileName: name of the key file inside the signer directory, found by listing the directory after create /
	// import ("" if the directory does not hold exactly one regular file)
	FileName string `json:"file_name,omitempty"`
	// OverExisting: import step only: the destination already held a file (wireCase.Prior > 0)
	OverExisting bool `json:"over_existing,omitempty"`
	// Link: load / export steps: how the key file was reached ("" = a regular file)
	Link string `json:"key_file_is_symlink,omitempty"`
	// KeyCap: import step: capacity of the slice that held the exported key
	KeyCap int `json:"key_buffer_capacity,omitempty"`
}

type caseObs struct {
	ID    int       `json:"id"`
	Steps []stepObs `json:"steps"`
	// set by the parent only
	Died     bool   `json:"died,omitempty"`
	DiedText string `json:"died_text,omitempty"`
	Timeout  bool   `json:"timeout,omitempty"`
}

func childMain(args []string) int {
	if len(args) < 1 {
		return 2
	}
	dir := args[0]
	in := bufio.NewReaderSize(os.Stdin, 1<<20)
	out := bufio.NewWriter(os.Stdout)
	var passes [][]byte
	for {
		line, err := in.ReadBytes('\n')
		if len(strings.TrimSpace(string(line))) > 0 {
			var m wireMsg
			if e := json.Unmarshal(line, &m); e != nil {
				fmt.Fprintln(os.Stderr, "c19 child: bad line:", e)
				return 2
			}
			if m.Passes != nil {
				passes = m.Passes
			}
			if m.Case != nil {
				o := runCase(dir, passes, m.Case)
				b, _ := json.Marshal(o)
				out.Write(b)
				out.WriteByte('\n')
				out.Flush()
			}
		}
		if err != nil {
			return 0
		}
	}
}

// spareCap is the capacity of the copies cp hands to the code under test (wireCase.Cap of the chain in flight; the
// child runs one case at a time).
var spareCap int

// cp returns a private copy of b: of exactly its size, or - in a chain that says so - at the start of a larger buffer
// whose spare bytes are not zero.
func cp(b []byte) []byte {
	if spareCap > len(b) {
		buf := bytes.Repeat([]byte{0x5A}, spareCap)
		copy(buf, b)
		return buf[:len(b)]
	}
	return append([]byte{}, b...)
}

var linkNames = []string{"", "absolute", "relative", "two-link chain"}

// relink moves the key file of dir somewhere else and leaves a symbolic link in its place. It returns how the file is
// reached now ("" = still a regular file: kind 0, or no symbolic links on this file system) and the directory to
// remove afterwards.
func relink(kind int, dir string) (string, string) {
	if kind <= 0 || kind >= len(linkNames) {
		return "", ""
	}
	name := onlyFile(dir)
	if name == "" {
		return "", ""
	}
	var realDir, target, extra string
	switch kind {
	case 1:
		realDir = dir + "-real"
		target, extra = filepath.Join(realDir, name), realDir
	case 2:
		realDir = dir + "-real"
		target, extra = filepath.Join("..", filepath.Base(realDir), name), realDir
	default:
		const stamp = "..2026_09_26_00_00_00.0000000001"
		realDir = filepath.Join(dir, stamp)
		target = filepath.Join("..data", name)
		_ = os.Remove(filepath.Join(dir, "..data"))
		if os.Symlink(stamp, filepath.Join(dir, "..data")) != nil {
			return "", ""
		}
	}
	if os.MkdirAll(realDir, 0o700) != nil {
		return "", extra
	}
	if os.Rename(filepath.Join(dir, name), filepath.Join(realDir, name)) != nil {
		return "", extra
	}
	if os.Symlink(target, filepath.Join(dir, name)) != nil {
		_ = os.Rename(filepath.Join(realDir, name), filepath.Join(dir, name))
		return "", extra
	}
	return linkNames[kind], extra
}

func guarded(step string, f func(o *stepObs)) (o stepObs) {
	o.Step = step
	o.Called = true
	defer func() {
		if p := recover(); p != nil {
			o.OK = false
			o.Panic = fmt.Sprint(p)
			st := strings.Split(string(debug.Stack()), "\n")
			keep := []string{}
			for _, l := range st {
				if strings.Contains(l, "/harness/") || strings.Contains(l, "verifharness") {
					continue
				}
				if strings.Contains(l, "/repo") || strings.Contains(l, "ev-node") {
					keep = append(keep, strings.TrimSpace(l))
				}
			}
			if len(keep) > 8 {
				keep = keep[:8]
			}
			o.Stack = strings.Join(keep, " <- ")
		}
	}()
	f(&o)
	return
}

func observe(s signer.Signer, msg []byte, o *stepObs) {
	if s == nil {
		o.NilSig = true
		return
	}
	pub, err := s.GetPublic()
	if err != nil {
		o.PubErr = err.Error()
	} else if pub == nil {
		o.PubErr = "nil public key"
	} else {
		raw, err := pub.Raw()
		if err != nil {
			o.PubErr = err.Error()
		}
		o.Pub = raw
		o.KeyAddr = types.KeyAddress(pub)
		if ns, err := types.NewSigner(pub); err == nil {
			o.NSAddr = ns.Address
		}
	}
	a, err := s.GetAddress()
	if err != nil {
		o.AddrErr = err.Error()
	}
	o.Addr = a
	sig, err := s.Sign(cp(msg))
	if err != nil {
		o.SignErr = err.Error()
	}
	o.Sig = sig
}

// keyFileName is the name of the key file inside a signer directory. It is learnt from the code under test: a
// signer is created once per child process in a scratch directory and the directory is listed. Only if that does not
// yield exactly one regular file the documented name is assumed.
var keyFileName string

func learnKeyFileName(scratch string) {
	if keyFileName != "" {
		return
	}
	keyFileName = "signer.json"
	dir := filepath.Join(scratch, fmt.Sprintf("name-probe-%d", os.Getpid()))
	defer os.RemoveAll(dir)
	func() {
		defer func() { _ = recover() }()
		if _, err := file.CreateFileSystemSigner(dir, []byte("c19 name probe")); err != nil {
			return
		}
		if n := onlyFile(dir); n != "" {
			keyFileName = n
		}
	}()
}

// onlyFile returns the name of the only regular file in dir ("" if there is none or more than one).
func onlyFile(dir string) string {
	es, err := os.ReadDir(dir)
	if err != nil {
		return ""
	}
	name := ""
	for _, e := range es {
		if e.Type().IsRegular() {
			if name != "" {
				return ""
			}
			name = e.Name()
		}
	}
	return name
}

func keyFile(dir string) string { return filepath.Join(dir, keyFileName) }

func readBack(dir string, o *stepObs) {
	name := onlyFile(dir)
	o.FileName = name
	if name == "" {
		name = keyFileName
	}
	p := filepath.Join(dir, name)
	if b, err := os.ReadFile(p); err == nil {
		o.File = b
		if st, err := os.Stat(p); err == nil {
			o.Mode = uint32(st.Mode().Perm())
		}
	}
}

func doLoad(step, dir string, pass, msg []byte) stepObs {
	return guarded(step, func(o *stepObs) {
		s, err := file.LoadFileSystemSigner(dir, cp(pass))
		if err != nil {
			o.Err = err.Error()
			return
		}
		o.OK = true
		observe(s, msg, o)
	})
}

func doExport(step, dir string, pass []byte) stepObs {
	return guarded(step, func(o *stepObs) {
		priv, err := file.ExportPrivateKey(dir, cp(pass))
		if err != nil {
			o.Err = err.Error()
			return
		}
		o.OK = true
		o.Priv = cp(priv)
	})
}

func runCase(dir string, passes [][]byte, c *wireCase) caseObs {
	out := caseObs{ID: c.ID}
	learnKeyFileName(dir)
	pass := func(i int) []byte {
		if i < 0 || i >= len(passes) {
			return nil
		}
		return passes[i]
	}
	switch c.Op {
	case "load", "export":
		_ = os.MkdirAll(dir, 0o700)
		if err := os.WriteFile(keyFile(dir), c.File, 0o600); err != nil {
			out.Steps = append(out.Steps, stepObs{Step: "write", Err: err.Error()})
			return out
		}
		if c.Op == "load" {
			out.Steps = append(out.Steps, doLoad("load", dir, pass(c.Pass), c.Msg))
		} else {
			out.Steps = append(out.Steps, doExport("export", dir, pass(c.Pass)))
		}
	case "chain":
		spareCap = c.Cap
		defer func() { spareCap = 0 }()
		// a key file is opened on other machines than the one that wrote it: in two chains of three every step runs
		// with another number of processors available to the Go runtime
		procs := func(step int) {}
		if c.ID%3 != 0 {
			orig := runtime.GOMAXPROCS(0)
			defer runtime.GOMAXPROCS(orig)
			seq := [][]int{{8, 2, 16, 1, 3, 4}, {1, 8, 2, 4, 16, 3}, {2, 4, 1, 8, 3, 16}, {4, 1, 3, 2, 8, 5}}[(c.ID/3)%4]
			procs = func(step int) { runtime.GOMAXPROCS(seq[step%len(seq)]) }
		}
		da := filepath.Join(dir, fmt.Sprintf("chain-%d-a", c.ID))
		db := filepath.Join(dir, fmt.Sprintf("chain-%d-b", c.ID))
		defer os.RemoveAll(da)
		defer os.RemoveAll(db)
		p, q := pass(c.Pass), pass(c.Pas2)
		if c.Has {
			_ = os.MkdirAll(da, 0o700)
			if err := os.WriteFile(keyFile(da), c.File, 0o600); err != nil {
				out.Steps = append(out.Steps, stepObs{Step: "write", Err: err.Error()})
				return out
			}
		} else {
			procs(0)
			st := guarded("create", func(o *stepObs) {
				s, err := file.CreateFileSystemSigner(da, cp(p))
				if err != nil {
					o.Err = err.Error()
					return
				}
				o.OK = true
				observe(s, c.Msg, o)
				readBack(da, o)
			})
			out.Steps = append(out.Steps, st)
			if !st.OK {
				return out
			}
		}
		// the key file may live elsewhere and be linked into the signer directory
		linked, extra := relink(c.Link, da)
		if extra != "" {
			defer os.RemoveAll(extra)
		}
		procs(1)
		ld := doLoad("load", da, p, c.Msg)
		ld.Link = linked
		out.Steps = append(out.Steps, ld)
		procs(2)
		ex := doExport("export", da, p)
		ex.Link = linked
		out.Steps = append(out.Steps, ex)
		if !ex.OK {
			return out
		}
		if c.Prior > 0 {
			src, _ := os.ReadFile(keyFile(da))
			var prior []byte
			switch c.Prior {
			case 1:
				var buf bytes.Buffer
				if json.Indent(&buf, src, "", "    ") == nil {
					prior = buf.Bytes()
				}
			case 2:
				prior = append(append([]byte{}, src...), bytes.Repeat([]byte("#"), 64)...)
			case 3:
				prior = []byte("{}")
			default:
				prior = src
			}
			_ = os.MkdirAll(db, 0o700)
			_ = os.WriteFile(keyFile(db), prior, 0o600)
		}
		doImport := func(step, dst string) stepObs {
			return guarded(step, func(o *stepObs) {
				key := cp(ex.Priv)
				o.KeyCap = cap(key)
				if err := file.ImportPrivateKey(dst, key, cp(q)); err != nil {
					o.Err = err.Error()
					return
				}
				o.OK = true
				readBack(dst, o)
			})
		}
		procs(3)
		im := doImport("import", db)
		im.OverExisting = c.Prior > 0
		if c.Prior > 0 && !im.OK && im.Panic == "" {
			// refusing to replace an existing key file is a legitimate answer: the refusal is reported under its own
			// name and the import is made once more into an empty directory
			im.Step = "import-over-existing"
			out.Steps = append(out.Steps, im)
			db = filepath.Join(dir, fmt.Sprintf("chain-%d-c", c.ID))
			defer os.RemoveAll(db)
			im = doImport("import", db)
		}
		out.Steps = append(out.Steps, im)
		if im.OK {
			linked, extra := relink(c.Link, db)
			if extra != "" {
				defer os.RemoveAll(extra)
			}
			procs(4)
			l2 := doLoad("load2", db, q, c.Msg)
			l2.Link = linked
			out.Steps = append(out.Steps, l2)
			procs(5)
			e2 := doExport("export2", db, q)
			e2.Link = linked
			out.Steps = append(out.Steps, e2)
		}
		out.Steps = append(out.Steps, guarded("noop", func(o *stepObs) {
			pk, err := crypto.UnmarshalEd25519PrivateKey(cp(ex.Priv))
			if err != nil {
				o.Err = "unmarshal exported key: " + err.Error()
				return
			}
			s, err := noop.NewNoopSigner(pk)
			if err != nil {
				o.Err = err.Error()
				return
			}
			o.OK = true
			observe(s, c.Msg, o)
		}))
	default:
		out.Steps = append(out.Steps, stepObs{Step: c.Op, Err: "unknown op"})
	}
	return out
}
