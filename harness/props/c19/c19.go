// Package c19 decides C19: the proposer key file protects the key and yields a working,
// matching signer (see /verif/DESIGN.md §7).
//
// The real code of /repo/pkg/signer/file (and the noop signer, types.KeyAddress, types.NewSigner)
// is executed in child processes (child.go, pool.go); this file generates the cases and judges the
// observations with standard-library Ed25519 / SHA-256 / JSON only (ref.go).
//
// # Reading of the statement (what is demanded, and what is not)
//
//   - The key file is found by listing the signer directory after create / import (its name is the implementation's).
//     If a genuine file is not in the JSON layout this check knows (priv_key_encrypted / nonce / pub_key / salt as
//     base64 strings) only byte-level corruptions and truncations are applied to it and the run is inconclusive for
//     the JSON-level list; never a violation.
//   - "export followed by import preserves the key": the exported bytes, imported again (into a destination that is
//     empty or already holds a file), load to the same public key, and a second export returns the same bytes. The
//     export FORMAT is free; only if it has the raw 64-byte Ed25519 shape (seed || public key) it is also checked to be
//     the right key and the file is searched for the clear seed.
//   - ImportPrivateKey over an existing destination may be refused (counted; the import is then made into an empty
//     directory). If it reports success, the destination must load to the imported key.
//   - Legacy salt-less files are sealed by the harness from the documented derivation. The quantifier names files in
//     the legacy format: such a file is a key saved under a passphrase and must load with it, to the sealed key, and
//     with that passphrase only (legacy-file-loads).
//     One legacy file is sealed under 32 zero bytes (the key a wiped buffer holds).
//   - "protects the key": the key file must not be accessible to group or others (mode & 077 == 0) after create and
//     after import, and must not contain the clear seed.
package c19

import (
	"bytes"
	"crypto/ed25519"
	"encoding/base64"
	"encoding/hex"
	"encoding/json"
	"fmt"
	"math/rand"
	"os"
	"path/filepath"
	"sort"
	"strings"
	"sync"

	"verifharness/vk"
	"verifharness/world"
)

// Level is the verification level claimed for this property.
const Level = "fault_enumeration"

// Finding ids (DESIGN.md §8). The third one was found by this check.
const (
	idLegacyEmpty = "C19-legacy-empty-passphrase"
	idPubkey      = "C19-pubkey-unchecked"
	idNonceLen    = "C19-nonce-length-panic"
)

// base is one genuine key file together with everything the oracle knows about it.
type base struct {
	Name  string // e.g. created/32-bytes
	Kind  string // created | imported | legacy
	Class string // passphrase class of the sealing passphrase
	Core  bool   // one of the six passphrase classes of the statement (enumerated completely in thorough)
	File  []byte
	Pass  int    // index of the sealing passphrase
	Pub   []byte // 32 bytes
	Priv  []byte // 64 bytes (nil if it could not be obtained)
	ref   refKeyFile
	spans []span
	// noLayout: the genuine file is not in the JSON layout this check knows (field names / base64 values): only
	// byte-level mutations and truncations are applied to it
	noLayout bool
	// rawExport: ExportPrivateKey returned the raw 64-byte Ed25519 key (seed || public key)
	rawExport bool
}

// meta is the parent-side description of a case.
type meta struct {
	c      *wireCase
	Group  string // chain | same-pass | wrong-pass | legacy-equivalent-pass | mut-flip | mut-00 | mut-ff | mut-trunc | mut-json
	Desc   string
	Expect string // same | fail | fail-or-same | observe
	b      *base
	// trigger regions of the known findings, decided from the generated case alone
	T1, T2, T3 bool
	filePub    []byte
	nontrivial bool
	qClass     string // chain: passphrase class of the import
}

func (m *meta) region() string {
	var t []string
	if m.T1 {
		t = append(t, "legacy+empty-passphrase")
	}
	if m.T2 {
		t = append(t, "foreign-pub_key")
	}
	if m.T3 {
		t = append(t, "nonce-length")
	}
	if len(t) == 0 {
		return "clean"
	}
	return "trigger:" + strings.Join(t, "+")
}

type driver struct {
	r      *vk.Run
	passes [][]byte
	metas  map[int]*meta
	nextID int
	findN  map[string]int
	mu     sync.Mutex
}

func (d *driver) addPass(p []byte) int {
	for i, q := range d.passes {
		if bytes.Equal(p, q) {
			return i
		}
	}
	d.passes = append(d.passes, append([]byte{}, p...))
	return len(d.passes) - 1
}

func (d *driver) newCase(m *meta, op string, file []byte, has bool, pass int, msg []byte) *meta {
	d.nextID++
	m.c = &wireCase{ID: d.nextID, Op: op, File: file, Has: has, Pass: pass, Pas2: -1, Msg: msg}
	d.metas[m.c.ID] = m
	return m
}

// classify decides the trigger regions of a (file, passphrase) case relative to its base file.
func (m *meta) classify(file, pass []byte) {
	k, ok := parseRef(file)
	if !ok {
		return
	}
	m.filePub = k.Pub
	m.T1 = len(k.Salt) == 0 && len(pass) == 0
	m.T3 = len(k.Nonce) != 12
	if m.b != nil {
		o := m.b.ref
		m.T2 = bytes.Equal(k.Enc, o.Enc) && bytes.Equal(k.Nonce, o.Nonce) && bytes.Equal(k.Salt, o.Salt) &&
			len(k.Pub) == 32 && !bytes.Equal(k.Pub, o.Pub)
	}
}

func (d *driver) witness(m *meta, st *stepObs, extra map[string]any) map[string]any {
	w := map[string]any{
		"op": m.c.Op, "group": m.Group, "mutation": m.Desc, "expect": m.Expect, "region": m.region(),
		"file_hex": vk.Hex(m.c.File), "file_text": fmt.Sprintf("%q", trunc(m.c.File, 700)),
		"passphrase_hex": vk.Hex(d.passes[m.c.Pass]), "message_hex": vk.Hex(m.c.Msg),
	}
	if m.c.Op == "chain" {
		w["chain"] = map[string]any{"key_file_symlink": linkNames[m.c.Link%len(linkNames)], "buffer_capacity": m.c.Cap, "prior_destination": m.c.Prior}
	}
	if m.b != nil {
		w["base"] = m.b.Name
		w["base_file_hex"] = vk.Hex(m.b.File)
		w["base_passphrase_hex"] = vk.Hex(d.passes[m.b.Pass])
		w["base_pub_hex"] = vk.Hex(m.b.Pub)
	}
	if st != nil {
		w["observed"] = st
	}
	for k, v := range extra {
		w[k] = v
	}
	return w
}

func trunc(b []byte, n int) []byte {
	if len(b) > n {
		return b[:n]
	}
	return b
}

// finding reports a failure of a predicted shape inside its trigger region. While the id is not
// listed as known every occurrence would be a VIOLATION; only the first two per id are reported
// that way, the rest are counted.
func (d *driver) finding(id, clause, detail string, w any) {
	d.r.Count("finding_shape:"+id, 1)
	if d.r.IsKnown(id) {
		d.r.Finding(id, clause, detail, w)
		return
	}
	d.mu.Lock()
	d.findN[id]++
	n := d.findN[id]
	d.mu.Unlock()
	if n <= 2 {
		d.r.Finding(id, clause, detail, w)
	}
}

func verifies(pub, msg, sig []byte) bool {
	return len(pub) == ed25519.PublicKeySize && ed25519.Verify(ed25519.PublicKey(pub), msg, sig)
}

// usable judges a signer that the code under test handed out: signatures verify under the key it
// reports, the three address derivations agree. wantPub (optional) is the key it must be.
func (d *driver) usable(m *meta, st *stepObs, wantPub []byte, what string) bool {
	r := d.r
	ok := true
	if st.NilSig || st.PubErr != "" || st.SignErr != "" || st.AddrErr != "" {
		r.Violation("signature-verifies", fmt.Sprintf("%s: signer returned without error is not usable: nil=%v pubErr=%q signErr=%q addrErr=%q", what, st.NilSig, st.PubErr, st.SignErr, st.AddrErr), d.witness(m, st, nil))
		return false
	}
	r.Hit("signature-verifies")
	if !verifies(st.Pub, m.c.Msg, st.Sig) {
		r.Violation("signature-verifies", fmt.Sprintf("%s: signature does not verify under the public key the signer reports (%x)", what, st.Pub), d.witness(m, st, nil))
		ok = false
	}
	if wantPub != nil {
		r.Hit("same-key")
		if !bytes.Equal(st.Pub, wantPub) {
			r.Violation("same-key", fmt.Sprintf("%s: signer reports public key %x, the key that was saved is %x", what, st.Pub, wantPub), d.witness(m, st, nil))
			ok = false
		}
	}
	r.Hit("address-matches")
	if len(st.Addr) == 0 || !bytes.Equal(st.Addr, st.KeyAddr) || !bytes.Equal(st.Addr, st.NSAddr) {
		r.Violation("address-matches", fmt.Sprintf("%s: signer address %x, types.KeyAddress(pub) %x, types.NewSigner(pub).Address %x", what, st.Addr, st.KeyAddr, st.NSAddr), d.witness(m, st, nil))
		ok = false
	}
	return ok
}

// panicked handles a panic / dead child. It returns true when the step panicked.
func (d *driver) panicked(m *meta, o *caseObs, st *stepObs) bool {
	text := ""
	switch {
	case o.Died:
		text = "child process died: " + o.DiedText
	case st != nil && st.Panic != "":
		text = st.Panic
	default:
		return false
	}
	step := m.c.Op
	if st != nil {
		step = st.Step
	}
	detail := fmt.Sprintf("%s on base %s [%s; %s] panicked: %s", step, baseName(m), m.Group, m.Desc, oneLine(text, 300))
	if st != nil && st.Stack != "" {
		detail += " @ " + oneLine(st.Stack, 300)
	}
	switch {
	case m.T1 && strings.Contains(text, "divide by zero"):
		d.finding(idLegacyEmpty, "no-panic", detail, d.witness(m, st, nil))
	case m.T3 && strings.Contains(text, "incorrect nonce length"):
		d.finding(idNonceLen, "no-panic", detail, d.witness(m, st, nil))
	default:
		d.r.Violation("no-panic", detail, d.witness(m, st, map[string]any{"child_stderr": o.DiedText}))
	}
	return true
}

func baseName(m *meta) string {
	if m.b == nil {
		return "-"
	}
	return m.b.Name
}

func oneLine(s string, n int) string {
	s = strings.ReplaceAll(s, "\n", " | ")
	if len(s) > n {
		s = s[:n] + "…"
	}
	return s
}

// judge decides one load / export case of round 2.
func (d *driver) judge(m *meta, o caseObs) string {
	r := d.r
	if o.Timeout {
		r.Inconclusive(fmt.Sprintf("case %d (%s %s): %s", m.c.ID, m.Group, m.Desc, o.DiedText))
		return "inconclusive"
	}
	var st *stepObs
	if len(o.Steps) > 0 {
		st = &o.Steps[len(o.Steps)-1]
	}
	r.Hit("no-panic")
	if d.panicked(m, &o, st) {
		return "panic"
	}
	if st == nil || !st.Called {
		r.Inconclusive(fmt.Sprintf("case %d: harness could not run the step: %+v", m.c.ID, st))
		return "inconclusive"
	}
	clause := map[string]string{"same": "correct-passphrase-loads-same-key", "fail": "wrong-passphrase-fails", "fail-or-same": "mutation-fails-or-same-key", "observe": ""}[m.Expect]
	if m.Expect == "observe" {
		// legacy format: a passphrase with the same documented derived key is the same secret
		if st.OK {
			r.Count("legacy_equivalent_passphrase_accepted", 1)
		} else {
			r.Count("legacy_equivalent_passphrase_rejected", 1)
		}
		return "observed"
	}
	r.Hit(clause)
	if !st.OK {
		if m.Expect == "same" {
			r.Violation(clause, fmt.Sprintf("%s of %s with the passphrase it was saved under fails: %s", m.c.Op, baseName(m), st.Err), d.witness(m, st, nil))
			return "error"
		}
		r.Count("rejected:"+m.Group, 1)
		return "error"
	}
	// the call succeeded
	if m.c.Op == "export" {
		same := m.b.Priv != nil && bytes.Equal(st.Priv, m.b.Priv)
		switch {
		case m.Expect == "fail":
			r.Violation(clause, fmt.Sprintf("export of %s succeeds with a different passphrase (%s); same key=%v", baseName(m), m.Desc, same), d.witness(m, st, nil))
		case !same:
			r.Violation(clause, fmt.Sprintf("export of %s [%s] returns a key that is not the saved one", baseName(m), m.Desc), d.witness(m, st, nil))
		default:
			r.Count("same-key:"+m.Group, 1)
		}
		return "exported"
	}
	same := bytes.Equal(st.Pub, m.b.Pub)
	switch m.Expect {
	case "fail":
		r.Violation(clause, fmt.Sprintf("load of %s succeeds with a different passphrase (%s); same key=%v", baseName(m), m.Desc, same), d.witness(m, st, nil))
	case "same":
		if d.usable(m, st, m.b.Pub, "load of "+baseName(m)) && m.b.Kind == "legacy" {
			r.Count("legacy-file-loads", 1)
		}
	case "fail-or-same":
		sigOK := verifies(st.Pub, m.c.Msg, st.Sig)
		if same && sigOK {
			d.usable(m, st, m.b.Pub, "load of mutated "+baseName(m))
			r.Count("same-key:"+m.Group, 1)
			break
		}
		detail := fmt.Sprintf("load of %s [%s] succeeds and yields a signer reporting public key %x (saved key %x); signature verifies under reported key=%v, under saved key=%v",
			baseName(m), m.Desc, st.Pub, m.b.Pub, sigOK, verifies(m.b.Pub, m.c.Msg, st.Sig))
		if m.T2 && !st.NilSig && bytes.Equal(st.Pub, m.filePub) && !sigOK && st.SignErr == "" {
			d.finding(idPubkey, clause, detail, d.witness(m, st, nil))
		} else {
			r.Violation(clause, detail, d.witness(m, st, nil))
		}
	}
	return "loaded"
}

func hidesKey(file, priv []byte) bool {
	if len(priv) < 32 {
		return true
	}
	seed := priv[:32]
	for _, needle := range [][]byte{
		seed,
		[]byte(hex.EncodeToString(seed)),
		[]byte(strings.ToUpper(hex.EncodeToString(seed))),
	} {
		if bytes.Contains(file, needle) {
			return false
		}
	}
	// base64 of the seed at any of the three alignments, and of the whole 64-byte key
	for _, enc := range []*base64.Encoding{base64.StdEncoding, base64.URLEncoding} {
		for off := 0; off < 3; off++ {
			s := enc.EncodeToString(append(make([]byte, off), seed...))
			// drop the characters influenced by the padding zeros and by what follows
			lo, hi := (off*8+5)/6+1, len(strings.TrimRight(s, "="))-2
			if hi-lo >= 16 && bytes.Contains(file, []byte(s[lo:hi])) {
				return false
			}
		}
	}
	return true
}

// fileMode: the key file must not be accessible to group or others ("protects the key"; the code under test writes it
// with mode 0600, the only thing that keeps the Argon2-sealed key and the clear public key from other local users).
func (d *driver) fileMode(m *meta, st *stepObs, what string) {
	d.r.Count(fmt.Sprintf("key_file_mode_%o", st.Mode), 1)
	if len(st.File) == 0 {
		return
	}
	d.r.Hit("file-mode-private")
	if st.Mode&0o077 != 0 {
		d.r.Violation("file-hides-key", fmt.Sprintf("the %s key file has mode %#o: readable or writable by group/others", what, st.Mode), d.witness(m, st, map[string]any{"mode_octal": fmt.Sprintf("%#o", st.Mode)}))
	}
}

// judgeChain decides a create/load/export/import/load/noop chain and returns the bases it yields.
func (d *driver) judgeChain(m *meta, o caseObs, legacyPriv ed25519.PrivateKey) []*base {
	r := d.r
	if o.Timeout {
		r.Inconclusive(fmt.Sprintf("chain %d (%s): %s", m.c.ID, m.Desc, o.DiedText))
		return nil
	}
	if o.Died {
		r.Hit("no-panic")
		d.panicked(m, &o, nil)
		return nil
	}
	steps := map[string]*stepObs{}
	for i := range o.Steps {
		st := &o.Steps[i]
		steps[st.Step] = st
		r.Hit("no-panic")
		d.panicked(m, &o, st)
	}
	need := func(name string) *stepObs {
		st := steps[name]
		if st == nil {
			return nil
		}
		if st.Panic != "" {
			return nil
		}
		if !st.OK && name == "noop" && strings.HasPrefix(st.Err, "unmarshal exported key:") {
			// the export is not the raw Ed25519 key: the comparison signer cannot be built from it (no verdict)
			r.Count("noop_signer_not_built:export_is_not_a_raw_ed25519_key", 1)
			return nil
		}
		// (a salt-less legacy file sealed by the harness is "a key saved under a passphrase" like any other: the
		// quantifier names files in the legacy format, so it must load with its passphrase - judged below)
		if !st.OK {
			clause := map[string]string{"export": "export-is-the-key", "import": "export-import-preserves-key", "load2": "export-import-preserves-key", "export2": "export-import-preserves-key"}[name]
			if clause == "" {
				clause = "correct-passphrase-loads-same-key"
			}
			r.Violation(clause, fmt.Sprintf("chain %s: step %s fails on genuine input: %s", m.Desc, name, st.Err), d.witness(m, st, nil))
			return nil
		}
		return st
	}
	var pub0, file0 []byte
	var out []*base
	if legacyPriv != nil {
		pub0 = []byte(legacyPriv.Public().(ed25519.PublicKey))
		file0 = m.c.File
	} else {
		cr := need("create")
		if cr == nil {
			return nil
		}
		d.usable(m, cr, nil, "signer returned by create")
		pub0, file0 = cr.Pub, cr.File
		d.fileMode(m, cr, "created")
		if cr.FileName == "" || len(cr.File) == 0 {
			r.Inconclusive(fmt.Sprintf("chain %s: the signer directory does not hold exactly one regular file after create; key file not found", m.Desc))
			return nil
		}
		r.Count("key_file_name:"+cr.FileName, 1)
	}
	kind := "created"
	if legacyPriv != nil {
		kind = "legacy"
	}
	b0 := &base{Name: kind + "/" + m.b.Class, Kind: kind, Class: m.b.Class, Core: m.b.Core, File: file0, Pass: m.c.Pass, Pub: pub0}
	out = append(out, b0)
	m.b = b0
	if ld := need("load"); ld != nil {
		if ld.Link != "" {
			r.Hit("key-file-behind-a-symbolic-link")
			r.Count("key_file_symlink:"+ld.Link, 1)
		}
		if kind == "legacy" {
			r.Hit("legacy-file-loads")
			r.Hit("correct-passphrase-loads-same-key")
			d.usable(m, ld, pub0, "load after "+kind)
		} else {
			r.Hit("correct-passphrase-loads-same-key")
			d.usable(m, ld, pub0, "load after "+kind)
		}
	} else if kind == "legacy" {
		return nil // rejected (or panicked: reported above): no base, nothing to mutate
	}
	ex := need("export")
	if ex == nil {
		return out
	}
	// The export format is the implementation's business (raw key, seed, marshalled key, ...): what is demanded is
	// that the exported bytes, imported again, load to the same public key (below), and that a second export gives
	// the same bytes. Only if the export HAS the raw 64-byte Ed25519 shape it is also checked to be the right key.
	if len(ex.Priv) == 0 {
		r.Violation("export-is-the-key", fmt.Sprintf("chain %s: ExportPrivateKey returned no error and no key", m.Desc), d.witness(m, ex, nil))
		return out
	}
	raw := len(ex.Priv) == 64 && bytes.Equal(ex.Priv[32:], pub0)
	b0.rawExport = raw
	if raw {
		r.Count("export_format:raw-ed25519-64-bytes", 1)
		r.Hit("export-is-the-key")
		good := bytes.Equal(ed25519.NewKeyFromSeed(ex.Priv[:32]).Public().(ed25519.PublicKey), pub0)
		if legacyPriv != nil {
			good = good && bytes.Equal(ex.Priv, legacyPriv)
		}
		if !good {
			r.Violation("export-is-the-key", fmt.Sprintf("chain %s: the exported key has the raw Ed25519 shape (seed || public key %x) but the seed is not the seed of that public key", m.Desc, pub0), d.witness(m, ex, nil))
			return out
		}
	} else {
		r.Count(fmt.Sprintf("export_format:other-%d-bytes", len(ex.Priv)), 1)
	}
	b0.Priv = ex.Priv
	hides := func(file []byte, st *stepObs, what string) {
		if !raw {
			r.Count("file-hides-key:not_evaluated_export_not_raw", 1)
			return
		}
		r.Hit("file-hides-key")
		if !hidesKey(file, ex.Priv) {
			r.Violation("file-hides-key", "the "+what+" contains the private key seed in clear", d.witness(m, st, nil))
		}
	}
	hides(file0, ex, "key file")
	if ov := steps["import-over-existing"]; ov != nil && !ov.OK && ov.Panic == "" {
		// ImportPrivateKey refused to replace what was at the destination: legitimate; the import below went into an
		// empty directory
		r.Count("import_over_existing_destination_refused", 1)
	}
	if im := need("import"); im != nil {
		if im.OverExisting {
			r.Hit("import-over-existing-file")
		}
		b1 := &base{Name: "imported/" + m.qClass, Kind: "imported", Class: m.qClass, Core: coreClass[m.qClass], File: im.File, Pass: m.c.Pas2, Pub: pub0, Priv: ex.Priv, rawExport: raw}
		hides(im.File, im, "imported key file")
		d.fileMode(m, im, "imported")
		if l2 := need("load2"); l2 != nil {
			r.Hit("export-import-preserves-key")
			ok := d.usable(m, l2, pub0, "load after export+import")
			if ok && legacyPriv == nil {
				out = append(out, b1)
			}
			if ok && im.KeyCap > len(ex.Priv) {
				r.Hit("import-from-a-buffer-with-spare-capacity")
			}
			if ok && l2.Link != "" {
				r.Hit("key-file-behind-a-symbolic-link")
				r.Count("key_file_symlink:"+l2.Link, 1)
			}
		}
		if e2 := need("export2"); e2 != nil {
			r.Hit("export-import-preserves-key")
			if !bytes.Equal(e2.Priv, ex.Priv) {
				r.Violation("export-import-preserves-key", "export after import returns a different private key", d.witness(m, e2, nil))
			}
		}
	}
	if np := need("noop"); np != nil {
		d.usable(m, np, pub0, "noop signer of the exported key")
		if ld := steps["load"]; ld != nil && ld.OK {
			r.Hit("address-matches-noop")
			if !bytes.Equal(np.Addr, ld.Addr) {
				r.Violation("address-matches-noop", fmt.Sprintf("file signer address %x, noop signer address of the same key %x", ld.Addr, np.Addr), d.witness(m, np, nil))
			}
		}
	}
	return out
}

// chainCaps: capacities of the buffers a chain hands to the code under test (0 = exact size): what os.ReadFile gives a
// small file, exact, and the least that lets an AEAD seal a 64-byte key in place (64 + 16).
var chainCaps = []int{512, 0, 80}

var coreClass = map[string]bool{"empty": true, "1-byte": true, "32-bytes": true, "33-bytes": true, "10000-bytes": true, "non-utf8": true}

type passClass struct {
	name string
	p    []byte
	core bool
}

func printable(rng *rand.Rand, n int) []byte {
	const abc = "abcdefghijklmnopqrstuvwxyzABCDEFGHIJKLMNOPQRSTUVWXYZ0123456789 !#$%&()*+,-./:;<=>?@[]^_{|}~"
	b := make([]byte, n)
	for i := range b {
		b[i] = abc[rng.Intn(len(abc))]
	}
	if n > 0 {
		b[0] = abc[rng.Intn(52)] // at least one letter
	}
	return b
}

func classes(rng *rand.Rand, thorough bool) []passClass {
	rnd := func(n int) []byte { b := make([]byte, n); rng.Read(b); return b }
	nonutf := append([]byte{0xff, 0xfe, 0x00, 0xc3, 0x28, 0x80, 0xed, 0xa0, 0x80}, rnd(6)...)
	cs := []passClass{
		{"empty", []byte{}, true},
		{"1-byte", printable(rng, 1), true},
		{"32-bytes", printable(rng, 32), true},
		{"33-bytes", printable(rng, 33), true},
		{"10000-bytes", rnd(10000), true},
		{"non-utf8", nonutf, true},
	}
	if thorough {
		for _, n := range []int{2, 16, 31, 64, 1000} {
			cs = append(cs, passClass{fmt.Sprintf("%d-bytes", n), printable(rng, n), false})
		}
		for i := 0; i < 3; i++ {
			n := 3 + rng.Intn(200)
			cs = append(cs, passClass{fmt.Sprintf("binary-%d-bytes", n), rnd(n), false})
		}
	}
	return cs
}

// ---- case generation over one base file ----------------------------------------------------

func (d *driver) msg(rng *rand.Rand) []byte {
	b := make([]byte, rng.Intn(48))
	rng.Read(b)
	return b
}

func (d *driver) genWrongPass(rng *rand.Rand, b *base) (out []*meta) {
	p := d.passes[b.Pass]
	for _, w := range wrongPasses(rng, p, !d.r.Quick()) {
		group, expect := "wrong-pass", "fail"
		if b.Kind == "legacy" && len(w.b) > 0 && bytes.Equal(legacyKey(w.b), legacyKey(p)) {
			group, expect = "legacy-equivalent-pass", "observe"
		}
		pi := d.addPass(w.b)
		for _, op := range []string{"load", "export"} {
			m := &meta{Group: group, Desc: w.desc, Expect: expect, b: b, nontrivial: true}
			m.classify(b.File, w.b)
			out = append(out, d.newCase(m, op, b.File, true, pi, d.msg(rng)))
		}
	}
	if b.Kind == "legacy" {
		// passphrases the documented legacy derivation maps to the same key (observed, not judged)
		k := legacyKey(p)
		alts := [][]byte{k, append(append([]byte{}, k...), 'x')}
		for i, a := range alts {
			if bytes.Equal(a, p) {
				continue
			}
			m := &meta{Group: "legacy-equivalent-pass", Desc: fmt.Sprintf("derived-key-as-passphrase-%d", i), Expect: "observe", b: b, nontrivial: true}
			out = append(out, d.newCase(m, "load", b.File, true, d.addPass(a), d.msg(rng)))
		}
	}
	return out
}

type bmut struct {
	group, desc string
	file        []byte
}

func mutByte(f []byte, pos int, v byte) []byte {
	g := append([]byte{}, f...)
	g[pos] = v
	return g
}

func (d *driver) byteMutations(rng *rand.Rand, b *base) (out []bmut) {
	f := b.File
	reg := func(pos int) string { return regionOf(b.spans, pos) }
	at := func(pos int, allBits bool) {
		if allBits {
			for bit := 0; bit < 8; bit++ {
				out = append(out, bmut{"mut-flip", fmt.Sprintf("pos=%d(%s) flip-bit=%d", pos, reg(pos), bit), mutByte(f, pos, f[pos]^(1<<bit))})
			}
		} else {
			bit := rng.Intn(8)
			out = append(out, bmut{"mut-flip", fmt.Sprintf("pos=%d(%s) flip-bit=%d", pos, reg(pos), bit), mutByte(f, pos, f[pos]^(1<<bit))})
		}
		if f[pos] != 0x00 {
			out = append(out, bmut{"mut-00", fmt.Sprintf("pos=%d(%s) set=00", pos, reg(pos)), mutByte(f, pos, 0x00)})
		}
		if f[pos] != 0xff {
			out = append(out, bmut{"mut-ff", fmt.Sprintf("pos=%d(%s) set=ff", pos, reg(pos)), mutByte(f, pos, 0xff)})
		}
	}
	trunc := func(n int) {
		where := "end"
		if n < len(f) {
			where = reg(n)
		}
		out = append(out, bmut{"mut-trunc", fmt.Sprintf("truncate-to=%d(%s)", n, where), append([]byte{}, f[:n]...)})
	}
	if !d.r.Quick() {
		for pos := range f {
			at(pos, b.Core && b.Kind != "imported")
		}
		for n := 0; n < len(f); n++ {
			trunc(n)
		}
		return out
	}
	// quick: stratified sample - every field name, every field value (first, last and random
	// characters) and the structural characters are hit; truncation at every stratum boundary
	seen := map[int]bool{}
	pick := func(pos int) {
		if pos >= 0 && pos < len(f) && !seen[pos] {
			seen[pos] = true
			at(pos, false)
		}
	}
	tl := map[int]bool{}
	pickT := func(n int) {
		if n >= 0 && n < len(f) && !tl[n] {
			tl[n] = true
			trunc(n)
		}
	}
	var structural []int
	for _, s := range b.spans {
		switch {
		case strings.HasPrefix(s.name, "name:"):
			for i := 0; i < 3; i++ {
				pick(s.lo + rng.Intn(s.hi-s.lo))
			}
			pickT(s.lo)
		case strings.HasPrefix(s.name, "value:"):
			// the last characters that carry data (before the "=" padding) hold the last byte of the field: all 8 bit
			// flips there (two characters for pub_key, one for the other fields), so that a comparison or a check
			// that ignores the end of a field is met in quick too
			last := s.hi - 1
			for last > s.lo && f[last] == '=' {
				last--
			}
			npos := 1
			if s.name == "value:pub_key" {
				npos = 2
			}
			for pos := last; pos > last-npos && pos >= s.lo; pos-- {
				for bit := 0; bit < 8; bit++ {
					out = append(out, bmut{"mut-flip", fmt.Sprintf("pos=%d(%s) flip-bit=%d", pos, reg(pos), bit), mutByte(f, pos, f[pos]^(1<<bit))})
				}
			}
			pick(s.lo)
			pick(s.hi - 1)
			pick(s.hi - 2)
			for i := 0; i < 5; i++ {
				pick(s.lo + rng.Intn(s.hi-s.lo))
			}
			pickT(s.lo)
			pickT(s.lo + rng.Intn(s.hi-s.lo))
			pickT(s.hi)
		default:
			structural = append(structural, s.lo)
		}
	}
	if len(b.spans) == 0 {
		for i := 0; i < 40; i++ {
			pick(rng.Intn(len(f)))
		}
	}
	for i := 0; i < 6 && len(structural) > 0; i++ {
		pick(structural[rng.Intn(len(structural))])
	}
	for _, n := range []int{0, 1, 2, len(f) - 1, len(f) - 2} {
		pickT(n)
	}
	for i := 0; i < 4; i++ {
		pickT(rng.Intn(len(f)))
	}
	return out
}

// jsonMutations are the mutations at the level of the JSON document.
func (d *driver) jsonMutations(rng *rand.Rand, b *base, foreign *base, foreignPub []byte) (out []bmut) {
	k := b.ref
	fs := fieldsOf(k)
	add := func(desc string, file []byte) { out = append(out, bmut{"mut-json", desc, file}) }
	rnd := func(n int) []byte { x := make([]byte, n); rng.Read(x); return x }
	x1 := func(v []byte, i int) []byte {
		g := append([]byte{}, v...)
		if len(g) > 0 {
			g[(i+len(g))%len(g)] ^= 1
		}
		return g
	}
	// pub_key
	add("pub_key=another-key's-public-key", buildJSON(withField(fs, "pub_key", b64(foreignPub))))
	add("pub_key=32-zero-bytes", buildJSON(withField(fs, "pub_key", b64(make([]byte, 32)))))
	add("pub_key=saved-key-with-one-bit-flipped", buildJSON(withField(fs, "pub_key", b64(x1(k.Pub, 0)))))
	for _, n := range []int{0, 1, 31, 33, 64} {
		add(fmt.Sprintf("pub_key=%d-bytes", n), buildJSON(withField(fs, "pub_key", b64(rnd(n)))))
	}
	// every field: deleted, empty string, null, wrong type, invalid base64
	for _, name := range []string{"priv_key_encrypted", "nonce", "pub_key", "salt"} {
		add("delete "+name, buildJSON(withoutField(fs, name)))
		add(name+`=""`, buildJSON(withField(fs, name, `""`)))
		add(name+"=null", buildJSON(withField(fs, name, `null`)))
		add(name+"=number", buildJSON(withField(fs, name, `12345`)))
		add(name+"=array", buildJSON(withField(fs, name, `[1,2,3]`)))
		add(name+"=object", buildJSON(withField(fs, name, `{"a":"b"}`)))
		add(name+"=not-base64", buildJSON(withField(fs, name, `"!!!!"`)))
	}
	// salt
	add("salt=random-16", buildJSON(withField(fs, "salt", b64(rnd(16)))))
	if len(k.Salt) > 0 {
		add("salt=first-bit-flipped", buildJSON(withField(fs, "salt", b64(x1(k.Salt, 0)))))
		add("salt=last-bit-flipped", buildJSON(withField(fs, "salt", b64(x1(k.Salt, -1)))))
		add("salt=truncated-15", buildJSON(withField(fs, "salt", b64(k.Salt[:15]))))
		add("salt=extended-17", buildJSON(withField(fs, "salt", b64(append(append([]byte{}, k.Salt...), 0)))))
	}
	for _, n := range []int{1, 8, 32, 64} {
		add(fmt.Sprintf("salt=random-%d", n), buildJSON(withField(fs, "salt", b64(rnd(n)))))
	}
	// nonce
	add("nonce=random-12", buildJSON(withField(fs, "nonce", b64(rnd(12)))))
	add("nonce=first-bit-flipped", buildJSON(withField(fs, "nonce", b64(x1(k.Nonce, 0)))))
	for _, n := range []int{1, 11, 13, 16, 24} {
		v := rnd(n)
		copy(v, k.Nonce)
		add(fmt.Sprintf("nonce=%d-bytes", n), buildJSON(withField(fs, "nonce", b64(v))))
	}
	// sealed private key
	add("priv_key_encrypted=tag-bit-flipped", buildJSON(withField(fs, "priv_key_encrypted", b64(x1(k.Enc, -1)))))
	add("priv_key_encrypted=first-bit-flipped", buildJSON(withField(fs, "priv_key_encrypted", b64(x1(k.Enc, 0)))))
	for _, n := range []int{1, 15, 16, 17, 64} {
		if len(k.Enc) > n {
			add(fmt.Sprintf("priv_key_encrypted=%d-bytes-cut", n), buildJSON(withField(fs, "priv_key_encrypted", b64(k.Enc[:len(k.Enc)-n]))))
		}
	}
	add("priv_key_encrypted=one-byte-appended", buildJSON(withField(fs, "priv_key_encrypted", b64(append(append([]byte{}, k.Enc...), 0)))))
	add("priv_key_encrypted=16-bytes", buildJSON(withField(fs, "priv_key_encrypted", b64(rnd(16)))))
	if foreign != nil {
		add("priv_key_encrypted=another-file's", buildJSON(withField(fs, "priv_key_encrypted", b64(foreign.ref.Enc))))
		add("priv_key_encrypted+nonce=another-file's", buildJSON(withField(withField(fs, "priv_key_encrypted", b64(foreign.ref.Enc)), "nonce", b64(foreign.ref.Nonce))))
	}
	// harmless rewrites (must still be the same key, or fail)
	add("extra-unknown-field", buildJSON(append(append([]jfield{}, fs...), jfield{"comment", `"x"`})))
	var pretty bytes.Buffer
	if json.Indent(&pretty, b.File, "", "  ") == nil {
		add("pretty-printed", pretty.Bytes())
	}
	rev := append([]jfield{}, fs...)
	sort.SliceStable(rev, func(i, j int) bool { return i > j })
	add("fields-reversed", buildJSON(rev))
	up := []jfield{}
	for _, f := range fs {
		up = append(up, jfield{strings.ToUpper(f.k), f.raw})
	}
	add("field-names-upper-case", buildJSON(up))
	add("trailing-newline", append(append([]byte{}, b.File...), '\n'))
	add("duplicate-pub_key-foreign-first", buildJSON(append([]jfield{{"pub_key", b64(foreignPub)}}, fs...)))
	add("duplicate-pub_key-foreign-last", buildJSON(append(append([]jfield{}, fs...), jfield{"pub_key", b64(foreignPub)})))
	add("duplicate-salt-wrong-last", buildJSON(append(append([]jfield{}, fs...), jfield{"salt", b64(rnd(16))})))
	add("duplicate-nonce-empty-last", buildJSON(append(append([]jfield{}, fs...), jfield{"nonce", `""`})))
	// whole-document shapes
	for _, s := range []string{``, `null`, `{}`, `[]`, `""`, `0`, `true`, `{"priv_key_encrypted":{}}`, `{"nonce":"AAAAAAAAAAAAAAAA"}`, `{"salt":"AAAAAAAAAAAAAAAAAAAAAA=="}`} {
		add("document="+s, []byte(s))
	}
	add("document=bom+file", append([]byte{0xef, 0xbb, 0xbf}, b.File...))
	add("document=file+garbage", append(append([]byte{}, b.File...), 'x'))
	add("document=file+file", append(append([]byte{}, b.File...), b.File...))
	add("document=array-of-file", append(append([]byte{'['}, b.File...), ']'))
	add("document=100000-open-brackets", bytes.Repeat([]byte{'['}, 100000))
	add("document=100000-nested-objects", append(bytes.Repeat([]byte(`{"salt":`), 100000), '1'))
	return out
}

func (d *driver) genMutations(rng *rand.Rand, b *base, foreign *base, foreignPub []byte, exportEvery int) (out []*meta) {
	p := d.passes[b.Pass]
	muts := d.byteMutations(rng, b)
	nbyte := len(muts)
	if !b.noLayout {
		muts = append(muts, d.jsonMutations(rng, b, foreign, foreignPub)...)
	}
	for i, mu := range muts {
		ops := []string{"load"}
		jsonExport := !d.r.Quick() || i%4 == 0
		if b.Priv != nil && ((i >= nbyte && jsonExport) || exportEvery <= 1 || i%exportEvery == 0) {
			ops = append(ops, "export")
		}
		for _, op := range ops {
			m := &meta{Group: mu.group, Desc: mu.desc, Expect: "fail-or-same", b: b}
			m.nontrivial = len(mu.file) > 0 && !bytes.Equal(mu.file, b.File)
			m.classify(mu.file, p)
			if op == "export" {
				m.T2 = false // export does not read pub_key
			}
			out = append(out, d.newCase(m, op, mu.file, true, b.Pass, d.msg(rng)))
		}
	}
	return out
}

// Run is the check entry point.
func Run(r *vk.Run) {
	world.Silence()
	r.Rule = "cases = (genuine key file, operation load|export, passphrase, mutation). Genuine files: created by CreateFileSystemSigner, written by ImportPrivateKey after ExportPrivateKey, and salt-less legacy files sealed by the harness from the documented legacy derivation (plus one sealed under 32 zero bytes); passphrase classes empty, 1, 32, 33, 10000 bytes, non-UTF-8 (thorough: + 2,16,31,64,1000 bytes and 3 random binary). " +
		"ENUMERATED COMPLETELY in thorough for every genuine file: every byte position x {0x00, 0xFF, bit flips} and every truncation length 0..len-1 (all 8 bit flips on the created and legacy files of the six statement classes, one seeded bit on imported files and on the extra classes), plus the fixed list of JSON-level mutations (foreign/short/long/empty pub_key, each field deleted/empty/null/wrong type/invalid base64, salt and nonce changed or resized, sealed key cut/extended/foreign, duplicates, reordered, whole-document shapes) and the fixed list of wrong passphrases (empty, appended, dropped, bit flipped, doubled, zeros, prefixes, case swapped, random). " +
		"In quick the byte positions and truncation lengths are a seeded STRATIFIED SAMPLE (3 positions per field name, 8 per field value incl. first/last, all 8 bit flips on the last data character of every field value and on the last two of pub_key, 6 structural; truncation at each stratum boundary + random) on all created and legacy files and three of the six imported files; JSON-level and passphrase lists are complete (export: every 4th JSON-level and every 6th byte-level mutation). " +
		"A case is non-trivial when the file is non-empty and not a verbatim genuine file, or the passphrase differs from the sealing one; distinct by (file kind, passphrase class, operation, mutation kind+position | wrong-passphrase kind). Cases inside the trigger regions of the listed findings are classified before the run from the case alone (independent parse of the mutated file)."
	r.Assume("oracle uses crypto/ed25519, crypto/sha256, crypto/aes+cipher (legacy sealing only) and encoding/json of the standard library; it never calls /repo code")
	r.Assume("key material of files created by CreateFileSystemSigner / ImportPrivateKey comes from crypto/rand in the code under test: the case list (positions, kinds, passphrases, legacy files) is a function of the seed, those file bytes are not; witnesses carry the concrete bytes")
	r.Assume("legacy format: two passphrases with the same documented derived key (same first 32 bytes, or a short passphrase and its 32-byte expansion) are the same secret by construction of the format; such pairs are observed, not judged")
	r.Assume("every load/export/create/import runs in a child process under recover; a dead child is attributed to the journalled input")

	dir := world.TempDir(vk.Root(), "C19-*")
	defer os.RemoveAll(dir)
	d := &driver{r: r, metas: map[int]*meta{}, findN: map[string]int{}}
	thorough := !r.Quick()

	// ---- round 1: chains over genuine files --------------------------------------------------
	crng := r.Rand("classes")
	cls := classes(crng, thorough)
	lrng := r.Rand("legacy")
	var chains []*meta
	legacyPriv := map[int]ed25519.PrivateKey{}
	for i, c := range cls {
		pi := d.addPass(c.p)
		// salted: create under p, import under the next class's passphrase
		q := cls[(i+1)%len(cls)].p
		m := &meta{Group: "chain", Desc: c.name, Expect: "same", b: &base{Class: c.name, Core: c.core}}
		d.newCase(m, "chain", nil, false, pi, d.msg(crng))
		m.c.Pas2 = d.addPass(q)
		m.c.Prior = i % 5
		m.c.Link, m.c.Cap = i%4, chainCaps[i%len(chainCaps)]
		m.qClass = cls[(i+1)%len(cls)].name
		chains = append(chains, m)
		if thorough && i%3 == 0 {
			// import under the same passphrase as well
			m := &meta{Group: "chain", Desc: c.name, Expect: "same", b: &base{Class: c.name + "(same-q)", Core: false}}
			d.newCase(m, "chain", nil, false, pi, d.msg(crng))
			m.c.Pas2 = pi
			m.qClass = c.name + "(same-q)"
			chains = append(chains, m)
		}
		if len(c.p) == 0 {
			continue // the legacy derivation is undefined for the empty passphrase
		}
		priv := newKey(lrng)
		lf := sealLegacy(lrng, priv, c.p)
		ml := &meta{Group: "chain", Desc: c.name, Expect: "same", b: &base{Class: c.name, Core: c.core}}
		d.newCase(ml, "chain", lf, true, pi, d.msg(crng))
		ml.c.Pas2 = d.addPass(q)
		ml.c.Prior = (i + 2) % 5
		ml.c.Link, ml.c.Cap = (i+2)%4, chainCaps[(i+1)%len(chainCaps)]
		ml.qClass = cls[(i+1)%len(cls)].name
		legacyPriv[ml.c.ID] = priv
		chains = append(chains, ml)
	}
	// A legacy file sealed under 32 zero bytes (derived key = 32 zero bytes, the value a wiped key buffer has): any
	// implementation slip that uses a zeroed key opens exactly this file under every passphrase.
	{
		zp := make([]byte, 32)
		priv := newKey(lrng)
		ml := &meta{Group: "chain", Desc: "32-zero-bytes", Expect: "same", b: &base{Class: "32-zero-bytes", Core: false}}
		d.newCase(ml, "chain", sealLegacy(lrng, priv, zp), true, d.addPass(zp), d.msg(crng))
		ml.c.Pas2 = d.addPass(cls[1].p)
		ml.qClass = cls[1].name + "(from-zero-key-legacy)"
		legacyPriv[ml.c.ID] = priv
		chains = append(chains, ml)
	}
	run := func(ms []*meta) map[int]caseObs {
		pb, _ := json.Marshal(d.passes)
		_ = os.WriteFile(filepath.Join(dir, "passes.json"), pb, 0o644)
		cs := make([]*wireCase, len(ms))
		for i, m := range ms {
			cs[i] = m.c
		}
		res, restarts := runPool(dir, d.passes, cs)
		r.Count("child_restarts", int64(restarts))
		return res
	}
	res := run(chains)
	var bases []*base
	noLayout := 0
	for _, m := range chains {
		o, ok := res[m.c.ID]
		if !ok {
			r.Inconclusive(fmt.Sprintf("chain %d: no result", m.c.ID))
			continue
		}
		bs := d.judgeChain(m, o, legacyPriv[m.c.ID])
		for _, b := range bs {
			if strings.Contains(b.Name, "(same-q)") {
				continue
			}
			if k, ok := parseRef(b.File); ok && len(k.Enc) > 0 && len(k.Nonce) > 0 && bytes.Equal(k.Pub, b.Pub) {
				b.ref = k
				b.spans, _ = layoutOf(b.File)
			} else {
				// another layout (field names, value encoding, not JSON at all): the JSON-level mutation list and the
				// trigger-region classification need the layout; the byte-level mutations and truncations do not
				b.noLayout = true
				noLayout++
			}
			bases = append(bases, b)
			r.Count("genuine_files:"+b.Kind, 1)
		}
		r.Eval("chain|"+m.Desc+"|"+fmt.Sprint(m.c.Has), false, nil)
	}
	if noLayout > 0 {
		r.Inconclusive(fmt.Sprintf("%d of %d genuine key files are not in the JSON layout this check knows (priv_key_encrypted / nonce / pub_key / salt as base64 strings): the JSON-level mutation list was not applied to them, only byte-level corruptions and truncations", noLayout, len(bases)))
	}
	r.Set("genuine_file_length", func() map[string]int {
		o := map[string]int{}
		for _, b := range bases {
			o[b.Name] = len(b.File)
		}
		return o
	}())

	// ---- round 2: loads and exports over genuine and mutated files ------------------------------
	grng := r.Rand("cases")
	var cases []*meta
	for i, b := range bases {
		// another genuine file of the same kind (for foreign sealed keys) and a foreign public key
		var foreign *base
		for j := 1; j < len(bases); j++ {
			if o := bases[(i+j)%len(bases)]; o.Kind == b.Kind && !o.noLayout && !bytes.Equal(o.Pub, b.Pub) {
				foreign = o
				break
			}
		}
		foreignPub := []byte(newKey(grng).Public().(ed25519.PublicKey))
		// the genuine file once more, verbatim (trivial case)
		for _, op := range []string{"load", "export"} {
			if op == "export" && b.Priv == nil {
				continue
			}
			m := &meta{Group: "same-pass", Desc: "verbatim", Expect: "same", b: b}
			cases = append(cases, d.newCase(m, op, b.File, true, b.Pass, d.msg(grng)))
		}
		cases = append(cases, d.genWrongPass(grng, b)...)
		if !thorough && b.Kind == "imported" && b.Class != "empty" && b.Class != "32-bytes" && b.Class != "10000-bytes" {
			continue // quick: mutations on three of the six imported files
		}
		exportEvery := 6
		if thorough {
			exportEvery = 10
			if b.Core && (b.Class == "32-bytes" || b.Class == "empty") {
				exportEvery = 1
			}
		}
		cases = append(cases, d.genMutations(grng, b, foreign, foreignPub, exportEvery)...)
	}
	res = run(cases)
	outcomes := map[string]int64{}
	sampled := map[string]bool{}
	for _, m := range cases {
		o, ok := res[m.c.ID]
		if !ok {
			r.Inconclusive(fmt.Sprintf("case %d: no result", m.c.ID))
			continue
		}
		out := d.judge(m, o)
		reg := m.region()
		outcomes[m.Group+"/"+m.c.Op+"/"+reg+" -> "+out]++
		r.Count("cases:"+m.Group, 1)
		if reg != "clean" {
			r.Count("cases_in_"+reg, 1)
		} else {
			r.Count("cases_in_clean_region", 1)
		}
		var sample any
		sk := m.Group + "/" + out
		if !sampled[sk] {
			sampled[sk] = true
			sample = map[string]any{"base": m.b.Name, "op": m.c.Op, "group": m.Group, "mutation": m.Desc, "region": reg, "file": fmt.Sprintf("%q", trunc(m.c.File, 300)), "passphrase": passLabel(d.passes[m.c.Pass]), "outcome": out}
		}
		r.Eval(fmt.Sprintf("%s|%s|%s|%s|%s", m.b.Kind, m.b.Class, m.c.Op, m.Group, m.Desc), m.nontrivial, sample)
	}
	r.Set("outcomes", outcomes)

	n := int64(len(cls))
	r.Require("correct-passphrase-loads-same-key", 3*n)
	r.Require("signature-verifies", 4*n)
	r.Require("address-matches", 4*n)
	r.Require("address-matches-noop", n)
	r.Require("export-import-preserves-key", 2*n)
	r.Require("export-is-the-key", n)
	r.Require("import-from-a-buffer-with-spare-capacity", n/2)
	r.Require("key-file-behind-a-symbolic-link", n) // (a file system without symbolic links leaves this inconclusive)
	r.Require("file-hides-key", n)
	r.Require("file-mode-private", n)
	r.Require("wrong-passphrase-fails", 10*n)
	r.Require("mutation-fails-or-same-key", int64(r.N(1500, 20000)))
	r.Require("no-panic", int64(r.N(2000, 25000)))
}
