package c19

// Parent side of the crash isolation: a pool of child processes, each executing one case at a
// time. Before a case is handed to a child its id and input are appended to that worker's journal
// file; a child that dies is attributed to the journalled case that has no result yet.

import (
	"bufio"
	"encoding/json"
	"fmt"
	"io"
	"os"
	"os/exec"
	"path/filepath"
	"strings"
	"sync"
	"time"

	"verifharness/vk"
)

const workers = 16
const caseWatchdog = 4 * time.Minute

type worker struct {
	id      int
	dir     string
	passes  [][]byte
	cmd     *exec.Cmd
	stdin   io.WriteCloser
	lines   chan []byte
	errPath string
	journal *os.File
	starts  int
}

func (w *worker) start() error {
	w.starts++
	w.errPath = filepath.Join(w.dir, fmt.Sprintf("stderr-%d-%d.txt", w.id, w.starts))
	ef, err := os.Create(w.errPath)
	if err != nil {
		return err
	}
	cmd := exec.Command(vk.SelfExe(), "child", "c19", filepath.Join(w.dir, fmt.Sprintf("w%d", w.id)))
	cmd.Stderr = ef
	cmd.Env = append(os.Environ(), "GOTRACEBACK=all")
	stdin, err := cmd.StdinPipe()
	if err != nil {
		return err
	}
	stdout, err := cmd.StdoutPipe()
	if err != nil {
		return err
	}
	if err := cmd.Start(); err != nil {
		return err
	}
	ef.Close()
	w.cmd, w.stdin = cmd, stdin
	lines := make(chan []byte, 1)
	w.lines = lines
	go func() {
		rd := bufio.NewReaderSize(stdout, 1<<20)
		for {
			l, err := rd.ReadBytes('\n')
			if len(l) > 0 && l[len(l)-1] == '\n' {
				lines <- l
			}
			if err != nil {
				close(lines)
				return
			}
		}
	}()
	b, _ := json.Marshal(wireMsg{Passes: w.passes})
	_, err = stdin.Write(append(b, '\n'))
	return err
}

func (w *worker) stop() {
	if w.cmd == nil {
		return
	}
	_ = w.stdin.Close()
	done := make(chan struct{})
	go func() { _ = w.cmd.Wait(); close(done) }()
	select {
	case <-done:
	case <-time.After(10 * time.Second):
		_ = w.cmd.Process.Kill()
		<-done
	}
	w.cmd = nil
}

func (w *worker) stderrTail() string {
	b, _ := os.ReadFile(w.errPath)
	s := string(b)
	ls := strings.Split(s, "\n")
	// the first lines of a Go crash carry the reason; keep those and the first frames
	if len(ls) > 40 {
		ls = ls[:40]
	}
	return strings.Join(ls, "\n")
}

// exec1 runs one case in the worker's child and returns the observation.
func (w *worker) exec1(c *wireCase) caseObs {
	if w.cmd == nil {
		if err := w.start(); err != nil {
			return caseObs{ID: c.ID, Timeout: true, DiedText: "cannot start child: " + err.Error()}
		}
	}
	// journal first: the input about to be tried
	fmt.Fprintf(w.journal, "BEGIN id=%d op=%s pass=%d pass2=%d has=%v file=%s\n", c.ID, c.Op, c.Pass, c.Pas2, c.Has, vk.Hex(c.File))
	b, _ := json.Marshal(wireMsg{Case: c})
	if _, err := w.stdin.Write(append(b, '\n')); err != nil {
		// child already gone (died after the previous answer): restart once and retry
		w.kill()
		if err := w.start(); err != nil {
			return caseObs{ID: c.ID, Timeout: true, DiedText: "cannot restart child: " + err.Error()}
		}
		if _, err := w.stdin.Write(append(b, '\n')); err != nil {
			return caseObs{ID: c.ID, Timeout: true, DiedText: "cannot write to child: " + err.Error()}
		}
	}
	select {
	case l, ok := <-w.lines:
		if !ok {
			_ = w.cmd.Wait()
			w.cmd = nil
			fmt.Fprintf(w.journal, "DIED id=%d\n", c.ID)
			return caseObs{ID: c.ID, Died: true, DiedText: w.stderrTail()}
		}
		var o caseObs
		if err := json.Unmarshal(l, &o); err != nil || o.ID != c.ID {
			w.kill()
			return caseObs{ID: c.ID, Timeout: true, DiedText: fmt.Sprintf("protocol error: %v (%.200s)", err, l)}
		}
		fmt.Fprintf(w.journal, "END id=%d\n", c.ID)
		return o
	case <-time.After(caseWatchdog):
		w.kill()
		fmt.Fprintf(w.journal, "WATCHDOG id=%d\n", c.ID)
		return caseObs{ID: c.ID, Timeout: true, DiedText: "watchdog"}
	}
}

func (w *worker) kill() {
	if w.cmd != nil {
		_ = w.cmd.Process.Kill()
		_ = w.cmd.Wait()
		w.cmd = nil
	}
}

// runPool executes all cases on the pool and returns the observations by case id.
func runPool(dir string, passes [][]byte, cases []*wireCase) (map[int]caseObs, int) {
	res := make(map[int]caseObs, len(cases))
	var mu sync.Mutex
	ch := make(chan *wireCase)
	var wg sync.WaitGroup
	restarts := 0
	n := workers
	if len(cases) < n {
		n = len(cases)
	}
	for i := 0; i < n; i++ {
		wg.Add(1)
		go func(i int) {
			defer wg.Done()
			j, _ := os.OpenFile(filepath.Join(dir, fmt.Sprintf("journal-%d.txt", i)), os.O_CREATE|os.O_APPEND|os.O_WRONLY, 0o644)
			defer j.Close()
			w := &worker{id: i, dir: dir, passes: passes, journal: j}
			defer w.stop()
			for c := range ch {
				o := w.exec1(c)
				mu.Lock()
				res[c.ID] = o
				mu.Unlock()
			}
			mu.Lock()
			if w.starts > 1 {
				restarts += w.starts - 1
			}
			mu.Unlock()
		}(i)
	}
	for _, c := range cases {
		ch <- c
	}
	close(ch)
	wg.Wait()
	if restarts < 0 {
		restarts = 0
	}
	return res, restarts
}
