package c19

// Reference side of C19: everything here is written from the documented key-file format and
// shares no code with /repo/pkg/signer/file (standard library only).

import (
	"bytes"
	"crypto/aes"
	"crypto/cipher"
	"crypto/ed25519"
	"crypto/sha256"
	"encoding/base64"
	"encoding/hex"
	"encoding/json"
	"fmt"
	"math/rand"
	"strings"
)

// refKeyFile is the documented JSON layout of signer.json.
type refKeyFile struct {
	Enc   []byte `json:"priv_key_encrypted"`
	Nonce []byte `json:"nonce"`
	Pub   []byte `json:"pub_key"`
	Salt  []byte `json:"salt,omitempty"`
}

// parseRef decodes file bytes the way any Go reader of the documented format would.
func parseRef(b []byte) (refKeyFile, bool) {
	var k refKeyFile
	if err := json.Unmarshal(b, &k); err != nil {
		return refKeyFile{}, false
	}
	return k, true
}

// legacyKey is the documented derivation of the salt-less legacy format: the first 32 bytes of
// the passphrase, or - for a shorter one - the passphrase followed by passphrase[i mod len] XOR i.
// It is undefined for the empty passphrase.
func legacyKey(p []byte) []byte {
	if len(p) == 0 {
		return nil
	}
	k := make([]byte, 32)
	for i := 0; i < 32; i++ {
		if i < len(p) {
			k[i] = p[i]
		} else {
			k[i] = p[i%len(p)] ^ byte(i)
		}
	}
	return k
}

// sealLegacy produces a legacy (salt-less) key file for the 64-byte Ed25519 private key.
func sealLegacy(rng *rand.Rand, priv ed25519.PrivateKey, pass []byte) []byte {
	blk, err := aes.NewCipher(legacyKey(pass))
	if err != nil {
		panic(err)
	}
	gcm, err := cipher.NewGCM(blk)
	if err != nil {
		panic(err)
	}
	nonce := make([]byte, 12)
	rng.Read(nonce)
	enc := gcm.Seal(nil, nonce, []byte(priv), nil)
	return buildJSON([]jfield{
		{"priv_key_encrypted", b64(enc)},
		{"nonce", b64(nonce)},
		{"pub_key", b64([]byte(priv.Public().(ed25519.PublicKey)))},
	})
}

func newKey(rng *rand.Rand) ed25519.PrivateKey {
	seed := make([]byte, 32)
	rng.Read(seed)
	return ed25519.NewKeyFromSeed(seed)
}

func refAddress(pub []byte) []byte { h := sha256.Sum256(pub); return h[:] }

// ---- JSON text construction -------------------------------------------------------------

type jfield struct{ k, raw string }

func b64(b []byte) string { return `"` + base64.StdEncoding.EncodeToString(b) + `"` }

func buildJSON(fs []jfield) []byte {
	var sb strings.Builder
	sb.WriteByte('{')
	for i, f := range fs {
		if i > 0 {
			sb.WriteByte(',')
		}
		fmt.Fprintf(&sb, "%q:%s", f.k, f.raw)
	}
	sb.WriteByte('}')
	return []byte(sb.String())
}

func fieldsOf(k refKeyFile) []jfield {
	fs := []jfield{{"priv_key_encrypted", b64(k.Enc)}, {"nonce", b64(k.Nonce)}, {"pub_key", b64(k.Pub)}}
	if len(k.Salt) > 0 {
		fs = append(fs, jfield{"salt", b64(k.Salt)})
	}
	return fs
}

func withField(fs []jfield, name, raw string) []jfield {
	out := make([]jfield, 0, len(fs)+1)
	found := false
	for _, f := range fs {
		if f.k == name {
			out = append(out, jfield{name, raw})
			found = true
		} else {
			out = append(out, f)
		}
	}
	if !found {
		out = append(out, jfield{name, raw})
	}
	return out
}

func withoutField(fs []jfield, name string) []jfield {
	out := []jfield{}
	for _, f := range fs {
		if f.k != name {
			out = append(out, f)
		}
	}
	return out
}

// ---- layout of a canonical key file (for stratified sampling) ---------------------------

type span struct {
	name   string
	lo, hi int // [lo,hi)
}

// layoutOf splits a canonical key file into strata: the name and the value of each field and
// the structural characters. ok=false when the text is not in the canonical shape.
func layoutOf(b []byte) (spans []span, ok bool) {
	covered := make([]bool, len(b))
	for _, name := range []string{"priv_key_encrypted", "nonce", "pub_key", "salt"} {
		pat := []byte(`"` + name + `":"`)
		i := bytes.Index(b, pat)
		if i < 0 {
			if name == "salt" {
				continue
			}
			return nil, false
		}
		nlo, nhi := i+1, i+1+len(name)
		vlo := i + len(pat)
		j := bytes.IndexByte(b[vlo:], '"')
		if j < 0 {
			return nil, false
		}
		vhi := vlo + j
		spans = append(spans, span{"name:" + name, nlo, nhi}, span{"value:" + name, vlo, vhi})
		for x := nlo; x < nhi; x++ {
			covered[x] = true
		}
		for x := vlo; x < vhi; x++ {
			covered[x] = true
		}
	}
	// structural characters: everything else, as single-position spans grouped under one name
	for x := range b {
		if !covered[x] {
			spans = append(spans, span{"struct", x, x + 1})
		}
	}
	return spans, true
}

func regionOf(spans []span, pos int) string {
	for _, s := range spans {
		if pos >= s.lo && pos < s.hi {
			return s.name
		}
	}
	return "?"
}

// ---- passphrases ------------------------------------------------------------------------

type wrongPass struct {
	desc string
	b    []byte
}

func hasLetter(p []byte) int {
	for i, c := range p {
		if (c >= 'a' && c <= 'z') || (c >= 'A' && c <= 'Z') {
			return i
		}
	}
	return -1
}

// wrongPasses derives passphrases that differ from p in the ways a faulty comparison or a
// truncating / normalising derivation would confuse.
func wrongPasses(rng *rand.Rand, p []byte, thorough bool) []wrongPass {
	var out []wrongPass
	add := func(d string, b []byte) {
		if bytes.Equal(b, p) {
			return
		}
		for _, o := range out {
			if bytes.Equal(o.b, b) {
				return
			}
		}
		out = append(out, wrongPass{d, b})
	}
	cat := func(a []byte, b ...byte) []byte { return append(append([]byte{}, a...), b...) }
	rnd := func(n int) []byte { b := make([]byte, n); rng.Read(b); return b }
	if len(p) == 0 {
		add("one-zero-byte", []byte{0})
		add("space", []byte(" "))
		add("random-8", rnd(8))
		if thorough {
			add("32-zero-bytes", make([]byte, 32))
			add("newline", []byte("\n"))
		}
		return out
	}
	add("empty", []byte{})
	add("append-00", cat(p, 0))
	add("drop-last", cat(p[:len(p)-1]))
	fl := cat(p)
	fl[0] ^= 1
	add("flip-first-bit", fl)
	fl = cat(p)
	fl[len(p)-1] ^= 0x80
	add("flip-last-bit", fl)
	add("doubled", cat(p, p...))
	z := make([]byte, len(p))
	add("zeros-same-length", z)
	add("random-same-length", rnd(len(p)))
	if len(p) > 32 {
		add("prefix-32", cat(p[:32]))
	}
	if len(p) > 8 {
		add("prefix-8", cat(p[:8]))
	}
	if i := hasLetter(p); i >= 0 {
		c := cat(p)
		c[i] ^= 0x20
		add("case-swap", c)
	}
	if thorough {
		add("append-space", cat(p, ' '))
		add("prepend-00", append([]byte{0}, p...))
		fl = cat(p)
		fl[len(p)/2] ^= 0x10
		add("flip-middle-bit", fl)
		add("random-other-length", rnd(len(p)+1+rng.Intn(7)))
		if len(p) > 64 {
			add("prefix-64", cat(p[:64]))
		}
		if len(p) > 1 {
			add("drop-first", cat(p[1:]))
		}
	}
	return out
}

func passLabel(p []byte) string {
	h := sha256.Sum256(p)
	return fmt.Sprintf("len=%d sha256=%s", len(p), hex.EncodeToString(h[:6]))
}
