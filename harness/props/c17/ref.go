package c17

import (
	"context"
	"sort"
	"sync"
	"time"
)

// refLoop is the calibration reference of the cadence clauses: a goroutine of this very process that does nothing but
// what the statement describes - start a "production" (a sleep of the scenario's production duration) when a runtime
// timer fires and re-arm the timer so that the next start lies one interval after this start (at once when the
// production took longer). It shares no code with /repo. Whatever the machine's load does to timers and to the
// scheduling of goroutines in this process during a measurement window it does to this loop as well, so "the node
// produced far fewer blocks than the reference loop ticked in the same window" is not an artefact of load.
type refLoop struct {
	mu     sync.Mutex
	starts []time.Time
}

func startRef(ctx context.Context, interval, dur time.Duration) *refLoop {
	rl := &refLoop{}
	go func() {
		t := time.NewTimer(0)
		defer t.Stop()
		for {
			select {
			case <-ctx.Done():
				return
			case <-t.C:
			}
			start := time.Now()
			rl.mu.Lock()
			rl.starts = append(rl.starts, start)
			rl.mu.Unlock()
			if dur > 0 {
				select {
				case <-time.After(dur):
				case <-ctx.Done():
					return
				}
			}
			rem := interval - time.Since(start)
			if rem < 0 {
				rem = 0
			}
			t.Reset(rem)
		}
	}()
	return rl
}

// between counts the reference starts inside [a, b].
func (rl *refLoop) between(a, b time.Time) int {
	rl.mu.Lock()
	defer rl.mu.Unlock()
	return countBetween(rl.starts, a, b)
}

func countBetween(ts []time.Time, a, b time.Time) int {
	n := 0
	for _, t := range ts {
		if !t.Before(a) && !t.After(b) {
			n++
		}
	}
	return n
}

func within(ts []time.Time, a, b time.Time) []time.Time {
	var out []time.Time
	for _, t := range ts {
		if !t.Before(a) && !t.After(b) {
			out = append(out, t)
		}
	}
	return out
}

// medianGap returns the median start-to-start gap (0 when there are fewer than two starts).
func medianGap(ts []time.Time) time.Duration {
	if len(ts) < 2 {
		return 0
	}
	g := make([]time.Duration, 0, len(ts)-1)
	for i := 1; i < len(ts); i++ {
		g = append(g, ts[i].Sub(ts[i-1]))
	}
	sort.Slice(g, func(i, j int) bool { return g[i] < g[j] })
	return g[len(g)/2]
}

// sleepOvershoot is the calibration reference of the latency clause: k goroutines started at the notification
// instant t0 sleep one block interval each; the result is by how much the slowest of them came back late, measured
// from t0 (so it includes the time the runtime needed to get a freshly runnable goroutine onto a processor).
func sleepOvershoot(t0 time.Time, d time.Duration, k int) <-chan time.Duration {
	out := make(chan time.Duration, 1)
	var mu sync.Mutex
	var worst time.Duration
	var wg sync.WaitGroup
	for i := 0; i < k; i++ {
		wg.Add(1)
		go func() {
			defer wg.Done()
			time.Sleep(d)
			o := time.Since(t0) - d
			mu.Lock()
			if o > worst {
				worst = o
			}
			mu.Unlock()
		}()
	}
	go func() { wg.Wait(); out <- worst }()
	return out
}
