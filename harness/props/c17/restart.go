package c17

import (
	"context"
	"fmt"
	"time"

	"verifharness/vk"
	"verifharness/world"
)

// runRestart: "never faster than one block per block interval" also holds across a restart of the production loop. A
// real aggregator (real production, sequencing double stamping batches with the wall clock) produces a block; right
// after it the production loop is stopped and a new one is started on the same node (lazy or normal mode). The new loop
// must wait out the rest of the block interval that began with the last block: the time from that block to the next one
// is measured on the chain-height changes and must not fall below 3/4 of the block interval in the majority of samples
// (timers never fire early, so load cannot produce a short gap - only the polling skew of about a millisecond).
func runRestart(r *vk.Run, c Case) *obs {
	o := &obs{}
	block := time.Duration(c.BlockMs) * time.Millisecond
	bg := context.Background()
	seq := world.NewSeqDouble()
	seq.Auto = func(n int) *world.SeqResp { return &world.SeqResp{Kind: world.SeqEmpty, Time: time.Now()} }
	lazy := c.Variant == "lazy"
	n, err := world.NewNode(bg, world.NodeOpts{Aggregator: true, Lazy: lazy, BlockTime: block, LazyInterval: 3 * block, GenesisTime: time.Now().Add(-time.Hour)},
		world.NewKeys("proposer"), world.NewMemDS(world.NewImage()), world.NewExecDouble(), seq, world.NewDADouble(), nil)
	if err != nil {
		r.Violation("startup", err.Error(), c)
		return o
	}
	height := func() uint64 { h, _ := n.Store.Height(bg); return h }
	waitHeight := func(h uint64, d time.Duration) (time.Time, bool) {
		deadline := time.Now().Add(d)
		for time.Now().Before(deadline) {
			if height() >= h {
				return time.Now(), true
			}
			time.Sleep(200 * time.Microsecond)
		}
		return time.Time{}, false
	}
	startLoop := func() (context.CancelFunc, chan struct{}) {
		ctx, cancel := context.WithCancel(bg)
		done := make(chan struct{})
		errCh := make(chan error, 4)
		go func() { n.M.AggregationLoop(ctx, errCh); close(done) }()
		return cancel, done
	}
	cancel, done := startLoop()
	defer func() {
		cancel()
		select {
		case <-done:
		case <-time.After(lostWatchdog):
		}
	}()
	short, samples := 0, 0
	var gaps []int64
	for s := 0; s < 5; s++ {
		h := height()
		tPrev, ok := waitHeight(h+1, lostWatchdog)
		if !ok {
			o.inconclusive("restart scenario: no block within the watchdog")
			return o
		}
		// restart the production loop right after this block
		cancel()
		select {
		case <-done:
		case <-time.After(lostWatchdog):
			o.inconclusive("restart scenario: the production loop did not stop")
			return o
		}
		cancel, done = startLoop()
		if lazy && c.Storm {
			n.M.NotifyNewTransactions()
		}
		tNext, ok := waitHeight(h+2, lostWatchdog)
		if !ok {
			o.inconclusive("restart scenario: no block after the restart within the watchdog")
			return o
		}
		samples++
		gap := tNext.Sub(tPrev)
		gaps = append(gaps, gap.Milliseconds())
		r.Hit("min-gap-across-restart")
		if gap < block*3/4 {
			short++
		}
	}
	if short >= 3 {
		o.cand("min-gap", fmt.Sprintf("%d of %d times the first block after a restart of the production loop (%s mode) came less than 3/4 of a block interval (%v) after the last block before it; gaps in ms: %v", short, samples, c.Variant, block, gaps),
			map[string]any{"case": c, "gaps_ms": gaps})
	} else if short > 0 {
		r.Count("isolated_early_gaps_not_judged", int64(short))
	}
	return o
}
