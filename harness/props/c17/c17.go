// Package c17 decides C17 (see /verif/DESIGN.md §7).
package c17

import "verifharness/vk"

// Level is the verification level claimed for this property.
const Level = "exploration"

// Run is the check entry point.
func Run(r *vk.Run) {
	r.Rule = "not implemented yet"
}
