// Package c17 decides C17: lazy mode produces on demand and on the idle interval, never loses a wake-up.
package c17

import (
	"context"
	"fmt"
	"math/rand"
	"sync"
	"time"

	"verifharness/vk"
	"verifharness/world"
)

// Level is the verification level claimed for this property.
const Level = "exploration"

// Case is one timing scenario.
type Case struct {
	ID      int    `json:"id"`
	Kind    string `json:"kind"` // inflight | ondemand | idle | normal
	BlockMs int    `json:"block_interval_ms"`
	Ratio   int    `json:"idle_to_block_ratio"`
	ProdPct int    `json:"production_duration_pct_of_block"`
	Offsets []int  `json:"notification_offsets_pct_of_block"`
	Storm   bool   `json:"notification_storm"`
	// RatioPct (afteridle): idle interval in percent of the block interval (150, 250, 350: the idle ticks do not fall
	// on multiples of the block interval)
	RatioPct int `json:"idle_to_block_ratio_pct,omitempty"`
}

func (c Case) key() string {
	return fmt.Sprintf("%s b%d r%d/%d p%d %v s%v", c.Kind, c.BlockMs, c.Ratio, c.RatioPct, c.ProdPct, c.Offsets, c.Storm)
}

// recorder replaces the production function: it logs starts and ends and can hold a production in flight.
type recorder struct {
	mu     sync.Mutex
	starts []time.Time
	ends   []time.Time
	dur    time.Duration
	hold   chan struct{} // when non-nil, a production blocks until it can receive
	cond   *sync.Cond
}

func newRecorder(dur time.Duration) *recorder {
	r := &recorder{dur: dur}
	r.cond = sync.NewCond(&r.mu)
	return r
}

func (r *recorder) publish(ctx context.Context) error {
	r.mu.Lock()
	r.starts = append(r.starts, time.Now())
	hold := r.hold
	r.cond.Broadcast()
	r.mu.Unlock()
	if hold != nil {
		select {
		case <-hold:
		case <-ctx.Done():
		}
	} else if r.dur > 0 {
		select {
		case <-time.After(r.dur):
		case <-ctx.Done():
		}
	}
	r.mu.Lock()
	r.ends = append(r.ends, time.Now())
	r.cond.Broadcast()
	r.mu.Unlock()
	return nil
}

func (r *recorder) nStarts() int {
	r.mu.Lock()
	defer r.mu.Unlock()
	return len(r.starts)
}

// waitStarts waits until at least n productions have started; false = watchdog.
func (r *recorder) waitStarts(n int, d time.Duration) bool {
	deadline := time.Now().Add(d)
	for {
		if r.nStarts() >= n {
			return true
		}
		if time.Now().After(deadline) {
			return false
		}
		time.Sleep(200 * time.Microsecond)
	}
}

func (r *recorder) waitEnds(n int, d time.Duration) bool {
	deadline := time.Now().Add(d)
	for {
		r.mu.Lock()
		k := len(r.ends)
		r.mu.Unlock()
		if k >= n {
			return true
		}
		if time.Now().After(deadline) {
			return false
		}
		time.Sleep(200 * time.Microsecond)
	}
}

const lostWatchdog = 15 * time.Second

func startNode(ctx context.Context, c Case, rec *recorder) (*world.Node, chan struct{}, error) {
	block := time.Duration(c.BlockMs) * time.Millisecond
	lazy := time.Duration(c.Ratio) * block
	if c.Kind == "inflight" {
		lazy = time.Hour
	}
	if c.RatioPct > 0 {
		lazy = block * time.Duration(c.RatioPct) / 100
	}
	n, err := world.NewNode(ctx, world.NodeOpts{Aggregator: true, Lazy: c.Kind != "normal", BlockTime: block, LazyInterval: lazy},
		world.NewKeys("proposer"), world.NewMemDS(world.NewImage()), world.NewExecDouble(), world.NewSeqDouble(), world.NewDADouble(), nil)
	if err != nil {
		return nil, nil, err
	}
	n.M.VerifSetPublishBlock(rec.publish)
	done := make(chan struct{})
	errCh := make(chan error, 1)
	go func() {
		n.M.AggregationLoop(ctx, errCh)
		close(done)
	}()
	return n, done, nil
}

func run(r *vk.Run, c Case) {
	ctx, cancel := context.WithCancel(context.Background())
	block := time.Duration(c.BlockMs) * time.Millisecond
	rec := newRecorder(block * time.Duration(c.ProdPct) / 100)
	if c.Kind == "inflight" {
		rec.hold = make(chan struct{})
	}
	n, done, err := startNode(ctx, c, rec)
	if err != nil {
		cancel()
		r.Violation("startup", err.Error(), c)
		return
	}
	defer func() {
		cancel()
		if rec.hold != nil {
			close(rec.hold)
		}
		select {
		case <-done:
		case <-time.After(lostWatchdog):
			r.Inconclusive("aggregation loop did not stop within the watchdog")
		}
	}()
	wit := func(extra string) any {
		rec.mu.Lock()
		defer rec.mu.Unlock()
		var rel []float64
		for _, s := range rec.starts {
			rel = append(rel, float64(s.Sub(rec.starts[0]).Microseconds())/1000)
		}
		return map[string]any{"case": c, "production_starts_ms": rel, "note": extra}
	}
	switch c.Kind {
	case "inflight":
		// production i is held in flight; a notification arrives; after release a further production must start
		if !rec.waitStarts(1, lostWatchdog) {
			r.Inconclusive("first production never started")
			return
		}
		for i, off := range c.Offsets {
			have := rec.nStarts()
			// notification(s) while production `have` is in flight
			time.Sleep(block * time.Duration(off) / 100)
			n.M.NotifyNewTransactions()
			if off%2 == 1 {
				n.M.NotifyNewTransactions() // a second one right behind
			}
			rec.hold <- struct{}{} // release the production in flight
			r.Hit("no-lost-wakeup")
			if !rec.waitStarts(have+1, lostWatchdog) {
				r.Violation("no-lost-wakeup", fmt.Sprintf("a notification arrived while production #%d was in flight (offset %d%% of the block interval); the idle interval is 1 h; no further production started within %v after that production finished", have, off, lostWatchdog), wit(fmt.Sprintf("round %d", i)))
				return
			}
			r.Count("inflight_notifications_followed_by_block", 1)
		}
		// and without a notification nothing more is produced (idle interval 1 h): observe two block intervals
		have := rec.nStarts()
		rec.hold <- struct{}{}
		time.Sleep(3 * block)
		r.Hit("no-spurious-block")
		if rec.nStarts() > have {
			r.Violation("no-spurious-block", "a block was produced in lazy mode without a notification and long before the idle interval", wit(""))
		}
	case "ondemand":
		if !rec.waitStarts(1, lostWatchdog) || !rec.waitEnds(1, lostWatchdog) {
			r.Inconclusive("first production did not finish")
			return
		}
		early, late, lost := 0, 0, 0
		for _, off := range c.Offsets {
			have := rec.nStarts()
			rec.mu.Lock()
			prevStart := rec.starts[have-1]
			rec.mu.Unlock()
			time.Sleep(block * time.Duration(off) / 100)
			if rec.nStarts() != have {
				continue // the idle timer produced meanwhile; this sample says nothing
			}
			t0 := time.Now()
			n.M.NotifyNewTransactions()
			if !rec.waitStarts(have+1, lostWatchdog) {
				lost++
				break
			}
			rec.mu.Lock()
			st := rec.starts[have]
			rec.mu.Unlock()
			r.Hit("on-demand")
			lat := st.Sub(t0)
			gap := st.Sub(prevStart)
			r.Count("ondemand_samples", 1)
			if gap < block/2 {
				early++
			}
			// one block interval, plus a production that may have been in flight, plus generous scheduling slack
			if lat > 3*block+rec.dur+50*time.Millisecond {
				late++
			}
			rec.waitEnds(have+1, lostWatchdog)
		}
		if lost > 0 {
			r.Violation("on-demand", "a notification in lazy mode was not followed by a block within the watchdog", wit(""))
			return
		}
		r.Hit("min-gap")
		if early >= 3 {
			r.Violation("min-gap", fmt.Sprintf("%d of %d on-demand blocks started less than half a block interval after the previous block started", early, len(c.Offsets)), wit(""))
		} else if early > 0 {
			r.Count("isolated_early_gaps_not_judged", int64(early))
		}
		// "within one block interval" is only meaningful when the idle timer is far away
		if c.Ratio >= 20 {
			r.Hit("on-demand-latency")
			if late >= 3 {
				r.Violation("on-demand-latency", fmt.Sprintf("%d of %d notifications were followed by a block only after more than three block intervals", late, len(c.Offsets)), wit(""))
			} else if late > 0 {
				r.Count("isolated_late_blocks_not_judged", int64(late))
			}
		}
	case "afteridle":
		// a notification arrives shortly after (even offsets) or shortly before (odd offsets) a block that the idle timer
		// produced: the block it is entitled to must still keep one block interval from that idle block
		if !rec.waitStarts(1, lostWatchdog) || !rec.waitEnds(1, lostWatchdog) {
			r.Inconclusive("first production did not finish")
			return
		}
		idle := block * time.Duration(c.RatioPct) / 100
		early, samples := 0, 0
		for _, off := range c.Offsets {
			have := rec.nStarts()
			if off%2 == 1 {
				// shortly before the idle tick that follows block `have`
				rec.mu.Lock()
				last := rec.starts[have-1]
				rec.mu.Unlock()
				time.Sleep(time.Until(last.Add(idle - block*time.Duration(off)/100)))
				if rec.nStarts() != have {
					continue
				}
				n.M.NotifyNewTransactions()
				if !rec.waitStarts(have+2, lostWatchdog) {
					r.Violation("on-demand", "a notification shortly before an idle tick was not followed by blocks within the watchdog", wit(""))
					return
				}
			} else {
				// wait for the idle block, then notify shortly after it started
				if !rec.waitStarts(have+1, lostWatchdog) {
					r.Inconclusive("no idle block within the watchdog")
					return
				}
				time.Sleep(block * time.Duration(off) / 100)
				n.M.NotifyNewTransactions()
				if !rec.waitStarts(have+2, lostWatchdog) {
					r.Violation("on-demand", "a notification shortly after an idle block was not followed by a block within the watchdog", wit(""))
					return
				}
			}
			rec.mu.Lock()
			g1 := rec.starts[have].Sub(rec.starts[have-1])
			g2 := rec.starts[have+1].Sub(rec.starts[have])
			rec.mu.Unlock()
			samples++
			r.Hit("min-gap-around-idle-block")
			if g1 < block*3/4 || g2 < block*3/4 {
				early++
			}
			rec.waitEnds(have+2, lostWatchdog)
		}
		if early >= 3 {
			r.Violation("min-gap", fmt.Sprintf("%d of %d times two blocks started less than 3/4 of a block interval apart around a block produced by the idle timer (block interval %v, idle interval %v)", early, samples, block, idle), wit(""))
		} else if early > 0 {
			r.Count("isolated_early_gaps_not_judged", int64(early))
		}
	case "stream":
		// notifications keep arriving closer together than one block interval: each of them is entitled to a block
		// within one block interval, so blocks must keep coming at the block cadence (the idle timer is far away)
		if !rec.waitStarts(1, lostWatchdog) || !rec.waitEnds(1, lostWatchdog) {
			r.Inconclusive("first production did not finish")
			return
		}
		time.Sleep(2 * block)
		have := rec.nStarts()
		gap := block * time.Duration(c.Offsets[0]) / 100
		window := 12 * block
		t0 := time.Now()
		for time.Since(t0) < window {
			n.M.NotifyNewTransactions()
			time.Sleep(gap)
		}
		got := rec.nStarts() - have
		nominal := int(time.Since(t0) / block)
		r.Hit("stream-not-starved")
		r.Count("stream_blocks_observed", int64(got))
		switch {
		case got == 0:
			r.Violation("stream-not-starved", fmt.Sprintf("notifications every %v for %v (block interval %v, idle interval %v) and not a single block was produced", gap, time.Since(t0), block, time.Duration(c.Ratio)*block), wit(""))
		case got < nominal/4:
			r.Inconclusive(fmt.Sprintf("stream: only %d blocks in %d block intervals (machine load?)", got, nominal))
		case got > nominal+2:
			r.Violation("cadence-upper", fmt.Sprintf("%d blocks in %d block intervals under a notification stream", got, nominal), wit(""))
		}
	case "idle", "normal":
		interval := block
		if c.Kind == "idle" {
			interval = time.Duration(c.Ratio) * block
		}
		if !rec.waitStarts(1, lostWatchdog) {
			r.Inconclusive("first production never started")
			return
		}
		stop := make(chan struct{})
		if c.Storm {
			go func() {
				for {
					select {
					case <-stop:
						return
					default:
						n.M.NotifyNewTransactions()
						time.Sleep(500 * time.Microsecond)
					}
				}
			}()
		}
		window := 24 * interval
		t0 := time.Now()
		have := rec.nStarts()
		time.Sleep(window)
		got := rec.nStarts() - have
		elapsed := time.Since(t0)
		close(stop)
		nominal := int(elapsed / interval)
		r.Hit("cadence")
		r.Count("cadence_blocks_observed", int64(got))
		// timers never fire early: more blocks than elapsed/interval (+2) cannot come from load
		if got > nominal+2 {
			r.Violation("cadence-upper", fmt.Sprintf("%d blocks in %v with an interval of %v (at most %d expected)", got, elapsed, interval, nominal+2), wit(""))
		}
		if got < nominal/3 {
			if got == 0 {
				r.Violation("cadence-lower", fmt.Sprintf("no block in %v with an interval of %v", elapsed, interval), wit(""))
			} else {
				r.Inconclusive(fmt.Sprintf("only %d blocks in %v at interval %v (machine load?)", got, elapsed, interval))
			}
		}
	}
	r.Eval(c.key(), len(c.Offsets) > 0 || c.Storm, c)
}

// Run is the check entry point.
func Run(r *vk.Run) {
	world.Silence()
	r.Rule = "the real AggregationLoop with the production function replaced by a recorder (the package's own test seam); scenarios: (inflight) lazy mode, idle interval 1 h, a production is held in flight, notifications arrive at swept offsets, after release a further production must start; (ondemand) lazy mode, block interval 20|50 ms, idle/block ratio 2|4|20, production duration 0|50|200 % of the block interval, 8 notifications at swept offsets: each must be followed by a block, gaps below half a block interval and latencies above three block intervals are judged only when they occur in >= 3 of 8 samples; (stream) notifications every 0.2-0.7 block intervals for 12 block intervals with the idle interval 40x away: blocks must keep coming; (afteridle) lazy mode, block interval 30|40 ms, idle interval 1.5|2.5|3.5 block intervals, 8 notifications placed 4-33 % of a block interval after the start of an idle-timer block or before the next idle tick: the two gaps around that block must not fall below 3/4 of a block interval in >= 3 of 8 samples; (idle) no notifications, ratio 1|2|4: block count over 24 idle intervals; (normal) normal mode with and without a notification storm: block count over 24 block intervals. non-trivial = at least one notification; distinct by parameter tuple"
	r.Assume("decisions rest on real time only where load can merely make the implementation look better (timers never fire early; a production that does not start within 15 s although the idle interval is 1 h was not going to start); isolated early/late samples are counted, not judged")
	rng := r.Rand("cases")
	var cases []Case
	id := 0
	add := func(c Case) { c.ID = id; id++; cases = append(cases, c) }
	sweeps := r.N(3, 40)
	for k := 0; k < sweeps; k++ {
		for _, b := range []int{10, 25} {
			var offs []int
			for j := 0; j < 6; j++ {
				offs = append(offs, rng.Intn(200))
			}
			add(Case{Kind: "inflight", BlockMs: b, Ratio: 0, Offsets: offs})
		}
	}
	for k := 0; k < r.N(1, 12); k++ {
		for _, b := range []int{20, 50} {
			for _, ratio := range []int{2, 4, 20} {
				for _, pp := range []int{0, 50, 200} {
					var offs []int
					for j := 0; j < 8; j++ {
						if j%8 < 5 {
							offs = append(offs, 5+rng.Intn(36)) // soon after the previous block started
						} else {
							offs = append(offs, 60+rng.Intn(120))
						}
					}
					rng.Shuffle(len(offs), func(a, b int) { offs[a], offs[b] = offs[b], offs[a] })
					add(Case{Kind: "ondemand", BlockMs: b, Ratio: ratio, ProdPct: pp, Offsets: offs})
				}
			}
		}
	}
	for k := 0; k < r.N(2, 16); k++ {
		for _, rp := range []int{150, 250, 350} {
			var offs []int
			for j := 0; j < 8; j++ {
				offs = append(offs, 4+rng.Intn(30))
			}
			add(Case{Kind: "afteridle", BlockMs: []int{30, 40}[k%2], RatioPct: rp, ProdPct: []int{0, 30}[k%2], Offsets: offs})
		}
	}
	for k := 0; k < r.N(2, 24); k++ {
		add(Case{Kind: "stream", BlockMs: []int{25, 50}[k%2], Ratio: 40, Offsets: []int{20 + rng.Intn(50)}, ProdPct: []int{0, 50}[k%2]})
	}
	for k := 0; k < r.N(1, 10); k++ {
		for _, ratio := range []int{1, 2, 4} {
			add(Case{Kind: "idle", BlockMs: 10, Ratio: ratio, ProdPct: []int{0, 50}[k%2]})
		}
		add(Case{Kind: "normal", BlockMs: 20, Storm: false})
		add(Case{Kind: "normal", BlockMs: 20, Storm: true})
		add(Case{Kind: "normal", BlockMs: 10, Storm: true, ProdPct: 50})
	}
	var wg sync.WaitGroup
	ch := make(chan Case)
	for w := 0; w < 6; w++ {
		wg.Add(1)
		go func() {
			defer wg.Done()
			for c := range ch {
				run(r, c)
			}
		}()
	}
	for _, c := range cases {
		ch <- c
	}
	close(ch)
	wg.Wait()
	r.Require("no-lost-wakeup", 10)
	r.Require("on-demand", 40)
	r.Require("cadence", 4)
}

var _ = rand.Int
