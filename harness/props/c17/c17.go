// Package c17 decides C17: lazy mode produces on demand and on the idle interval, never loses a wake-up.
package c17

import (
	"context"
	"fmt"
	"os"
	"strings"
	"sync"
	"time"

	"verifharness/vk"
	"verifharness/world"
)

// Level is the verification level claimed for this property.
const Level = "exploration"

// Case is one timing scenario.
type Case struct {
	ID      int    `json:"id"`
	Kind    string `json:"kind"` // inflight | ondemand | latency | afteridle | stream | idle | normal | overrun | reaper
	BlockMs int    `json:"block_interval_ms"`
	Ratio   int    `json:"idle_to_block_ratio"`
	ProdPct int    `json:"production_duration_pct_of_block"`
	Offsets []int  `json:"notification_offsets_pct_of_block"`
	Storm   bool   `json:"notification_storm"`
	// RatioPct (afteridle): idle interval in percent of the block interval (150, 250, 350: the idle ticks do not fall
	// on multiples of the block interval)
	RatioPct int `json:"idle_to_block_ratio_pct,omitempty"`
	// Variant (reaper): plain | held-submit | failing-submit | pair
	Variant string `json:"variant,omitempty"`
	// SlowPct (overrun): durations, in percent of the block interval, of the few productions that overrun the interval;
	// all other productions of the run take ProdPct
	SlowPct []int `json:"slow_production_pct_of_block,omitempty"`
}

func (c Case) key() string {
	k := fmt.Sprintf("%s b%d r%d/%d p%d %v s%v %s", c.Kind, c.BlockMs, c.Ratio, c.RatioPct, c.ProdPct, c.Offsets, c.Storm, c.Variant)
	if len(c.SlowPct) > 0 {
		k += fmt.Sprintf(" slow%v", c.SlowPct)
	}
	return k
}

// recorder replaces the production function: it logs starts and ends and can hold a production in flight.
type recorder struct {
	mu     sync.Mutex
	starts []time.Time
	ends   []time.Time
	dur    time.Duration
	hold   chan struct{} // when non-nil, a production blocks until it can receive
	// slow: productions (by call index) that take this long instead of dur
	slow map[int]time.Duration
}

func newRecorder(dur time.Duration) *recorder { return &recorder{dur: dur} }

func (r *recorder) publish(ctx context.Context) error {
	now := time.Now() // taken before the lock: the driver polls under the same lock
	r.mu.Lock()
	dur := r.dur
	if d, ok := r.slow[len(r.starts)]; ok {
		dur = d
	}
	r.starts = append(r.starts, now)
	hold := r.hold
	r.mu.Unlock()
	if hold != nil {
		select {
		case <-hold:
		case <-ctx.Done():
		}
	} else if dur > 0 {
		select {
		case <-time.After(dur):
		case <-ctx.Done():
		}
	}
	now = time.Now()
	r.mu.Lock()
	r.ends = append(r.ends, now)
	r.mu.Unlock()
	return nil
}

func (r *recorder) nStarts() int {
	r.mu.Lock()
	defer r.mu.Unlock()
	return len(r.starts)
}

func (r *recorder) start(i int) time.Time {
	r.mu.Lock()
	defer r.mu.Unlock()
	return r.starts[i]
}

func (r *recorder) end(i int) time.Time {
	r.mu.Lock()
	defer r.mu.Unlock()
	return r.ends[i]
}

func (r *recorder) allStarts() []time.Time {
	r.mu.Lock()
	defer r.mu.Unlock()
	return append([]time.Time(nil), r.starts...)
}

// waitStarts waits until at least n productions have started; false = watchdog.
func (r *recorder) waitStarts(n int, d time.Duration) bool {
	deadline := time.Now().Add(d)
	for {
		if r.nStarts() >= n {
			return true
		}
		if time.Now().After(deadline) {
			return false
		}
		time.Sleep(200 * time.Microsecond)
	}
}

func (r *recorder) waitEnds(n int, d time.Duration) bool {
	deadline := time.Now().Add(d)
	for {
		r.mu.Lock()
		k := len(r.ends)
		r.mu.Unlock()
		if k >= n {
			return true
		}
		if time.Now().After(deadline) {
			return false
		}
		time.Sleep(200 * time.Microsecond)
	}
}

const lostWatchdog = 15 * time.Second

func (c Case) intervals() (block, idle time.Duration) {
	block = time.Duration(c.BlockMs) * time.Millisecond
	idle = time.Duration(c.Ratio) * block
	if c.Kind == "inflight" || c.Kind == "reaper" {
		idle = time.Hour
	}
	if c.RatioPct > 0 {
		idle = block * time.Duration(c.RatioPct) / 100
	}
	return
}

func startNode(ctx context.Context, c Case, rec *recorder) (*world.Node, chan struct{}, error) {
	block, lazy := c.intervals()
	n, err := world.NewNode(ctx, world.NodeOpts{Aggregator: true, Lazy: c.Kind != "normal" && c.Kind != "overrun", BlockTime: block, LazyInterval: lazy},
		world.NewKeys("proposer"), world.NewMemDS(world.NewImage()), world.NewExecDouble(), world.NewSeqDouble(), world.NewDADouble(), nil)
	if err != nil {
		return nil, nil, err
	}
	n.M.VerifSetPublishBlock(rec.publish)
	done := make(chan struct{})
	errCh := make(chan error, 1)
	go func() {
		n.M.AggregationLoop(ctx, errCh)
		close(done)
	}()
	return n, done, nil
}

// cand is a time-based violation candidate. Such a candidate becomes a violation only when an immediate repetition of
// the same scenario yields a candidate of the same clause again (a changed re-arming rule shows every time, a burst of
// machine load does not).
type cand struct {
	clause, detail string
	wit            any
}

// obs is what one execution of a scenario observed besides the verdicts that are facts (those go to vk.Run directly).
type obs struct {
	cands   []cand
	inconc  []string
	refWeak bool // the calibration reference itself stayed below nominal: the sample says nothing about lower bounds
}

func (o *obs) cand(clause, detail string, wit any) {
	o.cands = append(o.cands, cand{clause, detail, wit})
}
func (o *obs) inconclusive(s string) { o.inconc = append(o.inconc, s) }

func pct(d, of time.Duration) int64 { return int64(d * 100 / of) }

// shortGap is the smallest start-to-start distance not counted as "faster than one per block interval". Timers never
// fire early and both timers are re-armed relative to the start of the production, so the only thing that can shorten
// an observed gap below the block interval is the skew between the loop's own clock reading and the recorder's
// (normally microseconds): 5 % of the interval is allowed for it.
func shortGap(block time.Duration) time.Duration { return block - block/20 }

func runOnce(r *vk.Run, c Case) *obs {
	o := &obs{}
	ctx, cancel := context.WithCancel(context.Background())
	block, idleIv := c.intervals()
	rec := newRecorder(block * time.Duration(c.ProdPct) / 100)
	if c.Kind == "overrun" {
		rec.slow = map[int]time.Duration{}
		for k, p := range c.SlowPct {
			rec.slow[overrunFirst+k*overrunEvery] = block * time.Duration(p) / 100
		}
	}
	if c.Kind == "inflight" {
		rec.hold = make(chan struct{})
	}
	n, done, err := startNode(ctx, c, rec)
	if err != nil {
		cancel()
		r.Violation("startup", err.Error(), c)
		return o
	}
	defer func() {
		cancel()
		if rec.hold != nil {
			close(rec.hold)
		}
		select {
		case <-done:
		case <-time.After(lostWatchdog):
			o.inconclusive("aggregation loop did not stop within the watchdog")
		}
	}()
	wit := func(extra string) any {
		st := rec.allStarts()
		var rel []float64
		for _, s := range st {
			rel = append(rel, float64(s.Sub(st[0]).Microseconds())/1000)
		}
		return map[string]any{"case": c, "production_starts_ms": rel, "note": extra}
	}
	switch c.Kind {
	case "inflight":
		// production i is held in flight; a notification arrives; after release a further production must start
		if !rec.waitStarts(1, lostWatchdog) {
			o.inconclusive("first production never started")
			return o
		}
		double := false
		for i, off := range c.Offsets {
			have := rec.nStarts()
			// notification(s) while production `have` is in flight
			time.Sleep(block * time.Duration(off) / 100)
			n.M.NotifyNewTransactions()
			if off%2 == 1 {
				double = true
				n.M.NotifyNewTransactions() // a second one right behind
			}
			rec.hold <- struct{}{} // release the production in flight
			r.Hit("no-lost-wakeup")
			if !rec.waitStarts(have+1, lostWatchdog) {
				r.Violation("no-lost-wakeup", fmt.Sprintf("a notification arrived while production #%d was in flight (offset %d%% of the block interval); the idle interval is 1 h; no further production started within %v after that production finished", have, off, lostWatchdog), wit(fmt.Sprintf("round %d", i)))
				return o
			}
			r.Count("inflight_notifications_followed_by_block", 1)
		}
		// and without a notification nothing more is produced (idle interval 1 h): observe three block intervals. Only
		// where every round sent exactly one notification: whether two notifications during one production are worth
		// one further block or two is not fixed by the statement.
		if !double {
			have := rec.nStarts()
			rec.hold <- struct{}{}
			time.Sleep(3 * block)
			r.Hit("no-spurious-block")
			if rec.nStarts() > have {
				r.Violation("no-spurious-block", "a block was produced in lazy mode without a notification and long before the idle interval", wit(""))
			}
		}
	case "ondemand", "latency":
		if !rec.waitStarts(1, lostWatchdog) || !rec.waitEnds(1, lostWatchdog) {
			o.inconclusive("first production did not finish")
			return o
		}
		early, late, lost, samples := 0, 0, 0, 0
		var lats []string
		for _, off := range c.Offsets {
			have := rec.nStarts()
			prevStart := rec.start(have - 1)
			if c.Kind == "latency" {
				// offset counted from the start of the previous production (well after its end)
				time.Sleep(time.Until(prevStart.Add(block * time.Duration(off) / 100)))
			} else {
				// offset counted from the end of the previous production
				time.Sleep(block * time.Duration(off) / 100)
			}
			if rec.nStarts() != have {
				continue // the idle timer produced meanwhile; this sample says nothing
			}
			t0 := time.Now()
			ov := sleepOvershoot(t0, block, 3)
			n.M.NotifyNewTransactions()
			if !rec.waitStarts(have+1, lostWatchdog) {
				lost++
				break
			}
			st := rec.start(have)
			r.Hit("on-demand")
			// a production that was in flight at the notification (one the idle timer had just started) comes first:
			// the block interval then counts from its end
			base := t0
			if e := rec.end(have - 1); e.After(t0) {
				base = e
				r.Count("ondemand_samples_with_production_in_flight", 1)
			}
			lat := st.Sub(base)
			gap := st.Sub(prevStart)
			over := <-ov
			samples++
			r.Count("ondemand_samples", 1)
			if gap < shortGap(block) {
				early++
			}
			// "within one block interval": any production start counts (also one the idle timer triggers). The budget
			// is the block interval plus what a plain sleep of one block interval started at the same instant in this
			// process overshot plus a quarter of the interval for the extra goroutine hand-overs of the loop.
			if lat > block+over+block/4 {
				late++
				lats = append(lats, fmt.Sprintf("offset %d%%: latency %.1f ms, reference sleep overshoot %.1f ms", off, float64(lat.Microseconds())/1000, float64(over.Microseconds())/1000))
			}
			rec.waitEnds(have+1, lostWatchdog)
		}
		if lost > 0 {
			r.Violation("on-demand", "a notification in lazy mode was not followed by a block within the watchdog", wit(""))
			return o
		}
		r.Hit("min-gap")
		if early >= 3 {
			o.cand("min-gap", fmt.Sprintf("%d of %d on-demand blocks started less than 95 %% of a block interval (%v) after the previous block started", early, samples, block), wit(""))
		} else if early > 0 {
			r.Count("isolated_early_gaps_not_judged", int64(early))
		}
		if samples >= 3 {
			r.Hit("on-demand-latency")
		}
		if late >= 3 {
			o.cand("on-demand-latency", fmt.Sprintf("%d of %d notifications were followed by the next production start later than one block interval (%v) + the overshoot of a reference sleep of one block interval started at the notification + a quarter interval: %v", late, samples, block, lats), wit(""))
		} else if late > 0 {
			r.Count("isolated_late_blocks_not_judged", int64(late))
		}
	case "afteridle":
		// a notification arrives shortly after (even offsets) or shortly before (odd offsets) a block that the idle timer
		// produced: the block it is entitled to must still keep one block interval from that idle block
		if !rec.waitStarts(1, lostWatchdog) || !rec.waitEnds(1, lostWatchdog) {
			o.inconclusive("first production did not finish")
			return o
		}
		early, samples := 0, 0
		for _, off := range c.Offsets {
			have := rec.nStarts()
			if off%2 == 1 {
				// shortly before the idle tick that follows block `have`
				last := rec.start(have - 1)
				time.Sleep(time.Until(last.Add(idleIv - block*time.Duration(off)/100)))
				if rec.nStarts() != have {
					continue
				}
				n.M.NotifyNewTransactions()
				if !rec.waitStarts(have+2, lostWatchdog) {
					r.Violation("on-demand", "a notification shortly before an idle tick was not followed by blocks within the watchdog", wit(""))
					return o
				}
			} else {
				// wait for the idle block, then notify shortly after it started
				if !rec.waitStarts(have+1, lostWatchdog) {
					o.inconclusive("no idle block within the watchdog")
					return o
				}
				time.Sleep(block * time.Duration(off) / 100)
				n.M.NotifyNewTransactions()
				if !rec.waitStarts(have+2, lostWatchdog) {
					r.Violation("on-demand", "a notification shortly after an idle block was not followed by a block within the watchdog", wit(""))
					return o
				}
			}
			g1 := rec.start(have).Sub(rec.start(have - 1))
			g2 := rec.start(have + 1).Sub(rec.start(have))
			samples++
			r.Hit("min-gap-around-idle-block")
			if g1 < shortGap(block) || g2 < shortGap(block) {
				early++
			}
			rec.waitEnds(have+2, lostWatchdog)
		}
		if early >= 3 {
			o.cand("min-gap", fmt.Sprintf("%d of %d times two blocks started less than 95 %% of a block interval apart around a block produced by the idle timer (block interval %v, idle interval %v)", early, samples, block, idleIv), wit(""))
		} else if early > 0 {
			r.Count("isolated_early_gaps_not_judged", int64(early))
		}
	case "stream":
		// notifications keep arriving closer together than one block interval: each of them is entitled to a block
		// within one block interval, so blocks must keep coming at the block cadence (the idle timer is far away)
		ref := startRef(ctx, block, rec.dur)
		if !rec.waitStarts(1, lostWatchdog) || !rec.waitEnds(1, lostWatchdog) {
			o.inconclusive("first production did not finish")
			return o
		}
		time.Sleep(2 * block)
		gap := block * time.Duration(c.Offsets[0]) / 100
		window := 12 * block
		t0 := time.Now()
		for time.Since(t0) < window {
			n.M.NotifyNewTransactions()
			time.Sleep(gap)
		}
		t1 := time.Now()
		node := within(rec.allStarts(), t0, t1)
		got, refN := len(node), ref.between(t0, t1)
		nominal := int(t1.Sub(t0) / block)
		r.Hit("stream-not-starved")
		r.Count("stream_blocks_observed", int64(got))
		r.Count("stream_reference_ticks", int64(refN))
		judgeUpper(o, node, block, fmt.Sprintf("under a notification stream (one every %v)", gap), wit)
		if refN*10 < nominal*8 {
			o.refWeak = true
		} else if got*2 < refN {
			// every notification is entitled to a block within one block interval: with notifications `gap` apart
			// two block starts are at most block+gap < 2 block intervals apart, i.e. at least half the reference count
			o.cand("stream-not-starved", fmt.Sprintf("notifications every %v for %v (block interval %v, idle interval %v): %d blocks were produced while a reference timer loop re-armed at the block interval ticked %d times in the same window", gap, t1.Sub(t0), block, idleIv, got, refN), wit(""))
		}
	case "idle", "normal":
		interval := block
		if c.Kind == "idle" {
			interval = idleIv
		}
		period := interval // what the statement lets one expect between two starts
		if rec.dur > period {
			period = rec.dur
		}
		ref := startRef(ctx, interval, rec.dur)
		if !rec.waitStarts(1, lostWatchdog) {
			o.inconclusive("first production never started")
			return o
		}
		stop := make(chan struct{})
		if c.Storm {
			go func() {
				for {
					select {
					case <-stop:
						return
					default:
						n.M.NotifyNewTransactions()
						time.Sleep(500 * time.Microsecond)
					}
				}
			}()
		}
		window := 24 * period
		t0 := time.Now()
		time.Sleep(window)
		t1 := time.Now()
		close(stop)
		node := within(rec.allStarts(), t0, t1)
		got, refN := len(node), ref.between(t0, t1)
		nominal := int(t1.Sub(t0) / period)
		r.Hit("cadence")
		r.Count("cadence_blocks_observed", int64(got))
		r.Count("cadence_reference_ticks", int64(refN))
		what := fmt.Sprintf("%s mode, interval %v, production duration %v", map[bool]string{true: "lazy (no notifications)", false: "normal"}[c.Kind == "idle"], interval, rec.dur)
		if c.Storm {
			what += ", notification storm"
		}
		judgeUpper(o, node, interval, "in "+what, wit)
		// lower bound, calibrated: the reference loop lives in this process and is re-armed by the same rule; the node
		// must reach 70 % of what the reference reached in the same window (50 % where the production overruns the
		// interval: a loop that waits for its next grid point after an overrun is not excluded by the statement)
		need := 70
		if rec.dur > interval {
			need = 50
		}
		switch {
		case refN*10 < nominal*8:
			o.refWeak = true
		case got*100 < refN*need:
			med := medianGap(node)
			if rec.dur <= interval && len(node) >= 4 && med <= interval+interval*4/10 {
				// few blocks but the typical gap is right: some long stalls, i.e. load
				r.Count("cadence_low_count_with_nominal_median_gap_not_judged", 1)
				break
			}
			o.cand("cadence-lower", fmt.Sprintf("%d blocks in %v in %s, while a reference timer loop in the same process, re-armed one interval after each start, ticked %d times in the same window (nominal %d); median gap between blocks %v", got, t1.Sub(t0), what, refN, nominal, med), wit(""))
		default:
			r.Hit("cadence-lower")
		}
	case "overrun":
		// normal mode; a few productions overrun the block interval by whole intervals, all others are short. "Once per
		// block interval" also holds for the blocks that follow an overrun: the time an overrun took is gone, it is not owed.
		// Judged on a fact load cannot fake: three blocks started within less than one block interval. (Two can be: a
		// loop that paces itself by a fixed-phase ticker starts the block that is overdue and the next one at its grid
		// point; that conforms and is why single short gaps are not judged here.) The first timer re-arm is at least one
		// interval after the start it follows and timers do not fire early, so on a loop that re-arms relative to its
		// last start - or to the next point of a fixed grid - three starts span two intervals whatever the load is.
		stop := make(chan struct{})
		defer close(stop)
		if c.Storm {
			go func() {
				for {
					select {
					case <-stop:
						return
					default:
						n.M.NotifyNewTransactions()
						time.Sleep(500 * time.Microsecond)
					}
				}
			}()
		}
		total := overrunFirst + len(c.SlowPct)*overrunEvery
		if !rec.waitStarts(total, lostWatchdog) {
			o.cand("cadence-lower", fmt.Sprintf("normal mode, block interval %v, productions %d.. of which %d overran the interval: only %d blocks started within %v (nominal %v)", block, total, len(c.SlowPct), rec.nStarts(), lostWatchdog, time.Duration(total)*block), wit(""))
			return o
		}
		st := rec.allStarts()
		bursts := 0
		var notes []string
		for k := range c.SlowPct {
			s := overrunFirst + k*overrunEvery // index of the production that overran
			r.Hit("no-burst-after-overrun")
			short, burst := 0, false
			for j := s + 1; j < s+overrunEvery && j < len(st); j++ {
				if st[j].Sub(st[j-1]) < shortGap(block) {
					short++
				}
				if j+1 < s+overrunEvery && j+1 < len(st) && j > s+1 && st[j+1].Sub(st[j-1]) < shortGap(block) {
					burst = true
				}
			}
			r.Count("start_to_start_gaps_after_overrun_measured", int64(overrunEvery-1))
			r.Count("short_gaps_after_overrun", int64(short))
			if burst {
				bursts++
				notes = append(notes, fmt.Sprintf("production #%d took %d %% of the interval; starts after it (ms after its end): %s", s, c.SlowPct[k], relMs(st[s+1:s+overrunEvery], rec.end(s))))
			}
		}
		if bursts*2 > len(c.SlowPct) {
			o.cand("no-burst-after-overrun", fmt.Sprintf("normal mode, block interval %v: after %d of %d productions that overran the interval three or more blocks were started within less than 95 %% of ONE block interval (blocks are to be produced once per block interval): %v", block, bursts, len(c.SlowPct), notes), wit("overran: productions #"+fmt.Sprint(overrunIdx(len(c.SlowPct)))))
		} else if bursts > 0 {
			r.Count("isolated_bursts_after_overrun_not_judged", int64(bursts))
		}
	}
	// every lazy-mode scenario: start-to-start gaps over the whole run (also from an on-demand block to a following
	// idle block). Not in normal mode: there the statement fixes the rate ("once per block interval"), which the mean-gap
	// bound above judges; a fixed-phase ticker, whose individual gaps shrink after a late start, conforms to it.
	if st := rec.allStarts(); len(st) >= 2 && c.Kind != "normal" && c.Kind != "overrun" {
		short := 0
		minG := time.Hour
		for i := 1; i < len(st); i++ {
			g := st[i].Sub(st[i-1])
			if g < minG {
				minG = g
			}
			if g < shortGap(block) {
				short++
			}
		}
		r.Hit("min-gap-all-starts")
		r.Count("start_to_start_gaps_measured", int64(len(st)-1))
		if short >= 3 {
			o.cand("min-gap", fmt.Sprintf("%d of %d start-to-start gaps in this scenario were shorter than 95 %% of the block interval %v (smallest %v)", short, len(st)-1, block, minG), wit(""))
		} else if short > 0 {
			r.Count("isolated_early_gaps_not_judged", int64(short))
		}
	}
	return o
}

// overrun scenario: production #overrunFirst and every overrunEvery-th after it overrun the block interval
const (
	overrunFirst = 3
	overrunEvery = 8
)

func overrunIdx(n int) []int {
	var ix []int
	for k := 0; k < n; k++ {
		ix = append(ix, overrunFirst+k*overrunEvery)
	}
	return ix
}

func relMs(ts []time.Time, base time.Time) string {
	var b []string
	for _, t := range ts {
		b = append(b, fmt.Sprintf("%.1f", float64(t.Sub(base).Microseconds())/1000))
	}
	return "[" + strings.Join(b, " ") + "]"
}

// judgeUpper is the exact upper cadence bound on the recorder's own timestamps: n gaps cannot span less than n
// intervals, because every re-arm is at least one interval after the start it follows and timers do not fire early
// (5 % allowed for the skew of the first timestamp).
func judgeUpper(o *obs, node []time.Time, interval time.Duration, what string, wit func(string) any) {
	if len(node) < 9 {
		return
	}
	gaps := len(node) - 1
	span := node[len(node)-1].Sub(node[0])
	if span < time.Duration(gaps)*shortGap(interval) {
		o.cand("cadence-upper", fmt.Sprintf("%d consecutive blocks started within %v %s: that is one per %v on average", gaps+1, span, what, span/time.Duration(gaps)), wit(""))
	}
}

// run executes one scenario, repeats it when the calibration reference was itself held up, and turns time-based
// candidates into violations only when an immediate repetition shows the same clause again.
func run(r *vk.Run, c Case) {
	if c.Kind == "reaper" {
		runReaper(r, c)
		r.Eval(c.key(), true, c)
		return
	}
	once := func() *obs {
		if c.Kind == "restart" {
			return runRestart(r, c)
		}
		o := runOnce(r, c)
		for k := 0; o.refWeak && k < 4; k++ {
			r.Count("reruns_because_reference_below_nominal", 1)
			time.Sleep(time.Duration(50*(k+1)) * time.Millisecond)
			o = runOnce(r, c)
		}
		return o
	}
	o := once()
	if len(o.cands) > 0 {
		o2 := once()
		o.inconc = append(o.inconc, o2.inconc...)
		o.refWeak = o.refWeak && o2.refWeak
		for _, a := range o.cands {
			var again *cand
			for i := range o2.cands {
				if o2.cands[i].clause == a.clause {
					again = &o2.cands[i]
					break
				}
			}
			if again == nil {
				r.Count("time_based_candidates_not_reproduced", 1)
				r.Count("not_reproduced_"+a.clause, 1)
				fmt.Fprintf(os.Stderr, "C17 candidate not reproduced: %s %s: %s\n", c.key(), a.clause, a.detail)
				continue
			}
			r.Violation(a.clause, a.detail+" || immediate repetition of the scenario: "+again.detail, map[string]any{"first": a.wit, "repetition": again.wit})
		}
	}
	if o.refWeak {
		o.inconclusive(fmt.Sprintf("%s: the reference timer loop stayed below 80 %% of nominal in five attempts (machine load); lower cadence bound not judged", c.key()))
	}
	for _, s := range o.inconc {
		r.Inconclusive(s)
	}
	r.Eval(c.key(), len(c.Offsets) > 0 || c.Storm || len(c.SlowPct) > 0, c)
}

// Run is the check entry point.
func Run(r *vk.Run) {
	world.Silence()
	r.Rule = "the real AggregationLoop with the production function replaced by a recorder (the package's own test seam); scenarios: (inflight) lazy mode, idle interval 1 h, a production is held in flight, notifications arrive at swept offsets, after release a further production must start; (ondemand) lazy mode, block interval 20|50 ms, idle/block ratio 2|4|20, production duration 0|50|200 % of the block interval, 8 notifications at swept offsets after the end of the previous production; (latency) block interval 40 ms, ratio 6|20|40, production 0|50 %, 8 notifications 1.1-1.7 and 3.1-3.7 block intervals after the previous start (after one or three empty ticks); in both every notification must be followed by a block, a start-to-start gap below 95 % of the block interval or a latency above block interval + reference sleep overshoot + 25 % is a candidate when it occurs in >= 3 of 8 samples; (stream) notifications every 0.2-0.7 block intervals for 12 block intervals with the idle interval 40x away; (afteridle) block interval 30|40 ms, idle interval 1.5|2.5|3.5 block intervals, 8 notifications 4-33 % of a block interval after the start of an idle-timer block or before the next idle tick; (idle) no notifications, ratio 1|2|4, production 0|50|150 %: blocks over 24 periods; (normal) normal mode with and without a notification storm, production 0|50|120|200 %: blocks over 24 periods; lower bounds are relative to a reference timer loop running in the same process over the same window; (overrun) normal mode, block interval 20|30 ms, productions of 0|30 % of the interval except three that take 2.2-2.8, 3.2-3.8 and 4.2-4.8 intervals, with and without a notification storm: three block starts within less than 95 % of ONE block interval after a majority of the overruns is a candidate (a single short gap after an overrun - a fixed-phase ticker - is not); (reaper) the real block.Reaper polls an execution double's mempool and submits to a queueing sequencer, real production, idle interval 1 h: an injected transaction must end up in a block. Time-based candidates count only when an immediate repetition of the scenario reproduces them. non-trivial = at least one notification; distinct by parameter tuple"
	r.Assume("decisions rest on real time only where load can merely make the implementation look better (timers never fire early; a production that does not start within 15 s although the idle interval is 1 h was not going to start) or relative to a reference measured in the same process over the same window (a timer loop re-armed by the stated rule; a plain sleep of one block interval started at the notification instant); a sample whose reference is itself below 80 % of nominal is repeated and finally inconclusive; isolated early/late samples are counted, not judged; a time-based candidate must reproduce on an immediate repetition of the scenario")
	rng := r.Rand("cases")
	var cases []Case
	id := 0
	add := func(c Case) { c.ID = id; id++; cases = append(cases, c) }
	sweeps := r.N(3, 40)
	for k := 0; k < sweeps; k++ {
		for bi, b := range []int{10, 25} {
			var offs []int
			for j := 0; j < 6; j++ {
				off := rng.Intn(200)
				if (k+bi)%3 == 0 {
					off &^= 1 // single notifications only: this case also observes "nothing without a notification"
				}
				offs = append(offs, off)
			}
			add(Case{Kind: "inflight", BlockMs: b, Ratio: 0, Offsets: offs})
		}
	}
	for k := 0; k < r.N(1, 12); k++ {
		for _, b := range []int{20, 50} {
			for _, ratio := range []int{2, 4, 20} {
				for _, pp := range []int{0, 50, 200} {
					var offs []int
					for j := 0; j < 8; j++ {
						if j%8 < 5 {
							offs = append(offs, 5+rng.Intn(36)) // soon after the previous block
						} else {
							offs = append(offs, 60+rng.Intn(120))
						}
					}
					rng.Shuffle(len(offs), func(a, b int) { offs[a], offs[b] = offs[b], offs[a] })
					add(Case{Kind: "ondemand", BlockMs: b, Ratio: ratio, ProdPct: pp, Offsets: offs})
				}
			}
		}
		for _, ratio := range []int{6, 20, 40} {
			for _, pp := range []int{0, 50} {
				var offs []int
				for j := 0; j < 8; j++ {
					// after the first (110-170 %) or the third (310-370 %) empty tick that followed the previous block
					offs = append(offs, []int{110, 310}[j%2]+rng.Intn(61))
				}
				rng.Shuffle(len(offs), func(a, b int) { offs[a], offs[b] = offs[b], offs[a] })
				add(Case{Kind: "latency", BlockMs: 40, Ratio: ratio, ProdPct: pp, Offsets: offs})
			}
		}
	}
	for k := 0; k < r.N(2, 16); k++ {
		for _, rp := range []int{150, 250, 350} {
			var offs []int
			for j := 0; j < 8; j++ {
				offs = append(offs, 4+rng.Intn(30))
			}
			add(Case{Kind: "afteridle", BlockMs: []int{30, 40}[k%2], RatioPct: rp, ProdPct: []int{0, 30}[k%2], Offsets: offs})
		}
	}
	for k := 0; k < r.N(2, 24); k++ {
		add(Case{Kind: "stream", BlockMs: []int{25, 50}[k%2], Ratio: 40, Offsets: []int{20 + rng.Intn(50)}, ProdPct: []int{0, 50}[k%2]})
	}
	for k := 0; k < r.N(1, 10); k++ {
		add(Case{Kind: "idle", BlockMs: 20, Ratio: 1, ProdPct: 0})
		add(Case{Kind: "idle", BlockMs: 10, Ratio: 2, ProdPct: 50})
		add(Case{Kind: "idle", BlockMs: 10, Ratio: 4, ProdPct: 0})
		add(Case{Kind: "idle", BlockMs: 20, Ratio: 1, ProdPct: 120 + rng.Intn(81)}) // longer than both intervals
		add(Case{Kind: "idle", BlockMs: 10, Ratio: 4, ProdPct: 120 + rng.Intn(81)}) // longer than the block interval only
		add(Case{Kind: "normal", BlockMs: 20, Storm: false})
		add(Case{Kind: "normal", BlockMs: 20, Storm: true})
		add(Case{Kind: "normal", BlockMs: 20, Storm: true, ProdPct: 50})
		add(Case{Kind: "normal", BlockMs: 20, Storm: false, ProdPct: 120 + rng.Intn(81)})
		add(Case{Kind: "normal", BlockMs: 20, Storm: true, ProdPct: 120 + rng.Intn(81)})
	}
	for k := 0; k < r.N(1, 6); k++ {
		for _, v := range []string{"plain", "held-submit", "failing-submit", "pair"} {
			add(Case{Kind: "reaper", BlockMs: []int{10, 25}[k%2], Variant: v, ProdPct: []int{0, 150}[k%2]})
		}
	}
	for k := 0; k < r.N(1, 6); k++ {
		add(Case{Kind: "restart", BlockMs: 120, Variant: "lazy"})
		add(Case{Kind: "restart", BlockMs: 120, Variant: "lazy", Storm: true})
		add(Case{Kind: "restart", BlockMs: 120, Variant: "normal"})
	}
	// generated last: the cases above are the same as before these existed
	for k := 0; k < r.N(2, 16); k++ {
		for _, b := range []int{20, 30} {
			slow := []int{220 + rng.Intn(61), 320 + rng.Intn(61), 420 + rng.Intn(61)}
			rng.Shuffle(len(slow), func(a, b int) { slow[a], slow[b] = slow[b], slow[a] })
			add(Case{Kind: "overrun", BlockMs: b, ProdPct: []int{0, 30}[k%2], Storm: (k+b/10)%2 == 0, SlowPct: slow})
		}
	}
	var wg sync.WaitGroup
	ch := make(chan Case)
	for w := 0; w < 6; w++ {
		wg.Add(1)
		go func() {
			defer wg.Done()
			for c := range ch {
				run(r, c)
			}
		}()
	}
	for _, c := range cases {
		ch <- c
	}
	close(ch)
	wg.Wait()
	r.Require("no-lost-wakeup", 10)
	r.Require("on-demand", 40)
	r.Require("on-demand-latency", 6)
	r.Require("cadence", 4)
	r.Require("cadence-lower", 3)
	r.Require("reaper-notify", 3)
	r.Require("no-burst-after-overrun", 6)
}
