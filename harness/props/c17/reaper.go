package c17

import (
	"bytes"
	"context"
	"errors"
	"fmt"
	"sync"
	"time"

	logging "github.com/ipfs/go-log/v2"

	"github.com/evstack/ev-node/block"
	coresequencer "github.com/evstack/ev-node/core/sequencer"

	"verifharness/vk"
	"verifharness/world"
)

// queueSeq is a minimal sequencing layer: what was submitted successfully is handed out, in order, by the next
// GetNextBatch. Submissions can be scripted to fail once or to stay in flight until the driver releases them.
type queueSeq struct {
	mu       sync.Mutex
	queue    [][]byte
	accepted [][]byte // every tx of a SubmitBatchTxs call that returned success
	nBatch   int
	failNext int           // the next n submissions fail
	hold     chan struct{} // when non-nil a submission waits here before it takes effect
	inSubmit int
}

func (s *queueSeq) SubmitBatchTxs(ctx context.Context, req coresequencer.SubmitBatchTxsRequest) (*coresequencer.SubmitBatchTxsResponse, error) {
	s.mu.Lock()
	if s.failNext > 0 {
		s.failNext--
		s.mu.Unlock()
		return nil, errors.New("verif: sequencing layer unavailable")
	}
	hold := s.hold
	s.inSubmit++
	s.mu.Unlock()
	if hold != nil {
		select {
		case <-hold:
		case <-ctx.Done():
			s.mu.Lock()
			s.inSubmit--
			s.mu.Unlock()
			return nil, ctx.Err()
		}
	}
	s.mu.Lock()
	defer s.mu.Unlock()
	s.inSubmit--
	if req.Batch != nil {
		for _, tx := range req.Batch.Transactions {
			s.queue = append(s.queue, append([]byte{}, tx...))
			s.accepted = append(s.accepted, append([]byte{}, tx...))
		}
	}
	return &coresequencer.SubmitBatchTxsResponse{}, nil
}

func (s *queueSeq) GetNextBatch(ctx context.Context, req coresequencer.GetNextBatchRequest) (*coresequencer.GetNextBatchResponse, error) {
	s.mu.Lock()
	defer s.mu.Unlock()
	txs := s.queue
	s.queue = nil
	s.nBatch++
	return &coresequencer.GetNextBatchResponse{
		Batch:     &coresequencer.Batch{Transactions: txs},
		Timestamp: time.Now(),
		BatchData: [][]byte{[]byte(fmt.Sprintf("verif-batch-%d", s.nBatch))},
	}, nil
}

func (s *queueSeq) VerifyBatch(ctx context.Context, req coresequencer.VerifyBatchRequest) (*coresequencer.VerifyBatchResponse, error) {
	return &coresequencer.VerifyBatchResponse{Status: true}, nil
}

func (s *queueSeq) submitting() int {
	s.mu.Lock()
	defer s.mu.Unlock()
	return s.inSubmit
}

func (s *queueSeq) hasAccepted(tx []byte) bool {
	s.mu.Lock()
	defer s.mu.Unlock()
	for _, a := range s.accepted {
		if bytes.Equal(a, tx) {
			return true
		}
	}
	return false
}

func executed(e *world.ExecDouble, tx []byte) bool {
	for _, c := range e.Execs() {
		if c.Err != "" {
			continue
		}
		for _, t := range c.Txs {
			if bytes.Equal(t, tx) {
				return true
			}
		}
	}
	return false
}

func waitFor(d time.Duration, f func() bool) bool {
	deadline := time.Now().Add(d)
	for {
		if f() {
			return true
		}
		if time.Now().After(deadline) {
			return false
		}
		time.Sleep(500 * time.Microsecond)
	}
}

// runReaper drives the notification path the node really uses: the real block.Reaper polls the execution layer's
// mempool, submits what is new to the sequencing layer and notifies the manager; the real lazy aggregation loop with
// the real production function runs with an idle interval of 1 h. A transaction the sequencing layer has accepted
// must end up in an executed block; with the idle timer an hour away only a notification that arrives after the
// acceptance can cause that. No timing verdict: the watchdog is 15 s for something due within two block intervals.
func runReaper(r *vk.Run, c Case) {
	ctx, cancel := context.WithCancel(context.Background())
	defer cancel()
	blockIv, idle := c.intervals()
	exec := world.NewExecDouble()
	exec.CallDelay = blockIv * time.Duration(c.ProdPct) / 100 / 2 // ExecuteTxs and SetFinal each take that long
	seq := &queueSeq{}
	ds := world.NewMemDS(world.NewImage())
	n, err := world.NewNode(ctx, world.NodeOpts{Aggregator: true, Lazy: true, BlockTime: blockIv, LazyInterval: idle, GenesisTime: time.Now().Add(-time.Hour)},
		world.NewKeys("proposer"), ds, exec, seq, world.NewDADouble(), nil)
	if err != nil {
		r.Violation("startup", err.Error(), c)
		return
	}
	reaper := block.NewReaper(ctx, exec, seq, n.Genesis.ChainID, blockIv/2, logging.Logger("verif-reaper"), world.NewMemDS(world.NewImage()))
	reaper.SetManager(n.M)
	var wg sync.WaitGroup
	errCh := make(chan error, 4)
	wg.Add(2)
	go func() { defer wg.Done(); n.M.AggregationLoop(ctx, errCh) }()
	go func() { defer wg.Done(); reaper.Start(ctx) }()
	defer func() {
		cancel()
		stopped := make(chan struct{})
		go func() { wg.Wait(); close(stopped) }()
		select {
		case <-stopped:
		case <-time.After(lostWatchdog):
			r.Inconclusive("reaper scenario: loops did not stop within the watchdog")
		}
	}()
	// the start-up block (idle timer armed with 0)
	if !waitFor(lostWatchdog, func() bool { h, err := n.Store.Height(ctx); return err == nil && h >= n.Genesis.InitialHeight }) {
		r.Inconclusive("reaper scenario: no start-up block within the watchdog")
		return
	}
	wit := func(round int, txs [][]byte, note string) any {
		var ex []string
		for _, e := range exec.Execs() {
			ex = append(ex, fmt.Sprintf("height %d: %d txs err=%q", e.Height, len(e.Txs), e.Err))
		}
		var loopErr string
		select {
		case e := <-errCh:
			loopErr = e.Error()
		default:
		}
		h, _ := n.Store.Height(ctx)
		return map[string]any{"case": c, "round": round, "injected": fmt.Sprintf("%q", txs), "executed_blocks": ex, "store_height": h, "aggregation_loop_error": loopErr, "note": note}
	}
	for round := 0; round < 3; round++ {
		var txs [][]byte
		k := 1
		if c.Variant == "pair" && round%2 == 0 {
			k = 2
		}
		for i := 0; i < k; i++ {
			txs = append(txs, []byte(fmt.Sprintf("c17-reaper-%d-%d-%d", c.ID, round, i)))
		}
		var hold chan struct{}
		seq.mu.Lock()
		switch c.Variant {
		case "held-submit":
			hold = make(chan struct{})
			seq.hold = hold
		case "failing-submit":
			seq.failNext = 1 + round%2
		}
		seq.mu.Unlock()
		exec.Inject(txs...)
		if hold != nil {
			// the submission stays in flight for four block intervals: a notification sent before the sequencing
			// layer has the transactions is used up by then
			if !waitFor(lostWatchdog, func() bool { return seq.submitting() > 0 }) {
				r.Inconclusive("reaper scenario: the reaper did not submit the injected transaction within the watchdog")
				return
			}
			time.Sleep(4 * blockIv)
			seq.mu.Lock()
			seq.hold = nil
			seq.mu.Unlock()
			close(hold)
		}
		if !waitFor(lostWatchdog, func() bool {
			for _, tx := range txs {
				if !seq.hasAccepted(tx) {
					return false
				}
			}
			return true
		}) {
			// getting the transaction to the sequencing layer is not this property's subject
			r.Inconclusive("reaper scenario: the sequencing layer never accepted the injected transaction")
			return
		}
		r.Hit("reaper-notify")
		for _, tx := range txs {
			tx := tx
			if !waitFor(lostWatchdog, func() bool { return executed(exec, tx) }) {
				r.Violation("reaper-notify", fmt.Sprintf("lazy mode, idle interval 1 h, block interval %v: transaction %q was put into the execution layer's mempool, the real reaper submitted it and the sequencing layer accepted it (variant %s), but no block containing it was produced within %v: the manager was not notified after the transaction became available", blockIv, tx, c.Variant, lostWatchdog), wit(round, txs, ""))
				return
			}
		}
		r.Count("reaper_transactions_followed_by_block", int64(len(txs)))
		time.Sleep(blockIv * time.Duration(30+40*round) / 100)
	}
}
