// Package c02 decides C02: a full node converges to exactly the proposer's chain under any delivery order.
package c02

import (
	"context"
	"fmt"
	"math/rand"
	"os"
	"sort"
	"strings"
	"sync"

	"verifharness/monitors"
	"verifharness/vk"
	"verifharness/world"
)

// Level is the verification level claimed for this property.
const Level = "exploration"

// Sched is one delivery schedule for one chain.
type Sched struct {
	ID      int            `json:"id"`
	Chain   int            `json:"chain"`
	Shape   string         `json:"shape"`
	Actions []world.Action `json:"actions"`
}

func (s Sched) String() string {
	parts := make([]string, len(s.Actions))
	for i, a := range s.Actions {
		parts[i] = a.String()
	}
	return strings.Join(parts, " ")
}

// chain shapes: 'e' empty block, 'x' block with unique txs, 'r' block repeating the tx list of the previous 'x'/'r'
func buildSpec(shape string, tag string) world.ChainSpec {
	// one chain in three starts above height 1 (a full node of a chain whose genesis names a later initial height)
	spec := world.ChainSpec{Initial: 1}
	if t := 0; len(tag) > 0 {
		for _, ch := range tag {
			t = t*31 + int(ch)
		}
		if t%3 == 0 {
			spec.Initial = 5
		}
		// one chain in four signs its headers over a payload of its own (a chain-wide option of the node): whatever
		// a full node does with a header - also one restored from its caches - it must verify it the chain's way
		if t%4 == 1 {
			spec.CustomPayload = true
		}
	}
	var last [][]byte
	for i, c := range shape {
		switch c {
		case 'e':
			spec.Blocks = append(spec.Blocks, nil)
		case 'r':
			if last == nil {
				last = [][]byte{[]byte(tag + "-rep")}
			}
			spec.Blocks = append(spec.Blocks, last)
		default:
			n := 1 + i%3
			txs := make([][]byte, n)
			for j := range txs {
				txs[j] = []byte(fmt.Sprintf("%s-b%d-t%d", tag, i, j))
			}
			last = txs
			spec.Blocks = append(spec.Blocks, txs)
		}
	}
	return spec
}

func randShape(rng *rand.Rand, n int, repeats bool) string {
	b := make([]byte, n)
	for i := range b {
		switch p := rng.Intn(10); {
		case p < 4:
			b[i] = 'e'
		default:
			b[i] = 'x'
		}
		// runs of empties
		if i > 0 && b[i-1] == 'e' && rng.Intn(2) == 0 {
			b[i] = 'e'
		}
	}
	if repeats {
		// make at least one repeat
		for k := 0; k < 1+rng.Intn(2); k++ {
			i := 1 + rng.Intn(n-1)
			b[i] = 'r'
			if i > 0 && b[i-1] == 'e' {
				b[i-1] = 'x'
			}
		}
		if b[0] == 'r' {
			b[0] = 'x'
		}
	}
	return string(b)
}

type unit struct {
	data bool
	i    int
}

// genSched builds a mixed-ingress schedule with duplicates and restarts.
func genSched(rng *rand.Rand, p *world.Produced, id, chain int, shape string) Sched {
	n := len(p.Heights)
	var units []unit
	for i := 0; i < n; i++ {
		units = append(units, unit{false, i})
		if len(p.Txs[i]) > 0 || rng.Intn(4) == 0 {
			units = append(units, unit{true, i})
		}
	}
	mode := rng.Intn(6)
	var acts []world.Action
	var daUnits []unit
	maxP2PH, maxP2PD := -1, -1
	for _, u := range units {
		ing := 0 // channel
		switch mode {
		case 0: // everything through channels
		case 1: // everything through DA
			ing = 1
		case 2: // everything through P2P
			ing = 2
		default:
			ing = rng.Intn(3)
		}
		if rng.Intn(25) == 0 {
			continue // this part is never delivered through its primary ingress
		}
		switch ing {
		case 0:
			k := "ch-h"
			if u.data {
				k = "ch-d"
			}
			acts = append(acts, world.Action{Kind: k, I: u.i})
			if rng.Intn(6) == 0 {
				acts = append(acts, world.Action{Kind: k, I: u.i}) // duplicate
			}
		case 1:
			if u.data && len(p.Txs[u.i]) == 0 {
				continue // nothing is published on DA for an empty block
			}
			daUnits = append(daUnits, u)
			if rng.Intn(6) == 0 {
				daUnits = append(daUnits, u)
			}
		case 2:
			if u.data {
				if u.i > maxP2PD {
					maxP2PD = u.i
				}
			} else if u.i > maxP2PH {
				maxP2PH = u.i
			}
		}
	}
	// order of channel actions
	switch rng.Intn(5) {
	case 0: // reverse
		sort.SliceStable(acts, func(a, b int) bool { return acts[a].I > acts[b].I })
	case 1: // data before headers
		sort.SliceStable(acts, func(a, b int) bool { return acts[a].Kind == "ch-d" && acts[b].Kind != "ch-d" })
	case 2: // headers then data
		sort.SliceStable(acts, func(a, b int) bool { return acts[a].Kind == "ch-h" && acts[b].Kind != "ch-h" })
	default:
		rng.Shuffle(len(acts), func(a, b int) { acts[a], acts[b] = acts[b], acts[a] })
	}
	// DA groups: many per height, out of block order
	rng.Shuffle(len(daUnits), func(a, b int) { daUnits[a], daUnits[b] = daUnits[b], daUnits[a] })
	var daActs []world.Action
	for len(daUnits) > 0 {
		k := 1 + rng.Intn(4)
		if rng.Intn(5) == 0 {
			k = len(daUnits)
		}
		if k > len(daUnits) {
			k = len(daUnits)
		}
		a := world.Action{Kind: "da"}
		for _, u := range daUnits[:k] {
			a.DA = append(a.DA, world.Item{D: u.data, I: u.i})
		}
		daUnits = daUnits[k:]
		if rng.Intn(4) == 0 {
			// the node is stopped right after a scan over several fresh DA heights, while events of any of them
			// may still sit in the hand-off channels
			a.NoBarrier = true
			for extra := rng.Intn(4); extra > 0 && len(daUnits) > 0; extra-- {
				k := 1 + rng.Intn(3)
				if k > len(daUnits) {
					k = len(daUnits)
				}
				var more []world.Item
				for _, u := range daUnits[:k] {
					more = append(more, world.Item{D: u.data, I: u.i})
				}
				daUnits = daUnits[k:]
				a.More = append(a.More, more)
			}
			// adversarial shape of such a burst: data first, the headers that make it applicable in later DA heights
			if len(a.More) > 0 && rng.Intn(2) == 0 {
				var ds, hs []world.Item
				for _, it := range a.DA {
					if it.D {
						ds = append(ds, it)
					} else {
						hs = append(hs, it)
					}
				}
				for _, more := range a.More {
					for _, it := range more {
						if it.D {
							ds = append(ds, it)
						} else {
							hs = append(hs, it)
						}
					}
				}
				sort.SliceStable(hs, func(x, y int) bool { return hs[x].I < hs[y].I })
				if len(ds) > 0 && len(hs) > 0 {
					a.DA = ds
					a.More = nil
					for _, hIt := range hs {
						a.More = append(a.More, []world.Item{hIt})
					}
				}
			}
			if rng.Intn(3) > 0 {
				a.StopAtExec = 1 + rng.Intn(3)
			}
			daActs = append(daActs, a)
		} else {
			daActs = append(daActs, a)
		}
		if rng.Intn(6) == 0 {
			daActs = append(daActs, world.Action{Kind: "da"}) // an empty DA height
		}
	}
	// P2P actions in increasing order
	var p2pActs []world.Action
	for k := 0; k <= maxP2PH; {
		k += rng.Intn(3)
		if k > maxP2PH {
			k = maxP2PH
		}
		p2pActs = append(p2pActs, world.Action{Kind: "p2p-h", I: k})
		k++
	}
	var p2pDActs []world.Action
	for k := 0; k <= maxP2PD; {
		k += rng.Intn(3)
		if k > maxP2PD {
			k = maxP2PD
		}
		p2pDActs = append(p2pDActs, world.Action{Kind: "p2p-d", I: k})
		k++
	}
	// merge the four streams, keeping each stream's internal order
	streams := [][]world.Action{acts, daActs, p2pActs, p2pDActs}
	var out []world.Action
	for {
		var avail []int
		for i, s := range streams {
			if len(s) > 0 {
				avail = append(avail, i)
			}
		}
		if len(avail) == 0 {
			break
		}
		i := avail[rng.Intn(len(avail))]
		out = append(out, streams[i][0])
		streams[i] = streams[i][1:]
		if rng.Intn(12) == 0 {
			out = append(out, world.Action{Kind: "restart"})
		}
	}
	return Sched{ID: id, Chain: chain, Shape: shape, Actions: out}
}

func permutations(n int, f func([]int)) {
	p := make([]int, n)
	for i := range p {
		p[i] = i
	}
	var rec func(k int)
	rec = func(k int) {
		if k == n {
			f(p)
			return
		}
		for i := k; i < n; i++ {
			p[k], p[i] = p[i], p[k]
			rec(k + 1)
			p[k], p[i] = p[i], p[k]
		}
	}
	rec(0)
}

// nonTrivial: at least one event out of height order or duplicated.
func nonTrivial(s Sched) bool {
	lastH, lastD := -1, -1
	seen := map[string]bool{}
	for _, a := range s.Actions {
		k := a.String()
		switch a.Kind {
		case "ch-h":
			if a.I < lastH || seen[k] {
				return true
			}
			lastH = a.I
		case "ch-d":
			if a.I < lastD || seen[k] || a.I > lastH {
				return true
			}
			lastD = a.I
		case "da":
			if len(a.DA) > 1 {
				return true
			}
			for _, it := range a.DA {
				if it.D && it.I > lastH {
					return true
				}
				if !it.D {
					if it.I < lastH {
						return true
					}
					lastH = it.I
				}
			}
		case "restart":
			return true
		}
		if a.NoBarrier {
			return true
		}
		seen[k] = true
	}
	return false
}

func hasRepeat(p *world.Produced) (bool, map[uint64]bool) {
	seen := map[string]uint64{}
	stall := map[uint64]bool{}
	rep := false
	for i, txs := range p.Txs {
		if len(txs) == 0 {
			continue
		}
		k := string(monitors.Commitment(txs))
		if first, ok := seen[k]; ok {
			rep = true
			stall[first-1] = true
			stall[p.Heights[i]-1] = true
		} else {
			seen[k] = p.Heights[i]
		}
	}
	return rep, stall
}

// RunSched executes one schedule and judges it with W2.
func RunSched(r *vk.Run, p *world.Produced, s Sched, withCacheDir bool) {
	ctx := context.Background()
	root := ""
	for _, a := range s.Actions {
		if a.Kind == "restart" || a.NoBarrier {
			withCacheDir = true // a clean stop saves the caches; it needs a directory to save them to
		}
	}
	if withCacheDir {
		root = world.TempDir(vk.Root(), "C02-*")
		defer os.RemoveAll(root)
	}
	f, err := world.NewFN(ctx, p, root)
	if err != nil {
		r.Violation("startup", "full node failed to start: "+err.Error(), s)
		return
	}
	defer f.L.Stop()
	wit := func() any { return map[string]any{"schedule": s.String(), "chain_shape": s.Shape, "sched": s} }
	rep, stallAt := hasRepeat(p)
	var prev uint64
	var viol []string
	onlyConverged := true
	for ai, a := range s.Actions {
		if err := f.Do(a); err != nil {
			if err == world.ErrWatchdog {
				r.Inconclusive(fmt.Sprintf("watchdog at action %d of schedule %d", ai, s.ID))
				return
			}
			viol = append(viol, fmt.Sprintf("action %d (%s): %v", ai, a, err))
			onlyConverged = false
			break
		}
		r.Count("events_delivered", 1)
		if a.NoBarrier {
			r.Count("stops_with_events_in_flight", 1)
		}
		h, probs := monitors.CheckFullNode(ctx, f, prev, false, r.Hit)
		prev = h
		for _, pr := range probs {
			viol = append(viol, fmt.Sprintf("after action %d (%s): %s", ai, a, pr))
			onlyConverged = false
		}
		if len(viol) > 0 {
			break
		}
	}
	if len(viol) == 0 && f.Restarts > 0 {
		// whatever a stop dropped from the hand-off channels is still on the DA layer: one more complete scan
		if err := f.Do(world.Action{Kind: "scan"}); err != nil && err != world.ErrWatchdog {
			viol = append(viol, "final scan: "+err.Error())
			onlyConverged = false
		}
		// ... and whatever it dropped between the P2P stores and the sync loop is still in the P2P stores: one more tick
		// of the store loops (a node's own timers tick them every block time; here the timers are set to an hour)
		if len(viol) == 0 {
			if err := f.Do(world.Action{Kind: "p2p-tick"}); err != nil && err != world.ErrWatchdog {
				viol = append(viol, "final tick of the P2P store loops: "+err.Error())
				onlyConverged = false
			}
		}
	}
	if len(viol) == 0 {
		if err := f.Settle(); err != nil {
			if err == world.ErrWatchdog {
				r.Inconclusive("watchdog at settle")
				return
			}
			viol = append(viol, "settle: "+err.Error())
			onlyConverged = false
		} else {
			h, probs := monitors.CheckFullNode(ctx, f, prev, true, r.Hit)
			for _, pr := range probs {
				viol = append(viol, "at quiescence: "+pr.String())
				if pr.Clause != "converged" {
					onlyConverged = false
				}
			}
			_ = f.Stop()
			for _, pr := range monitors.CheckHeightWritesAcross(f.Logs, r.Hit) {
				viol = append(viol, pr.String())
				onlyConverged = false
			}
			if len(viol) > 0 && rep && onlyConverged && stallAt[h] {
				r.Finding("C02-repeated-txlist", "converged", fmt.Sprintf("chain %q repeats a non-empty tx list; node stalled at %d: %s", s.Shape, h, strings.Join(viol, " ;; ")), wit())
				viol = nil
			}
		}
	}
	if len(viol) > 0 {
		r.Violation(clauseOf(viol[0]), strings.Join(viol, " ;; "), wit())
	}
	r.Count("restarts", int64(f.Restarts))
	r.Eval(fmt.Sprintf("%s|%s", s.Shape, s.String()), nonTrivial(s), map[string]any{"chain_shape": s.Shape, "schedule": s.String()})
}

func clauseOf(s string) string {
	for _, c := range []string{"converged", "same-header", "same-txs", "same-root", "exec-order", "exec-txs", "height-monotone", "no-early-apply", "height-writes", "block-present", "state-height"} {
		if strings.Contains(s, c) {
			return c
		}
	}
	return "convergence"
}

type job struct {
	p     *world.Produced
	s     Sched
	cache bool
}

// Run is the check entry point.
func Run(r *vk.Run) {
	world.Silence()
	r.Rule = "chains produced by the real aggregator (shapes over e=empty, x=unique txs; 5-12 | 10-40 blocks) delivered to a real full node Manager with all its loops; (1) all permutations of the header/data events of 3-block (quick) and 4-block (thorough) chains through the event channels, (2) seeded mixed-ingress schedules: each part through channel injection, DA blobs (several per DA height, out of block order, empty DA heights) scanned by the real RetrieveLoop, or P2P store doubles read by the real store loops, with duplicates, omitted parts and clean restarts (SaveCache + new Manager); non-trivial = an event out of height order, duplicated, grouped on DA or a restart; distinct by (chain shape, action list). (4) backlog scenarios on a chain of (hand-off channel capacity + 51) empty blocks: all headers found on DA while the consumer is busy inside an execution call (DA block time 1 h, and DA block time 3 ms with the consumer busy for 300 ms more after the channel filled up), and all headers in the P2P header store before the store loop first looks at it. Separate trigger region: chains that repeat a non-empty tx list (finding C02-repeated-txlist)"
	r.Assume("MemDS datastore double; execution double; delivery through the node's own channels/loops, not through libp2p gossip")
	ctx := context.Background()
	keys := world.NewKeys("proposer")
	rng := r.Rand("chains")
	// the long chain of the backlog scenarios is produced beside everything else
	type longChain struct {
		p   *world.Produced
		err error
	}
	longCh := make(chan longChain, 1)
	go func() {
		p, err := backlogChain(ctx)
		longCh <- longChain{p, err}
	}()
	var jobs []job
	id := 0
	// (1) exhaustive permutations on small chains
	small := []string{"xx", "xex", "exx"}
	if !r.Quick() {
		small = []string{"xxx", "xex", "xee", "exe", "eex", "xxe"}
	}
	for ci, shape := range small {
		p, err := world.ProduceChain(ctx, buildSpec(shape, fmt.Sprintf("s%d", ci)), keys)
		if err != nil {
			r.Inconclusive("the aggregator producing the reference chain failed (not this property's business): " + "could not produce chain " + shape + ": " + err.Error())
			return
		}
		var evs []world.Action
		for i := range p.Heights {
			evs = append(evs, world.Action{Kind: "ch-h", I: i})
			if len(p.Txs[i]) > 0 {
				evs = append(evs, world.Action{Kind: "ch-d", I: i})
			}
		}
		permutations(len(evs), func(perm []int) {
			s := Sched{ID: id, Chain: ci, Shape: shape + "(perm)"}
			for _, k := range perm {
				s.Actions = append(s.Actions, evs[k])
			}
			id++
			jobs = append(jobs, job{p, s, false})
		})
	}
	r.Set("exhaustive_permutation_schedules", len(jobs))
	// (2) seeded mixed-ingress schedules
	nChains := r.N(40, 400)
	per := r.N(60, 250)
	for c := 0; c < nChains; c++ {
		n := 5 + rng.Intn(8)
		if !r.Quick() {
			n = 10 + rng.Intn(31)
		}
		shape := randShape(rng, n, false)
		p, err := world.ProduceChain(ctx, buildSpec(shape, fmt.Sprintf("c%d", c)), keys)
		if err != nil {
			r.Inconclusive("the aggregator producing the reference chain failed (not this property's business): " + "could not produce chain " + shape + ": " + err.Error())
			return
		}
		for k := 0; k < per; k++ {
			jobs = append(jobs, job{p, genSched(rng, p, id, c, shape), rng.Intn(2) == 0})
			id++
		}
	}
	// (2b) crafted in-flight stops: blocks 0..j-1 are applied; then one scan finds, in four fresh DA heights,
	// block j | the data of block j+2 | block j+1 | the header of block j+2, while the consumer is slow; the node
	// is stopped cleanly right after the second of these applications made its state durable, restarted, and must
	// still reach everything that is on the DA layer. Which events are still queued at the stop is up to the
	// real select of the sync loop.
	for c := 0; c < r.N(12, 60); c++ {
		n := 6 + rng.Intn(5)
		shape := randShape(rng, n, false)
		if c%2 == 0 {
			shape = strings.Repeat("ex", n/2) // alternating: every second position is the interesting one
		}
		p, err := world.ProduceChain(ctx, buildSpec(shape, fmt.Sprintf("f%d", c)), keys)
		if err != nil {
			r.Inconclusive("the aggregator producing the reference chain failed (not this property's business): " + "could not produce chain " + shape + ": " + err.Error())
			return
		}
		for j := 0; j+2 < len(p.Heights); j++ {
			// the interesting position: block j+1 is empty (its header alone makes it applicable, through the header
			// channel) and block j+2 has data (which then sits in the other channel, found at a lower DA height)
			reps := r.N(1, 3)
			if len(p.Txs[j+1]) == 0 && len(p.Txs[j+2]) > 0 {
				reps = r.N(6, 20)
			}
			for rep := 0; rep < reps; rep++ {
				sc := Sched{ID: id, Chain: 2000 + c, Shape: shape + "(in-flight stop)"}
				id++
				for i := 0; i < j; i++ {
					sc.Actions = append(sc.Actions, world.Action{Kind: "ch-h", I: i})
					if len(p.Txs[i]) > 0 {
						sc.Actions = append(sc.Actions, world.Action{Kind: "ch-d", I: i})
					}
				}
				blockItems := func(i int) []world.Item {
					it := []world.Item{{I: i}}
					if len(p.Txs[i]) > 0 {
						it = append(it, world.Item{D: true, I: i})
					}
					return it
				}
				burst := world.Action{Kind: "da", NoBarrier: true, StopAtExec: 1 + rng.Intn(2), DA: blockItems(j)}
				if len(p.Txs[j+2]) > 0 {
					burst.More = append(burst.More, []world.Item{{D: true, I: j + 2}})
				}
				burst.More = append(burst.More, blockItems(j+1), []world.Item{{I: j + 2}})
				if rep%2 == 1 && len(p.Txs[j+2]) > 0 {
					// the same, but the data found early sits in the very first DA height of the scan
					burst.DA = []world.Item{{D: true, I: j + 2}}
					burst.More = [][]world.Item{blockItems(j), blockItems(j + 1), {{I: j + 2}}}
					burst.StopAtExec = 2
				}
				burst.Gate = rep%3 != 2 // two in three: the consumer lags the scan completely (independent of machine speed)
				sc.Actions = append(sc.Actions, burst)
				for i := j + 3; i < len(p.Heights); i++ {
					sc.Actions = append(sc.Actions, world.Action{Kind: "da", DA: blockItems(i)})
				}
				jobs = append(jobs, job{p, sc, true})
			}
		}
	}
	// (2d) items reach the P2P stores while the node is not looking and the node is stopped (cleanly, or it crashes)
	// before its store loops tick: after the restart the P2P stores are ahead of everything the node has consumed, and a
	// tick must still bring in every height
	for c := 0; c < r.N(6, 30); c++ {
		n := 6 + rng.Intn(8)
		shape := randShape(rng, n, false)
		p, err := world.ProduceChain(ctx, buildSpec(shape, fmt.Sprintf("q%d", c)), keys)
		if err != nil {
			r.Inconclusive("the aggregator producing the reference chain failed (not this property's business): " + err.Error())
			return
		}
		last := len(p.Heights) - 1
		for rep := 0; rep < r.N(4, 10); rep++ {
			j := rng.Intn(last)         // blocks 0..j-1 are applied normally first
			m := j + rng.Intn(last-j+1) // then items up to m arrive unseen
			sc := Sched{ID: id, Chain: 4000 + c, Shape: shape + "(p2p arrival, restart, tick)"}
			id++
			for i := 0; i < j; i++ {
				sc.Actions = append(sc.Actions, world.Action{Kind: "ch-h", I: i})
				if len(p.Txs[i]) > 0 {
					sc.Actions = append(sc.Actions, world.Action{Kind: "ch-d", I: i})
				}
			}
			switch rep % 3 {
			case 0:
				sc.Actions = append(sc.Actions, world.Action{Kind: "p2p-h+", I: m}, world.Action{Kind: "p2p-d+", I: m})
			case 1:
				sc.Actions = append(sc.Actions, world.Action{Kind: "p2p-h+", I: m}, world.Action{Kind: "p2p-d", I: m})
			default:
				sc.Actions = append(sc.Actions, world.Action{Kind: "p2p-h", I: m}, world.Action{Kind: "p2p-d+", I: m})
			}
			sc.Actions = append(sc.Actions, world.Action{Kind: []string{"restart", "crash-restart"}[rng.Intn(2)]}, world.Action{Kind: "p2p-tick"})
			if m < last {
				sc.Actions = append(sc.Actions, world.Action{Kind: "p2p-h+", I: last}, world.Action{Kind: "p2p-d+", I: last}, world.Action{Kind: "p2p-tick"})
			}
			jobs = append(jobs, job{p, sc, rng.Intn(2) == 0})
		}
	}
	// (2c) bursty P2P delivery: the P2P stores jump by far more than a handful of heights between two ticks of the
	// store loops (a node that was offline, or a peer that delivers in bulk)
	for c := 0; c < r.N(2, 8); c++ {
		n := 140 + rng.Intn(160) // well beyond any batch size a store loop might read per wake-up
		shape := randShape(rng, n, false)
		p, err := world.ProduceChain(ctx, buildSpec(shape, fmt.Sprintf("b%d", c)), keys)
		if err != nil {
			r.Inconclusive("the aggregator producing the reference chain failed (not this property's business): " + "could not produce chain: " + err.Error())
			return
		}
		last := len(p.Heights) - 1
		cut := rng.Intn(last)
		variants := [][]world.Action{
			{{Kind: "p2p-h", I: last}, {Kind: "p2p-d", I: last}},
			{{Kind: "p2p-d", I: last}, {Kind: "p2p-h", I: last}},
			{{Kind: "p2p-h", I: cut}, {Kind: "p2p-d", I: last}, {Kind: "p2p-h", I: last}},
		}
		for _, acts := range variants {
			jobs = append(jobs, job{p, Sched{ID: id, Chain: 3000 + c, Shape: fmt.Sprintf("%d blocks (p2p burst)", n), Actions: acts}, false})
			id++
		}
	}
	// (3) trigger region: repeated tx lists
	nRep := r.N(10, 80)
	for c := 0; c < nRep; c++ {
		shape := randShape(rng, 5+rng.Intn(6), true)
		p, err := world.ProduceChain(ctx, buildSpec(shape, fmt.Sprintf("r%d", c)), keys)
		if err != nil {
			r.Inconclusive("the aggregator producing the reference chain failed (not this property's business): " + "could not produce chain " + shape + ": " + err.Error())
			return
		}
		for k := 0; k < 5; k++ {
			jobs = append(jobs, job{p, genSched(rng, p, id, 1000+c, shape), false})
			id++
		}
	}
	r.Require("converged", int64(len(jobs)/2))
	var wg sync.WaitGroup
	ch := make(chan job)
	for w := 0; w < 14; w++ {
		wg.Add(1)
		go func() {
			defer wg.Done()
			for j := range ch {
				r.Guard(j.s, func() { RunSched(r, j.p, j.s, j.cache) })
			}
		}()
	}
	for _, j := range jobs {
		ch <- j
	}
	close(ch)
	wg.Wait()
	backlogs(r, func() (*world.Produced, error) { lc := <-longCh; return lc.p, lc.err })
	r.Require("backlog-nothing-dropped", 2)
	r.Require("p2p-backlog-nothing-dropped", 1)
}
