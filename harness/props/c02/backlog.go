package c02

import (
	"context"
	"fmt"
	"time"

	"verifharness/monitors"
	"verifharness/vk"
	"verifharness/world"
)

// backlog: more header events arrive from DA than the hand-off channel holds while the consumer is busy
// (it is inside an execution call). Nothing may be lost: once the consumer continues the node must reach
// the tip of what is on the DA layer.
func backlog(r *vk.Run) {
	ctx := context.Background()
	n := world.EventChannelCapacity() + 50
	spec := world.ChainSpec{Initial: 1}
	for i := 0; i < n; i++ {
		spec.Blocks = append(spec.Blocks, nil)
	}
	p, err := world.ProduceChain(ctx, spec, world.NewKeys("proposer"))
	if err != nil {
		r.Inconclusive("the aggregator producing the reference chain failed (not this property's business): " + "backlog chain: " + err.Error())
		return
	}
	f, err := world.NewFNPrepared(ctx, p, "", func(f *world.FN) {
		release := make(chan struct{})
		f.Exec.Delay = func(kind string) {
			if kind == "exec" {
				<-release
			}
		}
		f.Release = func() { close(release) }
	})
	if err != nil {
		r.Violation("startup", err.Error(), nil)
		return
	}
	defer f.L.Stop()
	wit := map[string]any{"scenario": "backlog", "headers_on_da": len(p.Heights)}
	// all headers over six DA heights
	per := (len(p.Heights) + 5) / 6
	for h := 0; h < 6; h++ {
		lo, hi := h*per, (h+1)*per
		if hi > len(p.Heights) {
			hi = len(p.Heights)
		}
		if lo >= hi {
			break
		}
		f.DA.Place(uint64(h+1), p.HeaderBlob[lo:hi]...)
	}
	f.DA.SetHeight(6)
	for i := range f.GotH {
		f.GotH[i] = true
	}
	f.N.M.VerifSignal("retrieve")
	// the consumer is stalled inside its first execution: wait until the channel is full (or the scan is done)
	full := false
	deadline := time.Now().Add(90 * time.Second)
	for time.Now().Before(deadline) {
		if len(f.N.M.VerifHeaderInCh()) >= world.EventChannelCapacity() {
			full = true
			break
		}
		if f.DA.FutureAnswers(7) > 0 {
			break
		}
		f.N.M.VerifSignal("retrieve")
		time.Sleep(time.Millisecond)
	}
	r.Count("backlog_channel_was_full", map[bool]int64{true: 1, false: 0}[full])
	f.Release()
	if err := f.L.RetrieveUntilIdle(f.DA, 7); err != nil {
		r.Inconclusive("backlog: scan did not finish within the watchdog")
		return
	}
	if err := f.L.SyncBarrier(); err != nil {
		if err == world.ErrWatchdog {
			r.Inconclusive("backlog: sync barrier watchdog")
			return
		}
		r.Violation("backlog", "sync loop: "+err.Error(), wit)
		return
	}
	_, probs := monitors.CheckFullNode(ctx, f, 0, true, r.Hit)
	r.Hit("backlog-nothing-dropped")
	if len(probs) > 0 {
		r.Violation("converged", fmt.Sprintf("%d headers arrived from DA while the consumer was busy (hand-off channel capacity %d): %s", len(p.Heights), world.EventChannelCapacity(), probs[0]), wit)
	}
	r.Eval("backlog", true, wit)
}
