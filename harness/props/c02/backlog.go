package c02

import (
	"context"
	"fmt"
	"sync"
	"time"

	"verifharness/monitors"
	"verifharness/vk"
	"verifharness/world"
)

// backlogChain produces the long chain of the backlog scenarios: more blocks than the hand-off channels hold.
func backlogChain(ctx context.Context) (*world.Produced, error) {
	n := world.EventChannelCapacity() + 50
	spec := world.ChainSpec{Initial: 1}
	for i := 0; i < n; i++ {
		spec.Blocks = append(spec.Blocks, nil)
	}
	return world.ProduceChain(ctx, spec, world.NewKeys("proposer"))
}

// backlogs runs the scenarios in which one ingress brings in more events than the hand-off channel to the sync
// loop holds. They share one chain and run side by side.
//
//	backlog                 all headers are found on the DA layer while the consumer is busy (inside an execution call)
//	backlog-short-da-block  the same, the node's DA block time is a few milliseconds and the consumer stays busy for
//	                        many DA block times after the channel filled up
//	backlog-p2p             the P2P header store holds all headers before the store loop looks at it for the first time
//	                        (a node started far behind its P2P stores): one tick of the store loop sees them all
//
// Nothing may be lost: the node must reach the tip of what it was given.
func backlogs(r *vk.Run, chain func() (*world.Produced, error)) {
	p, err := chain()
	if err != nil {
		r.Inconclusive("the aggregator producing the reference chain failed (not this property's business): " + "backlog chain: " + err.Error())
		return
	}
	var wg sync.WaitGroup
	for _, f := range []func(){
		func() { backlogDA(r, p, "backlog", 0, 0) },
		func() { backlogDA(r, p, "backlog-short-da-block", 3*time.Millisecond, 300*time.Millisecond) },
		func() { backlogP2P(r, p) },
	} {
		wg.Add(1)
		f := f
		go func() {
			defer wg.Done()
			f()
		}()
	}
	wg.Wait()
}

// backlogDA: more header events arrive from DA than the hand-off channel holds while the consumer is busy
// (it is inside an execution call). Once the consumer continues the node must reach the tip of what is on the DA
// layer. daBlockTime > 0: the node's configured DA block time; hold: how long the consumer stays busy after the
// channel filled up (a lower bound: load only makes it longer).
func backlogDA(r *vk.Run, p *world.Produced, name string, daBlockTime, hold time.Duration) {
	ctx := context.Background()
	f, err := world.NewFNPrepared(ctx, p, "", func(f *world.FN) {
		release := make(chan struct{})
		f.Exec.Delay = func(kind string) {
			if kind == "exec" {
				<-release
			}
		}
		f.Release = func() { close(release) }
		f.DABlockTime = daBlockTime
	})
	if err != nil {
		r.Violation("startup", err.Error(), nil)
		return
	}
	defer f.L.Stop()
	wit := map[string]any{"scenario": name, "headers_on_da": len(p.Heights), "da_block_time": daBlockTime.String(), "consumer_busy_after_channel_full": hold.String()}
	// all headers over six DA heights
	per := (len(p.Heights) + 5) / 6
	for h := 0; h < 6; h++ {
		lo, hi := h*per, (h+1)*per
		if hi > len(p.Heights) {
			hi = len(p.Heights)
		}
		if lo >= hi {
			break
		}
		f.DA.Place(uint64(h+1), p.HeaderBlob[lo:hi]...)
	}
	f.DA.SetHeight(6)
	for i := range f.GotH {
		f.GotH[i] = true
	}
	f.N.M.VerifSignal("retrieve")
	// the consumer is stalled inside its first execution: wait until the channel is full (or the scan is done)
	full := false
	deadline := time.Now().Add(90 * time.Second)
	for time.Now().Before(deadline) {
		if len(f.N.M.VerifHeaderInCh()) >= world.EventChannelCapacity() {
			full = true
			break
		}
		if f.DA.FutureAnswers(7) > 0 {
			break
		}
		f.N.M.VerifSignal("retrieve")
		time.Sleep(time.Millisecond)
	}
	r.Count(name+"_channel_was_full", map[bool]int64{true: 1, false: 0}[full])
	if full && hold > 0 {
		// the consumer stays busy; the scan may go on meanwhile (it is ticked as before)
		for t0 := time.Now(); time.Since(t0) < hold; {
			f.N.M.VerifSignal("retrieve")
			time.Sleep(time.Millisecond)
		}
	}
	f.Release()
	if err := f.L.RetrieveUntilIdle(f.DA, 7); err != nil {
		r.Inconclusive(name + ": scan did not finish within the watchdog")
		return
	}
	if err := f.L.SyncBarrier(); err != nil {
		if err == world.ErrWatchdog {
			r.Inconclusive(name + ": sync barrier watchdog")
			return
		}
		r.Violation("backlog", "sync loop: "+err.Error(), wit)
		return
	}
	_, probs := monitors.CheckFullNode(ctx, f, 0, true, r.Hit)
	r.Hit("backlog-nothing-dropped")
	if len(probs) > 0 {
		r.Violation("converged", fmt.Sprintf("%s: %d headers arrived from DA while the consumer was busy (hand-off channel capacity %d): %s", name, len(p.Heights), world.EventChannelCapacity(), probs[0]), wit)
	}
	r.Eval(name, true, wit)
}

// backlogP2P: the node's P2P header store is ahead of the node by more headers than the hand-off channel holds when
// the store loop looks at it (all blocks are empty: a header is all a block needs). Whatever the store loop
// hands over per tick, after a few ticks the node must stand at the head of its P2P store.
func backlogP2P(r *vk.Run, p *world.Produced) {
	ctx := context.Background()
	f, err := world.NewFN(ctx, p, "")
	if err != nil {
		r.Violation("startup", err.Error(), nil)
		return
	}
	defer f.L.Stop()
	last := len(p.Heights) - 1
	wit := map[string]any{"scenario": "backlog-p2p", "headers_in_p2p_store": len(p.Heights)}
	inconc := func(what string, err error) bool {
		if err == nil {
			return false
		}
		if err == world.ErrWatchdog {
			r.Inconclusive("backlog-p2p: " + what + ": watchdog")
		} else {
			r.Violation("backlog", "backlog-p2p: "+what+": "+err.Error(), wit)
		}
		return true
	}
	// everything reaches the store unseen, then the store loops tick (three times: an implementation may hand a
	// long backlog over in portions)
	if inconc("fill the P2P header store", f.Do(world.Action{Kind: "p2p-h+", I: last})) {
		return
	}
	for k := 0; k < 3; k++ {
		if inconc("store loop tick", f.Do(world.Action{Kind: "p2p-tick"})) {
			return
		}
	}
	_, probs := monitors.CheckFullNode(ctx, f, 0, true, r.Hit)
	r.Hit("p2p-backlog-nothing-dropped")
	if len(probs) > 0 {
		r.Violation("converged", fmt.Sprintf("backlog-p2p: the P2P header store held %d headers when the store loop first looked at it (hand-off channel capacity %d): %s", len(p.Heights), world.EventChannelCapacity(), probs[0]), wit)
	}
	r.Eval("backlog-p2p", true, wit)
}
